//! placeholder, filled in below
use crate::*;
pub fn main(_o: &Opts) {}
