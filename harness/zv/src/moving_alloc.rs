//! Allocator of the harness binary. Normally the system allocator. While `MOVING` is set (scenario
//! `alias`, C11): `realloc` always moves the block, and blocks of buffer size are never given back, so
//! that a reference into a reallocated receive buffer (a) is observably at a different address and
//! (b) still points at mapped, unchanged memory - the scenario can then report "moved" without ever
//! reading memory that has been recycled.
use std::alloc::{GlobalAlloc, Layout, System};
use std::sync::atomic::{AtomicBool, Ordering};

pub static MOVING: AtomicBool = AtomicBool::new(false);

pub struct MovingAlloc;

fn buffer_sized(l: &Layout) -> bool {
    l.size() >= 200 && l.size() <= 1 << 20
}

unsafe impl GlobalAlloc for MovingAlloc {
    unsafe fn alloc(&self, l: Layout) -> *mut u8 {
        System.alloc(l)
    }
    unsafe fn dealloc(&self, p: *mut u8, l: Layout) {
        if MOVING.load(Ordering::Relaxed) && buffer_sized(&l) {
            return; // leaked on purpose (see above)
        }
        System.dealloc(p, l)
    }
    unsafe fn realloc(&self, p: *mut u8, l: Layout, new_size: usize) -> *mut u8 {
        if MOVING.load(Ordering::Relaxed) && buffer_sized(&l) {
            let nl = Layout::from_size_align_unchecked(new_size, l.align());
            let q = System.alloc(nl);
            if !q.is_null() {
                std::ptr::copy_nonoverlapping(p, q, l.size().min(new_size));
            }
            return q; // the old block is leaked on purpose
        }
        System.realloc(p, l, new_size)
    }
}
