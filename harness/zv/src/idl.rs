//! Scenarios `idl` (C13: the parser) and `idlrt` (C14: render ∘ parse).
//!
//! Trees travel in a compact text form (names and comments in hex):
//!   ty    := b | i | f | s | o | ?ty | Aty | Mty | C<hex>; | E(<hex>,..) | S(field,..)
//!   field := F<hex>:ty{<hex>,..}
//!   ct    := T<hex>{cs}(field,..) | N<hex>{cs}(V<hex>{cs},..)
//!   meth  := M<hex>{cs}(field,..)(field,..)      err := R<hex>{cs}(field,..)
//!   iface := I<hex>{cs}[ct,..][meth,..][err,..]

use crate::common::*;
use zlink_core::idl as z;

#[derive(Clone, Debug, PartialEq)]
pub enum Ty {
    Bool,
    Int,
    Float,
    Str,
    Object,
    Opt(Box<Ty>),
    Arr(Box<Ty>),
    Map(Box<Ty>),
    Custom(String),
    Enum(Vec<(String, Vec<String>)>),
    Struct(Vec<Field>),
}
#[derive(Clone, Debug, PartialEq)]
pub struct Field {
    pub name: String,
    pub ty: Ty,
    pub cs: Vec<String>,
}
#[derive(Clone, Debug, PartialEq)]
pub enum CT {
    Obj { name: String, fields: Vec<Field>, cs: Vec<String> },
    Enum { name: String, vs: Vec<(String, Vec<String>)>, cs: Vec<String> },
}
#[derive(Clone, Debug, PartialEq)]
pub struct Method {
    pub name: String,
    pub ins: Vec<Field>,
    pub outs: Vec<Field>,
    pub cs: Vec<String>,
}
#[derive(Clone, Debug, PartialEq)]
pub struct ErrDef {
    pub name: String,
    pub fields: Vec<Field>,
    pub cs: Vec<String>,
}
#[derive(Clone, Debug, PartialEq)]
pub struct Iface {
    pub name: String,
    pub cs: Vec<String>,
    pub types: Vec<CT>,
    pub methods: Vec<Method>,
    pub errors: Vec<ErrDef>,
}

fn h(s: &str) -> String {
    hex(s.as_bytes())
}
fn dcs(cs: &[String]) -> String {
    format!("{{{}}}", cs.iter().map(|c| h(c)).collect::<Vec<_>>().join(","))
}
pub fn dty(t: &Ty) -> String {
    match t {
        Ty::Bool => "b".into(),
        Ty::Int => "i".into(),
        Ty::Float => "f".into(),
        Ty::Str => "s".into(),
        Ty::Object => "o".into(),
        Ty::Opt(t) => format!("?{}", dty(t)),
        Ty::Arr(t) => format!("A{}", dty(t)),
        Ty::Map(t) => format!("M{}", dty(t)),
        Ty::Custom(n) => format!("C{};", h(n)),
        Ty::Enum(vs) => format!("E({})", vs.iter().map(|(v, cs)| if cs.is_empty() { h(v) } else { format!("{}{}", h(v), dcs(cs)) }).collect::<Vec<_>>().join(",")),
        Ty::Struct(fs) => format!("S({})", dfields(fs)),
    }
}
fn dfield(f: &Field) -> String {
    format!("F{}:{}{}", h(&f.name), dty(&f.ty), dcs(&f.cs))
}
fn dfields(fs: &[Field]) -> String {
    fs.iter().map(dfield).collect::<Vec<_>>().join(",")
}
pub fn dump(i: &Iface) -> String {
    let ts: Vec<String> = i
        .types
        .iter()
        .map(|t| match t {
            CT::Obj { name, fields, cs } => format!("T{}{}({})", h(name), dcs(cs), dfields(fields)),
            CT::Enum { name, vs, cs } => format!("N{}{}({})", h(name), dcs(cs), vs.iter().map(|(v, c)| format!("V{}{}", h(v), dcs(c))).collect::<Vec<_>>().join(",")),
        })
        .collect();
    let ms: Vec<String> = i.methods.iter().map(|m| format!("M{}{}({})({})", h(&m.name), dcs(&m.cs), dfields(&m.ins), dfields(&m.outs))).collect();
    let es: Vec<String> = i.errors.iter().map(|e| format!("R{}{}({})", h(&e.name), dcs(&e.cs), dfields(&e.fields))).collect();
    format!("I{}{}[{}][{}][{}]", h(&i.name), dcs(&i.cs), ts.join(","), ms.join(","), es.join(","))
}

// ------------------------------------------------------------------ zlink <-> tree

fn cs_of<'a>(it: impl Iterator<Item = &'a z::Comment<'a>>) -> Vec<String> {
    it.map(|c| c.content().to_string()).collect()
}
pub fn ty_of(t: &z::Type<'_>) -> Ty {
    match t {
        z::Type::Bool => Ty::Bool,
        z::Type::Int => Ty::Int,
        z::Type::Float => Ty::Float,
        z::Type::String => Ty::Str,
        z::Type::ForeignObject => Ty::Object,
        z::Type::Optional(r) => Ty::Opt(Box::new(ty_of(r.inner()))),
        z::Type::Array(r) => Ty::Arr(Box::new(ty_of(r.inner()))),
        z::Type::Map(r) => Ty::Map(Box::new(ty_of(r.inner()))),
        z::Type::Custom(n) => Ty::Custom(n.to_string()),
        z::Type::Enum(vs) => Ty::Enum(vs.iter().map(|v| (v.name().to_string(), cs_of(v.comments()))).collect()),
        z::Type::Object(fs) => Ty::Struct(fs.iter().map(field_of).collect()),
    }
}
fn field_of(f: &z::Field<'_>) -> Field {
    Field { name: f.name().to_string(), ty: ty_of(f.ty()), cs: cs_of(f.comments()) }
}
pub fn tree_of(i: &z::Interface<'_>) -> Iface {
    Iface {
        name: i.name().to_string(),
        cs: cs_of(i.comments()),
        types: i
            .custom_types()
            .map(|t| match t {
                z::CustomType::Object(o) => CT::Obj { name: o.name().to_string(), fields: o.fields().map(field_of).collect(), cs: cs_of(o.comments()) },
                z::CustomType::Enum(e) => CT::Enum { name: e.name().to_string(), vs: e.variants().map(|v| (v.name().to_string(), cs_of(v.comments()))).collect(), cs: cs_of(e.comments()) },
            })
            .collect(),
        methods: i.methods().map(|m| Method { name: m.name().to_string(), ins: m.inputs().map(field_of).collect(), outs: m.outputs().map(field_of).collect(), cs: cs_of(m.comments()) }).collect(),
        errors: i.errors().map(|e| ErrDef { name: e.name().to_string(), fields: e.fields().map(field_of).collect(), cs: cs_of(e.comments()) }).collect(),
    }
}

fn leak<T>(v: T) -> &'static T {
    Box::leak(Box::new(v))
}
fn leak_slice<T>(v: Vec<&'static T>) -> &'static [&'static T] {
    Box::leak(v.into_boxed_slice())
}
fn lstr(s: &str) -> &'static str {
    Box::leak(s.to_string().into_boxed_str())
}
fn comments_owned(cs: &[String]) -> Vec<z::Comment<'static>> {
    cs.iter().map(|c| z::Comment::new(lstr(c))).collect()
}
fn comments_borrowed(cs: &[String]) -> &'static [&'static z::Comment<'static>] {
    leak_slice(cs.iter().map(|c| leak(z::Comment::new(lstr(c)))).collect())
}

/// builds the zlink value through the owned (`new_owned`) or the borrowed (`new`) constructors
pub fn build_ty(t: &Ty, owned: bool) -> z::Type<'static> {
    match t {
        Ty::Bool => z::Type::Bool,
        Ty::Int => z::Type::Int,
        Ty::Float => z::Type::Float,
        Ty::Str => z::Type::String,
        Ty::Object => z::Type::ForeignObject,
        Ty::Opt(i) => z::Type::Optional(if owned { z::TypeRef::new_owned(build_ty(i, owned)) } else { z::TypeRef::new(leak(build_ty(i, owned))) }),
        Ty::Arr(i) => z::Type::Array(if owned { z::TypeRef::new_owned(build_ty(i, owned)) } else { z::TypeRef::new(leak(build_ty(i, owned))) }),
        Ty::Map(i) => z::Type::Map(if owned { z::TypeRef::new_owned(build_ty(i, owned)) } else { z::TypeRef::new(leak(build_ty(i, owned))) }),
        Ty::Custom(n) => z::Type::Custom(lstr(n)),
        Ty::Enum(vs) => {
            if owned {
                z::Type::Enum(z::List::from(vs.iter().map(|(v, cs)| z::EnumVariant::new_owned(lstr(v), comments_owned(cs))).collect::<Vec<_>>()))
            } else {
                z::Type::Enum(z::List::Borrowed(leak_slice(vs.iter().map(|(v, cs)| leak(z::EnumVariant::new(lstr(v), comments_borrowed(cs)))).collect())))
            }
        }
        Ty::Struct(fs) => {
            if owned {
                z::Type::Object(z::List::from(fs.iter().map(|f| build_field(f, owned)).collect::<Vec<_>>()))
            } else {
                z::Type::Object(z::List::Borrowed(leak_slice(fs.iter().map(|f| leak(build_field(f, owned))).collect())))
            }
        }
    }
}
fn build_field(f: &Field, owned: bool) -> z::Field<'static> {
    if owned {
        z::Field::new_owned(lstr(&f.name), build_ty(&f.ty, owned), comments_owned(&f.cs))
    } else {
        z::Field::new(lstr(&f.name), leak(build_ty(&f.ty, owned)), comments_borrowed(&f.cs))
    }
}
fn fields_owned(fs: &[Field]) -> Vec<z::Field<'static>> {
    fs.iter().map(|f| build_field(f, true)).collect()
}
fn fields_borrowed(fs: &[Field]) -> &'static [&'static z::Field<'static>] {
    leak_slice(fs.iter().map(|f| leak(build_field(f, false))).collect())
}
pub fn build(i: &Iface, owned: bool) -> z::Interface<'static> {
    if owned {
        z::Interface::new_owned(
            lstr(&i.name),
            i.methods.iter().map(|m| z::Method::new_owned(lstr(&m.name), fields_owned(&m.ins), fields_owned(&m.outs), comments_owned(&m.cs))).collect(),
            i.types
                .iter()
                .map(|t| match t {
                    CT::Obj { name, fields, cs } => z::CustomType::from(z::CustomObject::new_owned(lstr(name), fields_owned(fields), comments_owned(cs))),
                    CT::Enum { name, vs, cs } => z::CustomType::from(z::CustomEnum::new_owned(lstr(name), vs.iter().map(|(v, c)| z::EnumVariant::new_owned(lstr(v), comments_owned(c))).collect(), comments_owned(cs))),
                })
                .collect(),
            i.errors.iter().map(|e| z::Error::new_owned(lstr(&e.name), fields_owned(&e.fields), comments_owned(&e.cs))).collect(),
            comments_owned(&i.cs),
        )
    } else {
        z::Interface::new(
            lstr(&i.name),
            leak_slice(i.methods.iter().map(|m| leak(z::Method::new(lstr(&m.name), fields_borrowed(&m.ins), fields_borrowed(&m.outs), comments_borrowed(&m.cs)))).collect()),
            leak_slice(
                i.types
                    .iter()
                    .map(|t| match t {
                        CT::Obj { name, fields, cs } => leak(z::CustomType::from(z::CustomObject::new(lstr(name), fields_borrowed(fields), comments_borrowed(cs)))),
                        CT::Enum { name, vs, cs } => leak(z::CustomType::from(z::CustomEnum::new(
                            lstr(name),
                            leak_slice(vs.iter().map(|(v, c)| leak(z::EnumVariant::new(lstr(v), comments_borrowed(c)))).collect()),
                            comments_borrowed(cs),
                        ))),
                    })
                    .collect(),
            ),
            leak_slice(i.errors.iter().map(|e| leak(z::Error::new(lstr(&e.name), fields_borrowed(&e.fields), comments_borrowed(&e.cs)))).collect()),
            comments_borrowed(&i.cs),
        )
    }
}

pub fn parse_obs(text: &str) -> String {
    match std::panic::catch_unwind(|| z::Interface::try_from(text).map(|i| dump(&tree_of(&i)))) {
        Ok(Ok(d)) => format!("ok {d}"),
        Ok(Err(_)) => "error".into(),
        Err(_) => "panic".into(),
    }
}

// ------------------------------------------------------------------ generators

const LOWER: &[u8] = b"abcxyz";
const UPPER: &[u8] = b"ABCXYZ";
const DIGIT: &[u8] = b"0189";

fn pick_b(rng: &mut Rng, s: &[u8]) -> char {
    s[rng.below(s.len())] as char
}
fn alnum(rng: &mut Rng) -> char {
    match rng.below(3) { 0 => pick_b(rng, LOWER), 1 => pick_b(rng, UPPER), _ => pick_b(rng, DIGIT) }
}
pub fn field_name(rng: &mut Rng) -> String {
    // [A-Za-z](_?[A-Za-z0-9])*
    let mut s = String::new();
    s.push(if rng.chance(1, 2) { pick_b(rng, LOWER) } else { pick_b(rng, UPPER) });
    for _ in 0..rng.below(5) {
        if rng.chance(1, 3) {
            s.push('_');
        }
        s.push(alnum(rng));
    }
    s
}
pub fn type_name(rng: &mut Rng) -> String {
    let mut s = String::new();
    s.push(pick_b(rng, UPPER));
    for _ in 0..rng.below(5) {
        s.push(alnum(rng));
    }
    s
}
pub fn iface_name(rng: &mut Rng) -> String {
    // [A-Za-z]([-]*[A-Za-z0-9])*(\.[A-Za-z0-9]([-]*[A-Za-z0-9])*)+
    let seg = |rng: &mut Rng, first: bool| {
        let mut s = String::new();
        s.push(if first { if rng.chance(1, 2) { pick_b(rng, LOWER) } else { pick_b(rng, UPPER) } } else { alnum(rng) });
        for _ in 0..rng.below(4) {
            // runs of dashes are legal inside a segment
            for _ in 0..[0usize, 0, 0, 1, 1, 2, 3][rng.below(7)] {
                s.push('-');
            }
            s.push(alnum(rng));
        }
        s
    };
    let mut n = seg(rng, true);
    for _ in 0..rng.range(1, 3) {
        n.push('.');
        n.push_str(&seg(rng, false));
    }
    n
}
fn comment(rng: &mut Rng, safe: bool) -> String {
    let pool: &[&str] = if safe { &["hello", "a b", "x y  z", "Returns the thing", "tr  ", "é ü", "TODO", "#nested", "1.5", "", ""] } else { &["see (x)", "a: b", "x) y", "(", ":)", "k: v, (w)"] };
    // one comment in twenty-five is full of parentheses (70 opening ones in a row, a numbered list `(1 .. (2 ..`, closing
    // ones): comment text is not structure, whatever it contains
    if rng.chance(1, 25) {
        return match rng.below(3) {
            0 => "(".repeat(rng.range(66, 90)),
            1 => (1..rng.range(20, 40)).map(|i| format!("({i} item")).collect::<Vec<_>>().join(" "),
            _ => format!("{} x {}", ")".repeat(rng.range(3, 70)), "(".repeat(rng.range(3, 70))),
        };
    }
    rng.pick(pool).to_string()
}
fn comments(rng: &mut Rng, p: usize, safe: bool) -> Vec<String> {
    if rng.chance(p, 10) {
        (0..rng.range(1, 2)).map(|_| comment(rng, safe)).collect()
    } else {
        vec![]
    }
}
pub fn gen_ty(rng: &mut Rng, depth: usize, inline_unsafe: &mut bool, with_comments: usize) -> Ty {
    let top = if depth == 0 { 6 } else { 12 };
    match rng.below(top) {
        0 => Ty::Bool,
        1 => Ty::Int,
        2 => Ty::Float,
        3 => Ty::Str,
        4 => Ty::Object,
        5 => Ty::Custom(type_name(rng)),
        6 => {
            // no `??`
            let mut inner = gen_ty(rng, depth - 1, inline_unsafe, with_comments);
            while let Ty::Opt(i) = inner {
                inner = *i;
            }
            Ty::Opt(Box::new(inner))
        }
        7 => Ty::Arr(Box::new(gen_ty(rng, depth - 1, inline_unsafe, with_comments))),
        8 => Ty::Map(Box::new(gen_ty(rng, depth - 1, inline_unsafe, with_comments))),
        9 => Ty::Enum((0..rng.range(1, 3)).map(|_| (field_name(rng), vec![])).collect()),
        _ => {
            let n = rng.below(4);
            Ty::Struct(
                (0..n)
                    .map(|_| {
                        let unsafe_c = with_comments > 0 && rng.chance(1, 40);
                        if unsafe_c {
                            *inline_unsafe = true;
                        }
                        Field { name: field_name(rng), ty: gen_ty(rng, depth - 1, inline_unsafe, with_comments), cs: if unsafe_c { vec![comment(rng, false)] } else { comments(rng, with_comments, true) } }
                    })
                    .collect(),
            )
        }
    }
}
/// A type nested `d` constructors deep (a chain of `?`, `[]`, `[string]` and one-field inline structs around a
/// leaf): the grammar puts no bound on nesting, so neither may the parser (C13 / C14 quantify over every depth).
pub fn deep_ty(rng: &mut Rng, d: usize) -> Ty {
    // one deep type in three is a tower of one-field inline structs only, 65..90 levels (that many parentheses open at once)
    if rng.chance(1, 3) {
        let mut t = if rng.chance(1, 2) { Ty::Int } else { Ty::Enum(vec![(field_name(rng), vec![])]) };
        for _ in 0..rng.range(65, 90) {
            t = Ty::Struct(vec![Field { name: field_name(rng), ty: t, cs: vec![] }]);
        }
        return t;
    }
    let mut t = match rng.below(4) { 0 => Ty::Int, 1 => Ty::Str, 2 => Ty::Custom(type_name(rng)), _ => Ty::Enum(vec![(field_name(rng), vec![])]) };
    for _ in 0..d {
        t = match rng.below(4) {
            0 if !matches!(t, Ty::Opt(_)) => Ty::Opt(Box::new(t)),
            1 => Ty::Map(Box::new(t)),
            2 => Ty::Struct(vec![Field { name: field_name(rng), ty: t, cs: vec![] }]),
            _ => Ty::Arr(Box::new(t)),
        };
    }
    t
}
fn gen_fields(rng: &mut Rng, depth: usize, inline_unsafe: &mut bool, wc: usize) -> Vec<Field> {
    (0..rng.below(4))
        .map(|_| {
            // one field in sixty is nested 6..70 constructors deep
            let ty = if rng.chance(1, 60) { let d = rng.range(6, 70); deep_ty(rng, d) } else { gen_ty(rng, depth, inline_unsafe, wc) };
            Field { name: field_name(rng), ty, cs: comments(rng, wc, true) }
        })
        .collect()
}
/// `wc` = comment density (0 = none); returns the tree and whether an "unsafe" comment (containing
/// `)` or `:`) was put on a field of an inline struct.
pub fn gen_iface(rng: &mut Rng, wc: usize, variant_comments: bool) -> (Iface, bool) {
    let mut unsafe_c = false;
    let mut i = Iface { name: iface_name(rng), cs: comments(rng, wc, true), types: vec![], methods: vec![], errors: vec![] };
    for _ in 0..rng.below(7) {
        let depth = rng.below(5);
        match rng.below(4) {
            0 => i.types.push(CT::Obj { name: type_name(rng), fields: gen_fields(rng, depth, &mut unsafe_c, wc), cs: comments(rng, wc, true) }),
            1 => i.types.push(CT::Enum {
                name: type_name(rng),
                vs: (0..rng.range(1, 4)).map(|_| (field_name(rng), if variant_comments { comments(rng, wc, true) } else { vec![] })).collect(),
                cs: comments(rng, wc, true),
            }),
            2 => i.methods.push(Method { name: type_name(rng), ins: gen_fields(rng, depth, &mut unsafe_c, wc), outs: gen_fields(rng, depth, &mut unsafe_c, wc), cs: comments(rng, wc, true) }),
            _ => i.errors.push(ErrDef { name: type_name(rng), fields: gen_fields(rng, depth, &mut unsafe_c, wc), cs: comments(rng, wc, true) }),
        }
    }
    (i, unsafe_c)
}

// ------------------------------------------------------------------ layout renderer (C13)

fn gap(rng: &mut Rng) -> String {
    // optional inter-token whitespace
    match rng.below(8) { 0 => " ".into(), 1 => "  ".into(), 2 => "\n".into(), 3 => "\t".into(), 4 => " \r\n ".into(), 5 => "\n\n\t ".into(), _ => "".into() }
}
fn gap1(rng: &mut Rng) -> String {
    // mandatory whitespace
    match rng.below(5) { 0 => "\n".into(), 1 => "  ".into(), 2 => "\t".into(), 3 => " \n ".into(), _ => " ".into() }
}
fn lay_comments(cs: &[String], rng: &mut Rng) -> String {
    // each comment on its own line
    let mut s = String::new();
    for c in cs {
        // the line ends with LF, CR LF or a lone CR (all three end a comment in the Varlink grammar)
        let eol = match rng.below(10) { 0..=5 => "\n", 6..=8 => "\r\n", _ => "\r" };
        s.push_str(&format!("{}#{}{}{eol}{}", if rng.chance(1, 3) { "\n" } else { "" }, *rng.pick(&["", " ", "  ", "\t"]), c, gap(rng)));
    }
    s
}
fn lay_ty(t: &Ty, rng: &mut Rng) -> String {
    match t {
        Ty::Bool => "bool".into(),
        Ty::Int => "int".into(),
        Ty::Float => "float".into(),
        Ty::Str => "string".into(),
        Ty::Object => "object".into(),
        Ty::Opt(i) => format!("?{}", lay_ty(i, rng)),
        Ty::Arr(i) => format!("[]{}", lay_ty(i, rng)),
        Ty::Map(i) => format!("[string]{}", lay_ty(i, rng)),
        Ty::Custom(n) => n.clone(),
        Ty::Enum(vs) => format!("({}{}{})", gap(rng), vs.iter().map(|(v, _)| v.clone()).collect::<Vec<_>>().join(&format!("{},{}", gap(rng), gap(rng))), gap(rng)),
        Ty::Struct(fs) => format!("({}{}{})", gap(rng), lay_fields(fs, rng), gap(rng)),
    }
}
fn lay_fields(fs: &[Field], rng: &mut Rng) -> String {
    fs.iter().map(|f| format!("{}{}{}:{}{}", lay_comments(&f.cs, rng), f.name, gap(rng), gap(rng), lay_ty(&f.ty, rng))).collect::<Vec<_>>().join(&format!("{},{}", gap(rng), gap(rng)))
}
pub fn lay_iface(i: &Iface, rng: &mut Rng) -> String {
    let mut s = format!("{}{}interface{}{}", gap(rng), lay_comments(&i.cs, rng), gap1(rng), i.name);
    // members in any interleaving that keeps the order within each kind
    let (mut a, mut b, mut c) = (0, 0, 0);
    while a < i.types.len() || b < i.methods.len() || c < i.errors.len() {
        s.push_str(&gap1(rng));
        let mut opts = vec![];
        if a < i.types.len() { opts.push(0) }
        if b < i.methods.len() { opts.push(1) }
        if c < i.errors.len() { opts.push(2) }
        match *rng.pick(&opts) {
            0 => {
                match &i.types[a] {
                    CT::Obj { name, fields, cs } => s.push_str(&format!("{}type{}{}{}({}{}{})", lay_comments(cs, rng), gap1(rng), name, gap(rng), gap(rng), lay_fields(fields, rng), gap(rng))),
                    CT::Enum { name, vs, cs } => s.push_str(&format!(
                        "{}type{}{}{}({}{}{})",
                        lay_comments(cs, rng), gap1(rng), name, gap(rng), gap(rng),
                        vs.iter().map(|(v, c)| format!("{}{}", lay_comments(c, rng), v)).collect::<Vec<_>>().join(&format!("{},{}", gap(rng), gap(rng))),
                        gap(rng)
                    )),
                }
                a += 1;
            }
            1 => {
                let m = &i.methods[b];
                s.push_str(&format!("{}method{}{}{}({}{}{}){}->{}({}{}{})", lay_comments(&m.cs, rng), gap1(rng), m.name, gap(rng), gap(rng), lay_fields(&m.ins, rng), gap(rng), gap(rng), gap(rng), gap(rng), lay_fields(&m.outs, rng), gap(rng)));
                b += 1;
            }
            _ => {
                let e = &i.errors[c];
                s.push_str(&format!("{}error{}{}{}({}{}{})", lay_comments(&e.cs, rng), gap1(rng), e.name, gap(rng), gap(rng), lay_fields(&e.fields, rng), gap(rng)));
                c += 1;
            }
        }
    }
    s.push_str(&gap(rng));
    s
}

fn mutate(b: &[u8], rng: &mut Rng) -> Vec<u8> {
    let mut m = b.to_vec();
    if m.is_empty() {
        return m;
    }
    match rng.below(6) {
        0 => {
            let i = rng.below(m.len());
            m.remove(i);
        }
        1 => {
            let i = rng.below(m.len());
            let c = m[i];
            m.insert(i, c);
        }
        2 => {
            let i = rng.below(m.len());
            m[i] = *rng.pick(b",:()?[]#\n\r x-._\xC3");
        }
        3 => {
            let i = rng.below(m.len());
            let j = rng.below(m.len());
            m.swap(i, j);
        }
        4 => {
            // duplicate a token-ish slice
            let i = rng.below(m.len());
            let j = (i + rng.range(1, 8)).min(m.len());
            let sl = m[i..j].to_vec();
            let k = rng.below(m.len());
            for (o, x) in sl.into_iter().enumerate() {
                m.insert(k + o, x);
            }
        }
        _ => {
            let i = rng.below(m.len());
            let j = (i + rng.range(1, 8)).min(m.len());
            m.drain(i..j);
        }
    }
    m
}

pub fn main_idl(o: &Opts) {
    let mut rng = Rng::new(o.seed ^ 0x69646c);
    let mut em = Emitter::new(o.index);
    let n = if o.thorough() { 40_000 } else { 1500 };
    for t in 0..n {
        let mut r2 = Rng::new(rng.next());
        let (tree, unsafe_c) = gen_iface(&mut r2, if t % 3 == 0 { 0 } else { 3 }, true);
        let text = lay_iface(&tree, &mut r2);
        let flag = if unsafe_c { "K1" } else { "K0" };
        let d = dump(&tree);
        let tx = text.clone();
        em.case(|| vec![format!("idl {flag} X {d} T {} => {}", enc_bytes(tx.as_bytes()), parse_obs(&tx))]);
        let b = text.as_bytes();
        // truncation at every byte (texts up to 400 bytes; every 4th text in quick)
        if b.len() <= 400 && (o.thorough() || t % 4 == 0) {
            for cut in 0..b.len() {
                if let Ok(s) = std::str::from_utf8(&b[..cut]) {
                    em.case(|| vec![format!("idl K0 X - T {} => {}", enc_bytes(s.as_bytes()), parse_obs(s))]);
                }
            }
        }
        for _ in 0..4 {
            let m = mutate(b, &mut r2);
            if let Ok(s) = std::str::from_utf8(&m) {
                em.case(|| vec![format!("idl K0 X - T {} => {}", enc_bytes(s.as_bytes()), parse_obs(s))]);
            }
        }
    }
    // byte soup from the token alphabet
    let toks: &[&str] = &["interface", "method", "type", "error", "(", ")", ",", ":", "->", "?", "[]", "[string]", "int", "string", "a", "B", "org.x", "#c\n", " ", "\n", "_", "-", "."];
    for _ in 0..(if o.thorough() { 50_000 } else { 3000 }) {
        let k = rng.range(1, 14);
        let s: String = (0..k).map(|_| *rng.pick(toks)).collect::<Vec<_>>().join(if rng.chance(1, 2) { " " } else { "" });
        em.case(|| vec![format!("idl K0 X - T {} => {}", enc_bytes(s.as_bytes()), parse_obs(&s))]);
    }
    // regression corpus: the defects found while reading
    for w in [
        "interface a.b\nmethod M(a:) -> ()",
        "interface a.b\nerror Foo",
        "interface org.example.",
        "interface org-.example",
        "interface a.b\ntype T (a__b: int)",
        "interface a.b\ntype T (a_: int)",
        "interface a.b\ntype T (a: ())",
        "interface a.b\ntype S (a: (# see (x)\nb: int))",
        "interface a.b\nmethod M(a: (# x: y\n p, q)) -> ()",
    ] {
        em.case(|| vec![format!("idl K0 X - T {} => {}", enc_bytes(w.as_bytes()), parse_obs(w))]);
    }
}

pub fn main_idlrt(o: &Opts) {
    let mut rng = Rng::new(o.seed ^ 0x72747274);
    let mut em = Emitter::new(o.index);
    let n = if o.thorough() { 60_000 } else { 4000 };
    for t in 0..n {
        let mut r2 = Rng::new(rng.next());
        em.case(|| {
            // variant comments (D9 class) in a tenth of the cases only
            let (tree, _) = gen_iface(&mut r2, if t % 4 == 0 { 0 } else { 3 }, t % 10 == 0);
            let owned = build(&tree, true);
            let borrowed = build(&tree, false);
            let text = owned.to_string();
            let text_b = borrowed.to_string();
            let mut ls = vec![];
            if text != text_b {
                ls.push(format!("oracle-mismatch idlrt owned and borrowed forms render differently: {}", dump(&tree)));
            }
            let p = parse_obs(&text);
            let rr = match z::Interface::try_from(text.as_str()) {
                Ok(i2) => if i2.to_string() == text { "1" } else { "0" },
                Err(_) => "-",
            };
            ls.insert(0, format!("idlrt T {} => R {} P {} RR {rr}", dump(&tree), enc_bytes(text.as_bytes()), p));
            ls
        });
    }
    // inline enum with a commented variant (cannot be produced by the parser; constructor-built only)
    em.case(|| {
        let tree = Iface { name: "a.b".into(), cs: vec![], types: vec![CT::Obj { name: "T".into(), fields: vec![Field { name: "f".into(), ty: Ty::Enum(vec![("a".into(), vec!["c".into()]), ("b".into(), vec![])]), cs: vec![] }], cs: vec![] }], methods: vec![], errors: vec![] };
        let text = build(&tree, true).to_string();
        vec![format!("idlrt-inline-witness {} => {}", enc_bytes(text.as_bytes()), parse_obs(&text).split(' ').next().unwrap())]
    });
}


// ------------------------------------------------------------------ idlx: GetInterfaceDescription end to end

fn spice(cs: &mut Vec<String>, rng: &mut Rng) {
    // comment texts that need JSON escaping on the wire (quotes, backslashes, control characters, non-ASCII)
    const POOL: &[&str] = &["say \"hi\"", "back\\slash \\n", "tab\there", "bell\u{7}!", "\u{1f}unit\u{1f}", "é ü € 😅", "\u{0}nul", "del\u{7f}", "\"", "\\", "a\u{8}\u{c}b", "mixed \"q\" \\ \t é"];
    if rng.chance(1, 2) {
        cs.push(rng.pick(POOL).to_string());
    }
}

fn spice_fields(fs: &mut [Field], rng: &mut Rng) {
    for f in fs.iter_mut() {
        spice(&mut f.cs, rng);
    }
}

/// `idlx T <tree> => W <frame the service wrote> X <what the client's parse() returned>`: the service
/// answers GetInterfaceDescription with `InterfaceDescription::from(&interface)`, the client calls the
/// proxy method on a connection fed with exactly those bytes and parses the description.
pub fn main_idlx(o: &Opts) {
    use zlink_core::varlink_service::{self as vs, Proxy};
    let mut rng = Rng::new(o.seed ^ 0x69646c78);
    let mut em = Emitter::new(o.index);
    let n = if o.thorough() { 20_000 } else { 1500 };
    for t in 0..n {
        let mut r2 = Rng::new(rng.next());
        em.case(|| {
            let (mut tree, _) = gen_iface(&mut r2, if t % 4 == 0 { 0 } else { 3 }, false);
            spice(&mut tree.cs, &mut r2);
            for ct in tree.types.iter_mut() {
                match ct {
                    CT::Obj { fields, cs, .. } => { spice(cs, &mut r2); spice_fields(fields, &mut r2); }
                    CT::Enum { cs, .. } => spice(cs, &mut r2),
                }
            }
            for m in tree.methods.iter_mut() {
                spice(&mut m.cs, &mut r2);
                spice_fields(&mut m.ins, &mut r2);
                spice_fields(&mut m.outs, &mut r2);
            }
            for e in tree.errors.iter_mut() {
                spice(&mut e.cs, &mut r2);
                spice_fields(&mut e.fields, &mut r2);
            }
            let iface: &'static z::Interface<'static> = leak(build(&tree, t % 2 == 0));
            // service side
            let snet = new_net(vec![]);
            let mut sconn = zlink_core::Connection::new(SSocket(snet.clone()));
            let desc = vs::InterfaceDescription::from(iface);
            let reply = zlink_core::Reply::new(Some(vs::Reply::InterfaceDescription(desc)));
            let sent = block_on(sconn.send_reply(&reply));
            let frame: Vec<u8> = snet.borrow().writes.concat();
            if sent.is_err() {
                return vec![format!("idlx T {} => W {} X send-error", dump(&tree), enc_bytes(&frame))];
            }
            // client side: random read sizes
            let sizes: Vec<usize> = (0..r2.below(6)).map(|_| r2.range(1, 300)).collect();
            let cnet = new_net(sizes);
            cnet.borrow_mut().avail.extend(frame.iter().copied());
            cnet.borrow_mut().closed = true;
            let mut cconn = zlink_core::Connection::new(SSocket(cnet.clone()));
            let x = match block_on(cconn.get_interface_description("a.b")) {
                Ok(Ok(d)) => match std::panic::catch_unwind(std::panic::AssertUnwindSafe(|| d.parse().map(|i| dump(&tree_of(&i))))) {
                    Ok(Ok(dmp)) => format!("ok {dmp}"),
                    Ok(Err(_)) => "error".into(),
                    Err(_) => "panic".into(),
                },
                Ok(Err(_)) => "method-error".into(),
                Err(_) => "decode-error".into(),
            };
            vec![format!("idlx T {} => W {} X {}", dump(&tree), enc_bytes(&frame), x)]
        });
    }
}
