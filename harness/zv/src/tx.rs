//! Scenario `tx`: histories of enqueue_call / send_call / send_reply / send_error / flush against a
//! capturing transport (C02, outbound part of C17).
//!
//! Line: `tx O <op>* => <res>* ; <write>*` where an op is `E<outcome>` (enqueue_call), `S<w><outcome>`
//! (send_*; `w` = 1 if the transport accepts the write, 0 if it fails), `F<w>` (flush); an outcome is
//! `ok:<bytes>` (the message and its reference encoding by serde_json) or `ke:<bytes>` (a message whose
//! serialisation is refused after emitting <bytes>). A chain (`chain_call(..).append(..)….send()`) appears as the
//! enqueues and the flush it consists of: it shares the write buffer with everything enqueued before it.

use crate::common::*;
use crate::rx::{E1, M1, P1};
use serde::{ser::SerializeStruct, Serialize};
use std::collections::BTreeMap;
use zlink_core::{Call, Connection, Reply};

/// A value whose serialisation fails (custom error) after `{"pad":"…","bad":` has been emitted.
#[derive(Debug)]
pub struct FailAfter {
    pub pad: String,
}
struct Failing;
impl Serialize for Failing {
    fn serialize<S: serde::Serializer>(&self, _s: S) -> Result<S::Ok, S::Error> {
        Err(serde::ser::Error::custom("scripted failure"))
    }
}
impl Serialize for FailAfter {
    fn serialize<S: serde::Serializer>(&self, s: S) -> Result<S::Ok, S::Error> {
        let mut st = s.serialize_struct("FailAfter", 2)?;
        st.serialize_field("pad", &self.pad)?;
        st.serialize_field("bad", &Failing)?;
        st.end()
    }
}

/// A map with a `bool` key: refused by zlink ("key must be a string").
#[derive(Debug, Serialize)]
pub struct BoolKey {
    pub pad: String,
    pub m: BTreeMap<bool, u8>,
}

/// Parameter values of unusual serde shapes (whatever a message carries, it goes out as one JSON document): externally
/// tagged enum variants of every kind incl. the empty struct variant and one whose fields are all skipped, empty
/// containers, nested options, unit structs, tuples.
#[derive(Clone, Debug, serde::Serialize)]
pub enum Odd {
    Unit,
    EmptyStruct {},
    Skipped {
        #[serde(skip_serializing_if = "Option::is_none")]
        a: Option<u32>,
        #[serde(skip_serializing_if = "Option::is_none")]
        b: Option<String>,
    },
    EmptyTuple(),
    New(u8),
    Tup(u8, bool),
    Seq(Vec<u8>),
    Map(BTreeMap<String, Vec<()>>),
    Nested(Option<Option<()>>, (), [u8; 0]),
}
#[derive(Clone, Debug, serde::Serialize)]
pub struct OddP {
    pub pad: String,
    pub odd: Vec<Odd>,
}
pub fn odd_values(k: u8, pad: &str) -> OddP {
    let all = vec![
        Odd::Unit,
        Odd::EmptyStruct {},
        Odd::Skipped { a: None, b: None },
        Odd::Skipped { a: Some(1), b: None },
        Odd::EmptyTuple(),
        Odd::New(7),
        Odd::Tup(1, true),
        Odd::Seq(vec![]),
        Odd::Seq(vec![1, 2]),
        Odd::Map(BTreeMap::new()),
        Odd::Map([("k".to_string(), vec![(), ()])].into_iter().collect()),
        Odd::Nested(Some(None), (), []),
        Odd::Nested(None, (), []),
    ];
    let n = all.len();
    // k picks a window of 1..3 consecutive values
    let start = k as usize % n;
    let len = 1 + (k as usize / n) % 3;
    OddP { pad: pad.to_string(), odd: (0..len).map(|i| all[(start + i) % n].clone()).collect() }
}

#[derive(Clone, Debug)]
pub enum Msg {
    ReplyOdd { k: u8, pad: String },
    CallA { v: String, oneway: bool, more: bool },
    CallB,
    ReplyP1 { name: String, continues: Option<bool> },
    ReplyUnit,
    ErrorZ { code: i32 },
    ErrorY,
    FailAfter { pad: String },
    BoolKey { pad: String },
}

#[derive(Clone, Debug)]
pub enum Op {
    Enqueue(Msg),
    Send(Msg, bool),
    Flush(bool),
    /// `chain_call(c1).append(c2)….send()`: the chain API enqueues its calls into the same write buffer and
    /// flushes once; on the line it is spelt as the enqueues and the flush it consists of
    Chain(Vec<Msg>, bool),
}

fn pad_str(n: usize, rng: &mut Rng) -> String {
    const AL: &[u8] = b"abcdefghijklmnopqrstuvwxyz0123456789";
    if n > 800 {
        // long pads are runs so that the line protocol stays compact
        let c = AL[rng.below(AL.len())] as char;
        return std::iter::repeat(c).take(n).collect();
    }
    (0..n).map(|_| AL[rng.below(AL.len())] as char).collect()
}

/// like `pad_str`, but one time in five with a few characters that the serializer must escape or that are not ASCII
/// (U+0000 - the frame terminator's own value -, other control characters, quote, backslash, multi-byte text)
fn text_str(n: usize, rng: &mut Rng) -> String {
    let s = pad_str(n, rng);
    if n > 800 || !rng.chance(1, 5) {
        return s;
    }
    let mut cs: Vec<char> = s.chars().collect();
    for _ in 0..rng.range(1, 3) {
        let c = *rng.pick(&['\0', '\u{1f}', '"', '\\', '\n', '\u{e9}', '\u{2028}', '\u{1f600}', '\u{7f}']);
        let at = rng.below(cs.len() + 1);
        cs.insert(at, c);
    }
    cs.into_iter().collect()
}

impl Msg {
    /// Reference encoding (serde_json) or the bytes emitted before the refusal.
    pub fn outcome(&self) -> (bool, Vec<u8>) {
        match self {
            Msg::CallA { v, oneway, more } => {
                let c = Call::new(M1::A { v: v.clone() }).set_oneway(*oneway).set_more(*more);
                (true, serde_json::to_vec(&c).unwrap())
            }
            Msg::CallB => (true, serde_json::to_vec(&Call::new(M1::B)).unwrap()),
            Msg::ReplyP1 { name, continues } => {
                let r = Reply::new(Some(P1 { name: name.clone() })).set_continues(*continues);
                (true, serde_json::to_vec(&r).unwrap())
            }
            Msg::ReplyUnit => (true, serde_json::to_vec(&Reply::<()>::new(None)).unwrap()),
            Msg::ReplyOdd { k, pad } => (true, serde_json::to_vec(&Reply::new(Some(odd_values(*k, pad)))).unwrap()),
            Msg::ErrorZ { code } => (true, serde_json::to_vec(&E1::Z { code: *code }).unwrap()),
            Msg::ErrorY => (true, serde_json::to_vec(&E1::Y).unwrap()),
            Msg::FailAfter { pad } => (false, format!("{{\"pad\":\"{pad}\",\"bad\":").into_bytes()),
            Msg::BoolKey { pad } => (false, format!("{{\"parameters\":{{\"pad\":\"{pad}\",\"m\":{{").into_bytes()),
        }
    }
    fn is_call(&self) -> bool {
        matches!(self, Msg::CallA { .. } | Msg::CallB)
    }
}

fn res_tok(r: zlink_core::Result<()>) -> String {
    match r {
        Ok(()) => "ok".into(),
        Err(e) => err_token(&e),
    }
}

async fn do_send(conn: &mut Connection<SSocket>, m: &Msg, enqueue_only: bool) -> String {
    match m {
        Msg::CallA { v, oneway, more } => {
            let c = Call::new(M1::A { v: v.clone() }).set_oneway(*oneway).set_more(*more);
            if enqueue_only { res_tok(conn.enqueue_call(&c)) } else { res_tok(conn.send_call(&c).await) }
        }
        Msg::CallB => {
            let c = Call::new(M1::B);
            if enqueue_only { res_tok(conn.enqueue_call(&c)) } else { res_tok(conn.send_call(&c).await) }
        }
        Msg::ReplyP1 { name, continues } => {
            let r = Reply::new(Some(P1 { name: name.clone() })).set_continues(*continues);
            res_tok(conn.send_reply(&r).await)
        }
        Msg::ReplyUnit => res_tok(conn.send_reply(&Reply::<()>::new(None)).await),
        Msg::ReplyOdd { k, pad } => res_tok(conn.send_reply(&Reply::new(Some(odd_values(*k, pad)))).await),
        Msg::ErrorZ { code } => res_tok(conn.send_error(&E1::Z { code: *code }).await),
        Msg::ErrorY => res_tok(conn.send_error(&E1::Y).await),
        Msg::FailAfter { pad } => {
            let v = FailAfter { pad: pad.clone() };
            if enqueue_only {
                // enqueue_call needs a Call; a call whose method fails to serialise
                res_tok(conn.send_error(&v).await)
            } else {
                res_tok(conn.send_error(&v).await)
            }
        }
        Msg::BoolKey { pad } => {
            let mut m = BTreeMap::new();
            m.insert(true, 1u8);
            let r = Reply::new(Some(BoolKey { pad: pad.clone(), m }));
            res_tok(conn.send_reply(&r).await)
        }
    }
}

pub fn run_case(ops: &[Op]) -> (Vec<String>, Vec<Vec<u8>>) {
    let net = new_net(vec![]);
    let mut conn = Connection::new(SSocket(net.clone()));
    let mut res = vec![];
    for op in ops {
        match op {
            Op::Enqueue(m) => res.push(block_on(do_send(&mut conn, m, true))),
            Op::Send(m, w) => {
                set_write_ok(&net, *w);
                res.push(block_on(do_send(&mut conn, m, false)))
            }
            Op::Flush(w) => {
                set_write_ok(&net, *w);
                res.push(res_tok(block_on(conn.flush())))
            }
            Op::Chain(ms, w) => {
                set_write_ok(&net, *w);
                let calls: Vec<Call<M1>> = ms
                    .iter()
                    .map(|m| match m {
                        Msg::CallA { v, oneway, more } => Call::new(M1::A { v: v.clone() }).set_oneway(*oneway).set_more(*more),
                        _ => Call::new(M1::B),
                    })
                    .collect();
                let mut toks = vec![];
                match conn.chain_call::<M1, P1, E1>(&calls[0]) {
                    Err(e) => toks.push(err_token(&e)),
                    Ok(chain) => {
                        toks.push("ok".to_string());
                        let mut cur = Some(chain);
                        for c in &calls[1..] {
                            match cur.take().unwrap().append(c) {
                                Ok(ch) => {
                                    cur = Some(ch);
                                    toks.push("ok".to_string());
                                }
                                Err(e) => {
                                    toks.push(err_token(&e));
                                    break;
                                }
                            }
                        }
                        if let Some(chain) = cur {
                            let sent = block_on(chain.send());
                            toks.push(match sent {
                                Ok(_) => "ok".into(),
                                Err(e) => err_token(&e),
                            });
                        }
                    }
                }
                res.extend(toks);
            }
        }
    }
    let w = net.borrow().writes.clone();
    (res, w)
}

fn set_write_ok(net: &NetRef, ok: bool) {
    let mut n = net.borrow_mut();
    n.write_fail_from = if ok { None } else { Some(0) };
}

pub fn line(ops: &[Op], res: &[String], writes: &[Vec<u8>]) -> String {
    let mut s = String::from("tx O");
    for op in ops {
        let oc = |m: &Msg| {
            let (ok, b) = m.outcome();
            format!("{}:{}", if ok { "ok" } else { "ke" }, enc_bytes(&b))
        };
        match op {
            Op::Enqueue(m) => s.push_str(&format!(" E{}", oc(m))),
            Op::Send(m, w) => s.push_str(&format!(" S{}{}", *w as u8, oc(m))),
            Op::Flush(w) => s.push_str(&format!(" F{}", *w as u8)),
            Op::Chain(ms, w) => {
                for m in ms {
                    s.push_str(&format!(" E{}", oc(m)));
                }
                s.push_str(&format!(" F{}", *w as u8));
            }
        }
    }
    s.push_str(" =>");
    for r in res {
        s.push(' ');
        s.push_str(r);
    }
    s.push_str(" ;");
    for w in writes {
        s.push(' ');
        s.push_str(&enc_bytes(w));
    }
    s
}

fn gen_msg(rng: &mut Rng, call_only: bool, maxlen: usize) -> Msg {
    let n = match rng.below(8) {
        0 => rng.below(8),
        1 => rng.range(180, 270),
        2 => rng.range(0, 600),
        3 => 256 * rng.range(1, 4) - rng.range(20, 60),
        // a message of more than 16 growth steps (4 KiB) behind, between or in front of small queued ones
        4 if maxlen >= 600 => rng.range(4100, 9000),
        _ => rng.range(0, maxlen),
    };
    let k = if call_only { rng.below(3) } else { rng.below(10) };
    match k {
        0 | 1 => Msg::CallA { v: text_str(n, rng), oneway: rng.chance(1, 4), more: rng.chance(1, 4) },
        2 => Msg::CallB,
        3 | 4 => Msg::ReplyP1 { name: text_str(n, rng), continues: *rng.pick(&[None, Some(true), Some(false)]) },
        5 if rng.chance(1, 2) => Msg::ReplyOdd { k: rng.below(39) as u8, pad: pad_str(n.min(300), rng) },
        5 => Msg::ReplyUnit,
        6 => Msg::ErrorZ { code: rng.below(100000) as i32 - 500 },
        7 => Msg::ErrorY,
        8 => Msg::FailAfter { pad: pad_str(n, rng) },
        _ => Msg::BoolKey { pad: pad_str(n, rng) },
    }
}

/// A CallA whose wire length (without terminator) is exactly `len` (len ≥ 40).
pub fn call_of_len(len: usize, rng: &mut Rng) -> Msg {
    let base = Msg::CallA { v: String::new(), oneway: false, more: false }.outcome().1.len();
    Msg::CallA { v: pad_str(len.saturating_sub(base), rng), oneway: false, more: false }
}

pub fn generate(tier: &str, seed: u64) -> Vec<Vec<Op>> {
    let thorough = tier == "thorough";
    let mut rng = Rng::new(seed ^ 0x7478);
    let mut out = vec![];
    // (a) every free-space value 0..=600 when a message starts: a first enqueued call of length L
    // leaves `cap - (L+1)` bytes free; then messages spanning 0..n growth steps.
    let spans = if thorough { 40 } else { 4 };
    for free in 0..=600usize {
        // choose first length so that free space after it is `free` in a buffer of ceil size
        let l1 = 40 + (rng.below(3) * 256);
        let cap1 = ((l1 + 1) / 256 + 1) * 256;
        let l1 = if cap1 >= free + 1 + 40 { cap1 - free - 1 } else { cap1 + 256 * ((free + 41 - cap1) / 256 + 1) - free - 1 };
        let first = call_of_len(l1, &mut rng);
        let second = match rng.below(4) {
            0 => call_of_len((free as i64 + rng.range(0, 2) as i64 - 1).max(40) as usize, &mut rng),
            1 => call_of_len(40 + rng.below(256 * spans), &mut rng),
            2 => gen_msg(&mut rng, false, 300),
            _ => call_of_len(free.max(40), &mut rng),
        };
        let mut ops = vec![Op::Enqueue(first)];
        if second.is_call() && rng.chance(1, 2) {
            ops.push(Op::Enqueue(second));
            ops.push(Op::Flush(true));
        } else {
            ops.push(Op::Send(second, true));
        }
        if rng.chance(1, 2) {
            ops.push(Op::Send(gen_msg(&mut rng, false, 100), true));
        }
        out.push(ops);
    }
    // (b) random histories of 1..12 ops with failing serialisations at any position.
    let n = if thorough { 40000 } else { 2500 };
    for _ in 0..n {
        let len = rng.range(1, 12);
        let mut ops = vec![];
        for _ in 0..len {
            match rng.below(11) {
                0..=3 => ops.push(Op::Enqueue(gen_msg(&mut rng, true, 700))),
                4..=7 => ops.push(Op::Send(gen_msg(&mut rng, false, 700), !rng.chance(1, 25))),
                8 => {
                    // a chain of 1..3 calls, possibly with calls already enqueued before it
                    let k = rng.range(1, 3);
                    let ms = (0..k).map(|_| loop {
                        let m = gen_msg(&mut rng, true, 300);
                        if m.is_call() { break m; }
                    }).collect();
                    ops.push(Op::Chain(ms, !rng.chance(1, 25)))
                }
                _ => ops.push(Op::Flush(!rng.chance(1, 25))),
            }
        }
        out.push(ops);
    }
    out
}

/// Outbound limit (C17): messages around the hook-lowered limit, at various fill levels.
pub fn generate_bounds(tier: &str, seed: u64, limit: usize) -> Vec<Vec<Op>> {
    let thorough = tier == "thorough";
    let mut rng = Rng::new(seed ^ 0x626f);
    let mut out = vec![];
    // single message of wire size n (incl. terminator) around the limit
    let lo = limit - 3;
    let hi = limit + if thorough { 2 * 256 + 2 } else { 258 };
    for n in lo..=hi {
        out.push(vec![Op::Send(call_of_len(n - 1, &mut rng), true), Op::Send(Msg::CallB, true)]);
    }
    // every size near each multiple of the growth step (thorough: all k; quick: sampled k)
    let kmax = limit / 256;
    for k in 1..=kmax {
        if !thorough && !(k <= 4 || k % 37 == 0 || k + 2 >= kmax) {
            continue;
        }
        for d in [-2i64, -1, 0, 1, 2] {
            let n = (256 * k) as i64 + d;
            if n < 42 {
                continue;
            }
            out.push(vec![Op::Send(call_of_len((n - 1) as usize, &mut rng), true)]);
        }
    }
    // fill level p then a message of length len: accepted iff p + len + 1 <= limit
    let cnt = if thorough { 600 } else { 80 };
    for _ in 0..cnt {
        let p = rng.range(41, limit - 50);
        let slack = rng.range(0, 6) as i64 - 3;
        let len = (limit as i64 - p as i64 - 1 + slack).max(40) as usize;
        out.push(vec![
            Op::Enqueue(call_of_len(p - 1, &mut rng)),
            Op::Enqueue(call_of_len(len, &mut rng)),
            Op::Enqueue(Msg::CallB),
            Op::Flush(true),
            Op::Send(Msg::ErrorY, true),
        ]);
    }
    out
}

pub fn main(o: &Opts, bounds: bool) {
    let cases = if bounds { generate_bounds(&o.tier, o.seed, o.limit) } else { generate(&o.tier, o.seed) };
    let mut em = Emitter::new(o.index);
    for ops in &cases {
        em.case(|| {
            let (res, writes) = run_case(ops);
            vec![line(ops, &res, &writes)]
        });
    }
}
