//! Scenario `ser` (C03): three-way comparison zlink `to_slice` (hook) vs `serde_json::to_vec` vs model.
//!
//! A value is shipped to the model as the data-model events zlink's serializer sees, captured by a
//! recording `serde::Serializer` (`rec`). Line:
//! `ser V <sval> J <serde_json bytes | err> C <cap>* => <full-capacity result> <one letter per cap> u<0|1>`
//! letters: `O` ok and identical to the full-capacity bytes, `X` ok but different, `s` too small,
//! `k` key error. `u1` = output is valid UTF-8.

use crate::common::*;
use serde::ser::{self, Serialize};
use std::collections::BTreeMap;

// ---------------------------------------------------------------------------- recording serializer

pub struct Rec;
pub struct RecSeq {
    head: String,
    items: Vec<String>,
    tail: &'static str,
}
pub struct RecMap {
    head: String,
    items: Vec<String>,
    key: Option<String>,
    tail: &'static str,
}

#[derive(Debug)]
pub struct RecErr(pub String);
impl std::fmt::Display for RecErr {
    fn fmt(&self, f: &mut std::fmt::Formatter<'_>) -> std::fmt::Result {
        write!(f, "{}", self.0)
    }
}
impl std::error::Error for RecErr {}
impl ser::Error for RecErr {
    fn custom<T: std::fmt::Display>(m: T) -> Self {
        RecErr(m.to_string())
    }
}

fn hint(h: Option<usize>) -> String {
    match h {
        Some(n) => n.to_string(),
        None => "_".into(),
    }
}

fn float_text<F: Serialize + Copy>(v: F) -> String {
    // ryu's text is opaque to the model: taken from serde_json's rendering of this float alone
    serde_json::to_string(&v).unwrap()
}

impl ser::Serializer for Rec {
    type Ok = String;
    type Error = RecErr;
    type SerializeSeq = RecSeq;
    type SerializeTuple = RecSeq;
    type SerializeTupleStruct = RecSeq;
    type SerializeTupleVariant = RecSeq;
    type SerializeMap = RecMap;
    type SerializeStruct = RecMap;
    type SerializeStructVariant = RecMap;

    fn serialize_bool(self, v: bool) -> Result<String, RecErr> { Ok(if v { "T".into() } else { "F".into() }) }
    fn serialize_i8(self, v: i8) -> Result<String, RecErr> { Ok(format!("i{}", hex(v.to_string().as_bytes()))) }
    fn serialize_i16(self, v: i16) -> Result<String, RecErr> { Ok(format!("i{}", hex(v.to_string().as_bytes()))) }
    fn serialize_i32(self, v: i32) -> Result<String, RecErr> { Ok(format!("i{}", hex(v.to_string().as_bytes()))) }
    fn serialize_i64(self, v: i64) -> Result<String, RecErr> { Ok(format!("i{}", hex(v.to_string().as_bytes()))) }
    fn serialize_i128(self, v: i128) -> Result<String, RecErr> { Ok(format!("i{}", hex(v.to_string().as_bytes()))) }
    fn serialize_u8(self, v: u8) -> Result<String, RecErr> { Ok(format!("i{}", hex(v.to_string().as_bytes()))) }
    fn serialize_u16(self, v: u16) -> Result<String, RecErr> { Ok(format!("i{}", hex(v.to_string().as_bytes()))) }
    fn serialize_u32(self, v: u32) -> Result<String, RecErr> { Ok(format!("i{}", hex(v.to_string().as_bytes()))) }
    fn serialize_u64(self, v: u64) -> Result<String, RecErr> { Ok(format!("i{}", hex(v.to_string().as_bytes()))) }
    fn serialize_u128(self, v: u128) -> Result<String, RecErr> { Ok(format!("i{}", hex(v.to_string().as_bytes()))) }
    fn serialize_f32(self, v: f32) -> Result<String, RecErr> {
        Ok(if v.is_finite() { format!("f{}", hex(float_text(v).as_bytes())) } else { "n".into() })
    }
    fn serialize_f64(self, v: f64) -> Result<String, RecErr> {
        Ok(if v.is_finite() { format!("f{}", hex(float_text(v).as_bytes())) } else { "n".into() })
    }
    fn serialize_char(self, v: char) -> Result<String, RecErr> {
        let mut b = [0u8; 4];
        Ok(format!("s{}", hex(v.encode_utf8(&mut b).as_bytes())))
    }
    fn serialize_str(self, v: &str) -> Result<String, RecErr> { Ok(format!("s{}", hex(v.as_bytes()))) }
    fn serialize_bytes(self, v: &[u8]) -> Result<String, RecErr> { Ok(format!("y{}", hex(v))) }
    fn serialize_none(self) -> Result<String, RecErr> { Ok("u".into()) }
    fn serialize_some<T: ?Sized + Serialize>(self, v: &T) -> Result<String, RecErr> { Ok(format!("o{}", v.serialize(Rec)?)) }
    fn serialize_unit(self) -> Result<String, RecErr> { Ok("u".into()) }
    fn serialize_unit_struct(self, _n: &'static str) -> Result<String, RecErr> { Ok("u".into()) }
    fn serialize_unit_variant(self, _n: &'static str, _i: u32, variant: &'static str) -> Result<String, RecErr> {
        Ok(format!("s{}", hex(variant.as_bytes())))
    }
    fn serialize_newtype_struct<T: ?Sized + Serialize>(self, _n: &'static str, v: &T) -> Result<String, RecErr> {
        Ok(format!("w{}", v.serialize(Rec)?))
    }
    fn serialize_newtype_variant<T: ?Sized + Serialize>(self, _n: &'static str, _i: u32, variant: &'static str, v: &T) -> Result<String, RecErr> {
        Ok(format!("v{}:{}", hex(variant.as_bytes()), v.serialize(Rec)?))
    }
    fn serialize_seq(self, len: Option<usize>) -> Result<RecSeq, RecErr> {
        Ok(RecSeq { head: format!("q{}(", hint(len)), items: vec![], tail: ")" })
    }
    fn serialize_tuple(self, len: usize) -> Result<RecSeq, RecErr> { self.serialize_seq(Some(len)) }
    fn serialize_tuple_struct(self, _n: &'static str, len: usize) -> Result<RecSeq, RecErr> { self.serialize_seq(Some(len)) }
    fn serialize_tuple_variant(self, _n: &'static str, _i: u32, variant: &'static str, len: usize) -> Result<RecSeq, RecErr> {
        Ok(RecSeq { head: format!("v{}:q{}(", hex(variant.as_bytes()), len), items: vec![], tail: ")" })
    }
    fn serialize_map(self, len: Option<usize>) -> Result<RecMap, RecErr> {
        Ok(RecMap { head: format!("m{}(", hint(len)), items: vec![], key: None, tail: ")" })
    }
    fn serialize_struct(self, _n: &'static str, len: usize) -> Result<RecMap, RecErr> { self.serialize_map(Some(len)) }
    fn serialize_struct_variant(self, _n: &'static str, _i: u32, variant: &'static str, len: usize) -> Result<RecMap, RecErr> {
        Ok(RecMap { head: format!("v{}:m{}(", hex(variant.as_bytes()), len), items: vec![], key: None, tail: ")" })
    }
}

impl RecSeq {
    fn finish(self) -> String { format!("{}{}{}", self.head, self.items.join(","), self.tail) }
}
impl RecMap {
    fn finish(self) -> String { format!("{}{}{}", self.head, self.items.join(","), self.tail) }
}
impl ser::SerializeSeq for RecSeq {
    type Ok = String; type Error = RecErr;
    fn serialize_element<T: ?Sized + Serialize>(&mut self, v: &T) -> Result<(), RecErr> { self.items.push(v.serialize(Rec)?); Ok(()) }
    fn end(self) -> Result<String, RecErr> { Ok(self.finish()) }
}
impl ser::SerializeTuple for RecSeq {
    type Ok = String; type Error = RecErr;
    fn serialize_element<T: ?Sized + Serialize>(&mut self, v: &T) -> Result<(), RecErr> { self.items.push(v.serialize(Rec)?); Ok(()) }
    fn end(self) -> Result<String, RecErr> { Ok(self.finish()) }
}
impl ser::SerializeTupleStruct for RecSeq {
    type Ok = String; type Error = RecErr;
    fn serialize_field<T: ?Sized + Serialize>(&mut self, v: &T) -> Result<(), RecErr> { self.items.push(v.serialize(Rec)?); Ok(()) }
    fn end(self) -> Result<String, RecErr> { Ok(self.finish()) }
}
impl ser::SerializeTupleVariant for RecSeq {
    type Ok = String; type Error = RecErr;
    fn serialize_field<T: ?Sized + Serialize>(&mut self, v: &T) -> Result<(), RecErr> { self.items.push(v.serialize(Rec)?); Ok(()) }
    fn end(self) -> Result<String, RecErr> { Ok(self.finish()) }
}
impl ser::SerializeMap for RecMap {
    type Ok = String; type Error = RecErr;
    fn serialize_key<T: ?Sized + Serialize>(&mut self, k: &T) -> Result<(), RecErr> { self.key = Some(k.serialize(Rec)?); Ok(()) }
    fn serialize_value<T: ?Sized + Serialize>(&mut self, v: &T) -> Result<(), RecErr> {
        let k = self.key.take().unwrap_or_else(|| "u".into());
        self.items.push(format!("{}:{}", k, v.serialize(Rec)?));
        Ok(())
    }
    fn end(self) -> Result<String, RecErr> { Ok(self.finish()) }
}
impl ser::SerializeStruct for RecMap {
    type Ok = String; type Error = RecErr;
    fn serialize_field<T: ?Sized + Serialize>(&mut self, k: &'static str, v: &T) -> Result<(), RecErr> {
        self.items.push(format!("s{}:{}", hex(k.as_bytes()), v.serialize(Rec)?));
        Ok(())
    }
    fn end(self) -> Result<String, RecErr> { Ok(self.finish()) }
}
impl ser::SerializeStructVariant for RecMap {
    type Ok = String; type Error = RecErr;
    fn serialize_field<T: ?Sized + Serialize>(&mut self, k: &'static str, v: &T) -> Result<(), RecErr> {
        self.items.push(format!("s{}:{}", hex(k.as_bytes()), v.serialize(Rec)?));
        Ok(())
    }
    fn end(self) -> Result<String, RecErr> { Ok(self.finish()) }
}

// ---------------------------------------------------------------------------- value generator

/// A dynamic value that drives every entry point of `serde::Serializer` (so that one generator
/// covers all serde data-model shapes).
#[derive(Clone, Debug)]
pub enum Dyn {
    Bool(bool),
    I8(i8), I16(i16), I32(i32), I64(i64), I128(i128),
    U8(u8), U16(u16), U32(u32), U64(u64), U128(u128),
    F32(f32), F64(f64),
    Char(char),
    Str(String),
    Bytes(Vec<u8>),
    None,
    Some(Box<Dyn>),
    Unit,
    UnitStruct,
    UnitVariant(&'static str),
    NewtypeStruct(Box<Dyn>),
    NewtypeVariant(&'static str, Box<Dyn>),
    Seq(bool, Vec<Dyn>),          // with length hint?
    Tuple(Vec<Dyn>),
    TupleStruct(Vec<Dyn>),
    TupleVariant(&'static str, Vec<Dyn>),
    Map(bool, Vec<(Dyn, Dyn)>),
    Struct(Vec<(&'static str, Dyn)>),
    StructVariant(&'static str, Vec<(&'static str, Dyn)>),
}

impl Serialize for Dyn {
    fn serialize<S: ser::Serializer>(&self, s: S) -> Result<S::Ok, S::Error> {
        use ser::{SerializeMap, SerializeSeq, SerializeStruct, SerializeStructVariant, SerializeTuple, SerializeTupleStruct, SerializeTupleVariant};
        match self {
            Dyn::Bool(v) => s.serialize_bool(*v),
            Dyn::I8(v) => s.serialize_i8(*v), Dyn::I16(v) => s.serialize_i16(*v), Dyn::I32(v) => s.serialize_i32(*v),
            Dyn::I64(v) => s.serialize_i64(*v), Dyn::I128(v) => s.serialize_i128(*v),
            Dyn::U8(v) => s.serialize_u8(*v), Dyn::U16(v) => s.serialize_u16(*v), Dyn::U32(v) => s.serialize_u32(*v),
            Dyn::U64(v) => s.serialize_u64(*v), Dyn::U128(v) => s.serialize_u128(*v),
            Dyn::F32(v) => s.serialize_f32(*v), Dyn::F64(v) => s.serialize_f64(*v),
            Dyn::Char(c) => s.serialize_char(*c),
            Dyn::Str(x) => s.serialize_str(x),
            Dyn::Bytes(b) => s.serialize_bytes(b),
            Dyn::None => s.serialize_none(),
            Dyn::Some(v) => s.serialize_some(&**v),
            Dyn::Unit => s.serialize_unit(),
            Dyn::UnitStruct => s.serialize_unit_struct("U"),
            Dyn::UnitVariant(n) => s.serialize_unit_variant("E", 0, n),
            Dyn::NewtypeStruct(v) => s.serialize_newtype_struct("N", &**v),
            Dyn::NewtypeVariant(n, v) => s.serialize_newtype_variant("E", 1, n, &**v),
            Dyn::Seq(h, items) => {
                let mut q = s.serialize_seq(if *h { Some(items.len()) } else { None })?;
                for i in items { q.serialize_element(i)?; }
                q.end()
            }
            Dyn::Tuple(items) => {
                let mut q = s.serialize_tuple(items.len())?;
                for i in items { q.serialize_element(i)?; }
                q.end()
            }
            Dyn::TupleStruct(items) => {
                let mut q = s.serialize_tuple_struct("T", items.len())?;
                for i in items { q.serialize_field(i)?; }
                q.end()
            }
            Dyn::TupleVariant(n, items) => {
                let mut q = s.serialize_tuple_variant("E", 2, n, items.len())?;
                for i in items { q.serialize_field(i)?; }
                q.end()
            }
            Dyn::Map(h, es) => {
                let mut m = s.serialize_map(if *h { Some(es.len()) } else { None })?;
                for (k, v) in es { m.serialize_key(k)?; m.serialize_value(v)?; }
                m.end()
            }
            Dyn::Struct(fs) => {
                let mut m = s.serialize_struct("S", fs.len())?;
                for (k, v) in fs { m.serialize_field(k, v)?; }
                m.end()
            }
            Dyn::StructVariant(n, fs) => {
                let mut m = s.serialize_struct_variant("E", 3, n, fs.len())?;
                for (k, v) in fs { m.serialize_field(k, v)?; }
                m.end()
            }
        }
    }
}

const NAMES: &[&str] = &["a", "b", "name", "theValue", "x_y", "Variant", "with\"quote", "tab\there", "é", "k"];

fn gen_string(rng: &mut Rng) -> String {
    let n = match rng.below(4) { 0 => 0, 1 => 1, 2 => rng.range(2, 6), _ => rng.range(6, 40) };
    let mut s = String::new();
    for _ in 0..n {
        let c = match rng.below(10) {
            0 => char::from_u32(rng.below(0x20) as u32).unwrap(),
            1 => '"',
            2 => '\\',
            3 => char::from_u32(0x7f + rng.below(0x100) as u32).unwrap_or('x'),
            4 => {
                let mut c;
                loop {
                    c = rng.below(0x110000) as u32;
                    if char::from_u32(c).is_some() { break; }
                }
                char::from_u32(c).unwrap()
            }
            5 => '/',
            _ => (b'a' + rng.below(26) as u8) as char,
        };
        s.push(c);
    }
    s
}

fn gen_scalar(rng: &mut Rng) -> Dyn {
    let edge_i: [i128; 12] = [0, 1, -1, 9, 10, 127, -128, 255, 32767, -32768, i64::MAX as i128, i64::MIN as i128];
    match rng.below(20) {
        0 => Dyn::Bool(rng.chance(1, 2)),
        1 => Dyn::I8(rng.next() as i8),
        2 => Dyn::I16(rng.next() as i16),
        3 => Dyn::I32(rng.next() as i32),
        4 => Dyn::I64(if rng.chance(1, 3) { *rng.pick(&edge_i) as i64 } else { rng.next() as i64 }),
        5 => Dyn::I128(match rng.below(4) { 0 => i128::MAX, 1 => i128::MIN, 2 => *rng.pick(&edge_i), _ => ((rng.next() as i128) << 64) | rng.next() as i128 }),
        6 => Dyn::U8(rng.next() as u8),
        7 => Dyn::U16(rng.next() as u16),
        8 => Dyn::U32(rng.next() as u32),
        9 => Dyn::U64(if rng.chance(1, 3) { u64::MAX } else { rng.next() }),
        10 => Dyn::U128(match rng.below(3) { 0 => u128::MAX, 1 => 0, _ => ((rng.next() as u128) << 64) | rng.next() as u128 }),
        11 => Dyn::F32(match rng.below(6) { 0 => f32::NAN, 1 => f32::INFINITY, 2 => f32::NEG_INFINITY, 3 => 0.0, 4 => -0.0, _ => f32::from_bits(rng.next() as u32) }),
        12 => Dyn::F64(match rng.below(8) { 0 => f64::NAN, 1 => f64::INFINITY, 2 => f64::NEG_INFINITY, 3 => 1e16, 4 => 1.5, 5 => f64::MIN_POSITIVE, _ => f64::from_bits(rng.next()) }),
        13 => Dyn::Char(gen_string(rng).chars().next().unwrap_or('\u{1}')),
        14 | 15 => Dyn::Str(gen_string(rng)),
        16 => Dyn::Bytes((0..rng.below(6)).map(|_| rng.next() as u8).collect()),
        17 => Dyn::None,
        18 => if rng.chance(1, 2) { Dyn::Unit } else { Dyn::UnitStruct },
        _ => Dyn::UnitVariant(*rng.pick(NAMES)),
    }
}

fn gen_key(rng: &mut Rng, allow_bad: bool) -> Dyn {
    match rng.below(if allow_bad { 12 } else { 8 }) {
        0..=3 => Dyn::Str(gen_string(rng)),
        4 => Dyn::Char(gen_string(rng).chars().next().unwrap_or('k')),
        5 => Dyn::I64(rng.next() as i64 >> rng.below(60)),
        6 => Dyn::UnitVariant(*rng.pick(NAMES)),
        7 => Dyn::NewtypeStruct(Box::new(if rng.chance(1, 2) { Dyn::Str(gen_string(rng)) } else { Dyn::U8(rng.next() as u8) })),
        8 => Dyn::Bool(true),
        9 => Dyn::F64(1.5),
        10 => Dyn::Some(Box::new(Dyn::Str("k".into()))),
        _ => match rng.below(4) { 0 => Dyn::Unit, 1 => Dyn::None, 2 => Dyn::Tuple(vec![Dyn::U8(1)]), _ => Dyn::NewtypeStruct(Box::new(Dyn::Bool(false))) },
    }
}

pub fn gen_value(rng: &mut Rng, depth: usize, allow_bad_keys: bool) -> Dyn {
    if depth == 0 || rng.chance(2, 5) {
        return gen_scalar(rng);
    }
    let n = match rng.below(4) { 0 => 0, 1 => 1, _ => rng.range(1, 4) };
    let kids = |rng: &mut Rng| -> Vec<Dyn> { (0..n).map(|_| gen_value(rng, depth - 1, allow_bad_keys)).collect() };
    match rng.below(11) {
        0 => Dyn::Some(Box::new(gen_value(rng, depth - 1, allow_bad_keys))),
        1 => Dyn::NewtypeStruct(Box::new(gen_value(rng, depth - 1, allow_bad_keys))),
        2 => Dyn::NewtypeVariant(*rng.pick(NAMES), Box::new(gen_value(rng, depth - 1, allow_bad_keys))),
        3 => Dyn::Seq(rng.chance(1, 2), kids(rng)),
        4 => Dyn::Tuple(kids(rng)),
        5 => Dyn::TupleStruct(kids(rng)),
        6 => Dyn::TupleVariant(*rng.pick(NAMES), kids(rng)),
        7 | 8 => {
            let h = rng.chance(1, 2);
            Dyn::Map(h, (0..n).map(|_| (gen_key(rng, allow_bad_keys), gen_value(rng, depth - 1, allow_bad_keys))).collect())
        }
        9 => Dyn::Struct((0..n).map(|_| (*rng.pick(NAMES), gen_value(rng, depth - 1, allow_bad_keys))).collect()),
        _ => Dyn::StructVariant(*rng.pick(NAMES), (0..n).map(|_| (*rng.pick(NAMES), gen_value(rng, depth - 1, allow_bad_keys))).collect()),
    }
}

// ---------------------------------------------------------------------------- running one value

pub fn to_slice_at<T: Serialize + ?Sized>(v: &T, cap: usize) -> Result<Vec<u8>, u8> {
    let mut buf = vec![0xAAu8; cap];
    zlink_core::__verif::to_slice(v, &mut buf).map(|n| buf[..n].to_vec())
}

/// One line for value `v`, trying the capacities `caps` (None = every capacity 0..=len+1).
pub fn value_line<T: Serialize + ?Sized>(v: &T, all_caps: bool, rng: &mut Rng) -> String {
    let sval = v.serialize(Rec).unwrap_or_else(|e| format!("recorder-error:{}", e.0.replace(' ', "_")));
    let json = serde_json::to_vec(v);
    let full = to_slice_at(v, 1 << 20);
    let len = match &full {
        Ok(b) => b.len(),
        Err(_) => json.as_ref().map(|j| j.len()).unwrap_or(64),
    };
    let caps: Vec<usize> = if all_caps {
        (0..=len + 1).collect()
    } else {
        let mut c = vec![0, len.saturating_sub(1), len, len + 1];
        for _ in 0..4 {
            c.push(rng.below(len + 2));
        }
        c.sort();
        c.dedup();
        c
    };
    let mut letters = String::new();
    for &c in &caps {
        letters.push(match (to_slice_at(v, c), &full) {
            (Ok(b), Ok(f)) => if &b == f { 'O' } else { 'X' },
            (Ok(_), Err(_)) => 'X',
            (Err(0), _) => 's',
            (Err(_), _) => 'k',
        });
    }
    let (full_tok, utf8) = match &full {
        Ok(b) => (format!("ok:{}", enc_bytes(b)), std::str::from_utf8(b).is_ok()),
        Err(0) => ("small".to_string(), true),
        Err(_) => ("keyerr".to_string(), true),
    };
    let jtok = match &json {
        Ok(j) => enc_bytes(j),
        Err(_) => "err".into(),
    };
    let capstr: Vec<String> = caps.iter().map(|c| c.to_string()).collect();
    format!("ser V {sval} J {jtok} C {} => {full_tok} {letters} u{}", capstr.join(" "), utf8 as u8)
}

/// Through the public path: `send_reply(&Reply<T>)` on a capturing connection.
pub fn public_path_bytes<T: Serialize + std::fmt::Debug>(v: T) -> Option<Vec<u8>> {
    let net = new_net(vec![]);
    let mut conn = zlink_core::Connection::new(SSocket(net.clone()));
    let r = zlink_core::Reply::new(Some(v));
    block_on(conn.send_reply(&r)).ok()?;
    let w = net.borrow().writes.concat();
    Some(w)
}

pub fn main(o: &Opts) {
    let thorough = o.thorough();
    let mut rng = Rng::new(o.seed ^ 0x736572);
    let mut em = Emitter::new(o.index);
    // (a) every Unicode scalar as 1-char string / char / map key (quick: all < 0x3000 + 4096 sampled)
    let mut scalars: Vec<u32> = (0..0x3000u32).collect();
    if thorough {
        scalars = (0..0x110000u32).collect();
    } else {
        for _ in 0..4096 {
            scalars.push(0x3000 + rng.below(0x110000 - 0x3000) as u32);
        }
        scalars.extend_from_slice(&[0xD7FF, 0xE000, 0xFFFD, 0xFFFF, 0x10000, 0x10FFFF]);
    }
    for cp in scalars {
        let Some(c) = char::from_u32(cp) else { continue };
        let which = cp % 3;
        let mut r2 = Rng::new(cp as u64);
        em.case(|| {
            let all = cp < 0x100;
            vec![match which {
                0 => value_line(&c.to_string(), all, &mut r2),
                1 => value_line(&c, all, &mut r2),
                _ => {
                    let mut m = BTreeMap::new();
                    m.insert(c, 1u8);
                    value_line(&m, all, &mut r2)
                }
            }]
        });
    }
    // (b) all pairs of escape-relevant bytes inside a string
    let rel: Vec<u8> = (0u8..0x20).chain([b'"', b'\\', b'/', b'a', 0x7f, b' ', b'u', b'0']).collect();
    for &a in &rel {
        for &b in &rel {
            let s = String::from_utf8(vec![b'x', a, b, b'y']).unwrap();
            let mut r2 = Rng::new(((a as u64) << 8) | b as u64);
            em.case(|| vec![value_line(&s, (a as usize + b as usize) % 7 == 0, &mut r2)]);
        }
    }
    // (c) all i8, u8; i16/u16 (thorough: all; quick: every 97th + edges)
    for v in i8::MIN..=i8::MAX {
        em.case(|| vec![value_line(&v, false, &mut Rng::new(v as u64))]);
    }
    for v in u8::MIN..=u8::MAX {
        em.case(|| vec![value_line(&v, false, &mut Rng::new(v as u64))]);
    }
    let step16 = if thorough { 1 } else { 97 };
    let mut v = i16::MIN as i32;
    while v <= i16::MAX as i32 {
        let x = v as i16;
        em.case(|| vec![value_line(&x, false, &mut Rng::new(v as u64))]);
        let y = (v - i16::MIN as i32) as u16;
        em.case(|| vec![value_line(&y, false, &mut Rng::new(v as u64))]);
        v += step16;
    }
    // (d) f32 bit patterns (thorough: a dense sample; the exhaustive 2^32 sweep is impl-vs-serde_json only, see `ser-f32`)
    let nf = if thorough { 400_000 } else { 4000 };
    for i in 0..nf {
        let bits = if i < 64 { (i as u32) << 26 } else { rng.next() as u32 };
        let f = f32::from_bits(bits);
        let d = f64::from_bits(rng.next());
        em.case(|| vec![value_line(&f, false, &mut Rng::new(bits as u64))]);
        em.case(|| vec![value_line(&d, false, &mut Rng::new(bits as u64))]);
    }
    // (e) random nested trees, each against every buffer length when small
    let nt = if thorough { 60_000 } else { 4000 };
    let maxall = if thorough { 600 } else { 64 };
    for i in 0..nt {
        let depth = rng.range(1, 5);
        let bad = i % 5 == 0;
        let v = gen_value(&mut rng, depth, bad);
        let mut r2 = Rng::new(rng.next());
        em.case(|| {
            let small = serde_json::to_vec(&v).map(|j| j.len() <= maxall).unwrap_or(true);
            let mut ls = vec![value_line(&v, small, &mut r2)];
            // public path: send_reply(&Reply<T>) must emit {"parameters":<same bytes>}\0
            if let (Ok(inner), Some(w)) = (to_slice_at(&v, 1 << 20), public_path_bytes(v.clone())) {
                let mut exp = b"{\"parameters\":".to_vec();
                exp.extend_from_slice(&inner);
                exp.extend_from_slice(b"}\0");
                if w != exp {
                    ls.push(format!("oracle-mismatch ser public-path value={:?}", v));
                }
            }
            ls
        });
    }
}

/// Exhaustive f32 sweep, implementation vs serde_json only (ryu is opaque to the model).
pub fn main_f32(o: &Opts) {
    let threads = 16u64;
    let stride: u64 = if o.thorough() { 1 } else { 4099 };
    let handles: Vec<_> = (0..threads)
        .map(|t| {
            std::thread::spawn(move || {
                let mut bad: Vec<u32> = vec![];
                let mut n = 0u64;
                let mut bits = t * stride;
                let mut buf = [0u8; 64];
                while bits <= u32::MAX as u64 {
                    let f = f32::from_bits(bits as u32);
                    let z = zlink_core::__verif::to_slice(&f, &mut buf).map(|k| buf[..k].to_vec());
                    let j = serde_json::to_vec(&f).unwrap();
                    if z.as_ref().ok() != Some(&j) && bad.len() < 5 {
                        bad.push(bits as u32);
                    }
                    n += 1;
                    bits += threads * stride;
                }
                (n, bad)
            })
        })
        .collect();
    let mut total = 0;
    let mut bad = vec![];
    for h in handles {
        let (n, b) = h.join().unwrap();
        total += n;
        bad.extend(b);
    }
    println!("f32-sweep evaluated={total} mismatches={}", bad.len());
    for b in bad {
        println!("oracle-mismatch ser f32 bits={b:#x}");
    }
}
