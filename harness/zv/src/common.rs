//! Shared harness utilities: PRNG, hex, manual executor, scripted sockets.
#![allow(dead_code)]

use std::{
    cell::RefCell,
    future::Future,
    pin::Pin,
    rc::Rc,
    task::{Context, Poll, RawWaker, RawWakerVTable, Waker},
};

/// SplitMix64: every random choice of a scenario derives from one state.
#[derive(Clone)]
pub struct Rng(pub u64);
impl Rng {
    pub fn new(seed: u64) -> Self {
        Rng(seed.wrapping_mul(0x9E3779B97F4A7C15) ^ 0xD1B54A32D192ED03)
    }
    pub fn next(&mut self) -> u64 {
        self.0 = self.0.wrapping_add(0x9E3779B97F4A7C15);
        let mut z = self.0;
        z = (z ^ (z >> 30)).wrapping_mul(0xBF58476D1CE4E5B9);
        z = (z ^ (z >> 27)).wrapping_mul(0x94D049BB133111EB);
        z ^ (z >> 31)
    }
    pub fn below(&mut self, n: usize) -> usize {
        if n == 0 {
            0
        } else {
            (self.next() % n as u64) as usize
        }
    }
    pub fn range(&mut self, lo: usize, hi: usize) -> usize {
        lo + self.below(hi - lo + 1)
    }
    pub fn chance(&mut self, num: usize, den: usize) -> bool {
        self.below(den) < num
    }
    pub fn pick<'a, T>(&mut self, xs: &'a [T]) -> &'a T {
        &xs[self.below(xs.len())]
    }
}

pub fn hex(bytes: &[u8]) -> String {
    const H: &[u8; 16] = b"0123456789abcdef";
    let mut s = String::with_capacity(bytes.len() * 2 + 1);
    if bytes.is_empty() {
        return "-".to_string();
    }
    for b in bytes {
        s.push(H[(b >> 4) as usize] as char);
        s.push(H[(b & 15) as usize] as char);
    }
    s
}

pub fn unhex(s: &str) -> Vec<u8> {
    if s == "-" {
        return vec![];
    }
    let b = s.as_bytes();
    (0..b.len() / 2)
        .map(|i| {
            let h = |c: u8| match c {
                b'0'..=b'9' => c - b'0',
                b'a'..=b'f' => c - b'a' + 10,
                _ => 0,
            };
            h(b[2 * i]) * 16 + h(b[2 * i + 1])
        })
        .collect()
}

/// Byte strings on the wire of the line protocol: pieces joined by `+`; `h<hex>` literal bytes,
/// `r<count>x<hexbyte>` a run. The empty string is `-`.
pub fn enc_bytes(bytes: &[u8]) -> String {
    if bytes.is_empty() {
        return "-".into();
    }
    let mut out: Vec<String> = vec![];
    let mut lit: Vec<u8> = vec![];
    let mut i = 0;
    while i < bytes.len() {
        let mut j = i;
        while j < bytes.len() && bytes[j] == bytes[i] {
            j += 1;
        }
        if j - i >= 12 {
            if !lit.is_empty() {
                out.push(format!("h{}", hex(&lit)));
                lit.clear();
            }
            out.push(format!("r{}x{:02x}", j - i, bytes[i]));
        } else {
            lit.extend_from_slice(&bytes[i..j]);
        }
        i = j;
    }
    if !lit.is_empty() {
        out.push(format!("h{}", hex(&lit)));
    }
    out.join("+")
}

pub fn fnv(s: &[u8]) -> u64 {
    let mut h: u64 = 0xcbf29ce484222325;
    for b in s {
        h ^= *b as u64;
        h = h.wrapping_mul(0x100000001b3);
    }
    h
}

// ---------------------------------------------------------------- manual executor

fn noop_raw() -> RawWaker {
    fn clone(_: *const ()) -> RawWaker {
        noop_raw()
    }
    fn noop(_: *const ()) {}
    static VT: RawWakerVTable = RawWakerVTable::new(clone, noop, noop, noop);
    RawWaker::new(core::ptr::null(), &VT)
}
pub fn noop_waker() -> Waker {
    unsafe { Waker::from_raw(noop_raw()) }
}

/// Polls a future exactly once with a no-op waker.
pub fn poll_once<F: Future + ?Sized>(fut: Pin<&mut F>) -> Poll<F::Output> {
    let w = noop_waker();
    let mut cx = Context::from_waker(&w);
    fut.poll(&mut cx)
}

/// Runs a future to completion assuming it never stays pending for ever (panics after `limit`
/// pending polls).
pub fn block_on<F: Future>(fut: F) -> F::Output {
    let mut fut = Box::pin(fut);
    for _ in 0..1_000_000 {
        if let Poll::Ready(v) = poll_once(fut.as_mut()) {
            return v;
        }
    }
    panic!("future stayed pending");
}

// ---------------------------------------------------------------- scripted transport

/// What the transport holds for one connection (shared between the test and the socket halves).
#[derive(Debug, Default)]
pub struct Net {
    /// Arrived, not yet read.
    pub avail: std::collections::VecDeque<u8>,
    /// Peer closed: a read on empty `avail` returns 0.
    pub closed: bool,
    /// A read on empty `avail` fails with an I/O error instead.
    pub read_fail: bool,
    /// Read-size schedule (k-th read hands over at most `sizes[k]` bytes; exhausted = no limit).
    pub sizes: Vec<usize>,
    pub k: usize,
    /// Everything written, one entry per `write` call.
    pub writes: Vec<Vec<u8>>,
    /// The k-th write (0-based) and all later ones fail.
    pub write_fail_from: Option<usize>,
    pub nwrites: usize,
    /// Number of `read` calls that returned bytes.
    pub reads: usize,
    /// The waker of the task whose `read` returned `Pending` last (the transport's side of the waker contract):
    /// woken and cleared by `Net::wake` when bytes arrive, the peer closes or reads start failing.
    pub waker: Option<Waker>,
    /// Global order of the transport writes of a scenario: every successful write appends `gid` to the shared log.
    pub gid: usize,
    pub glog: Option<Rc<RefCell<Vec<usize>>>>,
}

impl Net {
    /// Something a pending `read` waits for has happened.
    pub fn wake(&mut self) {
        if let Some(w) = self.waker.take() {
            w.wake();
        }
    }
}

/// The executor's side of the waker contract: a flag that the task's waker sets.
pub struct WakeFlag(pub std::sync::atomic::AtomicBool);
impl std::task::Wake for WakeFlag {
    fn wake(self: std::sync::Arc<Self>) {
        self.0.store(true, std::sync::atomic::Ordering::SeqCst);
    }
    fn wake_by_ref(self: &std::sync::Arc<Self>) {
        self.0.store(true, std::sync::atomic::Ordering::SeqCst);
    }
}
impl WakeFlag {
    /// A freshly spawned task is scheduled once.
    pub fn new() -> std::sync::Arc<Self> {
        std::sync::Arc::new(WakeFlag(std::sync::atomic::AtomicBool::new(true)))
    }
    pub fn take(&self) -> bool {
        self.0.swap(false, std::sync::atomic::Ordering::SeqCst)
    }
}

/// Polls a future once with the flag's waker.
pub fn poll_flag<F: Future + ?Sized>(fut: Pin<&mut F>, flag: &std::sync::Arc<WakeFlag>) -> Poll<F::Output> {
    let w = Waker::from(flag.clone());
    let mut cx = Context::from_waker(&w);
    fut.poll(&mut cx)
}

pub type NetRef = Rc<RefCell<Net>>;

pub fn new_net(sizes: Vec<usize>) -> NetRef {
    Rc::new(RefCell::new(Net {
        sizes,
        ..Default::default()
    }))
}

#[derive(Debug)]
pub struct SSocket(pub NetRef);
#[derive(Debug)]
pub struct SRead(pub NetRef);
#[derive(Debug)]
pub struct SWrite(pub NetRef);

impl zlink_core::connection::socket::Socket for SSocket {
    type ReadHalf = SRead;
    type WriteHalf = SWrite;
    fn split(self) -> (SRead, SWrite) {
        (SRead(self.0.clone()), SWrite(self.0))
    }
}

fn io_err() -> zlink_core::Error {
    zlink_core::Error::Io(std::io::Error::new(std::io::ErrorKind::Other, "scripted"))
}

impl zlink_core::connection::socket::ReadHalf for SRead {
    fn read(&mut self, buf: &mut [u8]) -> impl Future<Output = zlink_core::Result<usize>> {
        let net = self.0.clone();
        std::future::poll_fn(move |cx| {
            let mut n = net.borrow_mut();
            let lim = n.sizes.get(n.k).copied().unwrap_or(usize::MAX).max(1);
            let cnt = lim.min(buf.len()).min(n.avail.len());
            if cnt == 0 {
                if !n.avail.is_empty() {
                    // Zero-length buffer handed to read: report as a 0-byte read.
                    return Poll::Ready(Ok(0));
                }
                if n.read_fail {
                    return Poll::Ready(Err(io_err()));
                }
                if n.closed {
                    return Poll::Ready(Ok(0));
                }
                n.waker = Some(cx.waker().clone());
                return Poll::Pending;
            }
            for b in buf.iter_mut().take(cnt) {
                *b = n.avail.pop_front().unwrap();
            }
            n.k += 1;
            n.reads += 1;
            Poll::Ready(Ok(cnt))
        })
    }
}

impl zlink_core::connection::socket::WriteHalf for SWrite {
    fn write(&mut self, buf: &[u8]) -> impl Future<Output = zlink_core::Result<()>> {
        let net = self.0.clone();
        let data = buf.to_vec();
        async move {
            let mut n = net.borrow_mut();
            let idx = n.nwrites;
            n.nwrites += 1;
            if let Some(k) = n.write_fail_from {
                if idx >= k {
                    return Err(io_err());
                }
            }
            n.writes.push(data);
            if let Some(g) = &n.glog {
                g.borrow_mut().push(n.gid);
            }
            Ok(())
        }
    }
}

pub fn err_token(e: &zlink_core::Error) -> String {
    use zlink_core::Error as E;
    match e {
        E::Json(_) => "json".into(),
        E::UnexpectedEof => "eof".into(),
        E::BufferOverflow => "overflow".into(),
        E::Io(_) => "io".into(),
        E::VarlinkService(s) => format!("svc:{:016x}", fnv(format!("{s:?}").as_bytes())),
        other => format!("other:{:016x}", fnv(format!("{other:?}").as_bytes())),
    }
}

pub fn ok_token<T: core::fmt::Debug>(v: &T) -> String {
    format!("ok:{:016x}", fnv(format!("{v:?}").as_bytes()))
}

/// Output sink: one call per case; `--index i` runs and prints only case `i` (replay).
pub struct Emitter {
    pub only: Option<usize>,
    pub n: usize,
    w: std::io::BufWriter<std::io::Stdout>,
}
impl Emitter {
    pub fn new(only: Option<usize>) -> Self {
        Emitter { only, n: 0, w: std::io::BufWriter::new(std::io::stdout()) }
    }
    pub fn case(&mut self, f: impl FnOnce() -> Vec<String>) {
        use std::io::Write;
        let i = self.n;
        self.n += 1;
        if self.only.map_or(true, |o| o == i) {
            match std::panic::catch_unwind(std::panic::AssertUnwindSafe(f)) {
                Ok(ls) => {
                    for l in ls {
                        writeln!(self.w, "{l}").unwrap();
                    }
                }
                Err(e) => {
                    let msg = e
                        .downcast_ref::<String>()
                        .cloned()
                        .or_else(|| e.downcast_ref::<&str>().map(|s| s.to_string()))
                        .unwrap_or_else(|| "?".into());
                    writeln!(self.w, "panic index={i} {}", msg.replace('\n', " ")).unwrap();
                }
            }
        }
    }
}

pub struct Opts {
    pub tier: String,
    pub seed: u64,
    pub only: Option<String>,
    pub index: Option<usize>,
    pub limit: usize,
}
impl Opts {
    pub fn thorough(&self) -> bool {
        self.tier == "thorough"
    }
}
