//! `zv <scenario> [--tier quick|thorough] [--seed N] [--only X]`: runs the real zlink code on
//! generated inputs and prints one line per case (input + canonical observation).
mod common;
mod rx;

fn main() {
    let args: Vec<String> = std::env::args().collect();
    let scenario = args.get(1).cloned().unwrap_or_default();
    let mut tier = "quick".to_string();
    let mut seed = 1u64;
    let mut only: Option<String> = None;
    let mut i = 2;
    while i < args.len() {
        match args[i].as_str() {
            "--tier" => { tier = args[i + 1].clone(); i += 1; }
            "--seed" => { seed = args[i + 1].parse().unwrap_or(1); i += 1; }
            "--only" => { only = Some(args[i + 1].clone()); i += 1; }
            _ => {}
        }
        i += 1;
    }
    match scenario.as_str() {
        "rx" => rx::main(&tier, seed, only.as_deref()),
        other => {
            eprintln!("unknown scenario {other}");
            std::process::exit(2);
        }
    }
}
