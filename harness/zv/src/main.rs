//! `zv <scenario> [--tier quick|thorough] [--seed N] [--only X] [--index I] [--limit N]`: runs the
//! real zlink code on generated inputs and prints one line per case (input + canonical observation).
mod common;
mod alias;
mod moving_alloc;

#[global_allocator]
static ALLOC: moving_alloc::MovingAlloc = moving_alloc::MovingAlloc;

mod chain;
mod env;
mod idl;
mod rx;
mod ser;
mod server;
mod tx;

fn main() {
    // a panic inside zlink is an observation of the case that triggered it, not a harness failure
    std::panic::set_hook(Box::new(|_| {}));
    let args: Vec<String> = std::env::args().collect();
    let scenario = args.get(1).cloned().unwrap_or_default();
    let mut o = common::Opts { tier: "quick".into(), seed: 1, only: None, index: None, limit: 64 * 1024 };
    let mut i = 2;
    while i < args.len() {
        let v = args.get(i + 1).cloned().unwrap_or_default();
        match args[i].as_str() {
            "--tier" => { o.tier = v; i += 1; }
            "--seed" => { o.seed = v.parse().unwrap_or(1); i += 1; }
            "--only" => { o.only = Some(v); i += 1; }
            "--index" => { o.index = v.parse().ok(); i += 1; }
            "--limit" => { o.limit = v.parse().unwrap_or(64 * 1024); i += 1; }
            _ => {}
        }
        i += 1;
    }
    match scenario.as_str() {
        "probe" => {
            // zv probe <receiver kind> <frame text>: what a fresh connection returns for this frame alone
            let kind = args.get(2).cloned().unwrap_or_default();
            let text = args.get(3).cloned().unwrap_or_default();
            println!("{}", rx::reference_verbose(&kind, text.as_bytes()));
        }
        "rx" => rx::main(&o),
        "rx-bounds" => rx::main_bounds(&o),
        "alias" => alias::main(&o),
        "chain" => chain::main(&o),
        "idl" => idl::main_idl(&o),
        "idlrt" => idl::main_idlrt(&o),
        "idlx" => idl::main_idlx(&o),
        "reply" => env::main_reply(&o),
        "envelope" => env::main_envelope(&o),
        "ser" => ser::main(&o),
        "ser-f32" => ser::main_f32(&o),
        "srv" | "srv-faults" | "srv-stream" | "srv-fair" => server::main(&o, &scenario),
        "tx" => tx::main(&o, false),
        "tx-bounds" => tx::main(&o, true),
        other => {
            eprintln!("unknown scenario {other}");
            std::process::exit(2);
        }
    }
}
