//! `zv <scenario> [--tier quick|thorough] [--seed N] [--only X] [--index I] [--limit N]`: runs the
//! real zlink code on generated inputs and prints one line per case (input + canonical observation).
mod common;
mod alias;
mod moving_alloc;

#[global_allocator]
static ALLOC: moving_alloc::MovingAlloc = moving_alloc::MovingAlloc;

mod chain;
mod env;
mod idl;
mod rx;
mod ser;
mod server;
mod tx;

fn main() {
    // a panic inside zlink is an observation of the case that triggered it, not a harness failure
    std::panic::set_hook(Box::new(|_| {}));
    let args: Vec<String> = std::env::args().collect();
    let scenario = args.get(1).cloned().unwrap_or_default();
    let mut o = common::Opts { tier: "quick".into(), seed: 1, only: None, index: None, limit: 64 * 1024 };
    let mut i = 2;
    while i < args.len() {
        let v = args.get(i + 1).cloned().unwrap_or_default();
        match args[i].as_str() {
            "--tier" => { o.tier = v; i += 1; }
            "--seed" => { o.seed = v.parse().unwrap_or(1); i += 1; }
            "--only" => { o.only = Some(v); i += 1; }
            "--index" => { o.index = v.parse().ok(); i += 1; }
            "--limit" => { o.limit = v.parse().unwrap_or(64 * 1024); i += 1; }
            _ => {}
        }
        i += 1;
    }
    match scenario.as_str() {
        "probe" => {
            // zv probe <receiver kind> <frame text>: what a fresh connection returns for this frame alone
            let kind = args.get(2).cloned().unwrap_or_default();
            let text = args.get(3).cloned().unwrap_or_default();
            println!("{}", rx::reference_verbose(&kind, text.as_bytes()));
        }
        "tables" => tables(),
        "rx" => rx::main(&o),
        "rx-bounds" => rx::main_bounds(&o),
        "alias" => alias::main(&o),
        "chain" => chain::main(&o),
        "idl" => idl::main_idl(&o),
        "idlrt" => idl::main_idlrt(&o),
        "idlx" => idl::main_idlx(&o),
        "reply" => env::main_reply(&o),
        "envelope" => env::main_envelope(&o),
        "ser" => ser::main(&o),
        "ser-f32" => ser::main_f32(&o),
        "srv" | "srv-faults" | "srv-stream" | "srv-fair" => server::main(&o, &scenario),
        "tx" => tx::main(&o, false),
        "tx-bounds" => tx::main(&o, true),
        other => {
            eprintln!("unknown scenario {other}");
            std::process::exit(2);
        }
    }
}

/// `zv tables`: finite tables of the code under test read off its *behaviour* (used by extract/extract.py when the
/// source no longer has the textual shape its patterns expect - a table rebuilt by a `const fn`, flags written in a loop).
///
/// `esc`: entry `b` of the string-escape table = the letter after the backslash the serializer writes for byte `b`
/// (0 = written raw). Bytes below 0x80 are serialized as one-character strings; continuation and lead bytes inside a
/// character that contains them; the bytes that occur in no valid UTF-8 string (C0, C1, F5..FF) cannot be observed and
/// are reported as 0. `hex`: the digit written for each nibble value in `\u00XY`.
/// `flags-ser`: the member names `Call` adds when all three flags are set, in order; `flags-de`: which of those names
/// a decoded call recognises as (oneway, more, upgrade).
fn tables() {
    fn ser(s: &str) -> Vec<u8> {
        let mut buf = vec![0u8; 64];
        let n = zlink_core::__verif::to_slice(&s, &mut buf).expect("string serializes");
        buf[..n].to_vec()
    }
    let mut esc = vec![0u32; 256];
    let mut hex = vec![0u32; 16];
    for b in 0u8..128 {
        let s = (b as char).to_string();
        let out = ser(&s);
        let inner = &out[1..out.len() - 1];
        if inner == [b] {
            esc[b as usize] = 0;
        } else if inner.len() >= 2 && inner[0] == b'\\' {
            esc[b as usize] = inner[1] as u32;
            if inner.len() == 6 && inner[1] == b'u' && b >= 0x10 {
                hex[(b & 15) as usize] = inner[5] as u32;
                hex[(b >> 4) as usize] = inner[4] as u32;
                hex[0] = inner[2] as u32;
            }
        } else {
            esc[b as usize] = 255; // neither raw nor a backslash escape: not a table this translator understands
        }
    }
    // bytes >= 0x80 as part of a character that contains them
    for cp in [0x80u32, 0xBF, 0x7FF, 0x800, 0xFFFF, 0x10000, 0x10FFFF, 0x3FFFF, 0xFFFFF].iter().chain((0x80u32..0x800).step_by(0x40).collect::<Vec<_>>().iter()).chain((0x800u32..0x10000).step_by(0x1000).collect::<Vec<_>>().iter()).chain((0x10000u32..0x110000).step_by(0x40000).collect::<Vec<_>>().iter()) {
        if let Some(c) = char::from_u32(*cp) {
            let s = c.to_string();
            let out = ser(&s);
            let raw = &out[1..out.len() - 1] == s.as_bytes();
            for b in s.bytes() {
                if !raw {
                    esc[b as usize] = 255;
                }
            }
        }
    }
    println!("esc {}", esc.iter().map(|v| v.to_string()).collect::<Vec<_>>().join(" "));
    println!("hex {}", hex.iter().map(|v| v.to_string()).collect::<Vec<_>>().join(" "));
    // call flags
    #[derive(serde::Serialize, serde::Deserialize, Debug)]
    #[serde(tag = "method", content = "parameters")]
    enum M {
        #[serde(rename = "x.A")]
        A,
    }
    let all = zlink_core::Call::new(M::A).set_oneway(true).set_more(true).set_upgrade(true);
    let j = serde_json::to_string(&all).unwrap_or_default();
    let v: serde_json::Value = serde_json::from_str(&j).unwrap_or_default();
    // member order as written (serde_json::Value would sort): scan the text for the members whose value is `true`
    let mut names: Vec<(usize, String)> = vec![];
    if let Some(o) = v.as_object() {
        for (k, val) in o {
            if val == &serde_json::Value::Bool(true) {
                if let Some(pos) = j.find(&format!("\"{k}\":")) {
                    names.push((pos, k.clone()));
                }
            }
        }
    }
    names.sort();
    let ser_names: Vec<String> = names.into_iter().map(|(_, k)| k).collect();
    println!("flags-ser {}", ser_names.join(" "));
    let mut de = vec![];
    for (i, k) in ser_names.iter().enumerate() {
        let text = format!("{{\"method\":\"x.A\",\"{k}\":true}}");
        if let Ok(c) = serde_json::from_str::<zlink_core::Call<M>>(&text) {
            let got = (c.oneway(), c.more(), c.upgrade());
            let want = (i == 0, i == 1, i == 2);
            if got == want {
                de.push(k.clone());
            }
        }
    }
    println!("flags-de {}", de.join(" "));
    intro_tables();
    idl_tables();
}

/// `intro-atom <rust type>=<IDL variant>` / `intro-ctor <constructor>=<Optional|Array|Map|Transparent>`: what
/// `<T as introspect::Type>::TYPE` is for the std types the model knows, read off the constant itself (however the
/// impls are written: by hand, by `impl_type!`, by another macro).
fn intro_tables() {
    use zlink_core::introspect::Type;
    fn head(t: &zlink_core::idl::Type<'static>) -> String {
        let d = format!("{t:?}");
        d.split(|c: char| !c.is_alphanumeric()).next().unwrap_or("").to_string()
    }
    let mut atoms: Vec<(&str, String)> = vec![];
    macro_rules! atom { ($name:expr, $t:ty) => { atoms.push(($name, head(<$t as Type>::TYPE))); }; }
    atom!("bool", bool); atom!("i8", i8); atom!("i16", i16); atom!("i32", i32); atom!("i64", i64);
    atom!("u8", u8); atom!("u16", u16); atom!("u32", u32); atom!("u64", u64); atom!("isize", isize); atom!("usize", usize);
    atom!("f32", f32); atom!("f64", f64); atom!("&str", &str); atom!("str", str); atom!("char", char); atom!("String", String);
    atom!("unit", ()); atom!("serde_json::Value", serde_json::Value);
    atom!("core::time::Duration", core::time::Duration); atom!("std::time::Instant", std::time::Instant);
    atom!("std::time::SystemTime", std::time::SystemTime); atom!("std::path::PathBuf", std::path::PathBuf);
    atom!("std::path::Path", std::path::Path); atom!("std::ffi::OsString", std::ffi::OsString); atom!("std::ffi::OsStr", std::ffi::OsStr);
    atom!("core::net::IpAddr", core::net::IpAddr); atom!("core::net::Ipv4Addr", core::net::Ipv4Addr);
    atom!("core::net::Ipv6Addr", core::net::Ipv6Addr); atom!("core::net::SocketAddr", core::net::SocketAddr);
    atom!("core::net::SocketAddrV4", core::net::SocketAddrV4); atom!("core::net::SocketAddrV6", core::net::SocketAddrV6);
    println!("intro-atoms {}", atoms.iter().map(|(a, b)| format!("{a}={b}")).collect::<Vec<_>>().join(" "));
    // constructors applied to `bool`: the head of the result tells the kind; `Bool` itself = transparent
    let mut ctors: Vec<(&str, String)> = vec![];
    macro_rules! ctor { ($name:expr, $t:ty) => { {
        let h = head(<$t as Type>::TYPE);
        ctors.push(($name, if h == "Bool" { "Transparent".to_string() } else { h }));
    } }; }
    use std::collections::{BTreeMap, BTreeSet, HashMap, HashSet};
    ctor!("Option", Option<bool>); ctor!("Box", Box<bool>); ctor!("std::rc::Rc", std::rc::Rc<bool>);
    ctor!("std::sync::Arc", std::sync::Arc<bool>); ctor!("std::cell::Cell", std::cell::Cell<bool>);
    ctor!("std::cell::RefCell", std::cell::RefCell<bool>); ctor!("std::borrow::Cow", std::borrow::Cow<'static, bool>);
    ctor!("Vec", Vec<bool>); ctor!("&[]", &[bool]); ctor!("HashMap<String>", HashMap<String, bool>);
    ctor!("HashMap<&str>", HashMap<&str, bool>); ctor!("BTreeMap<String>", BTreeMap<String, bool>);
    ctor!("BTreeMap<&str>", BTreeMap<&str, bool>); ctor!("HashSet", HashSet<bool>); ctor!("BTreeSet", BTreeSet<bool>);
    println!("intro-ctors {}", ctors.iter().map(|(a, b)| format!("{a}={b}")).collect::<Vec<_>>().join(" "));
}

/// The literals of the IDL grammar as the parser and the `Display` impls *behave*: a primitive name is reported
/// with the `Type` variant a field of that type parses to; a member keyword / punctuation mark is reported when a
/// text using it parses and the same text with the literal damaged does not; a `Display` keyword is what the
/// rendering of a one-member description starts its member line with.
fn idl_tables() {
    use zlink_core::idl::Interface;
    let parse_ok = |t: &str| Interface::try_from(t).is_ok();
    let mut prims = vec![];
    for name in ["bool", "int", "float", "string", "object"] {
        let text = format!("interface a.b\ntype T (x: {name})\n");
        if let Ok(i) = Interface::try_from(text.as_str()) {
            let d = format!("{i:?}");
            // the field's type is the only `TypeRef(..(<Variant>))` of the description
            for v in ["Bool", "Int", "Float", "String", "ForeignObject", "Object", "Custom"] {
                if d.contains(&format!("({v})")) || d.contains(&format!("({v}(")) {
                    prims.push(format!("{name}={v}"));
                    break;
                }
            }
        }
    }
    println!("idl-prims {}", prims.join(" "));
    let base = "interface a.b\ntype T (x: ?[][string]int, y: bool)\nmethod M(a: int) -> (b: int)\nerror E (c: int)\n# c\ntype U (v, w)\n";
    let mut kws = vec![];
    let mut punct = vec![];
    if parse_ok(base) {
        for kw in ["error", "interface", "method", "type"] {
            let damaged = base.replacen(kw, &format!("{}x", &kw[..kw.len() - 1]), 1);
            if !parse_ok(&damaged) {
                kws.push(kw);
            }
        }
        for (p, repl) in [("#", "%"), ("(", "{"), (")", "}"), (",", ";"), ("->", "=>"), (":", "="), ("?", "!"), ("[]", "<>"), ("[string]", "[strinx]")] {
            let damaged = base.replacen(p, repl, 1);
            if !parse_ok(&damaged) {
                punct.push(p);
            }
        }
    }
    println!("idl-kws {}", kws.join(" "));
    println!("idl-punct {}", punct.join(" "));
    // Display keywords: render a parsed description and look at how each member line starts
    let mut disp = vec![];
    if let Ok(i) = Interface::try_from(base) {
        let out = i.to_string();
        for (file, kw) in [("interface.rs", "interface"), ("method.rs", "method"), ("error.rs", "error"), ("custom_object.rs", "type"), ("custom_enum.rs", "type")] {
            let probe = match file {
                "interface.rs" => "interface a.b",
                "method.rs" => "method M(",
                "error.rs" => "error E (",
                "custom_object.rs" => "type T (",
                _ => "type U (",
            };
            if out.lines().any(|l| l.starts_with(probe)) {
                disp.push(format!("{file}={kw}_"));
            }
        }
    }
    println!("idl-display {}", disp.join(" "));
}
