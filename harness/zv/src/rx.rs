//! Scenario `rx`: the receive path driven event by event (C01, C07, C17).
//!
//! One case = receiver kind, frames the peer sends, read-size schedule, and an event list
//! `A<bytes>` (bytes arrive), `C` (peer closes), `P` (create a receive future, poll it once, drop
//! it), `Q` (poll the retained receive future, creating one if none is retained; it is retained
//! while pending). The observation is one token per poll.

use crate::common::*;
use serde::{Deserialize, Serialize};
use std::{future::Future, pin::Pin, task::Poll};
use zlink_core::{varlink_service, Connection, ReplyError};

#[derive(Debug, Serialize, Deserialize, PartialEq)]
#[serde(tag = "method", content = "parameters")]
pub enum M1 {
    #[serde(rename = "x.A")]
    A { v: String },
    #[serde(rename = "x.B")]
    B,
    #[serde(rename = "x.C")]
    C { n: u32, o: Option<i64> },
}

#[derive(Debug, Serialize, Deserialize, PartialEq)]
#[serde(tag = "method", content = "parameters")]
pub enum M2<'a> {
    #[serde(rename = "x.A")]
    A { v: &'a str },
    #[serde(rename = "x.B")]
    B,
}

#[derive(Debug, Serialize, Deserialize, PartialEq)]
pub struct P1 {
    pub name: String,
}
#[derive(Debug, Serialize, Deserialize, PartialEq)]
pub struct P2<'a> {
    pub name: &'a str,
}
#[derive(Debug, Serialize, Deserialize, PartialEq, Default)]
pub struct P3 {
    pub a: Option<u32>,
    pub b: Option<String>,
}

#[derive(Debug, ReplyError, PartialEq)]
#[zlink(interface = "x", crate = "zlink_core")]
pub enum E1 {
    Y,
    Z { code: i32 },
}

#[derive(Debug, ReplyError, PartialEq)]
#[zlink(interface = "x", crate = "zlink_core")]
pub enum E2<'a> {
    Y,
    W { msg: &'a str },
}

pub type Conn = Connection<SSocket>;
type BoxFut<'a> = Pin<Box<dyn Future<Output = String> + 'a>>;

fn tok<T: core::fmt::Debug>(r: zlink_core::Result<T>) -> String {
    match r {
        Ok(v) => ok_token(&v),
        Err(e) => err_token(&e),
    }
}

pub const KINDS: &[&str] = &["cM1", "cM2", "cSvc", "rP1E1", "rUnitE1", "rValE1", "rP2E2", "rP3E1"];

pub fn recv_fut<'a>(kind: &str, conn: &'a mut Conn) -> BoxFut<'a> {
    match kind {
        "cM1" => Box::pin(async move { tok(conn.receive_call::<M1>().await) }),
        "cM2" => Box::pin(async move { tok(conn.receive_call::<M2<'_>>().await) }),
        "cSvc" => Box::pin(async move { tok(conn.receive_call::<varlink_service::Method<'_>>().await) }),
        "rP1E1" => Box::pin(async move { tok(conn.receive_reply::<P1, E1>().await) }),
        "rUnitE1" => Box::pin(async move { tok(conn.receive_reply::<(), E1>().await) }),
        "rValE1" => Box::pin(async move { tok(conn.receive_reply::<serde_json::Value, E1>().await) }),
        "rP2E2" => Box::pin(async move { tok(conn.receive_reply::<P2<'_>, E2<'_>>().await) }),
        "rP3E1" => Box::pin(async move { tok(conn.receive_reply::<P3, E1>().await) }),
        _ => panic!("unknown receiver kind {kind}"),
    }
}

/// Human-readable variant of `reference` (debug output of the result).
pub fn reference_verbose(kind: &str, frame: &[u8]) -> String {
    fn v<T: core::fmt::Debug>(r: zlink_core::Result<T>) -> String {
        format!("{r:?}")
    }
    let net = new_net(vec![]);
    {
        let mut n = net.borrow_mut();
        n.avail.extend(frame.iter().copied());
        n.avail.push_back(0);
        n.closed = true;
    }
    let mut conn = Connection::new(SSocket(net));
    match kind {
        "cM1" => v(block_on(conn.receive_call::<M1>())),
        "cM2" => v(block_on(conn.receive_call::<M2<'_>>())),
        "cSvc" => v(block_on(conn.receive_call::<varlink_service::Method<'_>>())),
        "rP1E1" => v(block_on(conn.receive_reply::<P1, E1>())),
        "rUnitE1" => v(block_on(conn.receive_reply::<(), E1>())),
        "rValE1" => v(block_on(conn.receive_reply::<serde_json::Value, E1>())),
        "rP2E2" => v(block_on(conn.receive_reply::<P2<'_>, E2<'_>>())),
        "rP3E1" => v(block_on(conn.receive_reply::<P3, E1>())),
        _ => "unknown kind".into(),
    }
}

/// Reference verdict for one frame: what a fresh connection returns for this frame alone,
/// delivered in one read.
pub fn reference(kind: &str, frame: &[u8]) -> String {
    let net = new_net(vec![]);
    {
        let mut n = net.borrow_mut();
        n.avail.extend(frame.iter().copied());
        n.avail.push_back(0);
        n.closed = true;
    }
    let mut conn = Connection::new(SSocket(net));
    block_on(recv_fut(kind, &mut conn))
}

/// Independent verdict for call receivers: serde_json on exactly the frame's bytes.
pub fn independent_call_verdict(kind: &str, frame: &[u8]) -> Option<String> {
    fn t<T: core::fmt::Debug>(r: Result<T, serde_json::Error>) -> String {
        match r {
            Ok(v) => ok_token(&v),
            Err(_) => "json".into(),
        }
    }
    match kind {
        "cM1" => Some(t(serde_json::from_slice::<zlink_core::Call<M1>>(frame))),
        "cM2" => Some(t(serde_json::from_slice::<zlink_core::Call<M2<'_>>>(frame))),
        "cSvc" => Some(t(serde_json::from_slice::<zlink_core::Call<varlink_service::Method<'_>>>(frame))),
        _ => None,
    }
}

#[derive(Clone, Debug)]
pub enum Ev {
    Arrive(Vec<u8>),
    Close,
    P,
    Q,
    /// wake-driven executor: poll the retained receive only if its waker has fired since it was last polled (a
    /// receive that is not in progress is started and polled at once)
    W,
}

pub struct Case {
    pub kind: String,
    pub frames: Vec<Vec<u8>>,
    pub sizes: Vec<usize>,
    pub evs: Vec<Ev>,
}

/// Runs one case against the real connection, returns one token per poll.
pub fn run_case(c: &Case) -> Vec<String> {
    let net = new_net(c.sizes.clone());
    let mut conn = Connection::new(SSocket(net.clone()));
    let connp: *mut Conn = &mut conn;
    let mut retained: Option<BoxFut<'_>> = None;
    let mut outs = vec![];
    let flag = WakeFlag::new();
    for ev in &c.evs {
        match ev {
            Ev::Arrive(b) => {
                let mut n = net.borrow_mut();
                n.avail.extend(b.iter().copied());
                n.wake();
            }
            Ev::Close => {
                let mut n = net.borrow_mut();
                n.closed = true;
                n.wake();
            }
            Ev::P => {
                retained = None; // abandon any retained future first
                flag.take();
                // SAFETY: no other future borrowing the connection is alive.
                let mut f = recv_fut(&c.kind, unsafe { &mut *connp });
                match poll_flag(f.as_mut(), &flag) {
                    Poll::Ready(s) => outs.push(s),
                    Poll::Pending => outs.push("pend".into()),
                }
                drop(f);
            }
            Ev::W if retained.is_some() && !flag.take() => {}
            Ev::Q | Ev::W => {
                if retained.is_none() {
                    // SAFETY: as above.
                    retained = Some(recv_fut(&c.kind, unsafe { &mut *connp }));
                }
                flag.take();
                match poll_flag(retained.as_mut().unwrap().as_mut(), &flag) {
                    Poll::Ready(s) => {
                        outs.push(s);
                        retained = None;
                    }
                    Poll::Pending => outs.push("pend".into()),
                }
            }
        }
    }
    drop(retained);
    outs
}

pub fn case_line(c: &Case, outs: &[String]) -> String {
    let mut s = format!("rx {} F", c.kind);
    for f in &c.frames {
        s.push(' ');
        s.push_str(&enc_bytes(f));
        s.push('=');
        s.push_str(&reference(&c.kind, f));
    }
    s.push_str(" S");
    for z in &c.sizes {
        s.push_str(&format!(" {z}"));
    }
    s.push_str(" E");
    for e in &c.evs {
        match e {
            Ev::Arrive(b) => s.push_str(&format!(" A{}", enc_bytes(b))),
            Ev::Close => s.push_str(" C"),
            Ev::P => s.push_str(" P"),
            Ev::Q => s.push_str(" Q"),
            Ev::W => s.push_str(" W"),
        }
    }
    s.push_str(" =>");
    for o in outs {
        s.push(' ');
        s.push_str(o);
    }
    s
}

// ------------------------------------------------------------------------------ generators

fn jstr(n: usize, rng: &mut Rng) -> String {
    // A JSON-safe string body of n bytes.
    const AL: &[u8] = b"abcdefghijklmnopqrstuvwxyzABCDEFGHIJKLMNOPQRSTUVWXYZ0123456789 _-";
    (0..n).map(|_| AL[rng.below(AL.len())] as char).collect()
}

fn is_call(kind: &str) -> bool {
    kind.starts_with('c')
}

/// A frame of one of the kinds: valid / wrong shape / malformed / padded, for this receiver.
pub fn gen_frame(kind: &str, rng: &mut Rng) -> Vec<u8> {
    let valid_calls: &[&str] = &[
        r#"{"method":"x.A","parameters":{"v":"s"}}"#,
        r#"{"method":"x.B"}"#,
        r#"{"method":"x.B","oneway":true}"#,
        r#"{"more":true,"method":"x.A","parameters":{"v":"hello"}}"#,
        r#"{"method":"x.C","parameters":{"n":7,"o":-3}}"#,
        r#"{"method":"x.C","parameters":{"n":7}}"#,
        r#"{"method":"org.varlink.service.GetInfo"}"#,
        r#"{"method":"org.varlink.service.GetInterfaceDescription","parameters":{"interface":"x"}}"#,
        r#"{"method":"x.A","parameters":{"v":"a\"b"}}"#,
        r#"{"method":"x.A","parameters":{"v":"s"},"extra":[1,2,{"k":null}]}"#,
    ];
    let valid_replies: &[&str] = &[
        r#"{"parameters":{"name":"n"}}"#,
        r#"{"parameters":{"name":"nn"},"continues":true}"#,
        r#"{"parameters":{"name":"nn"},"continues":false}"#,
        r#"{}"#,
        r#"{"parameters":null}"#,
        r#"{"parameters":{}}"#,
        r#"{"parameters":{"a":1,"b":"x"}}"#,
        r#"{"error":"x.Y"}"#,
        r#"{"error":"x.Z","parameters":{"code":5}}"#,
        r#"{"parameters":{"code":5},"error":"x.Z"}"#,
        r#"{"error":"x.W","parameters":{"msg":"m"}}"#,
        r#"{"error":"x.Z","parameters":{"bad":1}}"#,
        r#"{"error":"io.systemd.System","parameters":{"errno":1}}"#,
        r#"{"error":"io.systemd.System"}"#,
        r#"{"error":"org.varlink.service.MethodNotFound","parameters":{"method":"x.Q"}}"#,
        r#"{"error":"org.varlink.service.InvalidParameter","parameters":{"parameter":"p"}}"#,
        r#"{"error":"org.varlink.service.PermissionDenied"}"#,
        r#"{"error":"x.Y","parameters":{}}"#,
        r#"{"parameters":{"name":"aéb"}}"#,
    ];
    let malformed: &[&str] = &[
        r#"{"method":"x.A","parameters":{"v":"s"}"#,
        r#"{"method":"x.A" "parameters":{}}"#,
        r#"garbage"#,
        r#"{"#,
        r#"}"#,
        r#"[1,2,3]"#,
        r#"42"#,
        r#""str""#,
        r#"{"method":"x.B"}{"method":"x.B"}"#,
        r#"{"method":"x.B"} x"#,
        " ",
        "\u{00e9}",
        r#"{"parameters":{"name":"n"}}}"#,
    ];
    let ws: &[&str] = &[" ", "\n", "\t", "\r", "  \n"];
    let base: &[&str] = if is_call(kind) { valid_calls } else { valid_replies };
    let other: &[&str] = if is_call(kind) { valid_replies } else { valid_calls };
    match rng.below(14) {
        12 => {
            // long raw bytes incl. invalid UTF-8 (never NUL): undecodable frames well beyond any log-preview length
            let n = rng.range(13, 220);
            let hi = rng.chance(1, 2);
            (0..n).map(|_| if hi { rng.range(128, 255) as u8 } else { rng.range(1, 255) as u8 }).collect()
        }
        13 => {
            // a JSON document of the wrong shape (unknown method / unknown error) carrying multi-byte text at
            // every alignment, 40..200 bytes
            let fill = *rng.pick(&["é", "ü", "日本", "😅", "€"]);
            let shift: String = "abc"[..rng.below(4)].to_string();
            let reps = rng.range(8, 60);
            let body: String = std::iter::repeat(fill).take(reps).collect();
            if is_call(kind) {
                format!(r#"{{"method":"x.Nope","parameters":{{"t":"{shift}{body}"}}}}"#).into_bytes()
            } else {
                format!(r#"{{"error":"x.Nope{shift}{body}","parameters":{{"t":7}}}}"#).into_bytes()
            }
        }
        0..=4 => rng.pick(base).as_bytes().to_vec(),
        5 => rng.pick(other).as_bytes().to_vec(),
        6 | 7 => rng.pick(malformed).as_bytes().to_vec(),
        8 | 9 => {
            // whitespace padded valid frame
            let mut v = vec![];
            if rng.chance(1, 2) {
                v.extend_from_slice(rng.pick(ws).as_bytes());
            }
            v.extend_from_slice(rng.pick(base).as_bytes());
            v.extend_from_slice(rng.pick(ws).as_bytes());
            v
        }
        10 => {
            // raw bytes incl. invalid UTF-8 but never NUL
            let n = rng.range(1, 12);
            (0..n).map(|_| rng.range(1, 255) as u8).collect()
        }
        _ => sized_frame(kind, rng.range(20, 700), rng),
    }
}

/// A valid frame of exactly `len` bytes (len large enough), used for growth-step boundaries.
pub fn sized_frame(kind: &str, len: usize, rng: &mut Rng) -> Vec<u8> {
    let (pre, post) = if is_call(kind) {
        (r#"{"method":"x.A","parameters":{"v":""#, r#""}}"#)
    } else {
        (r#"{"parameters":{"name":""#, r#""}}"#)
    };
    let fixed = pre.len() + post.len();
    let n = len.saturating_sub(fixed);
    let mut v = pre.as_bytes().to_vec();
    v.extend_from_slice(jstr(n, rng).as_bytes());
    v.extend_from_slice(post.as_bytes());
    v
}

pub fn stream_of(frames: &[Vec<u8>]) -> Vec<u8> {
    let mut s = vec![];
    for f in frames {
        s.extend_from_slice(f);
        s.push(0);
    }
    s
}

/// Events for a stream cut at `cuts` (sorted positions): arrivals, with `poll` events between
/// (pattern decides P / Q / nothing), close, then `extra` final polls.
fn events_for(stream: &[u8], cuts: &[usize], mode: u8, nframes: usize, rng: &mut Rng) -> Vec<Ev> {
    let mut evs = vec![];
    let mut last = 0;
    let mut pieces = vec![];
    for &c in cuts {
        if c > last && c < stream.len() {
            pieces.push(stream[last..c].to_vec());
            last = c;
        }
    }
    pieces.push(stream[last..].to_vec());
    let poll = |evs: &mut Vec<Ev>, rng: &mut Rng| match mode {
        0 => {}
        1 => evs.push(Ev::P),
        2 => evs.push(Ev::Q),
        4 => {
            for _ in 0..rng.below(3) {
                evs.push(Ev::W);
            }
        }
        _ => {
            for _ in 0..rng.below(3) {
                evs.push(if rng.chance(1, 2) { Ev::P } else { Ev::Q });
            }
        }
    };
    if mode != 0 && rng.chance(1, 3) {
        poll(&mut evs, rng);
    }
    for p in pieces {
        evs.push(Ev::Arrive(p));
        poll(&mut evs, rng);
    }
    evs.push(Ev::Close);
    for _ in 0..nframes + 2 {
        evs.push(if mode == 4 { Ev::W } else if mode == 2 || (mode == 3 && rng.chance(1, 2)) { Ev::Q } else { Ev::P });
    }
    evs
}

pub fn generate(tier: &str, seed: u64, only: Option<&str>) -> Vec<Case> {
    let thorough = tier == "thorough";
    let mut rng = Rng::new(seed ^ 0x7278);
    let mut cases = vec![];
    let kinds: Vec<&str> = KINDS.iter().copied().filter(|k| only.map_or(true, |o| *k == o)).collect();

    // (a) exhaustive single and double cuts of short two/three-frame streams, every poll mode.
    let max_len = if thorough { 96 } else { 44 };
    for (ki, kind) in kinds.iter().enumerate() {
        let nstreams = if thorough { 6 } else { 2 };
        for si in 0..nstreams {
            let mut frames;
            loop {
                let n = rng.range(2, 3);
                frames = (0..n).map(|_| gen_frame(kind, &mut rng)).collect::<Vec<_>>();
                if stream_of(&frames).len() <= max_len {
                    break;
                }
            }
            let stream = stream_of(&frames);
            for a in 1..stream.len() {
                for mode in 1..=2u8 {
                    let evs = events_for(&stream, &[a], mode, frames.len(), &mut rng);
                    cases.push(Case { kind: kind.to_string(), frames: frames.clone(), sizes: vec![], evs });
                }
                // pairs of cuts only for a subset, to keep the quick tier quick
                if (ki + si) % 2 == 0 || thorough {
                    let stepb = if thorough { 1 } else { 3 };
                    let mut b = a + 1;
                    while b < stream.len() {
                        let evs = events_for(&stream, &[a, b], [1u8, 2, 4][(a + b) % 3], frames.len(), &mut rng);
                        cases.push(Case { kind: kind.to_string(), frames: frames.clone(), sizes: vec![], evs });
                        b += stepb;
                    }
                }
            }
            // 1-byte reads via the size schedule, everything arrived
            let evs = events_for(&stream, &[], 1, frames.len(), &mut rng);
            cases.push(Case { kind: kind.to_string(), frames: frames.clone(), sizes: vec![1; stream.len() + 4], evs });
        }
    }

    // (b) growth-step boundaries: frames of wire size 256k-1, 256k, 256k+1 (k = 1..K), alone and
    // followed/preceded by small frames, in bursts.
    let kmax = if thorough { 16 } else { 4 };
    for kind in &kinds {
        for k in 1..=kmax {
            for d in [-2i64, -1, 0, 1, 2] {
                let wire = (256 * k) as i64 + d; // including terminator
                let f = sized_frame(kind, (wire - 1) as usize, &mut rng);
                let mut frames = vec![];
                match rng.below(3) {
                    0 => frames.push(f),
                    1 => {
                        frames.push(gen_frame(kind, &mut rng));
                        frames.push(f);
                    }
                    _ => {
                        frames.push(f);
                        frames.push(gen_frame(kind, &mut rng));
                    }
                }
                let stream = stream_of(&frames);
                let ncuts = rng.below(4);
                let mut cuts: Vec<usize> = (0..ncuts).map(|_| rng.range(1, stream.len() - 1)).collect();
                cuts.sort();
                cuts.dedup();
                let mode = rng.below(4) as u8;
                let sizes = if rng.chance(1, 2) {
                    vec![]
                } else {
                    (0..rng.range(1, 12)).map(|_| rng.range(1, 400)).collect()
                };
                let evs = events_for(&stream, &cuts, if mode == 0 { 4 } else { mode }, frames.len(), &mut rng);
                cases.push(Case { kind: kind.to_string(), frames, sizes, evs });
            }
        }
    }

    // (b2) large frames (several KiB, i.e. many growth steps) arriving in pieces with receives
    // abandoned in between, alone or followed by a small frame.
    let nlarge = if thorough { 40 } else { 8 };
    for kind in &kinds {
        for i in 0..nlarge {
            let len = rng.range(3000, if thorough { 40_000 } else { 12_000 });
            let f = run_frame(kind, len, b'a' + (i % 26) as u8);
            let frames = if rng.chance(1, 2) { vec![f] } else { vec![f, gen_frame(kind, &mut rng)] };
            let stream = stream_of(&frames);
            let ncuts = rng.range(1, 5);
            let mut cuts: Vec<usize> = (0..ncuts).map(|_| rng.range(1, stream.len() - 1)).collect();
            cuts.sort();
            cuts.dedup();
            let sizes = if rng.chance(1, 2) { vec![] } else { vec![rng.range(100, 3000); 40] };
            let mode = rng.range(1, 4) as u8;
            let evs = events_for(&stream, &cuts, mode, frames.len(), &mut rng);
            cases.push(Case { kind: kind.to_string(), frames, sizes, evs });
        }
    }

    // (b3) big bursts: 8..40 frames of 0.3..3 KiB (16..56 KiB in total, below the hook's 64 KiB limit) that are all
    // available at once or in two or three large pieces, read with large reads, after which the peer stays silent
    // (or closes): every frame must still come out, although tens of KiB were consumed from one buffered batch.
    let nburst = if thorough { 60 } else { 6 };
    for kind in &kinds {
        for i in 0..nburst {
            let mut frames = vec![];
            let mut total = 0usize;
            let target = rng.range(17_000, 56_000);
            while total < target && frames.len() < 60 {
                let len = if rng.chance(1, 5) { rng.range(20, 200) } else { rng.range(300, 3000) };
                if total + len + 1 > 60_000 {
                    break;
                }
                frames.push(run_frame(kind, len, b'a' + ((i + frames.len()) % 26) as u8));
                total += len + 1;
            }
            let stream = stream_of(&frames);
            let ncuts = rng.below(3);
            let mut cuts: Vec<usize> = (0..ncuts).map(|_| rng.range(1, stream.len() - 1)).collect();
            cuts.sort();
            cuts.dedup();
            let sizes = if rng.chance(2, 3) { vec![] } else { vec![rng.range(1000, 9000); 200] };
            let mode = if rng.chance(1, 4) { 3 } else { 1 };
            let mut evs = events_for(&stream, &cuts, mode, frames.len(), &mut rng);
            if rng.chance(1, 2) {
                // the peer stays silent instead of closing: the trailing polls hand out the frames, then stay pending
                evs.retain(|e| !matches!(e, Ev::Close));
            }
            cases.push(Case { kind: kind.to_string(), frames, sizes, evs });
        }
    }

    // (c) random bursts of 1..6 frames, random cuts, random read sizes, random poll patterns.
    let nrand = if thorough { 4000 } else { 250 };
    for kind in &kinds {
        for _ in 0..nrand {
            let n = rng.range(1, 6);
            let frames: Vec<Vec<u8>> = (0..n).map(|_| gen_frame(kind, &mut rng)).collect();
            let stream = stream_of(&frames);
            let ncuts = rng.below(7);
            let mut cuts: Vec<usize> = (0..ncuts).map(|_| rng.range(1, stream.len().max(2) - 1)).collect();
            cuts.sort();
            cuts.dedup();
            let sizes = match rng.below(3) {
                0 => vec![],
                1 => (0..rng.range(1, 20)).map(|_| rng.range(1, 64)).collect(),
                _ => vec![rng.range(1, 9); 400],
            };
            let mode = rng.range(1, 3) as u8;
            let mut evs = events_for(&stream, &cuts, mode, frames.len(), &mut rng);
            if rng.chance(1, 6) {
                // no close: trailing polls must stay pending
                evs.retain(|e| !matches!(e, Ev::Close));
            }
            cases.push(Case { kind: kind.to_string(), frames, sizes, evs });
        }
    }
    cases
}

/// A valid frame of exactly `len` bytes whose padding is one run (compact on the line protocol).
pub fn run_frame(kind: &str, len: usize, c: u8) -> Vec<u8> {
    let (pre, post) = if is_call(kind) {
        (r#"{"method":"x.A","parameters":{"v":""#, r#""}}"#)
    } else {
        (r#"{"parameters":{"name":""#, r#""}}"#)
    };
    let n = len.saturating_sub(pre.len() + post.len());
    let mut v = pre.as_bytes().to_vec();
    v.extend(std::iter::repeat(c).take(n));
    v.extend_from_slice(post.as_bytes());
    v
}

/// Scenario `rx-bounds` (C17 inbound): lone frames with wire sizes around every multiple of the
/// growth step and around the limit, and unterminated input, under several chunkings.
pub fn generate_bounds(o: &Opts) -> Vec<Case> {
    let thorough = o.thorough();
    let limit = o.limit;
    let mut rng = Rng::new(o.seed ^ 0x7262);
    let mut sizes_list: Vec<usize> = vec![];
    let kmax = limit / 256;
    for k in 1..=kmax + 2 {
        if !thorough && !(k <= 3 || k % 61 == 0 || k + 3 >= kmax) {
            continue;
        }
        for d in [-2i64, -1, 0, 1, 2] {
            sizes_list.push(((256 * k) as i64 + d) as usize);
        }
    }
    for n in limit - 3..=limit + 3 {
        sizes_list.push(n);
    }
    for _ in 0..(if thorough { 200 } else { 20 }) {
        sizes_list.push(rng.range(45, limit + 600));
    }
    sizes_list.sort();
    sizes_list.dedup();
    let mut cases = vec![];
    let nchunk = if thorough { 5 } else { 2 };
    for (i, &wire) in sizes_list.iter().enumerate() {
        if wire < 45 {
            continue;
        }
        for ch in 0..nchunk {
            let kind = if (i + ch) % 2 == 0 { "cM1" } else { "rP1E1" };
            let f = run_frame(kind, wire - 1, b'a' + (i % 26) as u8);
            let stream = stream_of(&[f.clone()]);
            let ncuts = match ch { 0 => 0, 1 => 1, _ => rng.range(1, 5) };
            let mut cuts: Vec<usize> = (0..ncuts).map(|_| rng.range(1, stream.len() - 1)).collect();
            if ch == 1 {
                // cut right before the terminator
                cuts = vec![stream.len() - 1];
            }
            cuts.sort();
            cuts.dedup();
            let sizes = match ch { 0 => vec![], 2 => vec![rng.range(1, 300); 64], _ => (0..8).map(|_| rng.range(1, 1000)).collect() };
            let mode = 1 + (ch % 2) as u8;
            let evs = events_for(&stream, &cuts, mode, 1, &mut rng);
            cases.push(Case { kind: kind.to_string(), frames: vec![f], sizes, evs });
        }
    }
    // histories: earlier frames on the same connection, each consumed before the next arrives (they leave
    // the buffer at whatever size it grew to), then a frame around the limit: the verdict for a size must
    // not depend on what the connection carried before
    let hist_n = if thorough { 600 } else { 90 };
    for h in 0..hist_n {
        let kind = if h % 2 == 0 { "cM1" } else { "rP1E1" };
        let nprior = rng.range(1, 3);
        let mut frames = vec![];
        for _ in 0..nprior {
            let wire = match rng.below(6) {
                0 => rng.range(45, 300),
                1 => rng.range(4096, 4352),
                2 => rng.range(4352, 9000),
                3 => 256 * rng.range(1, 40) + rng.range(0, 2),
                4 => 256 * (2 * rng.range(8, 60) + 1) + rng.range(0, 200),
                _ => rng.range(45, limit / 2),
            };
            frames.push(run_frame(kind, wire - 1, b'a' + (h % 26) as u8));
        }
        let last = match rng.below(8) {
            0 => limit - rng.range(1, 3),
            1 => limit,
            2 => limit + 1,
            3 => limit + rng.range(2, 127),
            4 => limit + rng.range(126, 130),
            5 => limit + rng.range(130, 258),
            6 => limit - rng.range(3, 300),
            _ => limit + rng.range(0, 64),
        };
        frames.push(run_frame(kind, last - 1, b'q'));
        let stream = stream_of(&frames);
        let mut cuts = vec![];
        let mut at = 0;
        for f in &frames[..frames.len() - 1] {
            at += f.len() + 1;
            cuts.push(at);
        }
        if h % 3 == 1 {
            for _ in 0..rng.range(1, 4) {
                cuts.push(rng.range(at + 1, stream.len() - 1));
            }
        }
        cuts.sort();
        cuts.dedup();
        let sizes = if h % 3 == 2 { (0..8).map(|_| rng.range(1, 1000)).collect() } else { vec![] };
        let evs = events_for(&stream, &cuts, 1, frames.len(), &mut rng);
        cases.push(Case { kind: kind.to_string(), frames, sizes, evs });
    }
    // unterminated input of at least `limit` bytes, never closed / closed
    for extra in [0usize, 1, 300] {
        for closed in [false, true] {
            let garbage: Vec<u8> = std::iter::repeat(b'x').take(limit + extra).collect();
            let mut evs = vec![Ev::P, Ev::Arrive(garbage[..limit / 2].to_vec()), Ev::Q, Ev::Arrive(garbage[limit / 2..].to_vec())];
            if closed {
                evs.push(Ev::Close);
            }
            evs.push(Ev::Q);
            evs.push(Ev::P);
            cases.push(Case { kind: "cM1".into(), frames: vec![garbage], sizes: vec![], evs });
        }
    }
    cases
}

pub fn main_bounds(o: &Opts) {
    let cases = generate_bounds(o);
    let mut em = Emitter::new(o.index);
    for c in &cases {
        em.case(|| {
            let outs = run_case(c);
            // the frame table carries no reference verdict for oversize frames
            let mut l = case_line(c, &outs);
            l.replace_range(0..2, "rxb");
            vec![l]
        });
    }
}

pub fn main(o: &Opts) {
    let cases = generate(&o.tier, o.seed, o.only.as_deref());
    let mut em = Emitter::new(o.index);
    for c in &cases {
        em.case(|| {
            let outs = run_case(c);
            let mut ls = vec![case_line(c, &outs)];
            // Independent oracle (implementation vs serde_json), reported on a separate line kind.
            if is_call(&c.kind) {
                for f in &c.frames {
                    let r = reference(&c.kind, f);
                    let i = independent_call_verdict(&c.kind, f).unwrap();
                    if r != i {
                        ls.push(format!("oracle-mismatch rx {} {} ref={} serde_json={}", c.kind, enc_bytes(f), r, i));
                    }
                }
            }
            ls
        });
    }
}
