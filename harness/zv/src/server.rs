//! Scenario `srv` (C08, C09, C10, C18): the real `Server::run` future polled by hand with a scripted
//! listener, scripted sockets and a recording test service.
//!
//! Line: `srv D <id>:<g|b>:<wfail|->:<desc,..>* E <ev>* => <id>=<tok,..>* L <conn>:<desc>* X <alive|exited>`
//! descs: `e<v>` echo, `E<v>` echo oneway, `f` fail, `F` fail oneway, `s<n>` stream of n items, `g` undecodable.
//! events: `c<id>` connection handed to the listener, `a<id>:<bytes>` bytes arrive, `x<id>` peer closes,
//! `r<id>` reads start failing, `k<id>:<n>` the service's reply stream for that client can hand over n more
//! results (items or its end; until then its `next()` is pending), `p` one poll of the server future.
//! A declaration may carry a fifth field: the results that client's streams may hand over from the start
//! (absent = 1000000, i.e. never pending).
//! tokens: `V<v>:<0|1>` success reply / stream item carrying v with its continues flag, `E` error.

use crate::common::*;
use serde::{Deserialize, Serialize};
use std::{
    cell::RefCell,
    collections::VecDeque,
    future::Future,
    rc::Rc,
    task::{Poll, Waker},
};
use zlink_core::{service::MethodReply, Call, Connection, Listener, Reply, ReplyError, Service};

#[derive(Debug, Serialize, Deserialize)]
#[serde(tag = "method", content = "parameters")]
enum M {
    #[serde(rename = "x.Echo")]
    Echo { t: u32, v: u32 },
    #[serde(rename = "x.Fail")]
    Fail { t: u32 },
    #[serde(rename = "x.Sub")]
    Sub { t: u32, n: u32, #[serde(default)] p: u32 },
    #[serde(rename = "x.Bad")]
    Bad { t: u32 },
}
#[derive(Debug, ReplyError)]
#[zlink(interface = "x", crate = "zlink_core")]
enum E {
    Y,
}
#[derive(Debug, Serialize)]
struct Rep {
    #[serde(serialize_with = "ser_v")]
    v: u32,
}
/// `u32::MAX` stands for a reply the service hands over but that cannot be serialized.
fn ser_v<S: serde::Serializer>(v: &u32, s: S) -> Result<S::Ok, S::Error> {
    if *v == u32::MAX {
        Err(serde::ser::Error::custom("unserializable reply"))
    } else {
        s.serialize_u32(*v)
    }
}

struct Svc {
    log: Rc<RefCell<Vec<String>>>,
    credits: Rc<RefCell<Vec<u64>>>,
    wakers: Rc<RefCell<Vec<Option<Waker>>>>,
    mid: Mid,
}

/// Arrivals in the middle of a poll of the server: "when the reply stream of client `a` hands over its `k`-th result
/// (an item, or its end), these bytes arrive for client `b`" - time passes while the server is busy.
#[derive(Clone, Default)]
struct Mid {
    /// per streaming client: results handed over so far
    handed: Rc<RefCell<Vec<u64>>>,
    /// (a, k, b, bytes), not yet fired
    triggers: Rc<RefCell<Vec<(usize, u64, usize, Vec<u8>)>>>,
    nets: Rc<RefCell<Vec<NetRef>>>,
}
impl Mid {
    fn handed_over(&self, a: usize) {
        let k = {
            let mut h = self.handed.borrow_mut();
            h[a] += 1;
            h[a]
        };
        let due: Vec<(usize, Vec<u8>)> = {
            let mut t = self.triggers.borrow_mut();
            let mut due = vec![];
            t.retain(|(ta, tk, tb, bytes)| {
                if *ta == a && *tk == k {
                    due.push((*tb, bytes.clone()));
                    false
                } else {
                    true
                }
            });
            due
        };
        for (b, bytes) in due {
            let nets = self.nets.borrow();
            let mut n = nets[b].borrow_mut();
            n.avail.extend(bytes.iter().copied());
            n.wake();
        }
    }
}

/// The service's reply stream: hands over its next result (an item, or its end) only while its client has
/// credit; otherwise `Pending`, keeping the waker that a `Produce` event for that client wakes.
struct CStream {
    items: VecDeque<Reply<Rep>>,
    conn: usize,
    credits: Rc<RefCell<Vec<u64>>>,
    wakers: Rc<RefCell<Vec<Option<Waker>>>>,
    mid: Mid,
}
impl futures_util::Stream for CStream {
    type Item = Reply<Rep>;
    fn poll_next(mut self: std::pin::Pin<&mut Self>, cx: &mut std::task::Context<'_>) -> Poll<Option<Reply<Rep>>> {
        let conn = self.conn;
        {
            let mut cr = self.credits.borrow_mut();
            if cr[conn] == 0 {
                self.wakers.borrow_mut()[conn] = Some(cx.waker().clone());
                return Poll::Pending;
            }
            cr[conn] -= 1;
        }
        self.mid.handed_over(conn);
        Poll::Ready(self.items.pop_front())
    }
}
impl Service for Svc {
    type MethodCall<'de> = M;
    type ReplyParams<'ser> = Rep;
    type ReplyStreamParams = Rep;
    type ReplyStream = CStream;
    type ReplyError<'ser> = E;
    async fn handle<'ser>(
        &'ser mut self,
        call: Call<Self::MethodCall<'_>>,
    ) -> MethodReply<Self::ReplyParams<'ser>, Self::ReplyStream, Self::ReplyError<'ser>> {
        let ow = call.oneway();
        match call.method() {
            M::Echo { t, v } => {
                self.log.borrow_mut().push(format!("{}:{}{}", t / 1000, if ow { 'E' } else { 'e' }, v));
                MethodReply::Single(Some(Rep { v: *v }))
            }
            M::Fail { t } => {
                self.log.borrow_mut().push(format!("{}:{}", t / 1000, if ow { 'F' } else { 'f' }));
                MethodReply::Error(E::Y)
            }
            M::Bad { t } => {
                self.log.borrow_mut().push(format!("{}:{}", t / 1000, if ow { 'U' } else { 'u' }));
                MethodReply::Single(Some(Rep { v: u32::MAX }))
            }
            M::Sub { t, n, p } => {
                if ow {
                    self.log.borrow_mut().push(format!("{}:S{}", t / 1000, n));
                } else {
                    self.log.borrow_mut().push(format!("{}:s{}{}", t / 1000, n, if *p == 0 { String::new() } else { format!("p{p}") }));
                }
                // flag patterns: 0 = conventional (true … true, false), 1 = all true, 2 = alternating starting with
                // true, 3 = no flag at all (items after a non-continuing one are still the service's items)
                MethodReply::Multi(CStream {
                    conn: (*t / 1000) as usize,
                    credits: self.credits.clone(),
                    wakers: self.wakers.clone(),
                    mid: self.mid.clone(),
                    items: (0..*n)
                        .map(|i| {
                            let c = match *p {
                                0 => Some(i + 1 < *n),
                                1 => Some(true),
                                2 => Some(i % 2 == 0),
                                _ => None,
                            };
                            Reply::new(Some(Rep { v: i })).set_continues(c)
                        })
                        .collect::<VecDeque<_>>(),
                })
            }
        }
    }
}

#[derive(Debug)]
struct L {
    pending: Rc<RefCell<VecDeque<SSocket>>>,
    waker: Rc<RefCell<Option<Waker>>>,
}
impl Listener for L {
    type Socket = SSocket;
    fn accept(&mut self) -> impl Future<Output = zlink_core::Result<Connection<SSocket>>> {
        let p = self.pending.clone();
        let w = self.waker.clone();
        std::future::poll_fn(move |cx| match p.borrow_mut().pop_front() {
            Some(s) => Poll::Ready(Ok(Connection::new(s))),
            None => {
                *w.borrow_mut() = Some(cx.waker().clone());
                Poll::Pending
            }
        })
    }
}

#[derive(Clone, Debug, PartialEq)]
pub enum Desc {
    Echo(u32, bool),
    Fail(bool),
    Sub(u32, u32),
    /// a call the service answers with a reply that cannot be serialized (oneway or not)
    Unser(bool),
    /// a call flagged oneway that the service answers with a reply *stream* of n items: whatever a service answers to a
    /// oneway call, nothing is sent - for the model it is a oneway call like `E<n>` (and is logged as such)
    SubOneway(u32),
    Garbage(u8),
}

impl Desc {
    fn tok(&self) -> String {
        match self {
            Desc::Echo(v, ow) => format!("{}{}", if *ow { 'E' } else { 'e' }, v),
            Desc::Fail(ow) => (if *ow { "F" } else { "f" }).to_string(),
            Desc::Sub(n, p) => if *p == 0 { format!("s{n}") } else { format!("s{n}p{p}") },
            Desc::Unser(ow) => (if *ow { "U" } else { "u" }).to_string(),
            Desc::SubOneway(n) => format!("S{n}"),
            Desc::Garbage(_) => "g".into(),
        }
    }
    fn wire(&self, conn: usize, seq: usize) -> Vec<u8> {
        let t = conn * 1000 + seq;
        match self {
            Desc::Echo(v, ow) => format!("{{\"method\":\"x.Echo\",\"parameters\":{{\"t\":{t},\"v\":{v}}}{}}}", if *ow { ",\"oneway\":true" } else { "" }),
            Desc::Fail(ow) => format!("{{\"parameters\":{{\"t\":{t}}},\"method\":\"x.Fail\"{}}}", if *ow { ",\"oneway\":true" } else { "" }),
            Desc::Sub(n, p) => format!("{{\"method\":\"x.Sub\",\"more\":true,\"parameters\":{{\"t\":{t},\"n\":{n},\"p\":{p}}}}}"),
            Desc::SubOneway(n) => format!("{{\"method\":\"x.Sub\",\"oneway\":true,\"parameters\":{{\"t\":{t},\"n\":{n},\"p\":0}}}}"),
            Desc::Unser(ow) => format!("{{\"method\":\"x.Bad\",\"parameters\":{{\"t\":{t}}}{}}}", if *ow { ",\"oneway\":true" } else { "" }),
            Desc::Garbage(k) if k % 8 == 5 => {
                // long run of non-UTF-8 bytes (never NUL)
                return std::iter::repeat(0xFFu8).take(40 + (*k as usize)).collect();
            }
            Desc::Garbage(k) if k % 8 >= 6 => {
                // a well-formed call for an unknown method carrying multi-byte text at various alignments
                let fill = ["é", "日本", "😅"][(*k as usize / 8) % 3];
                let body: String = std::iter::repeat(fill).take(12 + (*k as usize % 40)).collect();
                format!("{{\"method\":\"x.Nope\",\"parameters\":{{\"t\":\"{}{}\"}}}}", &"abc"[..(*k as usize / 3) % 4], body)
            }
            Desc::Garbage(k) => match k % 5 {
                0 => "{\"method\":\"x.Nope\"}".to_string(),
                1 => "garbage".to_string(),
                2 => "{\"method\":\"x.Echo\",\"parameters\":{\"t\":\"str\",\"v\":1}}".to_string(),
                3 => "{\"method\":\"x.Echo\"".to_string(),
                _ => "[1,2,3]".to_string(),
            },
        }
        .into_bytes()
    }
}

#[derive(Clone, Debug)]
pub enum Ev {
    Connect(usize),
    Arrive(usize, Vec<u8>),
    Close(usize),
    ReadErr(usize),
    Produce(usize, u64),
    /// when client .0's reply stream hands over its .1-th result, the bytes .3 arrive for client .2
    Trigger(usize, u64, usize, Vec<u8>),
    Poll,
}

pub struct ConnScript {
    pub good: bool,
    pub wfail: Option<usize>,
    pub descs: Vec<Desc>,
    /// results the service's streams for this client may hand over from the start
    pub credit: u64,
}

pub const UNLIMITED: u64 = 1_000_000;

pub struct Case {
    pub conns: Vec<ConnScript>,
    pub evs: Vec<Ev>,
    /// every call of every connection is buffered before the server runs; fixed connection set
    pub upfront: bool,
    /// the executor polls the server future only when its waker has been woken (and once at the start), as a real
    /// executor does; the scripted listener, sockets and reply streams keep the waker of a pending poll and wake it
    /// when their event happens. A wake-up the server loses shows as a client that is never answered.
    pub wake_driven: bool,
    /// family tokens of the case line (`SV1`, `F2 H<n0>,<n1>,..`): which extra oracle the driver applies
    pub family: String,
}

fn toks(out: &[u8]) -> Vec<String> {
    let mut v = vec![];
    for f in out.split(|b| *b == 0).filter(|f| !f.is_empty()) {
        let Ok(j) = serde_json::from_slice::<serde_json::Value>(f) else {
            v.push("BAD".into());
            continue;
        };
        if j.get("error").is_some() {
            v.push("E".to_string());
        } else {
            let val = j["parameters"]["v"].as_u64().unwrap_or(999_999);
            match j.get("continues").and_then(|c| c.as_bool()) {
                Some(true) => v.push(format!("V{val}:1")),
                Some(false) => v.push(format!("V{val}:0")),
                None => v.push(format!("V{val}:n")),
            }
        }
    }
    v
}

pub type Obs = (Vec<Vec<u8>>, Vec<String>, bool, Vec<usize>);

pub fn run_case(c: &Case) -> Obs {
    let pending = Rc::new(RefCell::new(VecDeque::new()));
    let lwaker: Rc<RefCell<Option<Waker>>> = Rc::new(RefCell::new(None));
    let log = Rc::new(RefCell::new(vec![]));
    let credits = Rc::new(RefCell::new(c.conns.iter().map(|cs| cs.credit).collect::<Vec<u64>>()));
    let swakers: Rc<RefCell<Vec<Option<Waker>>>> = Rc::new(RefCell::new(c.conns.iter().map(|_| None).collect()));
    let glog = Rc::new(RefCell::new(Vec::<usize>::new()));
    let nets: Vec<NetRef> = c
        .conns
        .iter()
        .enumerate()
        .map(|(i, cs)| {
            let n = new_net(vec![]);
            n.borrow_mut().write_fail_from = cs.wfail;
            n.borrow_mut().gid = i;
            n.borrow_mut().glog = Some(glog.clone());
            n
        })
        .collect();
    let mid = Mid {
        handed: Rc::new(RefCell::new(vec![0; c.conns.len()])),
        triggers: Rc::new(RefCell::new(vec![])),
        nets: Rc::new(RefCell::new(nets.clone())),
    };
    let server = zlink_core::Server::new(
        L { pending: pending.clone(), waker: lwaker.clone() },
        Svc { log: log.clone(), credits: credits.clone(), wakers: swakers.clone(), mid: mid.clone() },
    );
    let mut fut = Box::pin(server.run());
    let mut alive = true;
    let flag = WakeFlag::new();
    for ev in &c.evs {
        match ev {
            Ev::Connect(i) => {
                pending.borrow_mut().push_back(SSocket(nets[*i].clone()));
                if let Some(w) = lwaker.borrow_mut().take() {
                    w.wake();
                }
            }
            Ev::Arrive(i, b) => {
                let mut n = nets[*i].borrow_mut();
                n.avail.extend(b.iter().copied());
                n.wake();
            }
            Ev::Close(i) => {
                let mut n = nets[*i].borrow_mut();
                n.closed = true;
                n.wake();
            }
            Ev::ReadErr(i) => {
                let mut n = nets[*i].borrow_mut();
                n.read_fail = true;
                n.wake();
            }
            Ev::Produce(i, n) => {
                credits.borrow_mut()[*i] += *n;
                if *n > 0 {
                    if let Some(w) = swakers.borrow_mut()[*i].take() {
                        w.wake();
                    }
                }
            }
            Ev::Trigger(a, k, b, bytes) => mid.triggers.borrow_mut().push((*a, *k, *b, bytes.clone())),
            Ev::Poll => {
                // wake-driven: an executor polls a task that is scheduled, and again as long as the poll itself
                // re-schedules it (a future that wakes itself); 10000 such rounds = a task that spins
                let mut rounds = 0;
                while alive && (!c.wake_driven || flag.take()) {
                    if let Poll::Ready(_) = poll_flag(fut.as_mut(), &flag) {
                        alive = false;
                    }
                    rounds += 1;
                    if !c.wake_driven || rounds >= 10_000 {
                        break;
                    }
                }
            }
        }
    }
    drop(fut);
    let outs = nets.iter().map(|n| n.borrow().writes.concat()).collect();
    let l = log.borrow().clone();
    let g = glog.borrow().clone();
    (outs, l, alive, g)
}

pub fn line(c: &Case, obs: &Obs) -> String {
    let mut s = String::from("srv");
    if c.upfront {
        s.push_str(" F1");
    }
    if !c.family.is_empty() {
        s.push(' ');
        s.push_str(&c.family);
    }
    if c.wake_driven {
        s.push_str(" W1");
    }
    s.push_str(" D");
    for (i, cs) in c.conns.iter().enumerate() {
        let ds: Vec<String> = cs.descs.iter().map(|d| d.tok()).collect();
        s.push_str(&format!(
            " {}:{}:{}:{}{}",
            i,
            if cs.good { 'g' } else { 'b' },
            cs.wfail.map(|k| k.to_string()).unwrap_or("-".into()),
            if ds.is_empty() { "-".to_string() } else { ds.join(",") },
            if cs.credit == UNLIMITED { String::new() } else { format!(":{}", cs.credit) }
        ));
    }
    s.push_str(" E");
    for e in &c.evs {
        match e {
            Ev::Connect(i) => s.push_str(&format!(" c{i}")),
            Ev::Arrive(i, b) => s.push_str(&format!(" a{i}:{}", enc_bytes(b))),
            Ev::Close(i) => s.push_str(&format!(" x{i}")),
            Ev::ReadErr(i) => s.push_str(&format!(" r{i}")),
            Ev::Produce(i, n) => s.push_str(&format!(" k{i}:{n}")),
            Ev::Trigger(a, k, b, bytes) => s.push_str(&format!(" t{a}:{k}:{b}:{}", enc_bytes(bytes))),
            Ev::Poll => s.push_str(" p"),
        }
    }
    s.push_str(" =>");
    for (i, o) in obs.0.iter().enumerate() {
        let ts = toks(o);
        s.push_str(&format!(" {}={}", i, if ts.is_empty() { "-".to_string() } else { ts.join(",") }));
    }
    s.push_str(" L");
    for l in &obs.1 {
        s.push(' ');
        s.push_str(l);
    }
    s.push_str(" G");
    if obs.3.is_empty() {
        s.push_str(" -");
    } else {
        s.push(' ');
        s.push_str(&obs.3.iter().map(|i| i.to_string()).collect::<Vec<_>>().join(","));
    }
    s.push_str(if obs.2 { " X alive" } else { " X exited" });
    s
}

fn gen_descs(rng: &mut Rng, maxcalls: usize, allow_garbage: bool, allow_sub: bool) -> Vec<Desc> {
    let n = rng.below(maxcalls + 1);
    (0..n)
        .map(|_| match rng.below(12) {
            0..=4 => Desc::Echo(rng.below(1000) as u32, false),
            5 if allow_sub && rng.chance(1, 3) => Desc::SubOneway(rng.below(4) as u32),
            5 => Desc::Echo(rng.below(1000) as u32, true),
            6 => Desc::Fail(false),
            7 => Desc::Fail(rng.chance(1, 2)),
            8 | 9 if allow_sub => Desc::Sub(rng.below(5) as u32, if rng.chance(1, 2) { 0 } else { rng.range(1, 3) as u32 }),
            10 if allow_garbage => Desc::Garbage(rng.next() as u8),
            11 if allow_garbage && rng.chance(1, 2) => Desc::Unser(rng.chance(1, 3)),
            _ => Desc::Echo(rng.below(1000) as u32, false),
        })
        .collect()
}

pub struct GenOpts {
    pub max_conns: usize,
    pub max_calls: usize,
    pub faults: bool,
    pub streams: bool,
    pub flooders: bool,
    /// one case in `gated` has reply streams whose items become ready by events (0 = never)
    pub gated: usize,
}

pub fn gen_case(rng: &mut Rng, g: &GenOpts) -> Case {
    let nconn = rng.range(1, g.max_conns);
    // gated: the services' streams hand over results only as `Produce` events allow; `stall`: no final grant,
    // so streams may still be open (and silent) when the run ends - everybody else must be served regardless
    let gated = g.streams && g.gated > 0 && rng.chance(1, g.gated);
    let stall = gated && rng.chance(1, 3);
    let mut conns = vec![];
    let mut bytes: Vec<VecDeque<u8>> = vec![];
    // per-connection fault plan: 0 none, 1 truncate+close, 2 close mid-burst, 3 read error, 4 write failure, 5 big unterminated tail
    let mut plans = vec![];
    let mut boundaries: Vec<usize> = vec![];
    for i in 0..nconn {
        let faulty = g.faults && rng.chance(1, 3);
        // 5: after its frames the client sends 4.5..12 KB without a terminator (an oversized / garbage message
        // on its way), in large pieces interleaved with everybody else's traffic, then hangs up
        let plan = if faulty { rng.range(1, 5) } else { 0 };
        let maxc = if g.flooders && rng.chance(1, 2) { g.max_calls * 3 } else { g.max_calls };
        let mut descs = gen_descs(rng, maxc, true, g.streams);
        let mut b = vec![];
        // boundary plan: one call is padded with blanks (legal JSON white space) so that its terminator is the last
        // byte of a 256-byte step of the read buffer, its bytes are delivered up to exactly there and the server is
        // polled before the rest arrives: "the batch ends exactly where the buffer ends", then more calls
        let pad_at = if !descs.is_empty() && rng.chance(1, 3) { Some(rng.below(descs.len())) } else { None };
        let mut boundary = 0usize;
        for (k, d) in descs.iter().enumerate() {
            b.extend_from_slice(&d.wire(i, k));
            if pad_at == Some(k) && !matches!(d, Desc::Garbage(_)) {
                let rem = (b.len() + 1) % 256;
                if rem != 0 {
                    b.extend(std::iter::repeat(b' ').take(256 - rem));
                }
                boundary = b.len() + 1;
            }
            b.push(0);
        }
        boundaries.push(boundary);
        let mut wfail = None;
        match plan {
            1 => {
                // the last frame is cut somewhere and never completed
                if !descs.is_empty() {
                    let last = descs.len() - 1;
                    let l = descs[last].wire(i, last).len() + 1;
                    let cut = rng.range(1, l - 1);
                    b.truncate(b.len() - cut);
                    descs.pop();
                }
            }
            4 => wfail = Some(rng.below(4)),
            5 => {
                let n = rng.range(4500, 12000);
                let fill = if rng.chance(1, 2) { b'x' } else { 0xC3 };
                b.extend(std::iter::repeat(fill).take(n));
            }
            _ => {}
        }
        plans.push(plan);
        let credit = if gated { rng.below(4) as u64 } else { UNLIMITED };
        conns.push(ConnScript { good: plan == 0, wfail, descs, credit });
        bytes.push(b.into());
    }
    let mut evs = vec![];
    let mut connected = vec![false; nconn];
    let mut closed = vec![false; nconn];
    let mut delivered = vec![0usize; nconn];
    let steps = rng.range(5, 60);
    for _ in 0..steps {
        let c = rng.below(nconn);
        if !connected[c] {
            if rng.chance(1, 2) {
                connected[c] = true;
                evs.push(Ev::Connect(c));
            }
        } else if !bytes[c].is_empty() {
            let lim = if plans[c] == 5 && bytes[c].len() > 3000 { 3000 } else if rng.chance(1, 3) { 400 } else { 40 };
            let mut n = 1 + rng.below(bytes[c].len().min(lim));
            // no chunk straddles the connection's boundary; the server runs when the boundary has been reached
            let before = boundaries[c] > delivered[c];
            if before {
                n = n.min(boundaries[c] - delivered[c]);
            }
            let chunk: Vec<u8> = (0..n).map(|_| bytes[c].pop_front().unwrap()).collect();
            delivered[c] += n;
            evs.push(Ev::Arrive(c, chunk));
            if before && delivered[c] == boundaries[c] && rng.chance(3, 4) {
                evs.push(Ev::Poll);
            }
            // faults that strike mid-burst
            if !closed[c] && plans[c] == 2 && rng.chance(1, 3) {
                closed[c] = true;
                evs.push(Ev::Close(c));
                bytes[c].clear();
            }
            if !closed[c] && plans[c] == 3 && rng.chance(1, 3) {
                closed[c] = true;
                evs.push(Ev::ReadErr(c));
                bytes[c].clear();
            }
        } else if !closed[c] && rng.chance(1, 6) {
            closed[c] = true;
            evs.push(Ev::Close(c));
        }
        if gated && rng.chance(1, 3) {
            evs.push(Ev::Produce(rng.below(nconn), rng.range(1, 3) as u64));
        }
        if rng.chance(1, 3) {
            evs.push(Ev::Poll);
        }
    }
    // deliver everything that is left, then let the server run to quiescence
    for c in 0..nconn {
        if !connected[c] {
            evs.push(Ev::Connect(c));
        }
        if !bytes[c].is_empty() {
            let chunk: Vec<u8> = bytes[c].drain(..).collect();
            evs.push(Ev::Arrive(c, chunk));
        }
        if (plans[c] == 1 || plans[c] == 5) && !closed[c] {
            evs.push(Ev::Close(c));
        }
        if plans[c] == 3 && !closed[c] {
            evs.push(Ev::ReadErr(c));
        }
    }
    if gated {
        // a poll with the streams as they are, then (unless the case stalls) everything is made available
        evs.push(Ev::Poll);
        for c in 0..nconn {
            if !stall || rng.chance(1, 3) {
                evs.push(Ev::Produce(c, 100));
            }
        }
    }
    evs.push(Ev::Poll);
    evs.push(Ev::Poll);
    // a connection that was cut mid-burst by plan 2/3 did not deliver all its frames: its script keeps
    // only what arrived in full (the model interprets frames by position)
    Case { conns, evs, upfront: false, wake_driven: false, family: String::new() }
}

/// Fairness cases: 2..5 connections, some of them flooders with many pipelined calls; everything is
/// delivered before the server is polled, nothing closes, no streams: the connection set is fixed and
/// every unserved call is waiting the whole time.
pub fn gen_upfront(rng: &mut Rng) -> Case {
    let nconn = rng.range(2, 5);
    let mut conns = vec![];
    let mut evs = vec![];
    for i in 0..nconn {
        let n = if rng.chance(1, 2) { rng.range(4, 14) } else { rng.range(0, 3) };
        let descs: Vec<Desc> = (0..n)
            .map(|_| match rng.below(6) {
                0 => Desc::Fail(false),
                1 => Desc::Echo(rng.below(1000) as u32, true),
                _ => Desc::Echo(rng.below(1000) as u32, false),
            })
            .collect();
        conns.push(ConnScript { good: true, wfail: None, descs, credit: UNLIMITED });
        evs.push(Ev::Connect(i));
    }
    evs.push(Ev::Poll);
    let mut order: Vec<usize> = (0..nconn).collect();
    for i in (1..order.len()).rev() {
        order.swap(i, rng.below(i + 1));
    }
    for i in order {
        let mut b = vec![];
        for (k, d) in conns[i].descs.iter().enumerate() {
            b.extend_from_slice(&d.wire(i, k));
            b.push(0);
        }
        if !b.is_empty() {
            evs.push(Ev::Arrive(i, b));
        }
    }
    for _ in 0..rng.range(1, 4) {
        evs.push(Ev::Poll);
    }
    Case { conns, evs, upfront: true, wake_driven: false, family: String::new() }
}

fn frames_of(i: usize, descs: &[Desc], from: usize, to: usize) -> Vec<u8> {
    let mut b = vec![];
    for k in from..to {
        b.extend_from_slice(&descs[k].wire(i, k));
        b.push(0);
    }
    b
}

/// `SV1` - a reply stream against waiting calls: 1..2 clients subscribe (streams of 2..5 items, nothing available yet) and
/// the server is polled until idle; then every other client's single call arrives and every stream's results become
/// available, in random order, before the next poll. The global order of the writes (`G`) is judged: no streaming client
/// is written to twice before every waiting caller has been answered.
pub fn gen_sv(rng: &mut Rng) -> Case {
    let nstream = rng.range(1, 2);
    let ncall = rng.range(1, 3);
    let n = nstream + ncall;
    let mut order: Vec<usize> = (0..n).collect();
    for i in (1..n).rev() {
        order.swap(i, rng.below(i + 1));
    }
    // order[..nstream] are the streaming clients
    let mut conns = vec![];
    for i in 0..n {
        let streamer = order[..nstream].contains(&i);
        let descs = if streamer {
            vec![Desc::Sub(rng.range(2, 5) as u32, 0)]
        } else if rng.chance(1, 4) {
            vec![Desc::Fail(false)]
        } else {
            vec![Desc::Echo(rng.below(1000) as u32, false)]
        };
        conns.push(ConnScript { good: true, wfail: None, descs, credit: 0 });
    }
    let mut evs = vec![];
    let mut co: Vec<usize> = (0..n).collect();
    for i in (1..n).rev() {
        co.swap(i, rng.below(i + 1));
    }
    for &i in &co {
        evs.push(Ev::Connect(i));
    }
    evs.push(Ev::Poll);
    for &i in &order[..nstream] {
        evs.push(Ev::Arrive(i, frames_of(i, &conns[i].descs, 0, 1)));
    }
    evs.push(Ev::Poll);
    evs.push(Ev::Poll);
    let mut last: Vec<Ev> = vec![];
    for i in 0..n {
        if order[..nstream].contains(&i) {
            last.push(Ev::Produce(i, 100));
        } else {
            last.push(Ev::Arrive(i, frames_of(i, &conns[i].descs, 0, 1)));
        }
    }
    for i in (1..last.len()).rev() {
        last.swap(i, rng.below(i + 1));
    }
    evs.extend(last);
    evs.push(Ev::Poll);
    evs.push(Ev::Poll);
    Case { conns, evs, upfront: false, wake_driven: false, family: "SV1".into() }
}

/// `SV2` - a call that arrives while a reply stream is being forwarded: the streaming clients' results are all available;
/// each caller's single call arrives *during* the poll, at the moment a stream hands over its k-th item (k >= 1, at least
/// two items before the stream's last). Judged on the global order of the writes: once the call is there, no streaming
/// client is written to twice before the caller has been answered.
pub fn gen_sv2(rng: &mut Rng) -> Case {
    let nstream = rng.range(1, 2);
    let ncall = rng.range(1, 2);
    let n = nstream + ncall;
    let mut conns = vec![];
    let mut lens = vec![];
    for i in 0..n {
        let descs = if i < nstream {
            let l = rng.range(4, 8) as u32;
            lens.push(l);
            vec![Desc::Sub(l, 0)]
        } else if rng.chance(1, 4) {
            vec![Desc::Fail(false)]
        } else {
            vec![Desc::Echo(rng.below(1000) as u32, false)]
        };
        conns.push(ConnScript { good: true, wfail: None, descs, credit: 0 });
    }
    let mut evs = vec![];
    for i in 0..n {
        evs.push(Ev::Connect(i));
    }
    evs.push(Ev::Poll);
    for i in 0..nstream {
        evs.push(Ev::Arrive(i, frames_of(i, &conns[i].descs, 0, 1)));
    }
    evs.push(Ev::Poll);
    evs.push(Ev::Poll);
    for b in nstream..n {
        let a = rng.below(nstream);
        let k = rng.range(1, lens[a] as usize - 2) as u64;
        evs.push(Ev::Trigger(a, k, b, frames_of(b, &conns[b].descs, 0, 1)));
    }
    for i in 0..nstream {
        evs.push(Ev::Produce(i, 100));
    }
    evs.push(Ev::Poll);
    evs.push(Ev::Poll);
    Case { conns, evs, upfront: false, wake_driven: false, family: "SV2".into() }
}

/// `F2` - fairness after a history: 3..5 clients; in phase 1 each sends 0..2 calls (plain, oneway, failing, streaming with
/// everything available) with polls in between, and one or two of them - not the last accepted - hang up, so that
/// `swap_remove` and the stream hand-over have reordered the server's lists; the server is polled until idle. In phase 2
/// the connection set is fixed: every remaining client's further calls (flooders: 4..14, others 0..3; no streams) arrive
/// at once, then the server runs. `H<n0>,<n1>,..` = calls per client that belong to phase 1: the service log behind them
/// is judged by the fairness oracle over the clients that are still connected.
pub fn gen_fh(rng: &mut Rng) -> Case {
    let n = rng.range(3, 5);
    let mut conns = vec![];
    let mut h = vec![];
    let mut closing = vec![false; n];
    // the clients that hang up in phase 1: one or two of the first n-1 (a non-last position of the list)
    closing[rng.below(n - 1)] = true;
    if rng.chance(1, 2) {
        closing[rng.below(n - 1)] = true;
    }
    for i in 0..n {
        let n1 = rng.range(0, 2);
        let mut descs: Vec<Desc> = (0..n1)
            .map(|_| match rng.below(6) {
                0 => Desc::Fail(false),
                1 => Desc::Echo(rng.below(1000) as u32, true),
                2 | 3 => Desc::Sub(rng.below(3) as u32, 0),
                _ => Desc::Echo(rng.below(1000) as u32, false),
            })
            .collect();
        h.push(n1);
        if !closing[i] {
            let n2 = if rng.chance(1, 2) { rng.range(4, 14) } else { rng.range(0, 3) };
            for _ in 0..n2 {
                descs.push(match rng.below(6) {
                    0 => Desc::Fail(false),
                    1 => Desc::Echo(rng.below(1000) as u32, true),
                    _ => Desc::Echo(rng.below(1000) as u32, false),
                });
            }
        }
        conns.push(ConnScript { good: true, wfail: None, descs, credit: UNLIMITED });
    }
    let mut evs = vec![];
    for i in 0..n {
        evs.push(Ev::Connect(i));
        if rng.chance(1, 3) {
            evs.push(Ev::Poll);
        }
    }
    evs.push(Ev::Poll);
    // phase 1: the calls one at a time in random client order, a poll after most of them
    let mut sent = vec![0usize; n];
    loop {
        let open: Vec<usize> = (0..n).filter(|&i| sent[i] < h[i]).collect();
        if open.is_empty() {
            break;
        }
        let i = *rng.pick(&open);
        evs.push(Ev::Arrive(i, frames_of(i, &conns[i].descs, sent[i], sent[i] + 1)));
        sent[i] += 1;
        if rng.chance(2, 3) {
            evs.push(Ev::Poll);
        }
    }
    evs.push(Ev::Poll);
    for i in 0..n {
        if closing[i] {
            evs.push(Ev::Close(i));
            if rng.chance(1, 2) {
                evs.push(Ev::Poll);
            }
        }
    }
    evs.push(Ev::Poll);
    evs.push(Ev::Poll);
    // phase 2
    let mut order: Vec<usize> = (0..n).filter(|&i| !closing[i]).collect();
    for i in (1..order.len()).rev() {
        order.swap(i, rng.below(i + 1));
    }
    for i in order {
        if conns[i].descs.len() > h[i] {
            evs.push(Ev::Arrive(i, frames_of(i, &conns[i].descs, h[i], conns[i].descs.len())));
        }
    }
    for _ in 0..rng.range(1, 3) {
        evs.push(Ev::Poll);
    }
    let fam = format!("F2 H{}", h.iter().map(|k| k.to_string()).collect::<Vec<_>>().join(","));
    Case { conns, evs, upfront: false, wake_driven: false, family: fam }
}

pub fn main(o: &Opts, which: &str) {
    let mut rng = Rng::new(o.seed ^ fnv(which.as_bytes()));
    let mut em = Emitter::new(o.index);
    let (n, g) = match which {
        "srv" => (if o.thorough() { 60_000 } else { 4000 }, GenOpts { max_conns: 4, max_calls: 5, faults: false, streams: true, flooders: false, gated: 4 }),
        "srv-faults" => (if o.thorough() { 60_000 } else { 4000 }, GenOpts { max_conns: 4, max_calls: 5, faults: true, streams: true, flooders: false, gated: 4 }),
        "srv-stream" => (if o.thorough() { 40_000 } else { 3000 }, GenOpts { max_conns: 3, max_calls: 6, faults: true, streams: true, flooders: false, gated: 2 }),
        _ => (if o.thorough() { 40_000 } else { 3000 }, GenOpts { max_conns: 5, max_calls: 4, faults: false, streams: true, flooders: true, gated: 4 }),
    };
    for k in 0..n {
        let mut r2 = Rng::new(rng.next());
        em.case(|| {
            let mut c = if which == "srv-fair" && k % 2 == 0 {
                if k % 6 == 0 { gen_fh(&mut r2) } else { gen_upfront(&mut r2) }
            } else if (which == "srv-stream" && k % 8 == 5) || (which == "srv-fair" && k % 16 == 7) {
                if k % 16 == 5 || k % 32 == 7 { gen_sv2(&mut r2) } else { gen_sv(&mut r2) }
            } else {
                gen_case(&mut r2, &g)
            };
            // two cases in five run under a wake-driven executor (chosen by the case number: the case itself is the
            // one the eager executor would get)
            c.wake_driven = (k % 5 == 1 || k % 5 == 3) && c.family != "SV2";
            let obs = run_case(&c);
            vec![line(&c, &obs)]
        });
    }
}
