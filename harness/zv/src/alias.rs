//! Scenario `alias` (C11): items of a chain's reply stream that borrow from the receive buffer are
//! held while later items are received; at the end every held `&str` is compared with the copy taken
//! when it was yielded.
//!
//! Line: `alias F <frame>* G <group size>*|- C <chunk bytes>* O <offset of the borrowed bytes in a frame> => <same|diff>@<d>*`
//! (the reply bytes arrive in chunks, one transport read per chunk; `G` gives the chunks in whole replies when
//! every boundary falls between replies, `-` when a read ends inside a reply); `<d>` is the address of the item's
//! borrowed bytes minus that of the first item's: items that lie in one unmoved buffer are at the
//! distances their frames dictate. Total size stays at or below the first growth step (except for the
//! all-buffered large batches, where growth happens before the first item is yielded), so the pinned
//! code never reallocates under a held item; should a change make it reallocate, the harness allocator
//! (`moving_alloc.rs`) moves the block and keeps the old one mapped and unchanged, so the move shows in
//! `<d>` and no recycled memory is ever read.

use crate::common::*;
use crate::rx::{E2, M1, P2};
use futures_util::stream::Stream;
use std::task::Poll;
use zlink_core::{Call, Connection};

const PRE: &str = "{\"parameters\":{\"name\":\"";

/// the frame at `err_at` (if any) is not a reply of the expected shape: the stream yields `Err(_)` there and ends
pub fn frames_of(names: &[String], err_at: Option<(usize, u8)>) -> Vec<Vec<u8>> {
    names
        .iter()
        .enumerate()
        .map(|(i, n)| match err_at {
            Some((k, kind)) if k == i => match kind % 3 {
                0 => format!("{{\"error\":\"org.varlink.service.MethodNotFound\",\"parameters\":{{\"method\":\"{n}\"}}}}").into_bytes(),
                1 => format!("undecodable {n}").into_bytes(),
                _ => format!("{{\"error\":\"org.varlink.service.PermissionDenied\",\"x\":\"{n}\"}}").into_bytes(),
            },
            _ => format!("{PRE}{n}\"}}}}").into_bytes(),
        })
        .collect()
}

/// `extra`: the last `extra` frames are not owed to the chain (the peer answered a oneway call, or the reply of a later
/// exchange arrived early): they sit in the buffer behind the chain's replies when the stream ends
pub fn run_case(names: &[String], chunks: &[usize], err_at: Option<(usize, u8)>, extra: usize) -> Vec<String> {
    let net = new_net(vec![]);
    let mut conn = Connection::new(SSocket(net.clone()));
    let frames: Vec<Vec<u8>> = frames_of(names, err_at);
    let mut chain = conn.chain_call::<M1, P2<'_>, E2<'_>>(&Call::new(M1::B)).unwrap();
    for _ in 1..names.len() - extra {
        chain = chain.append(&Call::new(M1::B)).unwrap();
    }
    let stream = block_on(chain.send()).unwrap();
    let mut stream = Box::pin(stream);
    let w = noop_waker();
    let mut cx = std::task::Context::from_waker(&w);
    let mut held: Vec<(zlink_core::Reply<P2<'_>>, String)> = vec![];
    let wire: Vec<u8> = frames.iter().flat_map(|f| f.iter().copied().chain(std::iter::once(0))).collect();
    let mut at = 0;
    let mut ended_with_err = false;
    for c in chunks {
        net.borrow_mut().avail.extend(wire[at..at + c].iter().copied());
        at += c;
        loop {
            match stream.as_mut().poll_next(&mut cx) {
                Poll::Ready(Some(Ok(Ok(r)))) => {
                    let copy = r.parameters().map(|p| p.name.to_string()).unwrap_or_default();
                    held.push((r, copy));
                }
                // a general error ends the stream; the items yielded before it are still held by the caller
                Poll::Ready(Some(_)) => ended_with_err = true,
                Poll::Ready(None) | Poll::Pending => break,
            }
        }
        if ended_with_err {
            break;
        }
    }
    let p0 = held.first().and_then(|(r, _)| r.parameters().map(|p| p.name.as_ptr() as i64)).unwrap_or(0);
    let mut out: Vec<String> = held
        .iter()
        .map(|(r, copy)| {
            let d = r.parameters().map(|p| p.name.as_ptr() as i64 - p0).unwrap_or(0);
            format!("{}@{d}", if r.parameters().map(|p| p.name) == Some(copy.as_str()) { "same" } else { "diff" })
        })
        .collect();
    if ended_with_err {
        out.push("err".into());
    }
    out
}

pub fn main(o: &Opts) {
    let mut rng = Rng::new(o.seed ^ 0x616c6961);
    let mut em = Emitter::new(o.index);
    crate::moving_alloc::MOVING.store(true, std::sync::atomic::Ordering::Relaxed);
    let n = if o.thorough() { 20_000 } else { 1500 };
    for case in 0..n {
        let k = rng.range(2, 6);
        // names of different lengths so that overwrites hit different ranges; total stays < 250 bytes
        let budget = 250 / k - (PRE.len() + 4);
        let mut names: Vec<String> = (0..k).map(|i| {
            let l = rng.range(1, budget.max(2));
            (0..l).map(|j| (b'a' + ((i * 7 + j) % 26) as u8) as char).collect()
        }).collect();
        // every fifth case: pad the last name so that the whole batch is exactly 250..=256 bytes on the
        // wire (the edge of the first growth step)
        let exact = case % 5 == 0;
        if exact {
            let total: usize = names.iter().map(|n| PRE.len() + n.len() + 4).sum();
            let want = 250 + rng.below(7);
            if want > total {
                let last = names.last_mut().unwrap();
                for j in 0..want - total {
                    last.push((b'A' + (j % 26) as u8) as char);
                }
            }
        }
        // every fourth case: a batch far beyond the first growth steps (one reply of 0.3..12 KiB at a random
        // position among small ones), delivered in ONE read, so that every reply is buffered before the first
        // item is yielded: the class in which the pinned code keeps all yielded items intact
        // (theorem C11_partial_all_buffered)
        let big = case % 4 == 3;
        if big {
            let at = rng.below(k);
            let l = match rng.below(4) { 0 => rng.range(300, 1000), 1 => rng.range(1000, 4200), 2 => rng.range(4000, 6000), _ => rng.range(6000, 12000) };
            names[at] = (0..l).map(|j| (b'a' + ((at * 5 + j) % 26) as u8) as char).collect();
        }
        let mut groups = vec![];
        let mut left = k;
        while left > 0 {
            let g = if big || rng.chance(1, 3) || (exact && rng.chance(2, 3)) { left } else { rng.range(1, left) };
            groups.push(g);
            left -= g;
        }
        // every sixth case: one of the replies after the first is a general error (service error / undecodable
        // frame): the stream yields Err and ends while the earlier items are still held
        let err_at = if case % 6 == 5 && k >= 2 { Some((rng.range(1, k - 1), rng.next() as u8)) } else { None };
        // (an error frame is longer than a reply: where it would push a small batch over the first growth
        // step, the case goes without it)
        let err_at = if !big && frames_of(&names, err_at).iter().map(|f| f.len() + 1).sum::<usize>() > 256 { None } else { err_at };
        // every fifth case (without an error frame): the last one or two frames are not owed to the chain; they arrive with
        // the chain's last replies and stay in the buffer when the stream ends, while the items are still held
        let extra = if case % 5 == 2 && err_at.is_none() && k >= 3 { if k >= 4 && rng.chance(1, 2) { 2 } else { 1 } } else { 0 };
        let frames = frames_of(&names, err_at);
        let wire: Vec<u8> = frames.iter().flat_map(|f| f.iter().copied().chain(std::iter::once(0))).collect();
        let mut chunks: Vec<usize> = vec![];
        let mut fi = 0;
        for g in &groups {
            chunks.push(frames[fi..fi + g].iter().map(|f| f.len() + 1).sum());
            fi += g;
        }
        // every third case: the read boundaries are drawn over the bytes, not over the replies: a read may end
        // inside a reply, one byte into it or one byte before its end, behind complete replies of the same read.
        // In the large batches no boundary falls between two replies, so that still everything is buffered
        // before the first item is yielded.
        let mut aligned = true;
        if case % 3 == 1 {
            let mut cuts: Vec<usize> = vec![];
            for _ in 0..rng.range(1, 3) {
                let p = match rng.below(3) {
                    0 => {
                        // next to a reply boundary
                        let b: Vec<usize> = (1..wire.len() - 1).filter(|&i| wire[i - 1] == 0).collect();
                        if b.is_empty() { rng.range(1, wire.len() - 1) } else {
                            let x = b[rng.below(b.len())] as i64 + [-2i64, -1, 1, 2][rng.below(4)];
                            x.clamp(1, wire.len() as i64 - 1) as usize
                        }
                    }
                    _ => rng.range(1, wire.len() - 1),
                };
                if big && wire[p - 1] == 0 {
                    continue;
                }
                cuts.push(p);
            }
            cuts.sort();
            cuts.dedup();
            if !cuts.is_empty() {
                chunks.clear();
                let mut last = 0;
                for &c in &cuts {
                    chunks.push(c - last);
                    last = c;
                    aligned &= wire[c - 1] == 0;
                }
                chunks.push(wire.len() - last);
                if aligned {
                    groups = chunks.iter().scan(0usize, |a, &c| { let n = wire[*a..*a + c].iter().filter(|&&b| b == 0).count(); *a += c; Some(n) }).collect();
                }
            }
        }
        em.case(|| {
            let obs = run_case(&names, &chunks, err_at, extra);
            let fs: Vec<String> = frames.iter().map(|f| enc_bytes(f)).collect();
            vec![format!(
                "alias F {} G {} C {} O {} X {}{} => {}",
                fs.join(" "),
                if aligned { groups.iter().map(|g| g.to_string()).collect::<Vec<_>>().join(" ") } else { "-".into() },
                chunks.iter().map(|g| g.to_string()).collect::<Vec<_>>().join(" "),
                PRE.len(),
                err_at.map(|(i, _)| i.to_string()).unwrap_or_else(|| "-".into()),
                if extra > 0 { format!(" E {extra}") } else { String::new() },
                obs.join(" ")
            )]
        });
    }
}
