//! Scenario `alias` (C11): items of a chain's reply stream that borrow from the receive buffer are
//! held while later items are received; at the end every held `&str` is compared with the copy taken
//! when it was yielded.
//!
//! Line: `alias F <frame>* G <group size>* O <offset of the borrowed bytes in a frame> => <same|diff>*`
//! (replies arrive in groups: one transport read per group). Total size stays below the first growth
//! step so that no reallocation happens (reading through a dangling reference would be undefined
//! behaviour; the model covers reallocation, the run does not provoke it).

use crate::common::*;
use crate::rx::{E2, M1, P2};
use futures_util::stream::Stream;
use std::task::Poll;
use zlink_core::{Call, Connection};

const PRE: &str = "{\"parameters\":{\"name\":\"";

pub fn run_case(names: &[String], groups: &[usize]) -> Vec<String> {
    let net = new_net(vec![]);
    let mut conn = Connection::new(SSocket(net.clone()));
    let frames: Vec<Vec<u8>> = names.iter().map(|n| format!("{PRE}{n}\"}}}}").into_bytes()).collect();
    let mut chain = conn.chain_call::<M1, P2<'_>, E2<'_>>(&Call::new(M1::B)).unwrap();
    for _ in 1..names.len() {
        chain = chain.append(&Call::new(M1::B)).unwrap();
    }
    let stream = block_on(chain.send()).unwrap();
    let mut stream = Box::pin(stream);
    let w = noop_waker();
    let mut cx = std::task::Context::from_waker(&w);
    let mut held: Vec<(zlink_core::Reply<P2<'_>>, String)> = vec![];
    let mut next_frame = 0;
    for g in groups {
        {
            let mut n = net.borrow_mut();
            for f in &frames[next_frame..next_frame + g] {
                n.avail.extend(f.iter().copied());
                n.avail.push_back(0);
            }
        }
        next_frame += g;
        loop {
            match stream.as_mut().poll_next(&mut cx) {
                Poll::Ready(Some(Ok(Ok(r)))) => {
                    let copy = r.parameters().map(|p| p.name.to_string()).unwrap_or_default();
                    held.push((r, copy));
                }
                Poll::Ready(Some(_)) => held.clear(),
                Poll::Ready(None) | Poll::Pending => break,
            }
        }
    }
    held.iter().map(|(r, copy)| if r.parameters().map(|p| p.name) == Some(copy.as_str()) { "same".to_string() } else { "diff".to_string() }).collect()
}

pub fn main(o: &Opts) {
    let mut rng = Rng::new(o.seed ^ 0x616c6961);
    let mut em = Emitter::new(o.index);
    let n = if o.thorough() { 20_000 } else { 1500 };
    for _ in 0..n {
        let k = rng.range(2, 6);
        // names of different lengths so that overwrites hit different ranges; total stays < 250 bytes
        let budget = 250 / k - (PRE.len() + 4);
        let names: Vec<String> = (0..k).map(|i| {
            let l = rng.range(1, budget.max(2));
            (0..l).map(|j| (b'a' + ((i * 7 + j) % 26) as u8) as char).collect()
        }).collect();
        let mut groups = vec![];
        let mut left = k;
        while left > 0 {
            let g = if rng.chance(1, 3) { left } else { rng.range(1, left) };
            groups.push(g);
            left -= g;
        }
        em.case(|| {
            let obs = run_case(&names, &groups);
            let fs: Vec<String> = names.iter().map(|n| enc_bytes(format!("{PRE}{n}\"}}}}").as_bytes())).collect();
            vec![format!("alias F {} G {} O {} => {}", fs.join(" "), groups.iter().map(|g| g.to_string()).collect::<Vec<_>>().join(" "), PRE.len(), obs.join(" "))]
        });
    }
}
