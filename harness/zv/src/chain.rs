//! Scenario `chain` (C06): chains of plain / oneway / more calls, conforming reply scripts, trailing
//! unrelated frames, every chunking of the reply bytes; the reply stream is polled by hand.
//!
//! Line: `chain K <p|o|m>:<call bytes>* F <frame>=<kind>=<ref>* T <frame>=<ref>* S <size>* E <ev>* =>
//!        W <write>* ; <stream tokens> ; <receive tokens after the stream was dropped>`
//! events: `A<bytes>` arrive, `C` close, `P` poll the reply stream once, `R` one receive_reply poll on
//! the connection after the stream has been dropped (all `R` come after all `P`).

use crate::common::*;
use crate::rx::{E1, M1, P1};
use futures_util::stream::Stream;
use std::{pin::Pin, task::Poll};
use zlink_core::{Call, Connection};

#[derive(Clone, Copy, Debug, PartialEq)]
pub enum CK {
    Plain,
    Oneway,
    More,
    /// a call flagged `upgrade` that expects a reply: owed one reply like a plain call (a peer that keeps speaking
    /// Varlink - it refused the upgrade with an error, or ignores the flag as zlink's own server does - answers it)
    Upgrade,
}

#[derive(Clone, Debug)]
pub enum Ev {
    Arrive(Vec<u8>),
    Close,
    P,
    R,
}

pub struct Case {
    pub calls: Vec<(CK, Call<M1>)>,
    pub script: Vec<(Vec<u8>, char)>, // frame, kind c/f/e
    pub trailing: Vec<Vec<u8>>,
    pub sizes: Vec<usize>,
    pub evs: Vec<Ev>,
    /// an earlier exchange on the same connection, finished before the chain starts: this many plain calls enqueued
    /// one by one, flushed once, and their replies received (hand-made pipelining with the low-level API)
    pub prelude: usize,
    /// the stream is polled the way an executor polls a task: a poll that ended pending is not repeated until the
    /// stream's waker has fired (the skipped poll is recorded as `pend`, which is what it would have returned: a parked
    /// stream's poll is a no-op, `C06_parked_stream_poll_is_noop`); a wake-up the stream loses shows as an item that
    /// is never delivered
    pub wake_driven: bool,
}

type Item = zlink_core::Result<zlink_core::reply::Result<P1, E1>>;

fn item_tok(i: &Item) -> String {
    match i {
        Ok(v) => ok_token(v),
        Err(e) => err_token(e),
    }
}

pub fn reference(frame: &[u8]) -> String {
    crate::rx::reference("rP1E1", frame)
}

pub fn run_case(c: &Case) -> (Vec<Vec<u8>>, Vec<String>, Vec<String>) {
    let net = new_net(vec![]);
    let mut conn = Connection::new(SSocket(net.clone()));
    if c.prelude > 0 {
        for i in 0..c.prelude {
            let call = Call::new(M1::C { n: i as u32, o: None });
            conn.enqueue_call(&call).expect("prelude enqueue");
        }
        block_on(conn.flush()).expect("prelude flush");
        for i in 0..c.prelude {
            net.borrow_mut().avail.extend(format!("{{\"parameters\":{{\"name\":\"p{i}\"}}}}\0").bytes());
        }
        for _ in 0..c.prelude {
            let _ = block_on(conn.receive_reply::<P1, E1>());
        }
    }
    {
        // the recorded part starts here: the chain's own writes, the chain's own read-size schedule
        let mut n = net.borrow_mut();
        n.writes.clear();
        n.nwrites = 0;
        n.sizes = c.sizes.clone();
        n.k = 0;
        n.reads = 0;
    }
    let connp: *mut Connection<SSocket> = &mut conn;
    let mut stream_out = vec![];
    let mut after = vec![];
    {
        // SAFETY: the stream is the only user of the connection until it is dropped below.
        let cref: &mut Connection<SSocket> = unsafe { &mut *connp };
        let mut chain = cref.chain_call::<M1, P1, E1>(&c.calls[0].1).expect("chain_call");
        for (_, call) in &c.calls[1..] {
            chain = chain.append(call).expect("append");
        }
        let stream = block_on(chain.send()).expect("send");
        let mut stream: Pin<Box<dyn Stream<Item = Item> + '_>> = Box::pin(stream);
        let flag = WakeFlag::new();
        let w = std::task::Waker::from(flag.clone());
        let mut cx = std::task::Context::from_waker(&w);
        let mut parked = false;
        let mut ended = false;
        let mut evs = c.evs.iter();
        let mut rest: Vec<Ev> = vec![];
        for ev in evs.by_ref() {
            match ev {
                Ev::Arrive(b) => {
                    let mut n = net.borrow_mut();
                    n.avail.extend(b.iter().copied());
                    n.wake();
                }
                Ev::Close => {
                    let mut n = net.borrow_mut();
                    n.closed = true;
                    n.wake();
                }
                Ev::P => {
                    if ended {
                        // polling a finished stream again is a contract violation of Stream; record only
                        stream_out.push("ended".into());
                        continue;
                    }
                    let woken = flag.take();
                    if c.wake_driven && parked && !woken {
                        stream_out.push("pend".into());
                        continue;
                    }
                    parked = false;
                    match stream.as_mut().poll_next(&mut cx) {
                        Poll::Pending => {
                            parked = true;
                            stream_out.push("pend".into())
                        }
                        Poll::Ready(None) => {
                            ended = true;
                            stream_out.push("ended".into())
                        }
                        Poll::Ready(Some(item)) => stream_out.push(format!("it:{}", item_tok(&item))),
                    }
                }
                Ev::R => {
                    rest.push(ev.clone());
                    break;
                }
            }
        }
        rest.extend(evs.cloned());
        drop(stream);
        // receive phase on the same connection
        for ev in rest {
            match ev {
                Ev::Arrive(b) => net.borrow_mut().avail.extend(b.iter().copied()),
                Ev::Close => net.borrow_mut().closed = true,
                Ev::P => {}
                Ev::R => {
                    // SAFETY: the stream has been dropped.
                    let mut f = crate::rx::recv_fut("rP1E1", unsafe { &mut *connp });
                    match poll_once(f.as_mut()) {
                        Poll::Ready(s) => after.push(s),
                        Poll::Pending => after.push("pend".into()),
                    }
                }
            }
        }
    }
    let writes = net.borrow().writes.clone();
    (writes, stream_out, after)
}

pub fn line(c: &Case, obs: &(Vec<Vec<u8>>, Vec<String>, Vec<String>)) -> String {
    let mut s = String::from("chain");
    if c.prelude > 0 {
        s.push_str(&format!(" PRE{}", c.prelude));
    }
    if c.wake_driven {
        s.push_str(" W1");
    }
    s.push_str(" K");
    for (k, call) in &c.calls {
        let b = serde_json::to_vec(call).unwrap();
        s.push_str(&format!(" {}:{}", match k { CK::Plain => 'p', CK::Oneway => 'o', CK::More => 'm', CK::Upgrade => 'u' }, enc_bytes(&b)));
    }
    s.push_str(" F");
    for (f, k) in &c.script {
        s.push_str(&format!(" {}={}={}", enc_bytes(f), k, reference(f)));
    }
    s.push_str(" T");
    for f in &c.trailing {
        s.push_str(&format!(" {}={}", enc_bytes(f), reference(f)));
    }
    s.push_str(" S");
    for z in &c.sizes {
        s.push_str(&format!(" {z}"));
    }
    s.push_str(" E");
    for e in &c.evs {
        match e {
            Ev::Arrive(b) => s.push_str(&format!(" A{}", enc_bytes(b))),
            Ev::Close => s.push_str(" C"),
            Ev::P => s.push_str(" P"),
            Ev::R => s.push_str(" R"),
        }
    }
    s.push_str(" => W");
    for w in &obs.0 {
        s.push(' ');
        s.push_str(&enc_bytes(w));
    }
    s.push_str(" ;");
    for t in &obs.1 {
        s.push(' ');
        s.push_str(t);
    }
    s.push_str(" ;");
    for t in &obs.2 {
        s.push(' ');
        s.push_str(t);
    }
    s
}

fn name(rng: &mut Rng, big_one_in: usize) -> String {
    let big = big_one_in > 0 && rng.chance(1, big_one_in);
    let n = if big { rng.range(200, 700) } else { rng.range(1, 12) };
    (0..n).map(|_| (b'a' + rng.below(26) as u8) as char).collect()
}

fn final_reply(rng: &mut Rng, allow_err: bool) -> (Vec<u8>, char) {
    match rng.below(if allow_err { 5 } else { 3 }) {
        0 => (format!("{{\"parameters\":{{\"name\":\"{}\"}}}}", name(rng, 8)).into_bytes(), 'f'),
        1 => (format!("{{\"parameters\":{{\"name\":\"{}\"}},\"continues\":false}}", name(rng, 0)).into_bytes(), 'f'),
        2 => (format!("{{\"continues\":false,\"parameters\":{{\"name\":\"{}\"}}}}", name(rng, 0)).into_bytes(), 'f'),
        3 => (b"{\"error\":\"x.Y\"}".to_vec(), 'e'),
        _ => (format!("{{\"error\":\"x.Z\",\"parameters\":{{\"code\":{}}}}}", rng.below(1000)).into_bytes(), 'e'),
    }
}

fn cont_reply(rng: &mut Rng) -> (Vec<u8>, char) {
    if rng.chance(1, 2) {
        (format!("{{\"parameters\":{{\"name\":\"{}\"}},\"continues\":true}}", name(rng, 10)).into_bytes(), 'c')
    } else {
        (format!("{{\"continues\":true,\"parameters\":{{\"name\":\"{}\"}}}}", name(rng, 0)).into_bytes(), 'c')
    }
}

fn mk_call(k: CK, rng: &mut Rng) -> Call<M1> {
    let m = match rng.below(3) {
        0 => M1::B,
        1 => M1::A { v: name(rng, 10) },
        _ => M1::C { n: rng.below(100) as u32, o: if rng.chance(1, 2) { Some(-5) } else { None } },
    };
    let c = Call::new(m);
    match k {
        CK::Plain => c,
        CK::Oneway => c.set_oneway(true),
        CK::More => c.set_more(true),
        CK::Upgrade => c.set_upgrade(true),
    }
}

fn events(stream: &[u8], nitems: usize, ntrail: usize, rng: &mut Rng, cuts: Vec<usize>, close: bool) -> Vec<Ev> {
    let mut evs = vec![];
    let mut last = 0;
    let mut pieces = vec![];
    for c in cuts {
        if c > last && c < stream.len() {
            pieces.push(stream[last..c].to_vec());
            last = c;
        }
    }
    if last < stream.len() {
        pieces.push(stream[last..].to_vec());
    }
    if rng.chance(1, 2) {
        evs.push(Ev::P);
    }
    for p in pieces {
        evs.push(Ev::Arrive(p));
        for _ in 0..rng.below(3) {
            evs.push(Ev::P);
        }
    }
    if close {
        evs.push(Ev::Close);
    }
    for _ in 0..nitems + 2 {
        evs.push(Ev::P);
    }
    for _ in 0..ntrail + 1 {
        evs.push(Ev::R);
    }
    evs
}

pub fn gen_case(shape: &[CK], rng: &mut Rng, exhaustive_cut: Option<usize>) -> Case {
    let calls: Vec<(CK, Call<M1>)> = shape.iter().map(|k| (*k, mk_call(*k, rng))).collect();
    let mut script = vec![];
    for k in shape {
        match k {
            CK::Oneway => {}
            CK::Plain | CK::Upgrade => script.push(final_reply(rng, true)),
            CK::More => {
                for _ in 0..rng.below(4) {
                    script.push(cont_reply(rng));
                }
                script.push(final_reply(rng, true));
            }
        }
    }
    let ntrail = rng.below(3);
    let trailing: Vec<Vec<u8>> = (0..ntrail)
        .map(|_| match rng.below(3) {
            0 => final_reply(rng, true).0,
            1 => cont_reply(rng).0,
            _ => b"{\"error\":\"org.varlink.service.MethodNotFound\",\"parameters\":{\"method\":\"x.Q\"}}".to_vec(),
        })
        .collect();
    let mut stream = vec![];
    for (f, _) in &script {
        stream.extend_from_slice(f);
        stream.push(0);
    }
    for f in &trailing {
        stream.extend_from_slice(f);
        stream.push(0);
    }
    let cuts = match exhaustive_cut {
        Some(c) => vec![c],
        None => {
            let n = rng.below(6);
            let mut v: Vec<usize> = (0..n).map(|_| rng.range(1, stream.len().max(2) - 1)).collect();
            v.sort();
            v.dedup();
            v
        }
    };
    let sizes = match rng.below(3) {
        0 => vec![],
        1 => (0..rng.range(1, 12)).map(|_| rng.range(1, 80)).collect(),
        _ => vec![rng.range(1, 7); 300],
    };
    let close = rng.chance(2, 3);
    let evs = events(&stream, script.len(), trailing.len(), rng, cuts, close);
    Case { calls, script, trailing, sizes, evs, prelude: if rng.chance(1, 4) { rng.range(1, 3) } else { 0 }, wake_driven: false }
}

/// Big batches: a `more` call answered by 8..30 continuing replies of 0.5..2.5 KiB (17..50 KiB in all) followed by the
/// replies of the rest of the chain and 0..2 frames of a later exchange, everything available at once (or in two
/// large pieces) and read with large reads; the peer then stays silent or closes. Every owed reply must come out of
/// the one buffered batch and the later exchange's frames must still be there afterwards.
pub fn gen_big(rng: &mut Rng) -> Case {
    let shape: Vec<CK> = match rng.below(3) { 0 => vec![CK::More, CK::Plain], 1 => vec![CK::Plain, CK::More], _ => vec![CK::More, CK::Oneway, CK::More] };
    let calls: Vec<(CK, Call<M1>)> = shape.iter().map(|k| (*k, mk_call(*k, rng))).collect();
    let mut script = vec![];
    let big_name = |rng: &mut Rng| -> String { let n = rng.range(500, 2500); (0..n).map(|i| (b'a' + ((i + n) % 26) as u8) as char).collect() };
    let nmore = shape.iter().filter(|k| matches!(k, CK::More)).count();
    let per = rng.range(8, 30) / nmore.max(1) + 1;
    for k in &shape {
        match k {
            CK::Oneway => {}
            CK::Plain | CK::Upgrade => script.push(final_reply(rng, true)),
            CK::More => {
                for _ in 0..per {
                    let nm = big_name(rng);
                    script.push((format!("{{\"parameters\":{{\"name\":\"{nm}\"}},\"continues\":true}}").into_bytes(), 'c'));
                }
                script.push(final_reply(rng, true));
            }
        }
    }
    let ntrail = rng.below(3);
    let trailing: Vec<Vec<u8>> = (0..ntrail).map(|_| final_reply(rng, true).0).collect();
    let mut stream = vec![];
    for (f, _) in &script {
        stream.extend_from_slice(f);
        stream.push(0);
    }
    for f in &trailing {
        stream.extend_from_slice(f);
        stream.push(0);
    }
    let cuts = if rng.chance(1, 2) { vec![] } else { vec![rng.range(1, stream.len() - 1)] };
    let sizes = if rng.chance(2, 3) { vec![] } else { vec![rng.range(2000, 9000); 100] };
    let close = rng.chance(1, 2);
    let evs = events(&stream, script.len(), trailing.len(), rng, cuts, close);
    Case { calls, script, trailing, sizes, evs, prelude: 0, wake_driven: false }
}

pub fn main(o: &Opts) {
    let mut rng = Rng::new(o.seed ^ 0x636861);
    let mut em = Emitter::new(o.index);
    // all chains of 1..6 calls over {plain, oneway, more}: 1092 shapes
    let kinds = [CK::Plain, CK::Oneway, CK::More];
    let mut shapes: Vec<Vec<CK>> = vec![];
    for len in 1..=6usize {
        let total = 3usize.pow(len as u32);
        for mut code in 0..total {
            let mut s = vec![];
            for _ in 0..len {
                s.push(kinds[code % 3]);
                code /= 3;
            }
            shapes.push(s);
        }
    }
    let reps = if o.thorough() { 12 } else { 2 };
    for shape in &shapes {
        for _ in 0..reps {
            let mut r2 = Rng::new(rng.next());
            em.case(|| {
                let mut c = gen_case(shape, &mut r2, None);
                c.wake_driven = r2.chance(1, 3);
                let obs = run_case(&c);
                vec![line(&c, &obs)]
            });
        }
    }
    // chains of 2..6 calls over {plain, oneway, more, upgrade} with at least one upgrade call
    for _ in 0..(if o.thorough() { 2000 } else { 160 }) {
        let mut r2 = Rng::new(rng.next());
        em.case(|| {
            let all = [CK::Plain, CK::Oneway, CK::More, CK::Upgrade];
            let len = r2.range(2, 6);
            let mut shape: Vec<CK> = (0..len).map(|_| *r2.pick(&all)).collect();
            let at = r2.below(len);
            shape[at] = CK::Upgrade;
            let mut c = gen_case(&shape, &mut r2, None);
            c.wake_driven = r2.chance(1, 3);
            let obs = run_case(&c);
            vec![line(&c, &obs)]
        });
    }
    for _ in 0..(if o.thorough() { 80 } else { 8 }) {
        let mut r2 = Rng::new(rng.next());
        em.case(|| {
            let c = gen_big(&mut r2);
            let obs = run_case(&c);
            vec![line(&c, &obs)]
        });
    }
    // every single cut position of the reply bytes for short chains
    let nshort = if o.thorough() { 60 } else { 12 };
    for i in 0..nshort {
        let shape = &shapes[3 + (i * 7) % 36];
        let seed = rng.next();
        let probe = gen_case(shape, &mut Rng::new(seed), None);
        let total: usize = probe.script.iter().map(|(f, _)| f.len() + 1).sum::<usize>() + probe.trailing.iter().map(|f| f.len() + 1).sum::<usize>();
        for cut in 1..total.min(200) {
            em.case(|| {
                let c = gen_case(shape, &mut Rng::new(seed), Some(cut));
                let obs = run_case(&c);
                vec![line(&c, &obs)]
            });
        }
    }
}
