//! Scenarios `reply` (C04) and `envelope` (C05): how frames are classified / decoded / encoded.
//!
//! JSON trees are generated here (member order, duplicates, escapes under control), printed to
//! text for the real code and shipped to the model as S-expressions:
//! `n` null, `T`/`F`, `#<hex of number text>`, `s<hex>` string, `S<hex>` string written with escapes,
//! `[v,v..]`, `{<hex key>:v,..}`.

use crate::common::*;
use crate::rx::{E1, E2, M1, M2, P1, P2, P3};
use serde::{Deserialize, Serialize};
use zlink_core::{varlink_service, Call, Connection, Reply, ReplyError};

#[derive(Clone, Debug, PartialEq)]
pub enum J {
    Null,
    Bool(bool),
    Num(String),
    Str(String, bool),
    Arr(Vec<J>),
    Obj(Vec<(String, J)>),
}

impl J {
    pub fn text(&self) -> String {
        match self {
            J::Null => "null".into(),
            J::Bool(b) => b.to_string(),
            J::Num(t) => t.clone(),
            J::Str(s, esc) => {
                let mut o = String::from("\"");
                for (i, c) in s.chars().enumerate() {
                    if *esc && i == 0 {
                        o.push_str(&format!("\\u{:04x}", c as u32));
                    } else {
                        o.push(c);
                    }
                }
                o.push('"');
                o
            }
            J::Arr(v) => format!("[{}]", v.iter().map(|x| x.text()).collect::<Vec<_>>().join(",")),
            J::Obj(m) => format!("{{{}}}", m.iter().map(|(k, v)| format!("\"{}\":{}", k, v.text())).collect::<Vec<_>>().join(",")),
        }
    }
    /// The same document in a non-compact layout: insignificant white space around the structural characters
    /// (RFC 8259 `ws`: space, tab, LF, CR) and, for `esc_keys`, one character of some member names written as a
    /// `\uXXXX` escape. The tree it denotes is the same.
    pub fn text_layout(&self, rng: &mut Rng, esc_keys: bool) -> String {
        fn gap(rng: &mut Rng) -> &'static str {
            *rng.pick(&["", "", " ", "\n", "\t", " \r\n ", "  "])
        }
        match self {
            J::Arr(v) => {
                let items: Vec<String> = v.iter().map(|x| format!("{}{}{}", gap(rng), x.text_layout(rng, esc_keys), gap(rng))).collect();
                format!("[{}{}]", items.join(","), if v.is_empty() { gap(rng) } else { "" })
            }
            J::Obj(m) => {
                let items: Vec<String> = m
                    .iter()
                    .map(|(k, v)| {
                        let key = if esc_keys && !k.is_empty() && rng.chance(1, 4) {
                            let at = rng.below(k.chars().count());
                            k.chars().enumerate().map(|(i, c)| if i == at { format!("\\u{:04x}", c as u32) } else { c.to_string() }).collect::<String>()
                        } else {
                            k.clone()
                        };
                        format!("{}\"{}\"{}:{}{}{}", gap(rng), key, gap(rng), gap(rng), v.text_layout(rng, esc_keys), gap(rng))
                    })
                    .collect();
                format!("{{{}{}}}", items.join(","), if m.is_empty() { gap(rng) } else { "" })
            }
            other => other.text(),
        }
    }
    pub fn sexpr(&self) -> String {
        match self {
            J::Null => "n".into(),
            J::Bool(true) => "T".into(),
            J::Bool(false) => "F".into(),
            J::Num(t) => format!("#{}", hex(t.as_bytes())),
            J::Str(s, false) => format!("s{}", hex(s.as_bytes())),
            J::Str(s, true) => format!("S{}", hex(s.as_bytes())),
            J::Arr(v) => format!("[{}]", v.iter().map(|x| x.sexpr()).collect::<Vec<_>>().join(",")),
            J::Obj(m) => format!("{{{}}}", m.iter().map(|(k, v)| format!("{}:{}", hex(k.as_bytes()), v.sexpr())).collect::<Vec<_>>().join(",")),
        }
    }
}

// ------------------------------------------------------------------------------ shapes

#[derive(Clone, Debug, PartialEq)]
pub enum FT {
    Str,
    BStr,
    Int(i128, i128),
    Bool,
    Any,
    Opt(Box<FT>),
}

#[derive(Clone, Debug)]
pub struct Field {
    pub name: String,
    pub ty: FT,
}

#[derive(Clone, Debug)]
pub struct Variant {
    pub name: String,
    pub fields: Option<Vec<Field>>,
}

#[derive(Clone, Debug)]
pub enum PShape {
    Unit,
    Value,
    Struct(Vec<Field>),
}

fn parse_ft(s: &str) -> FT {
    if let Some(r) = s.strip_prefix('?') {
        return FT::Opt(Box::new(parse_ft(r)));
    }
    match s {
        "str" => FT::Str,
        "bstr" => FT::BStr,
        "bool" => FT::Bool,
        "any" => FT::Any,
        "i32" => FT::Int(i32::MIN as i128, i32::MAX as i128),
        "u32" => FT::Int(0, u32::MAX as i128),
        "i64" => FT::Int(i64::MIN as i128, i64::MAX as i128),
        _ => panic!("bad field type {s}"),
    }
}
fn parse_fields(s: &str) -> Vec<Field> {
    if s.is_empty() {
        return vec![];
    }
    s.split(',')
        .map(|f| {
            let (n, t) = f.split_once(':').unwrap();
            Field { name: n.into(), ty: parse_ft(t) }
        })
        .collect()
}
/// `iface|V|W(f:ty,..)`
pub fn parse_enum(s: &str) -> (String, Vec<Variant>) {
    let mut it = s.split('|');
    let iface = it.next().unwrap().to_string();
    let vs = it
        .filter(|v| !v.is_empty())
        .map(|v| match v.split_once('(') {
            Some((n, ")")) => Variant { name: n.into(), fields: None },
            Some((n, rest)) => Variant { name: n.into(), fields: Some(parse_fields(rest.trim_end_matches(')'))) },
            None => Variant { name: v.into(), fields: None },
        })
        .collect();
    (iface, vs)
}
pub fn parse_p(s: &str) -> PShape {
    match s {
        "unit" => PShape::Unit,
        "value" => PShape::Value,
        _ => PShape::Struct(parse_fields(s.strip_prefix("struct(").unwrap().trim_end_matches(')'))),
    }
}

// ------------------------------------------------------------------------------ type corpus

#[derive(Debug, Serialize, Deserialize, PartialEq)]
pub struct P4 {
    pub id: u32,
    pub ok: bool,
    pub note: Option<String>,
}

#[derive(Debug, ReplyError, PartialEq)]
#[zlink(interface = "x", crate = "zlink_core")]
pub enum E3 {
    Renamed {
        #[zlink(rename = "theCode")]
        code: i64,
        opt: Option<String>,
    },
    Plain,
}

#[derive(Debug, ReplyError, PartialEq)]
#[zlink(interface = "x", crate = "zlink_core")]
pub enum E0 {}

#[derive(Debug, ReplyError, PartialEq)]
#[zlink(interface = "x", crate = "zlink_core")]
pub enum E4 {
    A { x: bool },
    B { y: serde_json::Value },
}

/// variant-level renames (error names that are not Rust identifiers' natural spelling); `Debug`
/// prints the *wire* name so that observations are spelled like the shape
#[derive(ReplyError, PartialEq)]
#[zlink(interface = "x", crate = "zlink_core")]
pub enum E5 {
    #[zlink(rename = "NotOK")]
    NotOk,
    #[zlink(rename = "IOError")]
    IoError {
        #[zlink(rename = "errNo")]
        err_no: i32,
    },
    Same,
}
impl core::fmt::Debug for E5 {
    fn fmt(&self, f: &mut core::fmt::Formatter<'_>) -> core::fmt::Result {
        f.write_str(match self {
            E5::NotOk => "NotOK",
            E5::IoError { .. } => "IOError",
            E5::Same => "Same",
        })
    }
}

pub const PS: &[(&str, &str)] = &[
    ("unit", "unit"),
    ("value", "value"),
    ("P1", "struct(name:str)"),
    ("P2", "struct(name:bstr)"),
    ("P3", "struct(a:?u32,b:?str)"),
    ("P4", "struct(id:u32,ok:bool,note:?str)"),
];
pub const ES: &[(&str, &str)] = &[
    ("E1", "x|Y()|Z(code:i32)"),
    ("E2", "x|Y()|W(msg:bstr)"),
    ("E3", "x|Renamed(theCode:i64,opt:?str)|Plain()"),
    ("E0", "x|"),
    ("E4", "x|A(x:bool)|B(y:any)"),
    ("E5", "x|NotOK()|IOError(errNo:i32)|Same()"),
];

fn ident(dbg: &str) -> String {
    dbg.chars().take_while(|c| c.is_alphanumeric() || *c == '_').collect()
}

fn cls<P: core::fmt::Debug, E: core::fmt::Debug>(r: zlink_core::Result<core::result::Result<Reply<P>, E>>) -> String {
    match r {
        Ok(Ok(_)) => "ok".into(),
        Ok(Err(e)) => format!("me:{}", ident(&format!("{e:?}"))),
        Err(zlink_core::Error::VarlinkService(e)) => format!("se:{}", ident(&format!("{e:?}"))),
        Err(zlink_core::Error::Json(_)) => "json".into(),
        Err(e) => format!("other:{}", err_token(&e)),
    }
}

fn fresh(frame: &[u8]) -> Connection<SSocket> {
    let net = new_net(vec![]);
    {
        let mut n = net.borrow_mut();
        n.avail.extend(frame.iter().copied());
        n.avail.push_back(0);
        n.closed = true;
    }
    Connection::new(SSocket(net))
}

macro_rules! with_e {
    ($conn:expr, $p:ty, $e:expr) => {
        match $e {
            "E1" => cls(block_on($conn.receive_reply::<$p, E1>())),
            "E2" => cls(block_on($conn.receive_reply::<$p, E2<'_>>())),
            "E3" => cls(block_on($conn.receive_reply::<$p, E3>())),
            "E0" => cls(block_on($conn.receive_reply::<$p, E0>())),
            "E4" => cls(block_on($conn.receive_reply::<$p, E4>())),
            "E5" => cls(block_on($conn.receive_reply::<$p, E5>())),
            _ => panic!("unknown E"),
        }
    };
}

/// How `receive_reply::<P, E>` reports `frame` when the same connection (and the same receiver types) has received the
/// frames of `hist` before it: what a frame means does not depend on what the connection carried earlier.
pub fn classify_after(p: &str, e: &str, hist: &[Vec<u8>], frame: &[u8]) -> String {
    let net = new_net(vec![]);
    {
        let mut n = net.borrow_mut();
        for h in hist {
            n.avail.extend(h.iter().copied());
            n.avail.push_back(0);
        }
        n.avail.extend(frame.iter().copied());
        n.avail.push_back(0);
        n.closed = true;
    }
    let mut conn = Connection::new(SSocket(net));
    let mut last = String::new();
    for _ in 0..=hist.len() {
        last = match p {
            "unit" => with_e!(conn, (), e),
            "value" => with_e!(conn, serde_json::Value, e),
            "P1" => with_e!(conn, P1, e),
            "P2" => with_e!(conn, P2<'_>, e),
            "P3" => with_e!(conn, P3, e),
            "P4" => with_e!(conn, P4, e),
            _ => panic!("unknown P"),
        };
    }
    last
}

/// How `receive_reply::<P, E>` reports this frame.
pub fn classify(p: &str, e: &str, frame: &[u8]) -> String {
    let mut conn = fresh(frame);
    match p {
        "unit" => with_e!(conn, (), e),
        "value" => with_e!(conn, serde_json::Value, e),
        "P1" => with_e!(conn, P1, e),
        "P2" => with_e!(conn, P2<'_>, e),
        "P3" => with_e!(conn, P3, e),
        "P4" => with_e!(conn, P4, e),
        _ => panic!("unknown P"),
    }
}

// ------------------------------------------------------------------------------ generators

fn rand_str(rng: &mut Rng) -> String {
    let n = rng.range(1, 8);
    (0..n).map(|_| (b'a' + rng.below(26) as u8) as char).collect()
}

fn rand_any(rng: &mut Rng, depth: usize) -> J {
    match rng.below(if depth == 0 { 5 } else { 7 }) {
        0 => J::Null,
        1 => J::Bool(rng.chance(1, 2)),
        2 => J::Num(rng.below(1000).to_string()),
        3 => J::Num("1.5".into()),
        4 => J::Str(rand_str(rng), false),
        5 => J::Arr((0..rng.below(3)).map(|_| rand_any(rng, depth - 1)).collect()),
        _ => J::Obj((0..rng.below(3)).map(|i| (format!("k{i}"), rand_any(rng, depth - 1))).collect()),
    }
}

/// A value of field type `t`; `valid` false => something the type must reject.
pub fn gen_value(t: &FT, valid: bool, rng: &mut Rng) -> J {
    if valid {
        match t {
            FT::Str => J::Str(rand_str(rng), rng.chance(1, 6)),
            FT::BStr => J::Str(rand_str(rng), false),
            FT::Int(lo, hi) => {
                let v: i128 = match rng.below(5) {
                    0 => *lo,
                    1 => *hi,
                    2 => 0.max(*lo),
                    _ => (rng.below(100000) as i128).clamp(*lo, *hi),
                };
                J::Num(v.to_string())
            }
            FT::Bool => J::Bool(rng.chance(1, 2)),
            FT::Any => rand_any(rng, 2),
            FT::Opt(inner) => {
                if rng.chance(1, 3) {
                    J::Null
                } else {
                    gen_value(inner, true, rng)
                }
            }
        }
    } else {
        match t {
            FT::Str => match rng.below(3) { 0 => J::Num("5".into()), 1 => J::Null, _ => J::Bool(true) },
            FT::BStr => match rng.below(3) { 0 => J::Str(rand_str(rng), true), 1 => J::Num("5".into()), _ => J::Null },
            FT::Int(lo, hi) => match rng.below(5) {
                0 => J::Str("7".into(), false),
                1 => J::Num("1.5".into()),
                2 => J::Num((hi + 1).to_string()),
                3 => J::Num((lo - 1).to_string()),
                _ => J::Null,
            },
            FT::Bool => match rng.below(3) { 0 => J::Num("1".into()), 1 => J::Str("true".into(), false), _ => J::Null },
            FT::Any => rand_any(rng, 1), // nothing is invalid for `any`
            FT::Opt(inner) => gen_value(inner, false, rng),
        }
    }
}

/// members for a struct with these fields; `mode`: 0 right, 1 one field wrong, 2 one required field
/// missing, 3 extra member, 4 duplicate member, 5 positional array
pub fn gen_struct(fs: &[Field], mode: u8, rng: &mut Rng) -> J {
    if mode == 5 {
        return J::Arr(fs.iter().map(|f| gen_value(&f.ty, true, rng)).collect());
    }
    let bad = if fs.is_empty() { usize::MAX } else { rng.below(fs.len()) };
    let mut ms = vec![];
    for (i, f) in fs.iter().enumerate() {
        let opt = matches!(f.ty, FT::Opt(_));
        if mode == 2 && i == bad {
            continue;
        }
        if opt && mode != 1 && rng.chance(1, 3) {
            continue; // optional field simply absent
        }
        let wrong = mode == 1 && i == bad && f.ty != FT::Any && !matches!(&f.ty, FT::Opt(t) if **t == FT::Any);
        ms.push((f.name.clone(), gen_value(&f.ty, !wrong, rng)));
    }
    if mode == 3 {
        ms.push(("extraMember".into(), rand_any(rng, 1)));
    }
    if mode == 4 && !ms.is_empty() {
        let d = ms[rng.below(ms.len())].clone();
        ms.push(d);
    }
    shuffle(&mut ms, rng);
    J::Obj(ms)
}

pub fn shuffle<T>(v: &mut [T], rng: &mut Rng) {
    for i in (1..v.len()).rev() {
        v.swap(i, rng.below(i + 1));
    }
}

pub const SVC: &str = "org.varlink.service|InterfaceNotFound(interface:str)|MethodNotFound(method:str)|MethodNotImplemented(method:str)|InvalidParameter(parameter:str)|PermissionDenied()|ExpectedMore()";

/// One reply frame for receiver (P, E).
pub fn gen_reply(p: &PShape, e: &(String, Vec<Variant>), rng: &mut Rng) -> J {
    let svc = parse_enum(SVC);
    let mut ms: Vec<(String, J)> = vec![];
    let params_for = |p: &PShape, rng: &mut Rng| -> Option<J> {
        match p {
            PShape::Unit => match rng.below(4) { 0 => None, 1 => Some(J::Null), 2 => Some(J::Obj(vec![])), _ => Some(rand_any(rng, 1)) },
            PShape::Value => if rng.chance(1, 4) { None } else { Some(rand_any(rng, 2)) },
            PShape::Struct(fs) => match rng.below(10) {
                0 => None,
                1 => Some(J::Null),
                2 => Some(J::Obj(vec![])),
                m => Some(gen_struct(fs, (m as u8 - 3).min(5), rng)),
            },
        }
    };
    let error_members = |iface: &str, vs: &[Variant], ms: &mut Vec<(String, J)>, rng: &mut Rng| {
        if vs.is_empty() {
            ms.push(("error".into(), J::Str(format!("{iface}.Nothing"), false)));
            return;
        }
        let v = &vs[rng.below(vs.len())];
        ms.push(("error".into(), J::Str(format!("{iface}.{}", v.name), rng.chance(1, 12))));
        match &v.fields {
            None => match rng.below(5) {
                0 | 1 => {}
                2 => ms.push(("parameters".into(), J::Null)),
                3 => ms.push(("parameters".into(), J::Obj(vec![]))),
                _ => ms.push(("parameters".into(), rand_any(rng, 1))),
            },
            Some(fs) => match rng.below(9) {
                0 => {}
                1 => ms.push(("parameters".into(), J::Null)),
                m => ms.push(("parameters".into(), gen_struct(fs, (m as u8 - 2).min(5), rng))),
            },
        }
    };
    match rng.below(12) {
        // success replies
        0..=3 => {
            if let Some(pj) = params_for(p, rng) {
                ms.push(("parameters".into(), pj));
            }
            match rng.below(6) {
                0 => ms.push(("continues".into(), J::Bool(true))),
                1 => ms.push(("continues".into(), J::Bool(false))),
                2 => ms.push(("continues".into(), J::Null)),
                3 => ms.push(("continues".into(), J::Num("1".into()))),
                _ => {}
            }
        }
        // declared errors
        4..=6 => error_members(&e.0, &e.1, &mut ms, rng),
        // standard service errors
        7 | 8 => error_members(&svc.0, &svc.1, &mut ms, rng),
        // undeclared error names
        9 => {
            let n = *rng.pick(&["io.systemd.System", "x.Nope", "x.y", "org.varlink.service.Unknown", "x", ""]);
            ms.push(("error".into(), J::Str(n.into(), false)));
            if let Some(pj) = params_for(p, rng) {
                ms.push(("parameters".into(), pj));
            }
        }
        // `error` member that is not a string
        10 => {
            ms.push(("error".into(), match rng.below(3) { 0 => J::Null, 1 => J::Num("5".into()), _ => J::Obj(vec![]) }));
            if let Some(pj) = params_for(p, rng) {
                ms.push(("parameters".into(), pj));
            }
        }
        // a well-formed success that also carries an error member
        _ => {
            if let Some(pj) = params_for(p, rng) {
                ms.push(("parameters".into(), pj));
            }
            error_members(&e.0, &e.1, &mut ms, rng);
            ms.retain({
                let mut seen_params = false;
                move |(k, _)| {
                    if k == "parameters" {
                        if seen_params {
                            return false;
                        }
                        seen_params = true;
                    }
                    true
                }
            });
        }
    }
    // a `continues` member next to an error (services that answer a `more` call with an error do send it)
    if ms.iter().any(|(k, _)| k == "error") && !ms.iter().any(|(k, _)| k == "continues") && rng.chance(1, 4) {
        ms.push(("continues".into(), J::Bool(rng.chance(1, 2))));
    }
    if rng.chance(1, 6) {
        ms.push(("extra".into(), rand_any(rng, 1)));
    }
    if rng.chance(1, 25) && !ms.is_empty() {
        let d = ms[rng.below(ms.len())].clone();
        ms.push(d);
    }
    shuffle(&mut ms, rng);
    J::Obj(ms)
}

pub fn main_reply(o: &Opts) {
    let mut rng = Rng::new(o.seed ^ 0x7265706c);
    let mut em = Emitter::new(o.index);
    let per = if o.thorough() { 8000 } else { 700 };
    for (pn, ps) in PS {
        for (en, es) in ES {
            let p = parse_p(ps);
            let e = parse_enum(es);
            for _ in 0..per {
                let mut r2 = Rng::new(rng.next());
                em.case(|| {
                    let j = gen_reply(&p, &e, &mut r2);
                    // every other case: the same document in a non-compact layout (white space around tokens,
                    // member names partly written as \u escapes) - what a frame *means* does not depend on it
                    let mut text = if r2.chance(1, 2) { j.text() } else { j.text_layout(&mut r2, true) };
                    // one case in sixteen: a big frame (4.1 .. 20 KiB: beyond 16 steps of the read buffer), the same
                    // document with a long run of blanks behind its opening brace or in front of its closing one
                    if r2.chance(1, 16) {
                        let hi = if r2.chance(1, 4) { 20000 } else { 6000 };
                        let n = r2.range(4100, hi);
                        let at = if r2.chance(1, 2) { 1 } else { text.len() - 1 };
                        text.insert_str(at, &" ".repeat(n));
                    }
                    // every third case: the frame is the last of a history on one connection (continuing stream items,
                    // earlier errors, other replies); its class must be what it is on a fresh connection
                    let mut hist: Vec<Vec<u8>> = vec![];
                    if r2.chance(1, 3) {
                        for _ in 0..r2.range(1, 3) {
                            hist.push(match r2.below(3) {
                                0 => b"{\"continues\":true}".to_vec(),
                                1 => b"{\"parameters\":{},\"continues\":true}".to_vec(),
                                _ => gen_reply(&p, &e, &mut r2).text().into_bytes(),
                            });
                        }
                    }
                    let c = if hist.is_empty() { classify(pn, en, text.as_bytes()) } else { classify_after(pn, en, &hist, text.as_bytes()) };
                    let l = std::iter::once(enc_bytes(text.as_bytes())).chain(hist.iter().map(|h| enc_bytes(h))).collect::<Vec<_>>().join("~");
                    vec![format!("reply P {ps} E {es} J {} L {l} => {c}", j.sexpr())]
                });
            }
        }
    }
    // the witnesses of the defects found while reading (regression corpus)
    let fixed: &[(&str, &str, &str)] = &[
        ("unit", "E1", r#"{"error":"io.systemd.System"}"#),
        ("P3", "E1", r#"{"error":"io.systemd.System","parameters":{"errno":1}}"#),
        ("value", "E1", r#"{"error":"x.Z","parameters":{"bad":1}}"#),
        ("unit", "E1", r#"{"error":"org.varlink.service.MethodNotFound"}"#),
        ("P3", "E1", r#"{"error":"x.Y","parameters":{}}"#),
        ("unit", "E1", r#"{"error":null}"#),
    ];
    for (pn, en, text) in fixed {
        em.case(|| vec![format!("reply-witness {pn} {en} {} => {}", hex(text.as_bytes()), classify(pn, en, text.as_bytes()))]);
    }
}

// ------------------------------------------------------------------------------ C05: calls

fn call_tok<M: Serialize + core::fmt::Debug>(r: Result<Call<M>, serde_json::Error>) -> String {
    match r {
        Ok(c) => {
            let m = serde_json::to_value(c.method()).map(|v| v.to_string()).unwrap_or_else(|_| "unserialisable".into());
            format!("ok {} {}{}{}", hex(m.as_bytes()), c.oneway() as u8, c.more() as u8, c.upgrade() as u8)
        }
        Err(_) => "json".into(),
    }
}

pub const MS: &[(&str, &str)] = &[
    ("M1", "|x.A(v:str)|x.B|x.C(n:u32,o:?i64)"),
    ("M2", "|x.A(v:bstr)|x.B"),
    ("Svc", "|org.varlink.service.GetInfo()|org.varlink.service.GetInterfaceDescription(interface:bstr)"),
    ("MS", "|x.S(a:u32,b:?str)"),
];

/// A method type that is a plain struct with `method` / `parameters` members.
#[derive(Debug, Serialize, Deserialize, PartialEq)]
pub struct MStruct {
    pub method: MName,
    pub parameters: MSParams,
}
#[derive(Debug, Serialize, Deserialize, PartialEq)]
pub enum MName {
    #[serde(rename = "x.S")]
    S,
}
#[derive(Debug, Serialize, Deserialize, PartialEq)]
pub struct MSParams {
    pub a: u32,
    pub b: Option<String>,
}

/// A method type that keeps every member it is handed: `method` plus a flattened catch-all map.
#[derive(Debug, Serialize, Deserialize, PartialEq)]
pub struct MFlat {
    pub method: MNameF,
    #[serde(flatten)]
    pub rest: std::collections::BTreeMap<String, serde_json::Value>,
}
#[derive(Debug, Serialize, Deserialize, PartialEq)]
pub enum MNameF {
    #[serde(rename = "x.F")]
    F,
}

pub fn decode_call(m: &str, frame: &[u8]) -> String {
    // through the connection (receive_call) and, independently, serde_json::from_slice
    let via_conn = {
        let mut conn = fresh(frame);
        match m {
            "M1" => call_tok(block_on(conn.receive_call::<M1>()).map_err(to_json)),
            "M2" => call_tok(block_on(conn.receive_call::<M2<'_>>()).map_err(to_json)),
            "Svc" => call_tok(block_on(conn.receive_call::<varlink_service::Method<'_>>()).map_err(to_json)),
            "MS" => call_tok(block_on(conn.receive_call::<MStruct>()).map_err(to_json)),
            "MF" => call_tok(block_on(conn.receive_call::<MFlat>()).map_err(to_json)),
            _ => panic!("unknown M"),
        }
    };
    via_conn
}

fn to_json(e: zlink_core::Error) -> serde_json::Error {
    match e {
        zlink_core::Error::Json(j) => j,
        other => <serde_json::Error as serde::de::Error>::custom(format!("{other:?}")),
    }
}

/// all permutations of `v` (len ≤ 5)
fn permutations<T: Clone>(v: &[T]) -> Vec<Vec<T>> {
    if v.len() <= 1 {
        return vec![v.to_vec()];
    }
    let mut out = vec![];
    for i in 0..v.len() {
        let mut rest = v.to_vec();
        let x = rest.remove(i);
        for mut p in permutations(&rest) {
            p.insert(0, x.clone());
            out.push(p);
        }
    }
    out
}

pub fn gen_call_members(vs: &[Variant], flags: u8, flag_vals: u8, rng: &mut Rng) -> Vec<(String, J)> {
    let mut ms = vec![];
    let v = &vs[rng.below(vs.len())];
    match rng.below(12) {
        0 => ms.push(("method".into(), J::Str("x.Unknown".into(), false))),
        1 => ms.push(("method".into(), J::Num("1".into()))),
        2 => {}
        _ => ms.push(("method".into(), J::Str(v.name.clone(), false))),
    }
    match &v.fields {
        None => match rng.below(6) {
            0 => ms.push(("parameters".into(), J::Null)),
            1 => ms.push(("parameters".into(), J::Obj(vec![]))),
            _ => {}
        },
        Some(fs) => match rng.below(10) {
            0 => {}
            1 => ms.push(("parameters".into(), J::Null)),
            m => ms.push(("parameters".into(), gen_struct(fs, (m as u8 - 2).min(5).min(if m > 6 { 0 } else { 5 }), rng))),
        },
    }
    for (i, name) in ["oneway", "more", "upgrade"].iter().enumerate() {
        if flags & (1 << i) != 0 {
            ms.push((name.to_string(), J::Bool(flag_vals & (1 << i) != 0)));
        }
    }
    ms
}

pub fn main_envelope(o: &Opts) {
    let mut rng = Rng::new(o.seed ^ 0x656e76);
    let mut em = Emitter::new(o.index);
    // (a) decoding calls: all 8 subsets of present flags x all permutations of the members
    let reps = if o.thorough() { 12 } else { 2 };
    for (mn, msh) in MS {
        let (_, vs) = parse_enum(msh);
        for flags in 0..8u8 {
            for fv in 0..8u8 {
                if fv & !flags != 0 {
                    continue;
                }
                for _ in 0..reps {
                    let mut ms = gen_call_members(&vs, flags, fv, &mut rng);
                    if rng.chance(1, 3) && ms.len() < 5 {
                        ms.push(("extra".into(), rand_any(&mut rng, 1)));
                    }
                    if ms.len() > 5 {
                        ms.truncate(5);
                    }
                    for perm in permutations(&ms) {
                        em.case(|| {
                            let j = J::Obj(perm.clone());
                            let t = decode_call(mn, j.text().as_bytes());
                            vec![format!("calldec M {msh} J {} => {t}", j.sexpr())]
                        });
                    }
                }
            }
        }
        // flag values that are not booleans, repeated flags
        for _ in 0..(if o.thorough() { 400 } else { 40 }) {
            let mut ms = gen_call_members(&vs, 0, 0, &mut rng);
            let f = *rng.pick(&["oneway", "more", "upgrade"]);
            match rng.below(4) {
                0 => ms.push((f.into(), J::Null)),
                1 => ms.push((f.into(), J::Num("1".into()))),
                2 => {
                    ms.push((f.into(), J::Bool(true)));
                    ms.push((f.into(), J::Bool(false)));
                }
                _ => {
                    ms.push((f.into(), J::Bool(false)));
                    ms.push((f.into(), J::Bool(true)));
                }
            }
            shuffle(&mut ms, &mut rng);
            em.case(|| {
                let j = J::Obj(ms.clone());
                let t = decode_call(mn, j.text().as_bytes());
                vec![format!("calldec M {msh} J {} => {t}", j.sexpr())]
            });
        }
    }
    // (a') a method type that shows every member it was handed (`MF`: `method` + a flattened catch-all): the three
    // flags are hidden from it, every other member - `parameters` of any shape, `id`, `tag`, anything - passes through
    for _ in 0..(if o.thorough() { 12000 } else { 1200 }) {
        let mut r2 = Rng::new(rng.next());
        em.case(|| {
            let mut ms: Vec<(String, J)> = vec![("method".into(), J::Str(if r2.chance(1, 12) { "x.G".into() } else { "x.F".into() }, false))];
            if r2.chance(2, 3) {
                ms.push(("parameters".into(), rand_any(&mut r2, 2)));
            }
            let pool = ["id", "tag", "extra", "continues", "error", "onewayx", "More", "up", "z"];
            let mut used: Vec<&str> = vec![];
            for _ in 0..r2.below(4) {
                let k = *r2.pick(&pool);
                if !used.contains(&k) {
                    used.push(k);
                    ms.push((k.to_string(), rand_any(&mut r2, 1)));
                }
            }
            let flags = r2.below(8) as u8;
            let fv = r2.below(8) as u8 & flags;
            for (i, name) in ["oneway", "more", "upgrade"].iter().enumerate() {
                if flags & (1 << i) != 0 {
                    ms.push((name.to_string(), J::Bool(fv & (1 << i) != 0)));
                }
            }
            shuffle(&mut ms, &mut r2);
            let j = J::Obj(ms);
            let t = decode_call("MF", j.text().as_bytes());
            vec![format!("calldec M MF J {} => {t}", j.sexpr())]
        });
    }
    // (b) encoding calls, errors, replies: bytes on the wire vs the model's encoder
    let n = if o.thorough() { 6000 } else { 600 };
    for _ in 0..n {
        let mut r2 = Rng::new(rng.next());
        em.case(|| vec![gen_encode_case(&mut r2)]);
    }
    // (c) `parameters` absent / null / {} where nothing is carried
    let spell = ["", r#","parameters":null"#, r#","parameters":{}"#];
    for (i, sp) in spell.iter().enumerate() {
        let name = ["absent", "null", "empty"][i];
        em.case(|| {
            let f = format!(r#"{{"method":"org.varlink.service.GetInfo"{sp}}}"#);
            vec![format!("noparams svc-method {name} => {}", decode_call("Svc", f.as_bytes()).split(' ').next().unwrap())]
        });
        em.case(|| {
            let f = format!(r#"{{"error":"org.varlink.service.PermissionDenied"{sp}}}"#);
            vec![format!("noparams svc-error {name} => {}", classify("P1", "E1", f.as_bytes()))]
        });
        em.case(|| {
            let f = format!(r#"{{"error":"x.Y"{sp}}}"#);
            vec![format!("noparams derived-error {name} => {}", classify("P1", "E1", f.as_bytes()))]
        });
        em.case(|| {
            let f = if sp.is_empty() { "{}".to_string() } else { format!("{{{}}}", &sp[1..]) };
            vec![format!("noparams unit-reply {name} => {}", classify("unit", "E1", f.as_bytes()))]
        });
    }
}

fn sent_bytes(f: impl FnOnce(&mut Connection<SSocket>) -> zlink_core::Result<()>) -> String {
    let net = new_net(vec![]);
    let mut conn = Connection::new(SSocket(net.clone()));
    match f(&mut conn) {
        Ok(()) => {
            let w = net.borrow().writes.concat();
            // strip the terminator
            let body = if w.last() == Some(&0) { &w[..w.len() - 1] } else { &w[..] };
            format!("ok:{}", hex(body))
        }
        Err(e) => err_token(&e),
    }
}

/// One encoding case: a typed value, what zlink puts on the wire for it, and the description of the
/// value for the model: `enc call|error|reply <shape> V <variant index> A <arg sexprs> F <omu> => ok:<hex>`.
fn gen_encode_case(rng: &mut Rng) -> String {
    let flags = (rng.chance(1, 3), rng.chance(1, 3), rng.chance(1, 5));
    let fl = format!("{}{}{}", flags.0 as u8, flags.1 as u8, flags.2 as u8);
    let s = rand_str(rng);
    let n = rng.below(100000) as u32;
    let oi: Option<i64> = match rng.below(3) { 0 => None, 1 => Some(-(rng.below(1000) as i64)), _ => Some(rng.next() as i64 >> 3) };
    let os: Option<String> = if rng.chance(1, 2) { None } else { Some(rand_str(rng)) };
    let js = |x: &str| J::Str(x.into(), false).sexpr();
    let ji = |x: i128| J::Num(x.to_string()).sexpr();
    let jo = |x: Option<String>| x.map(|v| js(&v)).unwrap_or("n".into());
    let apply = |c: Call<M1>| c.set_oneway(flags.0).set_more(flags.1).set_upgrade(flags.2);
    match rng.below(16) {
        13 => format!("enc error {} V 0 A => {}", ES[5].1, sent_bytes(|c| block_on(c.send_error(&E5::NotOk)))),
        14 => format!("enc error {} V 1 A {} => {}", ES[5].1, ji(n as i128 - 50000), sent_bytes(|c| block_on(c.send_error(&E5::IoError { err_no: n as i32 - 50000 })))),
        15 => format!("enc error {} V 2 A => {}", ES[5].1, sent_bytes(|c| block_on(c.send_error(&E5::Same)))),
        0 => format!("enc call {} V 0 A {} F {fl} => {}", MS[0].1, js(&s), sent_bytes(|c| block_on(c.send_call(&apply(Call::new(M1::A { v: s.clone() })))))),
        1 => format!("enc call {} V 1 A F {fl} => {}", MS[0].1, sent_bytes(|c| block_on(c.send_call(&apply(Call::new(M1::B)))))),
        2 => format!("enc call {} V 2 A {} {} F {fl} => {}", MS[0].1, ji(n as i128), oi.map(|v| ji(v as i128)).unwrap_or("n".into()),
            sent_bytes(|c| block_on(c.send_call(&apply(Call::new(M1::C { n, o: oi })))))),
        3 => format!("enc call {} V 1 A {} F 000 => {}", MS[2].1, js(&s),
            sent_bytes(|c| block_on(c.send_call(&Call::new(varlink_service::Method::GetInterfaceDescription { interface: &s }))))),
        4 => format!("enc call {} V 0 A F 000 => {}", MS[2].1, sent_bytes(|c| block_on(c.send_call(&Call::new(varlink_service::Method::GetInfo))))),
        5 => format!("enc error {} V 0 A => {}", ES[0].1, sent_bytes(|c| block_on(c.send_error(&E1::Y)))),
        6 => format!("enc error {} V 1 A {} => {}", ES[0].1, ji(n as i128 - 50000), sent_bytes(|c| block_on(c.send_error(&E1::Z { code: n as i32 - 50000 })))),
        7 => format!("enc error {} V 1 A {} => {}", ES[1].1, js(&s), sent_bytes(|c| block_on(c.send_error(&E2::W { msg: &s })))),
        8 => format!("enc error {} V 0 A {} {} => {}", ES[2].1, ji(oi.unwrap_or(7) as i128), jo(os.clone()),
            sent_bytes(|c| block_on(c.send_error(&E3::Renamed { code: oi.unwrap_or(7), opt: os.clone() })))),
        9 => format!("enc error {} V 1 A => {}", ES[2].1, sent_bytes(|c| block_on(c.send_error(&E3::Plain)))),
        10 => format!("enc error {} V 3 A {} => {}", SVC, js(&s),
            sent_bytes(|c| block_on(c.send_error(&varlink_service::Error::InvalidParameter { parameter: s.clone() })))),
        11 => format!("enc error {} V 4 A => {}", SVC, sent_bytes(|c| block_on(c.send_error(&varlink_service::Error::PermissionDenied)))),
        _ => {
            let cont = *rng.pick(&[None, Some(true), Some(false)]);
            let ct = match cont { None => "-", Some(true) => "T", Some(false) => "F" };
            if rng.chance(1, 3) {
                format!("enc reply unit P - C {ct} => {}", sent_bytes(|c| block_on(c.send_reply(&Reply::<()>::new(None).set_continues(cont)))))
            } else {
                let j = J::Obj(vec![("name".into(), J::Str(s.clone(), false))]);
                format!("enc reply struct P {} C {ct} => {}", j.sexpr(),
                    sent_bytes(|c| block_on(c.send_reply(&Reply::new(Some(P1 { name: s.clone() })).set_continues(cont)))))
            }
        }
    }
}
