//! Stage A of the codegen corpus (C15): runs `zlink_codegen::generate_interface` on every `<i>.idl` of a
//! directory, writes the generated module next to the exercise code, and prints what the generated
//! code *declares* (read back with syn) as one canonical line per interface.
//!
//!   zvg gen <idl-dir> <out-dir>     m<i>.rs per <i>.idl; stdout: `cgdecl <hex idl> => <declarations>`
//!   zvg case                        stdin: one name per line; stdout: `case <hex> => <snake hex> <pascal hex>`
use heck::{ToPascalCase, ToSnakeCase};
use quote::ToTokens;
use std::io::BufRead;

fn hex(b: &[u8]) -> String {
    if b.is_empty() {
        return "-".into();
    }
    b.iter().map(|x| format!("{x:02x}")).collect()
}

fn ty_str(t: &impl ToTokens) -> String {
    t.to_token_stream().to_string().chars().filter(|c| !c.is_whitespace()).collect()
}

/// like `ty_str`, with the blank after a lifetime kept (`&'a str`)
fn ty_text(t: &impl ToTokens) -> String {
    let s = ty_str(t);
    let mut out = String::new();
    let cs: Vec<char> = s.chars().collect();
    let mut i = 0;
    while i < cs.len() {
        out.push(cs[i]);
        if cs[i] == '\'' {
            // copy the lifetime name, then a blank if an identifier follows
            i += 1;
            while i < cs.len() && cs[i].is_ascii_lowercase() && !s[i..].starts_with("str") {
                out.push(cs[i]);
                i += 1;
            }
            if i < cs.len() && cs[i].is_alphanumeric() {
                out.push(' ');
            }
            continue;
        }
        i += 1;
    }
    out
}

/// `#[ns(key = "value")]` → value
fn attr_str(attrs: &[syn::Attribute], ns: &str, key: &str) -> Option<String> {
    let mut out = None;
    for a in attrs {
        if !a.path().is_ident(ns) {
            continue;
        }
        let _ = a.parse_nested_meta(|m| {
            if m.path.is_ident(key) {
                let v: syn::LitStr = m.value()?.parse()?;
                out = Some(v.value());
            } else if m.input.peek(syn::Token![=]) {
                let _: syn::Expr = m.value()?.parse()?;
            }
            Ok(())
        });
    }
    out
}

fn attr_flag(attrs: &[syn::Attribute], ns: &str, key: &str) -> bool {
    let mut out = false;
    for a in attrs {
        if !a.path().is_ident(ns) {
            continue;
        }
        let _ = a.parse_nested_meta(|m| {
            if m.path.is_ident(key) {
                out = true;
            } else if m.input.peek(syn::Token![=]) {
                let _: syn::Expr = m.value()?.parse()?;
            }
            Ok(())
        });
    }
    out
}

fn derives(attrs: &[syn::Attribute], what: &str) -> bool {
    attrs.iter().any(|a| a.path().is_ident("derive") && ty_str(&a.meta).contains(what))
}

fn o(s: Option<String>) -> String {
    s.unwrap_or_else(|| "-".into())
}

fn declarations(code: &str) -> Result<String, String> {
    let file = syn::parse_file(code).map_err(|e| format!("unparsable:{}", e.to_string().replace(' ', "_")))?;
    let mut out: Vec<String> = vec![];
    for item in &file.items {
        match item {
            syn::Item::Trait(t) => {
                let iface = t
                    .attrs
                    .iter()
                    .find(|a| a.path().is_ident("proxy"))
                    .and_then(|a| a.parse_args::<syn::LitStr>().ok().map(|l| l.value()).or_else(|| attr_str(&t.attrs, "proxy", "interface")));
                out.push(format!("trait {} {} {{", t.ident, o(iface)));
                for it in &t.items {
                    if let syn::TraitItem::Fn(f) = it {
                        let flag = if attr_flag(&f.attrs, "zlink", "more") {
                            "more"
                        } else if attr_flag(&f.attrs, "zlink", "oneway") {
                            "oneway"
                        } else {
                            "-"
                        };
                        out.push(format!("fn {} {} {} (", f.sig.ident, o(attr_str(&f.attrs, "zlink", "rename")), flag));
                        for a in &f.sig.inputs {
                            if let syn::FnArg::Typed(p) = a {
                                out.push(format!("{} {} {} ,", ty_str(&p.pat), o(attr_str(&p.attrs, "zlink", "rename")), ty_str(&p.ty)));
                            }
                        }
                        let ret = match &f.sig.output {
                            syn::ReturnType::Default => "()".to_string(),
                            syn::ReturnType::Type(_, t) => ty_str(t),
                        };
                        out.push(format!(") {ret} ;"));
                    }
                }
                out.push("}".into());
            }
            syn::Item::Struct(s) => {
                out.push(format!("struct {} {} {{", s.ident, if s.generics.lifetimes().next().is_some() { 1 } else { 0 }));
                for f in &s.fields {
                    out.push(format!(
                        "{} {} {} {} ,",
                        f.ident.as_ref().map(|i| i.to_string()).unwrap_or_default(),
                        o(attr_str(&f.attrs, "serde", "rename")),
                        if attr_flag(&f.attrs, "serde", "borrow") { 1 } else { 0 },
                        ty_str(&f.ty)
                    ));
                }
                out.push("}".into());
            }
            syn::Item::Enum(e) if derives(&e.attrs, "ReplyError") => {
                out.push(format!("errors {} {} {{", e.ident, o(attr_str(&e.attrs, "zlink", "interface"))));
                for v in &e.variants {
                    out.push(format!("{} {} {{", v.ident, o(attr_str(&v.attrs, "zlink", "rename"))));
                    for f in &v.fields {
                        out.push(format!(
                            "{} {} {} ,",
                            f.ident.as_ref().map(|i| i.to_string()).unwrap_or_default(),
                            o(attr_str(&f.attrs, "zlink", "rename")),
                            ty_str(&f.ty)
                        ));
                    }
                    out.push("} ,".into());
                }
                out.push("}".into());
            }
            syn::Item::Enum(e) => {
                out.push(format!("enum {} {} {{", e.ident, o(attr_str(&e.attrs, "serde", "rename_all"))));
                for v in &e.variants {
                    out.push(format!("{} {} ,", v.ident, o(attr_str(&v.attrs, "serde", "rename"))));
                }
                out.push("}".into());
            }
            _ => {}
        }
    }
    Ok(out.join(" "))
}

fn gen(text: &str) -> Option<syn::File> {
    let iface = zlink::idl::Interface::try_from(text).ok()?;
    let code = zlink_codegen::generate_interface(&iface).ok()?;
    syn::parse_file(&code).ok()
}

/// `zvg tables`: the tables of the code generator read off what it *generates* (used by extract/extract.py when
/// codegen.rs no longer has the textual shape its patterns expect).
/// `cg-keywords` / `cg-notraw`: for every candidate word, the identifier emitted for a field of that name
/// (`r#word` = keyword, `word_` = keyword that cannot be a raw identifier, `word` = not a keyword).
/// `cg-prim <table>:<IDL type>=<Rust type>`: the Rust type emitted for each primitive IDL type as a field of a custom
/// type (`type_to_rust`), a method parameter (`type_to_rust_param`), the element of an array parameter
/// (`type_to_rust_param_elem`) and a field of a method's output (`type_to_rust_output`).
fn tables() {
    let cands = ["abstract", "as", "async", "await", "become", "box", "break", "const", "continue", "crate", "do", "dyn", "else", "enum",
        "extern", "false", "final", "fn", "for", "gen", "if", "impl", "in", "let", "loop", "macro", "match", "mod", "move", "mut",
        "override", "priv", "pub", "ref", "return", "self", "Self", "static", "struct", "super", "trait", "true", "try", "type", "typeof",
        "unsafe", "unsized", "use", "virtual", "where", "while", "yield",
        // not keywords (must come out unchanged)
        "union", "auto", "default", "name", "dynx", "r2", "Type"];
    let mut kws = vec![];
    let mut notraw = vec![];
    for w in cands {
        if w.chars().next().map_or(false, |c| c.is_uppercase()) {
            // a capitalised word is probed as the name of a custom type (field names are snake-cased first)
            let text = format!("interface a.b\ntype {w} (ok1: int)\n");
            let Some(file) = gen(&text) else { continue };
            for item in &file.items {
                if let syn::Item::Struct(s) = item {
                    let id = s.ident.to_string();
                    if id == format!("r#{w}") {
                        kws.push(w);
                    } else if id == format!("{w}_") {
                        kws.push(w);
                        notraw.push(w);
                    }
                }
            }
            continue;
        }
        let text = format!("interface a.b\ntype Tq (ok1: int, {w}: int)\n");
        let Some(file) = gen(&text) else { continue };
        for item in &file.items {
            if let syn::Item::Struct(s) = item {
                if s.ident != "Tq" {
                    continue;
                }
                if let Some(f) = s.fields.iter().nth(1) {
                    let id = f.ident.as_ref().map(|i| i.to_string()).unwrap_or_default();
                    if id == format!("r#{w}") {
                        kws.push(w);
                    } else if id == format!("{w}_") {
                        kws.push(w);
                        notraw.push(w);
                    }
                }
            }
        }
    }
    println!("cg-keywords {}", kws.join(" "));
    println!("cg-notraw {}", notraw.join(" "));
    let prims = [("bool", "Bool"), ("int", "Int"), ("float", "Float"), ("string", "String"), ("object", "ForeignObject")];
    let mut rows = vec![];
    for (idl, var) in prims {
        let text = format!("interface a.b\ntype Tq (f: {idl})\nmethod Mq(p: {idl}, q: []{idl}) -> (o: {idl})\n");
        let Some(file) = gen(&text) else { continue };
        for item in &file.items {
            match item {
                syn::Item::Struct(s) if s.ident == "Tq" => {
                    if let Some(f) = s.fields.iter().next() {
                        rows.push(format!("type_to_rust:{var}={}", ty_str(&f.ty)));
                    }
                }
                syn::Item::Struct(s) if s.ident == "MqOutput" => {
                    if let Some(f) = s.fields.iter().next() {
                        rows.push(format!("type_to_rust_output:{var}={}", ty_text(&f.ty).replace(' ', "~")));
                    }
                }
                syn::Item::Trait(t) => {
                    for it in &t.items {
                        if let syn::TraitItem::Fn(f) = it {
                            let tys: Vec<String> = f.sig.inputs.iter().filter_map(|a| if let syn::FnArg::Typed(p) = a { Some(ty_str(&p.ty)) } else { None }).collect();
                            if tys.len() == 2 {
                                rows.push(format!("type_to_rust_param:{var}={}", tys[0]));
                                let e = tys[1].strip_prefix("&[").and_then(|x| x.strip_suffix(']')).unwrap_or(&tys[1]).to_string();
                                rows.push(format!("type_to_rust_param_elem:{var}={e}"));
                            }
                        }
                    }
                }
                _ => {}
            }
        }
    }
    // in the order of the source tables: table by table
    let order = ["type_to_rust", "type_to_rust_param", "type_to_rust_param_elem", "type_to_rust_output"];
    let mut sorted = vec![];
    for t in order {
        for r in &rows {
            if r.starts_with(&format!("{t}:")) {
                sorted.push(r.clone());
            }
        }
    }
    println!("cg-prim {}", sorted.join(" "));
}

fn main() {
    let args: Vec<String> = std::env::args().collect();
    match args.get(1).map(|s| s.as_str()) {
        Some("gen") => {
            let (dir, outdir) = (&args[2], &args[3]);
            let mut idx: Vec<usize> = std::fs::read_dir(dir)
                .unwrap()
                .filter_map(|e| e.ok())
                .filter_map(|e| e.file_name().to_string_lossy().strip_suffix(".idl").and_then(|s| s.parse().ok()))
                .collect();
            idx.sort();
            for i in idx {
                let text = std::fs::read_to_string(format!("{dir}/{i}.idl")).unwrap();
                let r = std::panic::catch_unwind(|| {
                    let iface = zlink::idl::Interface::try_from(text.as_str()).map_err(|e| format!("parse-error:{}", format!("{e}").replace(' ', "_")))?;
                    zlink_codegen::generate_interface(&iface).map_err(|e| format!("codegen-error:{}", format!("{e}").replace(' ', "_")))
                });
                let (code, obs) = match r {
                    Ok(Ok(code)) => {
                        let d = declarations(&code).unwrap_or_else(|e| e);
                        (code, d)
                    }
                    Ok(Err(e)) => (String::new(), e),
                    Err(_) => (String::new(), "panic".into()),
                };
                std::fs::write(format!("{outdir}/m{i}.rs"), code).unwrap();
                println!("cgdecl {} => {}", hex(text.as_bytes()), obs);
            }
        }
        Some("case") => {
            for l in std::io::stdin().lock().lines() {
                let l = l.unwrap();
                println!("case {} => {} {}", hex(l.as_bytes()), hex(l.to_snake_case().as_bytes()), hex(l.to_pascal_case().as_bytes()));
            }
        }
        Some("tables") => tables(),
        _ => {
            eprintln!("usage: zvg gen <idl-dir> <out-dir> | zvg case | zvg tables");
            std::process::exit(2);
        }
    }
}
