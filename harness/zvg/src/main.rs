//! Stage A of the codegen corpus (C15): runs `zlink_codegen::generate_interface` on every `<i>.idl` of a
//! directory, writes the generated module next to the exercise code, and prints what the generated
//! code *declares* (read back with syn) as one canonical line per interface.
//!
//!   zvg gen <idl-dir> <out-dir>     m<i>.rs per <i>.idl; stdout: `cgdecl <hex idl> => <declarations>`
//!   zvg case                        stdin: one name per line; stdout: `case <hex> => <snake hex> <pascal hex>`
use heck::{ToPascalCase, ToSnakeCase};
use quote::ToTokens;
use std::io::BufRead;

fn hex(b: &[u8]) -> String {
    if b.is_empty() {
        return "-".into();
    }
    b.iter().map(|x| format!("{x:02x}")).collect()
}

fn ty_str(t: &impl ToTokens) -> String {
    t.to_token_stream().to_string().chars().filter(|c| !c.is_whitespace()).collect()
}

/// `#[ns(key = "value")]` → value
fn attr_str(attrs: &[syn::Attribute], ns: &str, key: &str) -> Option<String> {
    let mut out = None;
    for a in attrs {
        if !a.path().is_ident(ns) {
            continue;
        }
        let _ = a.parse_nested_meta(|m| {
            if m.path.is_ident(key) {
                let v: syn::LitStr = m.value()?.parse()?;
                out = Some(v.value());
            } else if m.input.peek(syn::Token![=]) {
                let _: syn::Expr = m.value()?.parse()?;
            }
            Ok(())
        });
    }
    out
}

fn attr_flag(attrs: &[syn::Attribute], ns: &str, key: &str) -> bool {
    let mut out = false;
    for a in attrs {
        if !a.path().is_ident(ns) {
            continue;
        }
        let _ = a.parse_nested_meta(|m| {
            if m.path.is_ident(key) {
                out = true;
            } else if m.input.peek(syn::Token![=]) {
                let _: syn::Expr = m.value()?.parse()?;
            }
            Ok(())
        });
    }
    out
}

fn derives(attrs: &[syn::Attribute], what: &str) -> bool {
    attrs.iter().any(|a| a.path().is_ident("derive") && ty_str(&a.meta).contains(what))
}

fn o(s: Option<String>) -> String {
    s.unwrap_or_else(|| "-".into())
}

fn declarations(code: &str) -> Result<String, String> {
    let file = syn::parse_file(code).map_err(|e| format!("unparsable:{}", e.to_string().replace(' ', "_")))?;
    let mut out: Vec<String> = vec![];
    for item in &file.items {
        match item {
            syn::Item::Trait(t) => {
                let iface = t
                    .attrs
                    .iter()
                    .find(|a| a.path().is_ident("proxy"))
                    .and_then(|a| a.parse_args::<syn::LitStr>().ok().map(|l| l.value()).or_else(|| attr_str(&t.attrs, "proxy", "interface")));
                out.push(format!("trait {} {} {{", t.ident, o(iface)));
                for it in &t.items {
                    if let syn::TraitItem::Fn(f) = it {
                        let flag = if attr_flag(&f.attrs, "zlink", "more") {
                            "more"
                        } else if attr_flag(&f.attrs, "zlink", "oneway") {
                            "oneway"
                        } else {
                            "-"
                        };
                        out.push(format!("fn {} {} {} (", f.sig.ident, o(attr_str(&f.attrs, "zlink", "rename")), flag));
                        for a in &f.sig.inputs {
                            if let syn::FnArg::Typed(p) = a {
                                out.push(format!("{} {} {} ,", ty_str(&p.pat), o(attr_str(&p.attrs, "zlink", "rename")), ty_str(&p.ty)));
                            }
                        }
                        let ret = match &f.sig.output {
                            syn::ReturnType::Default => "()".to_string(),
                            syn::ReturnType::Type(_, t) => ty_str(t),
                        };
                        out.push(format!(") {ret} ;"));
                    }
                }
                out.push("}".into());
            }
            syn::Item::Struct(s) => {
                out.push(format!("struct {} {} {{", s.ident, if s.generics.lifetimes().next().is_some() { 1 } else { 0 }));
                for f in &s.fields {
                    out.push(format!(
                        "{} {} {} {} ,",
                        f.ident.as_ref().map(|i| i.to_string()).unwrap_or_default(),
                        o(attr_str(&f.attrs, "serde", "rename")),
                        if attr_flag(&f.attrs, "serde", "borrow") { 1 } else { 0 },
                        ty_str(&f.ty)
                    ));
                }
                out.push("}".into());
            }
            syn::Item::Enum(e) if derives(&e.attrs, "ReplyError") => {
                out.push(format!("errors {} {} {{", e.ident, o(attr_str(&e.attrs, "zlink", "interface"))));
                for v in &e.variants {
                    out.push(format!("{} {} {{", v.ident, o(attr_str(&v.attrs, "zlink", "rename"))));
                    for f in &v.fields {
                        out.push(format!(
                            "{} {} {} ,",
                            f.ident.as_ref().map(|i| i.to_string()).unwrap_or_default(),
                            o(attr_str(&f.attrs, "zlink", "rename")),
                            ty_str(&f.ty)
                        ));
                    }
                    out.push("} ,".into());
                }
                out.push("}".into());
            }
            syn::Item::Enum(e) => {
                out.push(format!("enum {} {} {{", e.ident, o(attr_str(&e.attrs, "serde", "rename_all"))));
                for v in &e.variants {
                    out.push(format!("{} {} ,", v.ident, o(attr_str(&v.attrs, "serde", "rename"))));
                }
                out.push("}".into());
            }
            _ => {}
        }
    }
    Ok(out.join(" "))
}

fn main() {
    let args: Vec<String> = std::env::args().collect();
    match args.get(1).map(|s| s.as_str()) {
        Some("gen") => {
            let (dir, outdir) = (&args[2], &args[3]);
            let mut idx: Vec<usize> = std::fs::read_dir(dir)
                .unwrap()
                .filter_map(|e| e.ok())
                .filter_map(|e| e.file_name().to_string_lossy().strip_suffix(".idl").and_then(|s| s.parse().ok()))
                .collect();
            idx.sort();
            for i in idx {
                let text = std::fs::read_to_string(format!("{dir}/{i}.idl")).unwrap();
                let r = std::panic::catch_unwind(|| {
                    let iface = zlink::idl::Interface::try_from(text.as_str()).map_err(|e| format!("parse-error:{}", format!("{e}").replace(' ', "_")))?;
                    zlink_codegen::generate_interface(&iface).map_err(|e| format!("codegen-error:{}", format!("{e}").replace(' ', "_")))
                });
                let (code, obs) = match r {
                    Ok(Ok(code)) => {
                        let d = declarations(&code).unwrap_or_else(|e| e);
                        (code, d)
                    }
                    Ok(Err(e)) => (String::new(), e),
                    Err(_) => (String::new(), "panic".into()),
                };
                std::fs::write(format!("{outdir}/m{i}.rs"), code).unwrap();
                println!("cgdecl {} => {}", hex(text.as_bytes()), obs);
            }
        }
        Some("case") => {
            for l in std::io::stdin().lock().lines() {
                let l = l.unwrap();
                println!("case {} => {} {}", hex(l.as_bytes()), hex(l.to_snake_case().as_bytes()), hex(l.to_pascal_case().as_bytes()));
            }
        }
        _ => {
            eprintln!("usage: zvg gen <idl-dir> <out-dir> | zvg case");
            std::process::exit(2);
        }
    }
}
