//! Hand-written support for the generated corpora.
pub use crate::common::*;
use serde::{Deserialize, Serialize};
use zlink_core::ReplyError;

#[derive(Debug, Serialize, Deserialize, PartialEq)]
pub struct Outp {
    pub v: u32,
}

#[derive(Debug, ReplyError, PartialEq)]
#[zlink(interface = "org.ex", crate = "zlink_core")]
pub enum PErr {
    Y,
    Z { code: i32 },
}

#[derive(Debug, Serialize, Clone)]
pub struct Cfg {
    pub a: u32,
    pub b: String,
}

#[derive(Debug, Serialize)]
pub struct FirstCall {
    pub method: &'static str,
}

/// reply frames whose mapping by the generated methods is observed
pub const REPLIES: &[&str] = &[
    r#"{"parameters":{"v":7}}"#,
    r#"{}"#,
    r#"{"parameters":null}"#,
    r#"{"error":"org.ex.Y"}"#,
    r#"{"error":"org.ex.Z","parameters":{"code":-3}}"#,
    r#"{"error":"org.ex.Z","parameters":{"bad":1}}"#,
    r#"{"error":"org.varlink.service.MethodNotFound","parameters":{"method":"m"}}"#,
    r#"{"error":"io.systemd.System"}"#,
    r#"garbage"#,
    r#"{"parameters":{"v":"notanumber"}}"#,
];

pub fn push_frames(net: &NetRef, frames: &[&str]) {
    let mut n = net.borrow_mut();
    for f in frames {
        n.avail.extend(f.as_bytes().iter().copied());
        n.avail.push_back(0);
    }
    n.closed = true;
}

/// everything written, hex (frames keep their terminators)
pub fn written(net: &NetRef) -> String {
    hex(&net.borrow().writes.concat())
}

/// everything written after the first frame
pub fn written_after_first(net: &NetRef) -> String {
    let w = net.borrow().writes.concat();
    match w.iter().position(|b| *b == 0) {
        Some(p) => hex(&w[p + 1..]),
        None => hex(&w),
    }
}

/// everything after the first frame of `w`
pub fn after_first(w: &[u8]) -> String {
    match w.iter().position(|b| *b == 0) {
        Some(p) => hex(&w[p + 1..]),
        None => hex(w),
    }
}

pub fn padded_first(pad: usize) -> &'static str {
    Box::leak(format!("org.ex.First{}", "x".repeat(pad)).into_boxed_str())
}

/// (target, pad): paddings of the first call's method name that put the last byte of the second call at
/// offset target - 1 .. of the write buffer, for targets around its growth steps
pub fn ext_pads(w0: &[u8]) -> Vec<(usize, usize)> {
    let Some(first) = w0.iter().position(|b| *b == 0) else { return vec![] };
    if w0.len() < first + 2 {
        return vec![];
    }
    let l = w0.len() - first - 2; // the second frame without its terminator
    let pos0 = first + 1;
    [255usize, 256, 257, 511, 512, 513].iter().filter_map(|&t| (t >= pos0 + l).then(|| (t, t - pos0 - l))).collect()
}

fn ident(dbg: &str) -> String {
    dbg.chars().take_while(|c| c.is_alphanumeric() || *c == '_').collect()
}

/// how a generated method reports a reply
pub fn cls<T: core::fmt::Debug, E: core::fmt::Debug>(r: zlink_core::Result<core::result::Result<T, E>>) -> String {
    match r {
        Ok(Ok(_)) => "ok".into(),
        Ok(Err(e)) => format!("me:{}", ident(&format!("{e:?}"))),
        Err(zlink_core::Error::VarlinkService(e)) => format!("se:{}", ident(&format!("{e:?}"))),
        Err(zlink_core::Error::Json(_)) => "json".into(),
        Err(zlink_core::Error::MissingParameters) => "missing".into(),
        Err(zlink_core::Error::UnexpectedEof) => "eof".into(),
        Err(e) => format!("other:{}", ident(&format!("{e:?}"))),
    }
}

// ---------------------------------------------------------------------------- codegen corpus (C15)

fn hexj<T: Serialize>(v: &T) -> String {
    match serde_json::to_string(v) {
        Ok(s) => hex(s.as_bytes()),
        Err(_) => "unserialisable".into(),
    }
}

/// what a generated method decoded from a success reply, serialised again
pub fn reser<T: Serialize + core::fmt::Debug, E: core::fmt::Debug>(r: zlink_core::Result<core::result::Result<T, E>>) -> String {
    match r {
        Ok(Ok(v)) => hexj(&v),
        other => cls(other),
    }
}

/// the method error a generated method decoded, serialised again
pub fn reser_err<T: core::fmt::Debug, E: Serialize + core::fmt::Debug>(r: zlink_core::Result<core::result::Result<T, E>>) -> String {
    match r {
        Ok(Err(e)) => hexj(&e),
        other => cls(other),
    }
}

/// a generated type decoded from the IDL's spelling and serialised again
pub fn reser_json<'a, T: Serialize + Deserialize<'a>>(text: &'a str) -> String {
    match serde_json::from_str::<T>(text) {
        Ok(v) => hexj(&v),
        Err(_) => "json".into(),
    }
}

pub fn enc_json<T: Serialize>(v: &T) -> String {
    hexj(v)
}

pub fn jv(text: &str) -> serde_json::Value {
    serde_json::from_str(text).unwrap()
}

pub fn leak_vec<T>(v: Vec<&'static T>) -> &'static [&'static T] {
    Box::leak(v.into_boxed_slice())
}
