//! `zvc <scenario>`: runs the generated corpora (proxy traits, generated code, derives) — the
//! sources under `src/gen_*.rs` are written by /verif/corpus/*.py before this crate is built.
#[allow(dead_code)]
#[path = "../../zv/src/common.rs"]
mod common;
mod support;
mod gen_proxy;
mod gen_cg;
#[allow(dead_code)]
#[path = "../../zv/src/idl.rs"]
mod idltree;
mod gen_intro;

fn main() {
    std::panic::set_hook(Box::new(|_| {}));
    let args: Vec<String> = std::env::args().collect();
    let scenario = args.get(1).cloned().unwrap_or_default();
    let mut out = vec![];
    match scenario.as_str() {
        "proxy" => gen_proxy::run_all(&mut out),
        "intro" => gen_intro::run_all(&mut out),
        "cg" => {
            // stage A's observations (what the generated code declares; heck on the name list)
            for f in ["decl.txt", "case.txt"] {
                let p = format!("{}/cg/{}", env!("CARGO_MANIFEST_DIR"), f);
                out.extend(std::fs::read_to_string(&p).unwrap_or_default().lines().map(|l| l.to_string()));
            }
            gen_cg::run_all(&mut out)
        }
        other => {
            eprintln!("unknown scenario {other}");
            std::process::exit(2);
        }
    }
    // --index I: print only case I
    let idx = args.iter().position(|a| a == "--index").and_then(|p| args.get(p + 1)).and_then(|v| v.parse::<usize>().ok());
    for (i, l) in out.iter().enumerate() {
        if idx.map_or(true, |k| k == i) {
            println!("{l}");
        }
    }
}
