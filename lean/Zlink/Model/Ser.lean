/-! Serializer model (import-free): `json_ser.rs`.

`SVal` mirrors serde's data-model events as the serializer sees them (the harness records them with a
recording `serde::Serializer`): `char` and unit variants arrive as strings, unit structs and `None` as
`unit`, tuples / tuple structs as `seq (some len)`, structs as `map (some len)` with string keys, the
three non-unit enum-variant kinds as `variant name inner`. Integer and float *texts* are carried as
produced (decimal digits / ryu text are the business of `itoa` / `ryu`).

`ser` follows the Rust control flow: the `Compound` state (`Empty | First | Rest`), the `Some(0)`
short-cut that closes the bracket early, the `MapKeySerializer` arms, and the run-splitting loop of
`format_escaped_str_contents` over the escape table — all threading a bounded writer (`ByteSliceWriter`).
`render` is the independent reference: compact JSON of the same value plus "a key error happened". -/
namespace Ser
abbrev Byte := UInt8

inductive SErr | tooSmall | keyMustBeString
deriving Repr, DecidableEq

/-- `ByteSliceWriter`: bytes written so far and the slice length. -/
structure W where
  out : List Byte
  cap : Nat
deriving Repr

abbrev Act := W → Except SErr W

/-- `ByteSliceWriter::write_all` -/
def writeAll (b : List Byte) : Act := fun w =>
  if w.out.length + b.length > w.cap then .error .tooSmall else .ok { w with out := w.out ++ b }

def fail (e : SErr) : Act := fun _ => .error e
def skip : Act := fun w => .ok w
def seqA (a b : Act) : Act := fun w => match a w with | .ok w' => b w' | .error e => .error e
infixl:60 " ⨾ " => seqA

mutual
inductive SVal
  | bool (b : Bool)
  | int (text : List Byte)
  | float (text : List Byte)      -- finite
  | fnull                         -- NaN / ±∞
  | str (s : List Byte)
  | bytes (bs : List Byte)
  | unit
  | some (v : SVal)
  | newtype (v : SVal)
  | variant (name : List Byte) (v : SVal)
  | seq (hint : Option Nat) (items : SList)
  | map (hint : Option Nat) (entries : SEntries)
inductive SList
  | nil | cons (v : SVal) (t : SList)
inductive SEntries
  | nil | cons (k v : SVal) (t : SEntries)
end

/-- Escape table: `tbl b` is the `ESCAPE` entry of byte `b`; `hexd n` the `HEX_DIGITS` entry. -/
structure Tbl where
  esc : Byte → Byte
  hexd : Nat → Byte

/-- `write_char_escape` for a byte whose table entry is `e ≠ 0`. -/
def escapeSeq (t : Tbl) (b : Byte) : List Byte :=
  let e := t.esc b
  if e = 117 then [92, 117, 48, 48, t.hexd (b.toNat / 16), t.hexd (b.toNat % 16)] else [92, e]

/-- Reference escaping of one byte. -/
def escByte (t : Tbl) (b : Byte) : List Byte :=
  if t.esc b = 0 then [b] else escapeSeq t b

def escape (t : Tbl) (s : List Byte) : List Byte := s.flatMap (escByte t)

def quoted (t : Tbl) (s : List Byte) : List Byte := 34 :: escape t s ++ [34]

/-- `format_escaped_str_contents`: accumulates the unescaped run, flushes it before each escape. -/
def fmtContents (t : Tbl) : List Byte → List Byte → Act
  | run, [] => if run = [] then skip else writeAll run
  | run, b :: rest =>
    if t.esc b = 0 then fmtContents t (run ++ [b]) rest
    else (if run = [] then skip else writeAll run) ⨾ writeAll (escapeSeq t b) ⨾ fmtContents t [] rest

/-- `format_escaped_str` -/
def fmtStr (t : Tbl) (s : List Byte) : Act := writeAll [34] ⨾ fmtContents t [] s ⨾ writeAll [34]

/-- Decimal text of a byte (`itoa` on `u8`, used by `write_byte_array`). -/
def dec3 (b : Byte) : List Byte :=
  let n := b.toNat
  if n < 10 then [UInt8.ofNat (48 + n)]
  else if n < 100 then [UInt8.ofNat (48 + n / 10), UInt8.ofNat (48 + n % 10)]
  else [UInt8.ofNat (48 + n / 100), UInt8.ofNat (48 + n / 10 % 10), UInt8.ofNat (48 + n % 10)]

/-- `write_byte_array` loop. -/
def serBytes : Bool → List Byte → Act
  | _, [] => skip
  | first, b :: t => (if first then skip else writeAll [44]) ⨾ writeAll (dec3 b) ⨾ serBytes false t

inductive CState | empty | first | rest
deriving DecidableEq

def startState (hint : Option Nat) : CState := if hint = some 0 then .empty else .first

mutual
def ser (t : Tbl) : SVal → Act
  | .bool true => writeAll [116, 114, 117, 101]
  | .bool false => writeAll [102, 97, 108, 115, 101]
  | .int x => writeAll x
  | .float x => writeAll x
  | .fnull => writeAll [110, 117, 108, 108]
  | .str s => fmtStr t s
  | .bytes bs => writeAll [91] ⨾ serBytes true bs ⨾ writeAll [93]
  | .unit => writeAll [110, 117, 108, 108]
  | .some v => ser t v
  | .newtype v => ser t v
  | .variant name v => writeAll [123] ⨾ fmtStr t name ⨾ writeAll [58] ⨾ ser t v ⨾ writeAll [125]
  | .seq hint items =>
      -- serialize_seq: `[`, and `]` at once when the announced length is 0; `end` closes otherwise
      writeAll [91] ⨾ (if hint = some 0 then writeAll [93] else skip) ⨾
        serItems t (startState hint) items
  | .map hint entries =>
      writeAll [123] ⨾ (if hint = some 0 then writeAll [125] else skip) ⨾
        serEntries t (startState hint) entries
/-- elements, then `SerializeSeq::end` (closes unless the state is still `Empty`) -/
def serItems (t : Tbl) : CState → SList → Act
  | st, .nil => if st = .empty then skip else writeAll [93]
  | st, .cons v r => (if st = .first then skip else writeAll [44]) ⨾ ser t v ⨾ serItems t .rest r
def serEntries (t : Tbl) : CState → SEntries → Act
  | st, .nil => if st = .empty then skip else writeAll [125]
  | st, .cons k v r =>
      (if st = .first then skip else writeAll [44]) ⨾ serKey t k ⨾ writeAll [58] ⨾ ser t v ⨾ serEntries t .rest r
/-- `MapKeySerializer` -/
def serKey (t : Tbl) : SVal → Act
  | .str s => fmtStr t s
  | .int x => writeAll [34] ⨾ writeAll x ⨾ writeAll [34]
  | .newtype v => serKey t v
  | _ => fail .keyMustBeString
end

/-- `to_slice` into a slice of `cap` bytes. -/
inductive Outcome | ok (bytes : List Byte) | tooSmall | keyErr
deriving Repr, DecidableEq

def toSlice (t : Tbl) (v : SVal) (cap : Nat) : Outcome :=
  match ser t v { out := [], cap := cap } with
  | .ok w => .ok w.out
  | .error .tooSmall => .tooSmall
  | .error .keyMustBeString => .keyErr

/-! ### Reference renderer: compact JSON, and whether a key error is hit (then: the bytes before it) -/

def renderBytes : Bool → List Byte → List Byte
  | _, [] => []
  | first, b :: t => (if first then [] else [44]) ++ dec3 b ++ renderBytes false t

mutual
def render (t : Tbl) : SVal → List Byte × Bool
  | .bool true => ([116, 114, 117, 101], false)
  | .bool false => ([102, 97, 108, 115, 101], false)
  | .int x => (x, false)
  | .float x => (x, false)
  | .fnull => ([110, 117, 108, 108], false)
  | .str s => (quoted t s, false)
  | .bytes bs => (91 :: renderBytes true bs ++ [93], false)
  | .unit => ([110, 117, 108, 108], false)
  | .some v => render t v
  | .newtype v => render t v
  | .variant name v =>
      let r := render t v
      if r.2 then (123 :: quoted t name ++ [58] ++ r.1, true) else (123 :: quoted t name ++ [58] ++ r.1 ++ [125], false)
  | .seq _ items =>
      let r := renderItems t true items
      if r.2 then (91 :: r.1, true) else (91 :: r.1 ++ [93], false)
  | .map _ entries =>
      let r := renderEntries t true entries
      if r.2 then (123 :: r.1, true) else (123 :: r.1 ++ [125], false)
def renderItems (t : Tbl) : Bool → SList → List Byte × Bool
  | _, .nil => ([], false)
  | first, .cons v r =>
      let sep : List Byte := if first then [] else [44]
      let a := render t v
      if a.2 then (sep ++ a.1, true) else
        let b := renderItems t false r
        (sep ++ a.1 ++ b.1, b.2)
def renderEntries (t : Tbl) : Bool → SEntries → List Byte × Bool
  | _, .nil => ([], false)
  | first, .cons k v r =>
      let sep : List Byte := if first then [] else [44]
      let kk := renderKey t k
      if kk.2 then (sep ++ kk.1, true) else
        let a := render t v
        if a.2 then (sep ++ kk.1 ++ [58] ++ a.1, true) else
          let b := renderEntries t false r
          (sep ++ kk.1 ++ [58] ++ a.1 ++ b.1, b.2)
def renderKey (t : Tbl) : SVal → List Byte × Bool
  | .str s => (quoted t s, false)
  | .int x => (34 :: x ++ [34], false)
  | .newtype v => renderKey t v
  | _ => ([], true)
end

/-! Honest length hints: a sequence or map that announces length 0 is empty (a `Serialize` impl that
    lies about this produces malformed output in serde_json and zlink alike). -/
mutual
def WF : SVal → Bool
  | .some v => WF v
  | .newtype v => WF v
  | .variant _ v => WF v
  | .seq hint items => (hint != some 0 || (match items with | .nil => true | _ => false)) && WFItems items
  | .map hint entries => (hint != some 0 || (match entries with | .nil => true | _ => false)) && WFEntries entries
  | _ => true
def WFItems : SList → Bool
  | .nil => true
  | .cons v r => WF v && WFItems r
def WFEntries : SEntries → Bool
  | .nil => true
  | .cons k v r => WF k && WF v && WFEntries r
end
end Ser
