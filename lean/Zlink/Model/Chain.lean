import Zlink.Model.Rx
/-! Reply-stream model (`chain/reply_stream.rs`) on top of the receive path.

`kind f` classifies what `receive_reply` makes of frame `f` (a parameter, like `dec` in C01):
a success reply whose `continues` is `true`, a final success reply, a method error, or a general
error (`Err(_)`: undecodable frame or an `org.varlink.service` error). -/
namespace Chain
open Rx

inductive Kind | cont | final | merr | bad
deriving Repr, DecidableEq

/-- `call_count`, `current_index`, `done` of `ReplyStream`. -/
structure SS where
  count : Nat
  idx : Nat
  done : Bool
deriving Repr

/-- `ReplyStream::new` -/
def new (count : Nat) : SS := { count := count, idx := 0, done := count == 0 }

inductive SOut
  | pending
  | item (f : List Byte)
  | fail (e : Err)
  | ended
deriving Repr, DecidableEq

/-- Index / done bookkeeping after an item (lines 93-113 of `reply_stream.rs`). -/
def advance (kind : List Byte → Kind) (ss : SS) (f : List Byte) : SS :=
  let ss1 : SS := match kind f with
    | .cont => ss
    | .final => { ss with idx := ss.idx + 1 }
    | .merr => { ss with idx := ss.idx + 1 }
    | .bad => { ss with done := true }
  if ss1.idx ≥ ss1.count then { ss1 with done := true } else ss1

/-- `poll_next` -/
def spoll (kind : List Byte → Kind) (C : Consts) (sizes : Nat → Nat) (ss : SS) (s : St) (e : Net) :
    SOut × SS × St × Net :=
  if ss.done then (.ended, ss, s, e) else
  match poll C sizes s e with
  | (.pending, s', e') => (.pending, ss, s', e')
  | (.frame f, s', e') => (.item f, advance kind ss f, s', e')
  | (.err x, s', e') =>
    let ss1 : SS := { ss with done := true }
    (.fail x, (if ss1.idx ≥ ss1.count then { ss1 with done := true } else ss1), s', e')

def srun (kind : List Byte → Kind) (C : Consts) (sizes : Nat → Nat) :
    List Ev → SS → St → Net → List SOut × SS × St × Net
  | [], ss, s, e => ([], ss, s, e)
  | .arrive b :: evs, ss, s, e => srun kind C sizes evs ss s { e with avail := e.avail ++ b }
  | .close :: evs, ss, s, e => srun kind C sizes evs ss s { e with closed := true }
  | .poll :: evs, ss, s, e =>
    let r := spoll kind C sizes ss s e
    let rest := srun kind C sizes evs r.2.1 r.2.2.1 r.2.2.2
    (r.1 :: rest.1, rest.2)
end Chain
