import Zlink.Model.Wire
import Zlink.Model.Rx
import Zlink.Spec.Rx
import Zlink.Gen.Consts
/-! Driver glue for scenario `rx` (import-free apart from models). -/
namespace DriverRx
open Wire Rx

def consts : Consts := { step := Gen.bufferSize, max := Gen.maxBufferSizeHook }

def parseEv (t : String) : Option Ev :=
  match t.toList with
  | ['C'] => some .close
  | ['P'] => some .poll
  | ['Q'] => some .poll
  | 'A' :: r => some (.arrive (decBytes (String.ofList r)))
  | _ => none

/-- tokens of an `rx` event list -/
inductive RTok
  | close
  | arrive (b : List Byte)
  | p      -- poll a fresh receive once and drop it
  | q      -- poll the retained receive (creating it if there is none)
  | w      -- poll the retained receive only if its waker has fired since it was last polled
  | other

def parseRTok (t : String) : RTok :=
  match t.toList with
  | ['C'] => .close
  | ['P'] => .p
  | ['Q'] => .q
  | ['W'] => .w
  | 'A' :: r => .arrive (decBytes (String.ofList r))
  | _ => .other

/-- Events of a run under a wake-driven executor: `w` = poll the retained receive only if its waker has fired since it
    was last polled (a receive that is not in progress is started and polled at once). The waker contract as the
    scripted transport implements it: a poll that ends pending has left the task's waker with the transport (`armed`);
    the next arrival or close fires it (`flag`). Returns the events that are actually executed (`w` = a poll or nothing). -/
def resolveW (C : Consts) (sizes : Nat → Nat) : List RTok → St → Net → (flag armed retained : Bool) → List Ev
  | [], _, _, _, _, _ => []
  | t :: ts, s, e, flag, armed, retained =>
    let pollNow (keep : Bool) : List Ev :=
      let r := Rx.poll C sizes s e
      let pend := r.1 == Out.pending
      .poll :: resolveW C sizes ts r.2.1 r.2.2 false (armed || pend) (keep && pend)
    match t with
    | .close => .close :: resolveW C sizes ts s { e with closed := true } (flag || armed) false retained
    | .arrive b => .arrive b :: resolveW C sizes ts s { e with avail := e.avail ++ b } (flag || armed) false retained
    | .p => pollNow false
    | .q => pollNow true
    | .w => if !retained || flag then pollNow true else resolveW C sizes ts s e flag armed retained
    | .other => resolveW C sizes ts s e flag armed retained

/-- the same tokens under an executor that polls whenever the list says so (`w` = `q`) -/
def eagerW : List RTok → List Ev
  | [] => []
  | .close :: ts => .close :: eagerW ts
  | .arrive b :: ts => .arrive b :: eagerW ts
  | .p :: ts => .poll :: eagerW ts
  | .q :: ts => .poll :: eagerW ts
  | .w :: ts => .poll :: eagerW ts
  | .other :: ts => eagerW ts

def tokOfOut (tbl : List (List Byte × String)) : Out → String
  | .pending => "pend"
  | .err .eof => "eof"
  | .err .overflow => "overflow"
  | .frame f => match tbl.lookup f with
    | some v => v
    | none => "unknown-frame:" ++ hex f

/-- Maps an implementation token back to an `Out` for the oracle: a verdict token is accepted as
    frame `f` only if it is the verdict of the next owed frame (else a frame nobody sent). -/
def outsOfToks (tbl : List (List Byte × String)) : List String → List (List Byte) → List Out
  | [], _ => []
  | t :: ts, owed =>
    if t = "pend" then .pending :: outsOfToks tbl ts owed
    else if t = "eof" then .err .eof :: outsOfToks tbl ts owed
    else if t = "overflow" then .err .overflow :: outsOfToks tbl ts owed
    else match owed with
      | f :: rest => if tbl.lookup f = some t then .frame f :: outsOfToks tbl ts rest
                     else .frame [] :: outsOfToks tbl ts owed
      | [] => .frame [] :: outsOfToks tbl ts owed

def sizesFn (l : List Nat) (k : Nat) : Nat :=
  match l[k]? with
  | some n => n - 1
  | none => 1000000000

/-- `rxprod N <wire> T <0|1> CH <chunk> => ..` (production build): the closed form of
    `C17_rx_threshold_prod` at the production constants extracted from the source. The harness's call
    frame has 49 bytes around the payload, plus the terminator. -/
def handleProd (ts : List String) : String :=
  match ts with
  | "rxprod" :: "N" :: n :: "T" :: t :: "CH" :: _ :: "=>" :: obs =>
    let n := n.toNat!
    let m := if t == "1" then (if n < Gen.maxBufferSizeProd then "ok " ++ toString (n - 50) else "overflow")
             else (if n < Gen.maxBufferSizeProd then "eof" else "overflow")
    "M " ++ m ++ " | H " ++ (if " ".intercalate obs == m then "1" else "0")
  | _ => "bad-line"

/-- `rx <kind> F <frame>=<verdict>* S <size>* E <ev>* => <tok>*` ↦ `M <model toks> | H <0/1>` -/
def handle (bounds : Bool) (ts : List String) : String :=
  let (_, r1) := splitAt "F" ts
  let (fs, r2) := splitAt "S" r1
  let (ss, r3) := splitAt "E" r2
  let (es, obs) := splitAt "=>" r3
  let tbl : List (List Byte × String) := fs.filterMap fun t =>
    match t.splitOn "=" with
    | [a, b] => some (decBytes a, b)
    | _ => none
  let frames := tbl.map (·.1)
  let sizes := ss.map String.toNat!
  match (if es.contains "W" then some (resolveW consts (sizesFn sizes) (es.map parseRTok) (init consts) net0 true false false) else es.mapM parseEv) with
  | none => "bad-line"
  | some evs =>
    let outs := run consts (sizesFn sizes) evs (init consts) net0
    let m := " ".intercalate (outs.map (tokOfOut tbl))
    let h := if bounds then SpecRx.holdsBounds consts.max frames evs (outsOfToks tbl obs frames)
             else SpecRx.holds frames evs (outsOfToks tbl obs frames)
    "M " ++ m ++ " | H " ++ (if h then "1" else "0")
end DriverRx
