import Zlink.Model.JsonStr
import Zlink.Model.IdlRender
/-! The GetInterfaceDescription exchange (C14, last sentence): the service serialises the description as
    one JSON string — `Description::Parsed(i) => serializer.collect_str(i)`, i.e. the `Display` text
    through the string escaping of `json_ser.rs` — inside the reply envelope
    `{"parameters":{"description":"…"}}`; the client deserialises that string (`Description::Raw`) and
    `InterfaceDescription::parse` runs the IDL parser on it. -/
namespace IdlExchange
open Idl

def pre : In := [123, 34, 112, 97, 114, 97, 109, 101, 116, 101, 114, 115, 34, 58, 123, 34, 100, 101, 115, 99, 114, 105, 112, 116, 105, 111, 110, 34, 58]
def post : In := [125, 125]

/-- the frame (without its NUL) the service writes for a description -/
def encodeReply (a : Iface) : In := pre ++ Ser.quoted JsonStr.tbl (renderIface a) ++ post

/-- the description string of a reply frame of that shape -/
def decodeReply (frame : In) : Option In :=
  if pre.isPrefixOf frame then
    let r := (frame.drop pre.length).reverse
    if post.reverse.isPrefixOf r then JsonStr.readQuoted (r.drop post.length).reverse else none
  else none

/-- what the client's `parse()` returns for the frame the service wrote -/
def exchange (a : Iface) : Option Outcome := (decodeReply (encodeReply a)).map parseInterface
end IdlExchange
