import Zlink.Model.Wire
import Zlink.Model.Notified
/-! Driver glue for scenario `notified` (C20). Dropped subscribers stay in the list (polls of a
    dropped subscriber are not emitted by the harness). -/
namespace DriverNotif
open Wire Notified

inductive XOp | set (v : Nat) | sub | poll (k : Nat) | drop (k : Nat) | close | handle

def parseOp (t : String) : Option XOp :=
  match t.toList with
  | 's' :: r => some (.set (String.ofList r).toNat!)
  | ['n'] => some .sub
  | 'p' :: r => some (.poll (String.ofList r).toNat!)
  | 'd' :: r => some (.drop (String.ofList r).toNat!)
  | ['x'] => some .close
  -- further handles of the state (clone / drop of a clone) are not events of the model: the channel is one
  | ['k'] => some .handle
  | ['j'] => some .handle
  | _ => none

def itemTok : Item → String
  | .pending => "pend"
  | .ended => "end"
  | .item v c => "i" ++ toString v ++ ":" ++ (if c then "1" else "0")

/-- after a `set`: every parked subscriber (last poll pending, not dropped) is woken, in index order -/
def wokeToks (parked : List Nat) (n : Nat) : List String :=
  ((List.range n).filter parked.contains).map fun k => toString k ++ ":woke"

/-- runs a history; `dropped` subscribers produce no output; `parked` = subscribers whose last poll was pending -/
def runX (poll : Chan → Rcv → Item × Rcv) : List XOp → St → List Nat → List Nat → List String
  | [], _, _, _ => []
  | .set v :: t, s, d, pk => wokeToks pk s.subs.length ++ runX poll t { s with chan := s.chan.send v } d []
  | .sub :: t, s, d, pk => runX poll t { s with subs := s.subs ++ [s.chan.subscribe] } d pk
  | .drop k :: t, s, d, pk => runX poll t s (k :: d) (pk.filter (· != k))
  | .close :: t, s, d, pk => wokeToks pk s.subs.length ++ runX poll t { s with closed := true } d []
  | .handle :: t, s, d, pk => runX poll t s d pk
  | .poll k :: t, s, d, pk =>
    if d.contains k then runX poll t s d pk else
    match s.subs[k]? with
    | none => runX poll t s d pk
    | some r =>
      let (o, r') := (if s.closed then pollClosed poll else poll) s.chan r
      let pk' := match o with | .pending => k :: pk.filter (· != k) | _ => pk.filter (· != k)
      -- a stream that has ended is not polled again
      let d' := match o with | .ended => k :: d | _ => d
      (toString k ++ ":" ++ itemTok o) :: runX poll t { s with subs := s.subs.set k r' } d' pk'

/-- oracle on one runtime's observation: per subscriber, items are in increasing order of `set`
    index, each is a value set after the subscription and is the latest at poll time, all marked
    continuing, never `end`; a poll is pending only if nothing new was set since its last item; and a
    subscriber that was told "pending" is woken by the next `set` (else a task awaiting it would never
    see the value). -/
def specRun (closed : Bool) : List XOp → (latest : Nat) → (subs : List (Nat)) → List Nat → List Nat → List String
  -- subs: per subscriber the value it has last been brought up to (latest at subscribe time / last yield)
  | [], _, _, _, _ => []
  | .set v :: t, _, subs, d, pk => wokeToks pk subs.length ++ specRun closed t v subs d []
  | .sub :: t, l, subs, d, pk => specRun closed t l (subs ++ [l]) d pk
  | .drop k :: t, l, subs, d, pk => specRun closed t l subs (k :: d) (pk.filter (· != k))
  -- the state goes away: parked subscribers are woken; from now on "nothing new" means the end
  | .close :: t, l, subs, d, pk => wokeToks pk subs.length ++ specRun true t l subs d []
  -- making or dropping another handle of the state changes nothing for anybody
  | .handle :: t, l, subs, d, pk => specRun closed t l subs d pk
  | .poll k :: t, l, subs, d, pk =>
    if d.contains k then specRun closed t l subs d pk else
    match subs[k]? with
    | none => specRun closed t l subs d pk
    | some seen =>
      if seen = l then
        (if closed then (toString k ++ ":end") :: specRun closed t l subs (k :: d) (pk.filter (· != k))
         else (toString k ++ ":pend") :: specRun closed t l subs d (k :: pk.filter (· != k)))
      else (toString k ++ ":i" ++ toString l ++ ":1") :: specRun closed t l (subs.set k l) d (pk.filter (· != k))

def handleNotif (ts : List String) : String :=
  let (_, r0) := splitAt "O" ts
  let (os, obs) := splitAt "=>" r0
  match os.mapM parseOp with
  | none => "bad-line"
  | some ops =>
    let t := runX pollTokio ops init [] []
    let s := runX pollSmol ops init [] []
    let m := "T " ++ " ".intercalate t ++ " ; S " ++ " ".intercalate s
    let m := (m.replace "T  ;" "T ;")
    let (_, o1) := splitAt "T" obs
    let (ot, o2) := splitAt ";" o1
    let os' := o2.drop 1
    -- values are set in increasing order 1,2,3..: `latest` identifies the set
    let want := specRun false ops 0 [] [] []
    let h := ot == want && os' == want
    "M " ++ (if t.isEmpty then "T ; S" ++ (if s.isEmpty then "" else " " ++ " ".intercalate s) else m) ++
      " | H " ++ (if h then "1" else "0")

def onceRun (script : List String) : List String :=
  let rec go (st : OnceSt) : List String → List String
    | [] => []
    | t :: r =>
      match t.toList with
      | ['P'] => let (o, st') := pollOnce st; itemTok o :: go st' r
      | 'N' :: v => go (match st with | .waiting => .notified (String.ofList v).toNat! | s => s) r
      | _ => go (match st with | .waiting => .dropped | s => s) r
  go .waiting script

def handleOnce (ts : List String) : String :=
  let (scr, obs) := splitAt "=>" (ts.drop 1)
  let m := onceRun scr
  let ms := "T " ++ " ".intercalate m ++ " ; S " ++ " ".intercalate m
  let (_, o1) := splitAt "T" obs
  let (ot, o2) := splitAt ";" o1
  let os' := o2.drop 1
  -- exactly one final item (continues = false) if notified before being dropped, then the end
  let okOne (l : List String) : Bool := l == m
  "M " ++ ms ++ " | H " ++ (if okOne ot && okOne os' then "1" else "0")

def handle (ts : List String) : String :=
  match ts.head? with
  | some "notif" => handleNotif ts
  | some "once" => handleOnce ts
  | _ => "skip"
end DriverNotif
