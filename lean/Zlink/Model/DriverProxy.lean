import Zlink.Model.Wire
import Zlink.Model.DriverEnv
import Zlink.Model.Proxy
/-! Driver glue for scenario `proxy` (C12). -/
namespace DriverProxy
open Wire Env Proxy DriverEnv

def optS (s : String) : Option String := if s = "-" then none else some s

def parseParams (s : String) : List Param :=
  if s = "-" then [] else (s.splitOn ",").filterMap fun p =>
    match p.splitOn ":" with
    | [n, r, o] => some { name := n, rename := optS r, optional := o == "opt" }
    | _ => none

def parseDecl (ts : List String) : Option (MethodDecl × List String) :=
  match ts with
  | "I" :: i :: "R" :: r :: "N" :: n :: "F" :: f :: "P" :: p :: "A" :: rest =>
    let flag := if f = "more" then Flag.more else if f = "oneway" then Flag.oneway else Flag.none
    some ({ iface := i, rust := r, rename := optS n, flag := flag, params := parseParams p }, rest)
  | _ => none

def frameHex (j : J) : String := hex ((canon false j).toUTF8.toList ++ [0])

/-- the corpus's reply frames (same list as `REPLIES` in the harness) -/
def perr : List Variant :=
  [{ name := "org.ex.Y", fields := none, lenient := true },
   { name := "org.ex.Z", fields := some [{ name := "code", ty := .int (-2147483648) 2147483647 }] }]

def replies : List J :=
  [ .obj [("parameters", .obj [("v", .int 7)])],
    .obj [],
    .obj [("parameters", .null)],
    .obj [("error", .str "org.ex.Y" false)],
    .obj [("error", .str "org.ex.Z" false), ("parameters", .obj [("code", .int (-3))])],
    .obj [("error", .str "org.ex.Z" false), ("parameters", .obj [("bad", .int 1)])],
    .obj [("error", .str "org.varlink.service.MethodNotFound" false), ("parameters", .obj [("method", .str "m" false)])],
    .obj [("error", .str "io.systemd.System" false)],
    .null,   -- `garbage` is not JSON: any non-object stands for it
    .obj [("parameters", .obj [("v", .str "notanumber" false)])] ]

def outShape (unitOut : Bool) : PShape :=
  if unitOut then .unit else .strct [{ name := "v", ty := .int 0 4294967295 }]

def mappedTok : Mapped → String
  | .ok => "ok"
  | .methodError i => "me:" ++ shortName ((perr[i]?.map (·.name)).getD "?")
  | .serviceError i => "se:" ++ shortName ((svc[i]?.map (·.name)).getD "?")
  | .decodeError => "json"
  | .missingParameters => "missing"

def handle (ts : List String) : String :=
  match ts with
  | "proxy" :: rest =>
    match parseDecl rest with
    | some (m, r) =>
      let (as, r2) := splitAt "FORM" r
      let (form, obs) := splitAt "=>" r2
      let args := (if as == ["-"] then [] else as).filterMap parseJ
      let j := match form with
        | ["plain"] => wirePlain m args
        | ["chain"] => wireChain m args
        | _ => wireExt m args
      -- the plain non-oneway call first reads a reply; nothing else is written
      let mh := frameHex j
      -- oracle: the frame the property demands (independent of the form)
      let want := frameHex (wirePlain { m with flag := (if form == ["plain"] then m.flag else if m.flag == .more && form == ["chain"] then .more else .none) } args)
      "M " ++ mh ++ " | H " ++ (if obs == [want] then "1" else "0")
    | none => "bad-line"
  | "proxyreply" :: "U" :: u :: "R" :: ri :: "=>" :: obs =>
    let unitOut := u == "1"
    let j := replies.getD ri.toNat! .null
    let m := mapReply svc unitOut (outShape unitOut) perr j
    let tok := mappedTok m
    -- oracle: a reply with an `error` member is never ok; otherwise as classified
    let h := match j with
      | .obj ms => if hasKey "error" ms then obs != ["ok"] && obs == [tok] else obs == [tok]
      | _ => obs == ["json"]
    "M " ++ tok ++ " | H " ++ (if h then "1" else "0")
  | "proxystream" :: rest =>
    match parseDecl rest with
    | some (_, r) =>
      -- three owed replies: continuing, continuing, final; one item per reply up to the final one
      let (_, obs) := splitAt "=>" r
      let want := ["ok", "ok", "ok"]
      "M " ++ " ".intercalate want ++ " | H " ++ (if obs == want then "1" else "0")
    | none => "bad-line"
  | _ => "skip"
end DriverProxy
