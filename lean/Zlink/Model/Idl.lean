/-! IDL parser model (import-free): function-by-function port of `zlink-core/src/idl/parse/mod.rs` over
    bytes, including the winnow combinator semantics it relies on (`alt` resets the input only before
    trying the next alternative; `separated`; `literal`; `take_while`; `multispace0`), the `inline_type`
    look-ahead, the member loop, `str::trim` and the final "no input remains" check. Fuel arguments make
    the mutual recursion structural; they are always instantiated with a bound in the input length. -/
namespace Idl
abbrev Byte := UInt8
abbrev In := List Byte

inductive Ty
  | bool | int | float | string | object
  | optional (t : Ty) | array (t : Ty) | map (t : Ty)
  | custom (name : In)
  | enum (vs : List (In × List In))   -- name, comments (the parser never produces comments here)
  | struct (fs : List (In × Ty × List In))   -- name, type, comments
deriving Inhabited

abbrev Field := In × Ty × List In

inductive CT
  | obj (name : In) (fs : List Field) (cs : List In)
  | enm (name : In) (vs : List (In × List In)) (cs : List In)

structure Method where
  name : In
  ins : List Field
  outs : List Field
  cs : List In

structure Err where
  name : In
  fs : List Field
  cs : List In

structure Iface where
  name : In
  cs : List In
  types : List CT
  methods : List Method
  errors : List Err

/-- parse result: the input position is reported on failure too (winnow leaves it where the
    failing parser stopped; `alt` only resets it *before* trying the next alternative). -/
inductive PR (α : Type)
  | ok (a : α) (rest : In)
  | err (rest : In)

def isAlpha (b : Byte) : Bool := (65 ≤ b && b ≤ 90) || (97 ≤ b && b ≤ 122)
def isUpper (b : Byte) : Bool := 65 ≤ b && b ≤ 90
def isDigit (b : Byte) : Bool := 48 ≤ b && b ≤ 57
def isAlnum (b : Byte) : Bool := isAlpha b || isDigit b
def isMultispace (b : Byte) : Bool := b == 32 || b == 9 || b == 13 || b == 10
def isAsciiWs (b : Byte) : Bool := b == 32 || b == 9 || b == 10 || b == 12 || b == 13

/-- `literal(p)` -/
def litB (p : In) (i : In) : PR Unit :=
  if p.isPrefixOf i then .ok () (i.drop p.length) else .err i

def multispace0 (i : In) : In := i.dropWhile isMultispace
def whitespaceOnly := multispace0

/-- skip a `#` comment to (and including) its end of line; input starts after the `#` -/
def skipComment : In → In
  | [] => []
  | 13 :: 10 :: t => t
  | 10 :: t => t
  | 13 :: t => t
  | _ :: t => skipComment t

/-- one optional `#` comment -/
def optComment (i1 : In) : In := match i1 with | 35 :: t => skipComment t | _ => i1

/-- `ws`: whitespace and comments, repeated until no progress -/
def ws : Nat → In → In
  | 0, i => i
  | fuel+1, i =>
    let i1 := multispace0 i
    let i2 := optComment i1
    if i2.length = i.length then i2 else ws fuel i2

def wsF (i : In) : In := ws (i.length + 1) i

/-- rest of a field name: `(_?[A-Za-z0-9])*`, longest match -/
def nameTail : In → In
  | c :: t =>
    if isAlnum c then c :: nameTail t
    else if c == 95 then
      match t with
      | d :: t' => if isAlnum d then c :: d :: nameTail t' else []
      | [] => []
    else []
  | [] => []

def fieldName (i : In) : PR In :=
  match i with
  | b :: t => if isAlpha b then
      let r := nameTail t
      .ok (b :: r) (t.drop r.length)
    else .err i
  | [] => .err i

def typeName (i : In) : PR In :=
  match i with
  | b :: t => if isUpper b then
      let r := t.takeWhile isAlnum
      .ok (b :: r) (t.drop r.length)
    else .err i
  | [] => .err i

def pfxB (p : In) (i : In) : Bool := p.isPrefixOf i
def primitive (i : In) : PR Ty :=
  if pfxB [98, 111, 111, 108] i then .ok .bool (i.drop 4)
  else if pfxB [105, 110, 116] i then .ok .int (i.drop 3)
  else if pfxB [102, 108, 111, 97, 116] i then .ok .float (i.drop 5)
  else if pfxB [115, 116, 114, 105, 110, 103] i then .ok .string (i.drop 6)
  else if pfxB [111, 98, 106, 101, 99, 116] i then .ok .object (i.drop 6)
  else .err i

def commentDef (i : In) : PR In :=
  match i with
  | 35 :: t =>
    let t := t.dropWhile (fun c => c == 32 || c == 9)
    let c := t.takeWhile (fun x => x != 10 && x != 13)
    .ok c (t.drop c.length)
  | _ => .err i

/-- `parse_preceding_comments` (never fails) -/
def precedingComments : Nat → In → List In → List In × In
  | 0, i, acc => (acc, i)
  | fuel+1, i, acc =>
    if i.isEmpty then (acc, i) else
    let i1 := whitespaceOnly i
    if i1.isEmpty then (acc, i1) else
    match commentDef i1 with
    | .ok c r => precedingComments fuel (whitespaceOnly r) (acc ++ [c])
    | _ => (acc, i)

def pcF (i : In) : List In × In := precedingComments (i.length + 1) i []

mutual
def varlinkType : Nat → In → PR Ty
  | 0, i => .err i
  | fuel+1, i =>
    -- alt((optional_type, array_type, map_type, element_type))
    match optionalType fuel i with
    | .ok t r => .ok t r | .err _ =>
    match arrayType fuel i with
    | .ok t r => .ok t r | .err _ =>
    match mapType fuel i with
    | .ok t r => .ok t r | .err _ => elementType fuel i
def optionalType : Nat → In → PR Ty
  | 0, i => .err i
  | fuel+1, i =>
    match litB [63] i with
    | .ok _ r =>
      -- non_optional_type = alt((array_type, map_type, element_type))
      (match arrayType fuel r with
       | .ok t r' => .ok (.optional t) r' | .err _ =>
       match mapType fuel r with
       | .ok t r' => .ok (.optional t) r' | .err _ =>
       match elementType fuel r with
       | .ok t r' => .ok (.optional t) r' | .err e => .err e)
    | _ => .err i
def arrayType : Nat → In → PR Ty
  | 0, i => .err i
  | fuel+1, i =>
    match litB [91, 93] i with
    | .ok _ r => (match varlinkType fuel r with | .ok t r' => .ok (.array t) r' | .err e => .err e)
    | _ => .err i
def mapType : Nat → In → PR Ty
  | 0, i => .err i
  | fuel+1, i =>
    match litB [91, 115, 116, 114, 105, 110, 103, 93] i with
    | .ok _ r => (match varlinkType fuel r with | .ok t r' => .ok (.map t) r' | .err e => .err e)
    | _ => .err i
def elementType : Nat → In → PR Ty
  | 0, i => .err i
  | fuel+1, i =>
    match primitive i with
    | .ok t r => .ok t r | _ =>
    match typeName i with
    | .ok n r => .ok (.custom n) r | _ => inlineType fuel i
def inlineType : Nat → In → PR Ty
  | 0, i => .err i
  | fuel+1, i =>
    -- alt((struct_type, enum_type))
    match structType fuel i with
    | .ok t r => .ok t r
    | .err _ => enumType fuel i
def structType : Nat → In → PR Ty
  | 0, i => .err i
  | fuel+1, i =>
    match litB [40] i with
    | .ok _ r =>
      let r := whitespaceOnly r
      (match fieldsSep fuel r with
       | .ok fs r' =>
         let r' := wsF r'
         (match litB [41] r' with | .ok _ r'' => .ok (.struct fs) r'' | _ => .err r')
      
       | .err e => .err e)
    | _ => .err i
/-- `separated(0.., field, (ws, ",", ws))` -/
def fieldsSep : Nat → In → PR (List Field)
  | 0, i => .err i
  | fuel+1, i =>
    match field fuel i with
   
    | .err _ => .ok [] i
    | .ok f r => fieldsMore fuel r [f]
def fieldsMore : Nat → In → List Field → PR (List Field)
  | 0, i, _ => .err i
  | fuel+1, i, acc =>
    let i1 := wsF i
    match litB [44] i1 with
    | .ok _ i2 =>
      let i3 := whitespaceOnly i2
      (match field fuel i3 with
      
       | .err _ => .ok acc i
       | .ok f r => fieldsMore fuel r (acc ++ [f]))
    | _ => .ok acc i
def field : Nat → In → PR Field
  | 0, i => .err i
  | fuel+1, i =>
    let (cs, i1) := pcF i
    match fieldName i1 with
    | .ok n r =>
      let r := wsF r
      (match litB [58] r with
       | .ok _ r2 =>
         let r2 := wsF r2
         (match varlinkType fuel r2 with
          | .ok t r3 => .ok (n, t, cs) r3 | .err e => .err e)
       | _ => .err r)
    | _ => .err i1
def enumType : Nat → In → PR Ty
  | 0, i => .err i
  | _fuel+1, i =>
    match litB [40] i with
    | .ok _ r =>
      let r := wsF r
      -- separated(0.., field_name, (ws, ",", ws))
      let rec more (n : Nat) (i : In) (acc : List In) : List In × In :=
        match n with
        | 0 => (acc, i)
        | n+1 =>
          let i1 := wsF i
          match litB [44] i1 with
          | .ok _ i2 =>
            (match fieldName (wsF i2) with
             | .ok v r => more n r (acc ++ [v])
             | _ => (acc, i))
          | _ => (acc, i)
      let (vs, r') := match fieldName r with
        | .ok v r1 => more (r1.length + 1) r1 [v]
        | _ => ([], r)
      let r' := wsF r'
      (match litB [41] r' with | .ok _ r'' => .ok (.enum (vs.map fun v => (v, []))) r'' | _ => .err r')
    | _ => .err i
end

def tyFuel (i : In) : Nat := 8 * i.length + 64

/-- one segment after its first character: `([-]*[A-Za-z0-9])*` scanned greedily over alphanumerics
    and dashes; the segment is refused when it ends with a dash -/
def segTail (t : In) : Option (In × In) :=
  let s := t.takeWhile (fun c => isAlnum c || c == 45)
  if s.getLast? == some 45 then none else some (s, t.drop s.length)

/-- `(\.[A-Za-z0-9]([-]*[A-Za-z0-9])*)*` — a dot must be followed by a segment -/
def nameSegs : Nat → In → In → Bool → Option (In × In × Bool)
  | 0, acc, r, dot => some (acc, r, dot)
  | n+1, acc, r, dot =>
    match r with
    | 46 :: c :: r2 =>
      if isAlnum c then
        match segTail r2 with
        | some (s, r3) => nameSegs n (acc ++ [46, c] ++ s) r3 true
        | none => none
      else none
    | [46] => none
    | _ => some (acc, r, dot)

def interfaceName (i : In) : PR In :=
  match i with
  | b :: t =>
    if !isAlpha b then .err i else
    match segTail t with
    | none => .err i
    | some (seg1, rest) =>
      match nameSegs (rest.length + 1) (b :: seg1) rest false with
      | some (name, r, true) => .ok name r
      | _ => .err i
  | [] => .err i

/-- `parameter_list` -/
def paramList (i : In) : PR (List Field) :=
  match litB [40] i with
  | .ok _ r =>
    let r := whitespaceOnly r
    (match litB [41] r with
     | .ok _ r' => .ok [] r'
     | _ =>
       let rec loop (n : Nat) (i : In) (acc : List Field) : PR (List Field) :=
         match n with
         | 0 => .err i
         | n+1 =>
           let (cs, i1) := pcF i
           match fieldName i1 with
           | .ok nm r =>
             let r := wsF r
             (match litB [58] r with
              | .ok _ r2 =>
                let r2 := wsF r2
                (match varlinkType (tyFuel r2) r2 with
                 | .ok t r3 =>
                   let acc := acc ++ [(nm, t, cs)]
                   let r3 := whitespaceOnly r3
                   (match litB [44] r3 with
                    | .ok _ r4 => loop n (whitespaceOnly r4) acc
                    | _ => match litB [41] r3 with
                      | .ok _ r4 => .ok acc r4
                      | _ => .err r3)
                 | .err e => .err e)
              | _ => .err r)
           | _ => .err i1
       loop (r.length + 1) r [])
  | _ => .err i

def ws1 (i : In) : PR Unit :=
  let r := i.dropWhile isAsciiWs
  if r.length = i.length then .err i else .ok () r

def methodDef (i : In) : PR Method :=
  let (cs, i) := pcF i
  match litB [109, 101, 116, 104, 111, 100] i with
  | .ok _ r =>
    (match ws1 r with
     | .ok _ r =>
       (match typeName r with
        | .ok n r =>
          let r := wsF r
          (match paramList r with
           | .ok ins r =>
             let r := wsF r
             (match litB [45, 62] r with
              | .ok _ r =>
                let r := wsF r
                (match paramList r with
                 | .ok outs r => .ok ⟨n, ins, outs, cs⟩ r
                 | .err e => .err e)
              | _ => .err r)
           | .err e => .err e)
        | _ => .err r)
     | _ => .err r)
  | _ => .err i

def errorDef (i : In) : PR Err :=
  let (cs, i) := pcF i
  match litB [101, 114, 114, 111, 114] i with
  | .ok _ r =>
    (match ws1 r with
     | .ok _ r =>
       (match typeName r with
        | .ok n r =>
          let r := wsF r
          (match paramList r with
           | .ok fs r => .ok ⟨n, fs, cs⟩ r
           | .err e => .err e)
        | _ => .err r)
     | _ => .err r)
  | _ => .err i

def typeDef (i : In) : PR CT :=
  let (cs, i) := pcF i
  match litB [116, 121, 112, 101] i with
  | .ok _ r =>
    (match ws1 r with
     | .ok _ r =>
       (match typeName r with
        | .ok n r =>
          let r := wsF r
          (match litB [40] r with
           | .ok _ r =>
             let r := whitespaceOnly r
             (match litB [41] r with
              | .ok _ r' => .ok (.obj n [] cs) r'
              | _ =>
                let rec loop (k : Nat) (i : In) (fs : List Field) (vs : List (In × List In)) : PR CT :=
                  match k with
                  | 0 => .err i
                  | k+1 =>
                    let (fcs, i1) := pcF i
                    match fieldName i1 with
                    | .ok nm r =>
                      let r := whitespaceOnly r
                      let step : PR (List Field × List (In × List In)) :=
                        match litB [58] r with
                        | .ok _ r2 =>
                          let r2 := whitespaceOnly r2
                          (match varlinkType (tyFuel r2) r2 with
                           | .ok t r3 => .ok (fs ++ [(nm, t, fcs)], vs) r3
                           | .err e => .err e)
                        | _ => .ok (fs, vs ++ [(nm, fcs)]) r
                      (match step with
                       | .ok (fs, vs) r3 =>
                         let r3 := whitespaceOnly r3
                         (match litB [44] r3 with
                          | .ok _ r4 => loop k (whitespaceOnly r4) fs vs
                          | _ => match litB [41] r3 with
                            | .ok _ r4 =>
                              if !fs.isEmpty && !vs.isEmpty then .err r4
                              else if !fs.isEmpty then .ok (.obj n fs cs) r4
                              else .ok (.enm n vs cs) r4
                            | _ => .err r3)
                       | .err e => .err e)
                    | _ => .err i1
                loop (r.length + 1) r [] [])
           | _ => .err r)
        | _ => .err r)
     | _ => .err r)
  | _ => .err i

def interfaceDef (i : In) : PR Iface :=
  let (cs, i) := pcF i
  match litB [105, 110, 116, 101, 114, 102, 97, 99, 101] i with
  | .ok _ r =>
    (match ws1 r with
     | .ok _ r =>
       (match interfaceName r with
        | .ok name r =>
          let r := whitespaceOnly r
          let rec loop (k : Nat) (i : In) (acc : Iface) : PR Iface :=
            match k with
            | 0 => .ok acc i
            | k+1 =>
              if i.isEmpty then .ok acc i else
              let i := whitespaceOnly i
              if i.isEmpty then .ok acc i else
              -- alt((type_def, method_def, error_def)); after the last alternative fails the input
              -- stays where that alternative stopped
              match typeDef i with
              | .ok t r => loop k r { acc with types := acc.types ++ [t] }
             
              | .err _ =>
              match methodDef i with
              | .ok m r => loop k r { acc with methods := acc.methods ++ [m] }
             
              | .err _ =>
              match errorDef i with
              | .ok e r => loop k r { acc with errors := acc.errors ++ [e] }
             
              | .err r => .err r
          loop (r.length + 1) r ⟨name, cs, [], [], []⟩
        | _ => .err r)
     | _ => .err r)
  | _ => .err i

inductive Outcome | ok (i : Iface) | error

end Idl
