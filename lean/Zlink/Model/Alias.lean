import Zlink.Model.Rx
/-! Buffer-aliasing model for C11 (`read_connection.rs` + `chain/reply_stream.rs`): what a value that
    borrows from the receive buffer points at, while later receives run.

    `phys` is the physical content of the buffer (`Vec<u8>`): resetting the cursors does **not** clear
    it, the next read overwrites it from offset 0 (plus the sentinel NUL after the bytes read);
    `gen` counts buffer growths (`Vec::extend` may move the allocation: every outstanding borrow then
    dangles). A yielded item is a *view* `(start, len)` with the bytes it showed when it was returned. -/
namespace Alias
open Rx

structure View where
  start : Nat
  len : Nat
  gen : Nat
  snap : List Byte
deriving Repr, DecidableEq

structure ASt where
  rx : St
  phys : List Byte
  gen : Nat
deriving Repr

def overwrite (phys : List Byte) (bytes : List Byte) : List Byte :=
  bytes ++ phys.drop bytes.length

/-- one receive: as `Rx.poll`, additionally tracking the physical buffer and returning the view of
    the delivered frame -/
def apoll (C : Consts) (sizes : Nat → Nat) (a : ASt) (e : Net) : Out × ASt × Net × Option View :=
  let noRead := a.rx.msgPos > 0
  let (r, s1, e1) := if noRead then (LoopOut.done, a.rx, e) else readLoop C sizes (e.avail.length + 1) a.rx e
  let phys1 := if noRead then a.phys else overwrite a.phys (s1.data ++ [0])
  let gen1 := if s1.cap = a.rx.cap then a.gen else a.gen + 1
  match r with
  | .pending => (.pending, { rx := s1, phys := phys1, gen := gen1 }, e1, none)
  | .err x => (.err x, { rx := s1, phys := phys1, gen := gen1 }, e1, none)
  | .done =>
    let rest := s1.data.drop s1.msgPos
    let frame := rest.takeWhile (· != 0)
    let nullIdx := s1.msgPos + frame.length
    let next := s1.data.getD (nullIdx + 1) 0
    let s' : St := if next = 0 then { s1 with data := [], msgPos := 0 } else { s1 with msgPos := nullIdx + 1 }
    (.frame frame, { rx := s', phys := phys1, gen := gen1 }, e1,
      some { start := s1.msgPos, len := frame.length, gen := gen1, snap := frame })

/-- the borrowed bytes are still what they were and the buffer has not been reallocated -/
def Intact (a : ASt) (v : View) : Bool :=
  a.gen == v.gen && (a.phys.drop v.start).take v.len == v.snap

def ainit (C : Consts) : ASt := { rx := init C, phys := List.replicate C.step 0, gen := 0 }
end Alias
