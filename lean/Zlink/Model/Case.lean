/-! Port of heck 0.5's `transform` (`to_snake_case`, `to_pascal_case`) for ASCII input, over bytes:
    the input is split at every non-alphanumeric byte; inside one alphanumeric run a word ends
    *after* a lower-case letter that is followed by an upper-case one, and *before* the last
    upper-case letter of a run of upper-case letters that is followed by a lower-case one. -/
namespace Case
abbrev CIn := List UInt8

def isLower (b : UInt8) : Bool := 97 ≤ b && b ≤ 122
def isUpper (b : UInt8) : Bool := 65 ≤ b && b ≤ 90
def isDigit (b : UInt8) : Bool := 48 ≤ b && b ≤ 57
def isAlnum (b : UInt8) : Bool := isLower b || isUpper b || isDigit b
def toLower (b : UInt8) : UInt8 := if isUpper b then b + 32 else b
def toUpper (b : UInt8) : UInt8 := if isLower b then b - 32 else b

/-- `WordMode` -/
inductive Mode | boundary | lower | upper
deriving DecidableEq, Repr

/-- the words of one alphanumeric run; `cur` is the word being collected -/
def runWords : Mode → CIn → CIn → List CIn
  | _, cur, [] => if cur.isEmpty then [] else [cur]
  | _, cur, [c] => [cur ++ [c]]
  | mode, cur, c :: n :: t =>
    let nextMode := if isLower c then Mode.lower else if isUpper c then Mode.upper else mode
    if nextMode = .lower && isUpper n then
      (cur ++ [c]) :: runWords .boundary [] (n :: t)
    else if mode = .upper && isUpper c && isLower n then
      cur :: runWords .boundary [c] (n :: t)
    else runWords nextMode (cur ++ [c]) (n :: t)

/-- split at every non-alphanumeric byte (empty runs are kept; they yield no word) -/
def splitRuns : CIn → List CIn
  | [] => [[]]
  | c :: t =>
    if isAlnum c then
      match splitRuns t with
      | h :: r => (c :: h) :: r
      | [] => [[c]]
    else [] :: splitRuns t

def words (s : CIn) : List CIn := (splitRuns s).flatMap (runWords .boundary [])

def lowercase (w : CIn) : CIn := w.map toLower
def capitalize : CIn → CIn
  | [] => []
  | c :: t => toUpper c :: t.map toLower

def joinU : List CIn → CIn
  | [] => []
  | [w] => w
  | w :: r => w ++ [95] ++ joinU r

def snake (s : CIn) : CIn := joinU ((words s).map lowercase)
def pascal (s : CIn) : CIn := (words s).flatMap capitalize
end Case
