import Zlink.Model.Ser
import Zlink.Gen.Consts
/-! Reading a JSON string back (import-free model of the part of `serde_json`'s string parser that the
    output of zlink's serializer exercises): the bytes between the quotes are copied, `\"`, `\\`, `\/`,
    `\b`, `\f`, `\n`, `\r`, `\t` are replaced, `\u00XX` yields the byte `XX` (< 0x80; other `\u`
    escapes are never emitted by zlink and are outside this model: `none`), a raw control character,
    a raw quote or a lone backslash is an error. Used for the GetInterfaceDescription exchange of C14:
    the description travels as one JSON string. -/
namespace JsonStr
abbrev Byte := UInt8

def hexVal (c : Byte) : Option Nat :=
  if 48 ≤ c && c ≤ 57 then some (c.toNat - 48)
  else if 97 ≤ c && c ≤ 102 then some (c.toNat - 87)
  else if 65 ≤ c && c ≤ 70 then some (c.toNat - 55)
  else none

def simpleEsc (c : Byte) : Option Byte :=
  if c == 34 then some 34 else if c == 92 then some 92 else if c == 47 then some 47
  else if c == 98 then some 8 else if c == 102 then some 12 else if c == 110 then some 10
  else if c == 114 then some 13 else if c == 116 then some 9 else none

/-- one character of string content: the decoded byte and what follows it -/
def step : List Byte → Option (Byte × List Byte)
  | 92 :: 117 :: a :: b :: c :: d :: rest =>
    match hexVal a, hexVal b, hexVal c, hexVal d with
    | some x, some y, some z, some w =>
      let cp := ((x * 16 + y) * 16 + z) * 16 + w
      if cp < 128 then some (UInt8.ofNat cp, rest) else none
    | _, _, _, _ => none
  | 92 :: c :: rest => (simpleEsc c).map (·, rest)
  | b :: rest => if b < 32 || b == 34 || b == 92 then none else some (b, rest)
  | [] => none

/-- the content of a JSON string (between the quotes), decoded -/
def unescapeN : Nat → List Byte → Option (List Byte)
  | _, [] => some []
  | 0, _ => none
  | f + 1, l =>
    match step l with
    | some (b, rest) => (unescapeN f rest).map (b :: ·)
    | none => none

def unescape (l : List Byte) : Option (List Byte) := unescapeN l.length l

/-- a whole JSON string token `"…"` -/
def readQuoted (l : List Byte) : Option (List Byte) :=
  match l with
  | 34 :: t =>
    match t.reverse with
    | 34 :: r => unescape r.reverse
    | _ => none
  | _ => none

/-- The escape tables of the current source (same definition as `C03.tbl`). -/
def tbl : Ser.Tbl :=
  { esc := fun b => UInt8.ofNat (Gen.escapeTable.getD b.toNat 0),
    hexd := fun n => UInt8.ofNat (Gen.hexDigits.getD n 0) }
end JsonStr
