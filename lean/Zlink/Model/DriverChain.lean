import Zlink.Model.Wire
import Zlink.Model.DriverRx
import Zlink.Model.Tx
import Zlink.Spec.Chain
import Zlink.Spec.Rx
/-! Driver glue for scenario `chain`. -/
namespace DriverChain
open Wire Rx Chain

def txConsts : Tx.Consts := { step := Gen.bufferSize, max := Gen.maxBufferSizeHook }

def kindOf (c : String) : Kind :=
  if c = "c" then .cont else if c = "f" then .final else if c = "e" then .merr else .bad

def sTok (tbl : List (List Byte × String)) : SOut → String
  | .pending => "pend"
  | .ended => "ended"
  | .fail .eof => "it:eof"
  | .fail .overflow => "it:overflow"
  | .item f => match tbl.lookup f with
    | some v => "it:" ++ v
    | none => "it:unknown-frame"

/-- implementation stream tokens → `SOut`, against the owed frames -/
def soutsOfToks (tbl : List (List Byte × String)) : List String → List (List Byte) → List SOut
  | [], _ => []
  | t :: ts, owed =>
    if t = "pend" then .pending :: soutsOfToks tbl ts owed
    else if t = "ended" then .ended :: soutsOfToks tbl ts owed
    else match owed with
      | f :: rest => if (tbl.lookup f).map ("it:" ++ ·) = some t then .item f :: soutsOfToks tbl ts rest
                     else .fail .eof :: soutsOfToks tbl ts owed
      | [] => .item [] :: soutsOfToks tbl ts owed

/-- splits the event tokens into the stream phase and the receive phase (from the first `R`) -/
def splitPhases (es : List String) : List String × List String :=
  (es.takeWhile (· != "R"), es.dropWhile (· != "R"))

def parseEvS (t : String) : Option Ev :=
  match t.toList with
  | ['C'] => some .close
  | ['P'] => some .poll
  | 'A' :: r => some (.arrive (decBytes (String.ofList r)))
  | _ => none

def parseEvR (t : String) : Option (Option Ev) :=
  match t.toList with
  | ['C'] => some (some .close)
  | ['R'] => some (some .poll)
  | ['P'] => some none
  | 'A' :: r => some (some (.arrive (decBytes (String.ofList r))))
  | _ => none

def handle (ts : List String) : String :=
  let (_, r0) := splitAt "K" ts
  let (ks, r1) := splitAt "F" r0
  let (fs, r2) := splitAt "T" r1
  let (tts, r3) := splitAt "S" r2
  let (ss, r4) := splitAt "E" r3
  let (es, obs) := splitAt "=>" r4
  -- calls
  let calls : List (String × List Byte) := ks.filterMap fun t =>
    match t.splitOn ":" with
    | [k, b] => some (k, decBytes b)
    | _ => none
  let count := (calls.filter (·.1 != "o")).length
  -- script frames with kind and reference token; trailing frames with reference token
  let script : List (List Byte × Kind × String) := fs.filterMap fun t =>
    match t.splitOn "=" with
    | [a, k, r] => some (decBytes a, kindOf k, r)
    | _ => none
  let trailing : List (List Byte × String) := tts.filterMap fun t =>
    match t.splitOn "=" with
    | [a, r] => some (decBytes a, r)
    | _ => none
  let tbl : List (List Byte × String) := script.map (fun x => (x.1, x.2.2)) ++ trailing
  let kindTbl : List (List Byte × Kind) := script.map fun x => (x.1, x.2.1)
  -- frames of the trailing part are classified by content as the implementation would (they are
  -- never reached by a correct stream); unknown frames count as final.
  let kind : List Byte → Kind := fun f => (kindTbl.lookup f).getD .final
  let F := script.map (·.1)
  let T := trailing.map (·.1)
  let sizes := ss.map String.toNat!
  let (es1, es2) := splitPhases es
  match es1.mapM parseEvS, es2.mapM parseEvR with
  | some evs1, some evs2o =>
    let evs2 := evs2o.filterMap id
    let C := DriverRx.consts
    let r := srun kind C (DriverRx.sizesFn sizes) evs1 (Chain.new count) (init C) net0
    let after := Rx.run C (DriverRx.sizesFn sizes) evs2 r.2.2.1 r.2.2.2
    -- send side
    let ops := calls.map (fun c => Tx.Op.enqueue (.ok c.2)) ++ [Tx.Op.flush true]
    let wr := (Tx.run txConsts ops (Tx.init txConsts)).2
    let m := "W" ++ String.join (wr.map fun w => " " ++ encBytes w) ++ " ;" ++
      String.join (r.1.map fun o => " " ++ sTok tbl o) ++ " ;" ++
      String.join (after.map fun o => " " ++ DriverRx.tokOfOut tbl o)
    -- oracle on the implementation's observation
    let (_, o1) := splitAt "W" obs
    let (ow, o2) := splitAt ";" o1
    let (ostream, oafter) := splitAt ";" o2
    let implW := ow.map decBytes
    let expW : List (List Byte) := [calls.flatMap fun c => c.2 ++ [0]]
    let souts := soutsOfToks tbl ostream F
    let yielded := (souts.filter fun o => match o with | .item _ => true | _ => false).length
    let arrivedIn1 := (evs1.map fun e => match e with | .arrive b => b.length | _ => 0).sum
    let closedIn1 := evs1.any fun e => match e with | .close => true | _ => false
    let owedAfter := (F ++ T).drop yielded
    let g : SpecRx.G := { notArrived := (enc (F ++ T)).length - arrivedIn1, owed := owedAfter, closed := closedIn1 }
    let h := (implW == expW) && SpecChain.conforms souts F &&
      SpecChain.complete evs1 souts (enc (F ++ T)).length F.length &&
      SpecRx.conforms evs2 (DriverRx.outsOfToks tbl oafter owedAfter) g &&
      SpecChain.Conforming kind count F
    "M " ++ m ++ " | H " ++ (if h then "1" else "0")
  | _, _ => "bad-line"
end DriverChain
