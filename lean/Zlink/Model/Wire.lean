/-! Line-protocol helpers for the model driver (import-free). -/
namespace Wire

def hexVal (c : Char) : Nat :=
  if '0' ≤ c ∧ c ≤ '9' then c.toNat - '0'.toNat
  else if 'a' ≤ c ∧ c ≤ 'f' then c.toNat - 'a'.toNat + 10
  else 0

def unhexAux : List Char → List UInt8
  | a :: b :: t => UInt8.ofNat (hexVal a * 16 + hexVal b) :: unhexAux t
  | _ => []

def unhex (s : String) : List UInt8 := unhexAux s.toList

/-- `h<hex>` literal, `r<count>x<hexbyte>` run, pieces joined by `+`, `-` = empty. -/
def decPiece (p : String) : List UInt8 :=
  match p.toList with
  | 'h' :: t => unhexAux t
  | 'r' :: t =>
    match (String.ofList t).splitOn "x" with
    | [n, b] => List.replicate n.toNat! ((unhex b).headD 0)
    | _ => []
  | _ => []

def decBytes (s : String) : List UInt8 :=
  if s = "-" then [] else (s.splitOn "+").flatMap decPiece

def hexDigit (n : Nat) : Char :=
  if n < 10 then Char.ofNat ('0'.toNat + n) else Char.ofNat ('a'.toNat + n - 10)

def hex (bs : List UInt8) : String :=
  if bs.isEmpty then "-" else
  String.ofList (bs.flatMap fun b => [hexDigit (b.toNat / 16), hexDigit (b.toNat % 16)])

/-- Run-length aware encoding, the inverse of `decBytes` (same rule as the harness: runs ≥ 12). -/
partial def encPieces (bs : List UInt8) (lit : List UInt8) (acc : List String) : List String :=
  match bs with
  | [] => (if lit.isEmpty then acc else ("h" ++ hex lit.reverse) :: acc).reverse
  | b :: _ =>
    let run := bs.takeWhile (· == b)
    let n := run.length
    if n ≥ 12 then
      let acc := if lit.isEmpty then acc else ("h" ++ hex lit.reverse) :: acc
      encPieces (bs.drop n) [] (("r" ++ toString n ++ "x" ++ hex [b]) :: acc)
    else encPieces (bs.drop n) (run.reverse ++ lit) acc

def encBytes (bs : List UInt8) : String :=
  if bs.isEmpty then "-" else "+".intercalate (encPieces bs [] [])

/-- Splits a token list at a marker token. -/
def splitAt (marker : String) (ts : List String) : List String × List String :=
  (ts.takeWhile (· != marker), (ts.dropWhile (· != marker)).drop 1)

def words (line : String) : List String :=
  (line.trimAscii.toString.splitOn " ").filter (· != "")
end Wire
