/-! Send-path model (import-free): `write_connection.rs` — `enqueue` (grow-and-retry loop around the
    slice serializer, terminator), `flush`, `write` (= enqueue + flush), `grow_buffer`.
    The serializer's behaviour on one message is summarised by a `SerOutcome` (see `Model/Ser`):
    the bytes it produces, or the bytes it produces before it reports a key/custom error. -/
namespace Tx
abbrev Byte := UInt8

structure Consts where
  step : Nat
  max : Nat

/-- `buffer[..pos]` and `buffer.len()`. -/
structure St where
  queued : List Byte
  cap : Nat
deriving Repr

inductive SerOutcome
  | ok (bytes : List Byte)
  | keyErr (before : List Byte)
deriving Repr

inductive Res | ok | json | overflow | io
deriving Repr, DecidableEq

def SerOutcome.len : SerOutcome → Nat
  | .ok b => b.length
  | .keyErr b => b.length

/-- The retry loop: `to_slice` fits in `buffer[pos..]` iff `n ≤ cap - pos`; otherwise
    `grow_buffer` (refused when `cap ≥ max`). Returns (fits, final cap). -/
def growUntil (C : Consts) (pos n : Nat) : Nat → Nat → Bool × Nat
  | 0, cap => (false, cap)
  | fuel+1, cap =>
    if n ≤ cap - pos then (true, cap)
    else if cap ≥ C.max then (false, cap)
    else growUntil C pos n fuel (cap + C.step)

def enqueue (C : Consts) (s : St) (o : SerOutcome) : Res × St :=
  let pos := s.queued.length
  match growUntil C pos o.len (C.max + 2) s.cap with
  | (false, cap) => (.overflow, { s with cap := cap })
  | (true, cap) =>
    match o with
    | .keyErr _ => (.json, { s with cap := cap })
    | .ok bytes =>
      -- "ended exactly at the end of the buffer: grow before writing the terminator"
      if pos + bytes.length = cap then
        if cap ≥ C.max then (.overflow, { s with cap := cap })
        else (.ok, { queued := s.queued ++ bytes ++ [0], cap := cap + C.step })
      else (.ok, { queued := s.queued ++ bytes ++ [0], cap := cap })

/-- `flush`: one transport write of everything queued, iff non-empty; the queue is cleared only
    when the write succeeded. Returns the result, the write issued (if any) and the new state. -/
def flush (s : St) (writeOk : Bool) : Res × Option (List Byte) × St :=
  if s.queued = [] then (.ok, none, s)
  else if writeOk then (.ok, some s.queued, { s with queued := [] })
  else (.io, none, s)

inductive Op
  | enqueue (o : SerOutcome)          -- enqueue_call
  | send (o : SerOutcome) (writeOk : Bool)   -- send_call / send_reply / send_error
  | flush (writeOk : Bool)
deriving Repr

def step (C : Consts) (s : St) : Op → Res × Option (List Byte) × St
  | .enqueue o => let (r, s') := enqueue C s o; (r, none, s')
  | .flush w => flush s w
  | .send o w =>
    match enqueue C s o with
    | (.ok, s') => flush s' w
    | (r, s') => (r, none, s')

/-- Runs a history; returns per-operation results and the transport writes in order. -/
def run (C : Consts) : List Op → St → List Res × List (List Byte)
  | [], _ => ([], [])
  | op :: ops, s =>
    let (r, w, s') := step C s op
    let (rs, ws) := run C ops s'
    (r :: rs, match w with | some b => b :: ws | none => ws)

def init (C : Consts) : St := { queued := [], cap := C.step }
end Tx
