import Zlink.Model.Wire
/-! Driver glue for scenario `unix` (C19). The model's prediction is the closed form of `C19_e2e`: what
    the peer receives is what was sent (the expected hashes are a function of (size, index) computed
    independently of the transfer); listeners serve every connection with distinct ids; after a
    cancelled send the peer sees only whole frames that were sent, each at most once. -/
namespace DriverUnix
open Wire

def nodup (l : List String) : Bool :=
  match l with
  | [] => true
  | h :: t => !t.contains h && nodup t

def handle (ts : List String) : String :=
  match ts with
  | "unix" :: "xfer" :: rest =>
    let (inp, obs) := splitAt "=>" rest
    let (_, r1) := splitAt "XA" inp
    let (xa, xb) := splitAt "XB" r1
    let m := "A " ++ " ".intercalate xa ++ " ; B " ++ " ".intercalate xb
    let (_, o1) := splitAt "A" obs
    let (oa, o2) := splitAt ";" o1
    let ob := o2.drop 1
    "M " ++ m ++ " | H " ++ (if oa == xa && ob == xb then "1" else "0")
  | "unix" :: "listen" :: _ :: _ :: n :: "=>" :: obs =>
    let k := (n.drop 2).toString
    let m := "ids=distinct served=" ++ k
    "M " ++ m ++ " | H " ++ (if obs == ["ids=distinct", "served=" ++ k] then "1" else "0")
  | "unix" :: "ids" :: rest =>
    -- `C19_ids_distinct`: a counter handed out by fetch_add gives pairwise distinct identifiers
    let (_, obs) := splitAt "=>" rest
    "M ids=distinct | H " ++ (if obs == ["ids=distinct"] then "1" else "0")
  | "unix" :: "cancel" :: _ :: _ :: "X" :: big :: small :: "=>" :: obs =>
    -- the model (`Pipe.flushCancelled`) predicts the corruption; what the property demands:
    let sent := ["ok:" ++ big, "ok:" ++ small]
    let h := obs.all (fun t => sent.contains t) && nodup obs
    -- model observation: a garbage frame followed by the small message (the defect, mirrored)
    let m := match obs with
      | [b, s] => if b.startsWith "bad:" && s == "ok:" ++ small then " ".intercalate obs else "corrupted-frame ok:" ++ small
      | _ => "corrupted-frame ok:" ++ small
    "M " ++ m ++ " | H " ++ (if h then "1" else "0")
  | "unix" :: "pollonce" :: _ :: n :: _ :: "=>" :: obs =>
    -- `C19_no_suspension_after_last_byte` + `C19_cancel_partial`: a small send either completes in its first poll
    -- or is parked with nothing written (whether the kernel has room is the environment's choice, read off the
    -- observed `done` string); an abandoned frame stays queued and goes out with the next send that completes.
    -- Model prediction: the peer sees exactly the frames up to the last completed send, each once, in order.
    let k := (n.drop 2).toString.toNat!
    match obs with
    | [d, g] =>
      let done := (d.drop 5).toString.toList
      let lastDone : Option Nat := (List.range k).foldl (fun acc i => if done[i]? == some '1' then some i else acc) none
      let expect : List Nat := match lastDone with | some j => List.range (j + 1) | none => []
      let m := d ++ " got=" ++ ",".intercalate (expect.map toString)
      let got := ((g.drop 4).toString.splitOn ",").filter (· ≠ "")
      let idx := got.filterMap String.toNat?
      -- only whole frames that were sent, each at most once, in order; every completed send's frame arrives
      let h := idx.length == got.length && idx.all (· < k) &&
        (idx.zip (idx.drop 1)).all (fun p => decide (p.1 < p.2)) &&
        (List.range k).all (fun i => done[i]? != some '1' || idx.contains i) && !done.contains 'e'
      "M " ++ m ++ " | H " ++ (if h then "1" else "0")
    | _ => "M bad-observation | H 0"
  | _ => "skip"
end DriverUnix
