import Zlink.Model.Rx
import Zlink.Model.Select
/-! Server-loop model (`server/mod.rs`, `server/select_all.rs`) over the poll-level receive model.

One `iter` = one pass of the `select_biased!` of `Server::run` in branch order:
1. accept a queued connection; 2. `get_next_call`: poll every connection's `receive_call` from the
rotated start index until one is ready (earlier polls *do* move bytes into their buffers), handle the
call (`handle_call`: one reply / one error / nothing for oneway / turn into a reply stream), or drop the
connection on a read error, an undecodable call or a failed write (`swap_remove`);
3. reply streams: `SelectAll` over the streams' `next()` futures from the rotated start index; the first stream
that has a result ready (`credit > 0`: the service's stream hands over an item, or its end, only when the
environment event `produce` has made one available — until then its `next()` is pending and polling it changes
nothing) wins: its item is written to its client, the connection returns to `conns` when the stream ends, the
subscription is dropped when the write fails.

The service is the fixed family the correspondence harness implements (echo / error / stream of `n`
items with a flag pattern / undecodable call). Ghost fields (`good`, `frames`, `descs`, `fut`, `k`) are never read by the loop. -/
namespace Srv
open Rx

instance : Inhabited St := ⟨⟨[], 0, 0⟩⟩
instance : Inhabited Net := ⟨⟨[], false, 0⟩⟩

/-- Meaning of one call frame for the test service. -/
inductive Desc
  | echo (v : Nat) (oneway : Bool)
  | fail (oneway : Bool)
  | sub (n : Nat) (pat : Nat)   -- stream of `n` items; `pat` = which `continues` flags the service puts on them
  | unser (oneway : Bool)       -- the service answers with a reply that cannot be serialized (`send_reply` fails before anything is written)
  | garbage
deriving Repr, Inhabited, DecidableEq

/-- What reaches a client: a reply, an error, a stream item with its `continues` flag. -/
inductive Tok | R (v : Nat) | E | I (v : Nat) (cont : Option Bool)
deriving Repr, DecidableEq, Inhabited

structure Conn where
  id : Nat
  rx : St
  net : Net
  calls : List Desc       -- meaning of the frames not yet delivered, in order
  out : List Tok          -- what the client has been sent
  wfail : Option Nat      -- transport fault script: the write number `k` (0-based) and all later ones fail
  nwrites : Nat
  credit : Nat            -- results (items, or the end of the stream) the service's reply stream for this client can hand over now
  -- ghost state (never read by the loop)
  good : Bool             -- this client behaves: sends whole frames, closes only afterwards, accepts writes
  frames : List (List Byte)
  descs : List Desc
  fut : List Byte
  k : Nat
  granted : Nat := 0       -- results the service's streams for this client were ever allowed to hand over (initial + produced)
  used : Nat := 0          -- results the server has taken from them
deriving Inhabited

structure S where
  conns : List Conn
  streams : List (List (Nat × Option Bool) × Conn)
  lastCall : Option Nat
  lastStream : Option Nat
  listenQ : List Conn
  dead : List Conn
  served : List (Nat × Desc)   -- ghost log: (connection id, call) in the order the service was invoked
  wlog : List Nat := []        -- ghost log: the client of every transport write, in the global order of the writes
deriving Inhabited

def swapRemove {α} (l : List α) (i : Nat) : List α :=
  match l.getLast? with
  | none => l
  | some last => if i + 1 = l.length then l.dropLast else (l.set i last).dropLast

/-- `get_next_call` / `SelectAll::poll`: returns the updated list and, if some connection was ready,
    its index, the outcome and the (already updated) connection. -/
def scanCalls (C : Consts) (sizes : Nat → Nat) (n start : Nat) :
    Nat → List Conn → List Conn × Option (Nat × Out × Conn)
  | 0, cs => (cs, none)
  | i+1, cs =>
    let off := n - (i+1)
    let idx := (start % n + off) % n
    match cs[idx]? with
    | none => (cs, none)
    | some c =>
      let r := poll C sizes c.rx c.net
      let c' : Conn := { c with rx := r.2.1, net := r.2.2 }
      let cs' := cs.set idx c'
      match r.1 with
      | .pending => scanCalls C sizes n start i cs'
      | o => (cs', some (idx, o, c'))

/-- the flag the test service puts on item `i` of `n`: pattern 0 = the conventional one (`true` on every
    item but the last), 1 = always `true`, 2 = alternating starting with `true`, other = no flag at all -/
def flagOf (pat n i : Nat) : Option Bool :=
  if pat = 0 then some (decide (i + 1 < n)) else if pat = 1 then some true
  else if pat = 2 then some (decide (i % 2 = 0)) else none
def itemsOf (n pat : Nat) : List (Nat × Option Bool) := (List.range n).map fun i => (i, flagOf pat n i)
def tokOf (p : Nat × Option Bool) : Tok := .I p.1 p.2

/-- what the service's answer puts on the wire for one call (nothing for a oneway call) -/
def answer : Desc → List Tok
  | .echo v ow => if ow then [] else [.R v]
  | .fail ow => if ow then [] else [.E]
  | .sub n p => (itemsOf n p).map tokOf
  | .unser _ => []
  | .garbage => []

/-- sequential per-connection reference -/
def expectedOut (ds : List Desc) : List Tok := ds.flatMap answer

/-- one `send_reply` / `send_error` = one transport write; `none` = the write failed -/
def writeTo (c : Conn) (toks : List Tok) : Option Conn :=
  match c.wfail with
  | some k => if c.nwrites ≥ k then none else some { c with out := c.out ++ toks, nwrites := c.nwrites + 1 }
  | none => some { c with out := c.out ++ toks, nwrites := c.nwrites + 1 }

/-- readiness of reply stream `j`: its `next()` future would complete if polled now -/
def streamReady (ss : List (List (Nat × Option Bool) × Conn)) (j : Nat) : Bool :=
  match ss[j]? with
  | some p => decide (0 < p.2.credit)
  | none => false

/-- the start index of the next `get_next_call` scan: right after the previous winner -/
def nextStart (s : S) : Nat := match s.lastCall with | some i => i + 1 | none => 0

/-- the start index of the next scan of the reply streams: right after the previous winner -/
def streamStart (last : Option Nat) : Nat := match last with | some i => i + 1 | none => 0

def iter (C : Consts) (sizes : Nat → Nat) (s : S) : Option S :=
  match s.listenQ with
  | c :: q => some { s with conns := s.conns ++ [c], listenQ := q }
  | [] =>
    let n := s.conns.length
    let start := nextStart s
    let sc := if n = 0 then (s.conns, none) else scanCalls C sizes n start n s.conns
    match sc.2 with
    | some (idx, o, c) =>
      let s := { s with conns := sc.1, lastCall := some idx }
      match o with
      | .frame _ =>
        match c.calls with
        | [] => some { s with conns := swapRemove s.conns idx, dead := c :: s.dead }
        | d :: rest =>
          let c := { c with calls := rest, k := c.k + 1 }
          match d with
          | .garbage => some { s with conns := swapRemove s.conns idx, dead := c :: s.dead }
          | .sub m pat =>
            some { s with conns := swapRemove s.conns idx, streams := s.streams ++ [(itemsOf m pat, c)],
                          served := s.served ++ [(c.id, d)] }
          | .unser false =>
            -- `send_reply` fails while serializing: nothing reaches the transport, the connection is dropped
            some { s with conns := swapRemove s.conns idx, dead := c :: s.dead, served := s.served ++ [(c.id, d)] }
          | d =>
            let s := { s with served := s.served ++ [(c.id, d)] }
            if answer d = [] then some { s with conns := s.conns.set idx c }
            else match writeTo c (answer d) with
              | some c' => some { s with conns := s.conns.set idx c', wlog := s.wlog ++ [c.id] }
              | none => some { s with conns := swapRemove s.conns idx, dead := c :: s.dead }
      | _ => some { s with conns := swapRemove s.conns idx, dead := c :: s.dead }
    | none =>
      let s := { s with conns := sc.1 }
      let m := s.streams.length
      if m = 0 then none else
      match Sel.scan m (streamStart s.lastStream) (streamReady s.streams) m with
      | none => none
      | some idx =>
      match s.streams[idx]? with
      | none => none
      | some (items, c0) =>
        let c : Conn := { c0 with credit := c0.credit - 1, used := c0.used + 1 }
        let s := { s with lastStream := some idx }
        match items with
        | [] => some { s with streams := swapRemove s.streams idx, conns := s.conns ++ [c] }
        | p :: rest =>
          match writeTo c [tokOf p] with
          | some c' => some { s with streams := s.streams.set idx (rest, c'), wlog := s.wlog ++ [c.id] }
          | none => some { s with streams := swapRemove s.streams idx, dead := c :: s.dead }

/-! ### environment events -/

/-- bytes `b` arrive on a connection -/
def arriveC (b : List Byte) (c : Conn) : Conn :=
  { c with net := { c.net with avail := c.net.avail ++ b }, fut := c.fut.drop b.length }
def closeC (c : Conn) : Conn := { c with net := { c.net with closed := true } }
/-- the service makes `n` more results of this client's reply stream available -/
def produceC (n : Nat) (c : Conn) : Conn := { c with credit := c.credit + n, granted := c.granted + n }

def mapConns (f : Conn → Conn) (s : S) : S :=
  { s with conns := s.conns.map f, listenQ := s.listenQ.map f,
           streams := s.streams.map fun p => (p.1, f p.2), dead := s.dead.map f }

inductive Ev
  | connect (c : Conn)
  | arrive (id : Nat) (b : List Byte)
  | close (id : Nat)            -- peer closes (or the transport starts failing reads)
  | produce (id : Nat) (n : Nat) -- the service makes `n` more stream results (items / end of stream) available for this client
  | run (fuel : Nat)            -- the executor polls the server future

/-- one poll of `Server::run`: iterate until every branch is pending -/
def pollServer (C : Consts) (sizes : Nat → Nat) : Nat → S → S
  | 0, s => s
  | fuel+1, s => match iter C sizes s with | none => s | some s' => pollServer C sizes fuel s'

def step (C : Consts) (sizes : Nat → Nat) (s : S) : Ev → S
  | .connect c => { s with listenQ := s.listenQ ++ [c] }
  | .arrive id b => mapConns (fun c => if c.id = id then arriveC b c else c) s
  | .close id => mapConns (fun c => if c.id = id then closeC c else c) s
  | .produce id n => mapConns (fun c => if c.id = id then produceC n c else c) s
  | .run fuel => pollServer C sizes fuel s

def S.all (s : S) : List Conn := s.conns ++ s.listenQ ++ s.streams.map (·.2) ++ s.dead

def init : S := { conns := [], streams := [], lastCall := none, lastStream := none, listenQ := [], dead := [], served := [], wlog := [] }

def runEvs (C : Consts) (sizes : Nat → Nat) : List Ev → S → S
  | [], s => s
  | ev :: t, s => runEvs C sizes t (step C sizes s ev)
end Srv
