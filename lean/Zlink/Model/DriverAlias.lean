import Zlink.Model.Wire
import Zlink.Model.DriverRx
import Zlink.Model.Alias
/-! Driver glue for scenario `alias` (C11). -/
namespace DriverAlias
open Wire Rx Alias

/-- poll the reply stream until it is pending (or `stop` frames have been received: the stream ends at a
    frame that is a general error: that frame is consumed, nothing after it is) -/
def pollAll (C : Consts) (stop : Nat) : Nat → ASt → Net → List View → ASt × Net × List View
  | 0, a, e, vs => (a, e, vs)
  | n+1, a, e, vs =>
    if vs.length ≥ stop then (a, e, vs) else
    let r := apoll C (fun _ => 1000000000) a e
    match r.2.2.2 with
    | some v => pollAll C stop n r.2.1 r.2.2.1 (vs ++ [v])
    | none => (r.2.1, r.2.2.1, vs)

/-- the reply bytes arrive chunk by chunk (one arrival per chunk, wherever its boundary falls); after each
    arrival the caller polls the stream until it is pending, holding every view it was given -/
def runChunks (C : Consts) (stop nframes : Nat) : List (List Byte) → ASt → Net → List View → ASt × List View
  | [], a, _, vs => (a, vs)
  | c :: cs, a, e, vs =>
    if vs.length ≥ stop then (a, vs) else
    let e := { e with avail := e.avail ++ c }
    let (a', e', vs') := pollAll C stop (nframes + 2) a e vs
    runChunks C stop nframes cs a' e' vs'

def splitChunks : List Nat → List Byte → List (List Byte)
  | [], _ => []
  | c :: cs, bs => bs.take c :: splitChunks cs (bs.drop c)

def handle (ts : List String) : String :=
  let (_, r0) := splitAt "F" ts
  let (fs, r1) := splitAt "G" r0
  let (_, r1c) := splitAt "C" r1
  let (gs, r2) := splitAt "O" r1c
  let (osx, obs) := splitAt "=>" r2
  let (os, xs) := splitAt "X" osx
  let frames := fs.map decBytes
  -- index of the frame at which the stream yields a general error and ends (none = no such frame)
  let errAt : Option Nat := match xs.head? with | some "-" => none | some t => t.toNat? | none => none
  let groups := gs.map String.toNat!
  let off := (os.headD "0").toNat!
  let C := DriverRx.consts
  -- `X <errAt> E <n>`: the last `n` frames are not owed to the chain (they stay in the buffer when the stream ends)
  let extra : Nat := match xs with | [_, "E", n] => n.toNat! | _ => 0
  let stop := match errAt with | some k => k + 1 | none => frames.length - extra
  let (a, vs0) := runChunks C stop frames.length (splitChunks groups (frames.flatMap (· ++ [0]))) (ainit C) net0 []
  -- the erroring frame is consumed but yields no item
  let vs := match errAt with | some k => vs0.take k | none => vs0
  -- the borrowed bytes are the `name` value: from `off` to 3 bytes before the end of the frame (`"}}`)
  let sub (v : View) : View := { v with start := v.start + off, len := v.len - off - 3, snap := (v.snap.drop off).take (v.len - off - 3) }
  let v0 := vs.head?
  let dist (v : View) : String := match v0 with
    | some w => if v.gen == w.gen then toString ((v.start : Int) - (w.start : Int)) else "moved"
    | none => "0"
  let m := " ".intercalate ((vs.map fun v => (if Intact a (sub v) then "same" else "diff") ++ "@" ++ dist v) ++
    (if errAt.isSome then ["err"] else []))
  -- oracle: every held item still reads as it did; and when all replies came in one read they lie
  -- in one buffer at the distances their frames dictate (nothing was moved)
  let offsets : List Int := (frames.foldl (fun (acc : List Int × Int) f => (acc.1 ++ [acc.2], acc.2 + f.length + 1)) ([], 0)).1
  let nItems := match errAt with | some k => k | none => frames.length - extra
  let want := (offsets.take nItems).map (fun d => "same@" ++ toString d) ++ (if errAt.isSome then ["err"] else [])
  let items := obs.filter (· != "err")
  let h := items.all (·.startsWith "same@") && items.length == nItems && (obs.contains "err" == errAt.isSome) &&
    (groups.length != 1 || obs == want)
  
  "M " ++ m ++ " | H " ++ (if h then "1" else "0")
end DriverAlias
