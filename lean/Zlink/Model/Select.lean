/-! `select_all.rs`: round-robin polling (import-free). -/
namespace Sel

/-- `SelectAll::poll`: scan `n` futures starting at `start % n`, return the first ready index. -/
def scan (n start : Nat) (ready : Nat → Bool) : Nat → Option Nat
  | 0 => none
  | i+1 =>
    -- offsets are visited in increasing order: n-(i+1), …, n-1
    let off := n - (i+1)
    let idx := (start % n + off) % n
    if ready idx then some idx else scan n start ready i

/-- the indices `SelectAll::poll` polls (and thereby hands the task's waker to), in order: from the start index up to and
    including the first ready one -/
def visited (n start : Nat) (ready : Nat → Bool) : Nat → List Nat
  | 0 => []
  | i+1 =>
    let idx := (start % n + (n - (i+1))) % n
    if ready idx then [idx] else idx :: visited n start ready i

/-- `start_index.map_or(0, |idx| idx % num_futures)`; `None` when there are no futures (`Pending`). -/
def selectAll (n : Nat) (start : Option Nat) (ready : Nat → Bool) : Option Nat :=
  if n = 0 then none else scan n (start.getD 0) ready n

/-- rotation distance of index `x` from `start` -/
def dist (n start x : Nat) : Nat := (x + n - start % n) % n
end Sel
