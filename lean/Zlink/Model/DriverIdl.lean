import Zlink.Model.Wire
import Zlink.Spec.Idl
import Zlink.Model.IdlExchange
/-! Driver glue for scenarios `idl` (C13) and `idlrt` (C14): compact tree format reader/printer. -/
namespace DriverIdl
open Wire Idl

def isHexC (c : Char) : Bool := ('0' ≤ c && c ≤ '9') || ('a' ≤ c && c ≤ 'f') || c == '-'
def takeHex (cs : List Char) : In × List Char :=
  (unhex (String.ofList (cs.takeWhile isHexC)), cs.dropWhile isHexC)

def dcs (cs : List In) : String := "{" ++ ",".intercalate (cs.map hex) ++ "}"
def hexN (b : In) : String := if b.isEmpty then "-" else hex b

mutual
partial def dTy : Ty → String
  | .bool => "b" | .int => "i" | .float => "f" | .string => "s" | .object => "o"
  | .optional t => "?" ++ dTy t | .array t => "A" ++ dTy t | .map t => "M" ++ dTy t
  | .custom n => "C" ++ hexN n ++ ";"
  | .enum vs => "E(" ++ ",".intercalate (vs.map fun (v, cs) => hexN v ++ (if cs.isEmpty then "" else dcs cs)) ++ ")"
  | .struct fs => "S(" ++ dFields fs ++ ")"
partial def dFields (fs : List Field) : String :=
  ",".intercalate (fs.map fun (n, t, cs) => "F" ++ hexN n ++ ":" ++ dTy t ++ dcs cs)
end

def dCT : CT → String
  | .obj n fs cs => "T" ++ hexN n ++ dcs cs ++ "(" ++ dFields fs ++ ")"
  | .enm n vs cs => "N" ++ hexN n ++ dcs cs ++ "(" ++ ",".intercalate (vs.map fun (v, c) => "V" ++ hexN v ++ dcs c) ++ ")"

def dIface (a : Iface) : String :=
  "I" ++ hexN a.name ++ dcs a.cs ++ "[" ++ ",".intercalate (a.types.map dCT) ++ "][" ++
  ",".intercalate (a.methods.map fun m => "M" ++ hexN m.name ++ dcs m.cs ++ "(" ++ dFields m.ins ++ ")(" ++ dFields m.outs ++ ")") ++ "][" ++
  ",".intercalate (a.errors.map fun e => "R" ++ hexN e.name ++ dcs e.cs ++ "(" ++ dFields e.fs ++ ")") ++ "]"

/-! reader -/
partial def pCs (cs : List Char) : Option (List In × List Char) :=
  match cs with
  | '{' :: r =>
    let rec go (r : List Char) (acc : List In) : Option (List In × List Char) :=
      match r with
      | '}' :: r' => some (acc.reverse, r')
      | ',' :: r' => go r' acc
      | _ => let (b, r') := takeHex r; if r'.length < r.length then go r' (b :: acc) else none
    go r []
  | _ => none

mutual
partial def pTy (cs : List Char) : Option (Ty × List Char) :=
  match cs with
  | 'b' :: r => some (.bool, r) | 'i' :: r => some (.int, r) | 'f' :: r => some (.float, r)
  | 's' :: r => some (.string, r) | 'o' :: r => some (.object, r)
  | '?' :: r => (pTy r).map fun (t, r') => (.optional t, r')
  | 'A' :: r => (pTy r).map fun (t, r') => (.array t, r')
  | 'M' :: r => (pTy r).map fun (t, r') => (.map t, r')
  | 'C' :: r => let (n, r') := takeHex r; (match r' with | ';' :: r'' => some (.custom n, r'') | _ => none)
  | 'E' :: '(' :: r =>
    let rec go (r : List Char) (acc : List (In × List In)) : Option (List (In × List In) × List Char) :=
      match r with
      | ')' :: r' => some (acc.reverse, r')
      | ',' :: r' => go r' acc
      | _ =>
        let (b, r') := takeHex r
        if r'.length < r.length then
          match r' with
          | '{' :: _ => (match pCs r' with | some (cs, r'') => go r'' ((b, cs) :: acc) | none => none)
          | _ => go r' ((b, []) :: acc)
        else none
    (go r []).map fun (vs, r') => (.enum vs, r')
  | 'S' :: '(' :: r => (pFields r).map fun (fs, r') => (.struct fs, r')
  | _ => none
partial def pFields (cs : List Char) : Option (List Field × List Char) :=
  match cs with
  | ')' :: r => some ([], r)
  | ',' :: r => pFields r
  | 'F' :: r =>
    let (n, r1) := takeHex r
    match r1 with
    | ':' :: r2 =>
      match pTy r2 with
      | some (t, r3) => match pCs r3 with
        | some (c, r4) => (pFields r4).map fun (fs, r5) => ((n, t, c) :: fs, r5)
        | none => none
      | none => none
    | _ => none
  | _ => none
end

partial def pList {α} (item : List Char → Option (α × List Char)) (cs : List Char) : Option (List α × List Char) :=
  match cs with
  | ']' :: r => some ([], r)
  | ',' :: r => pList item r
  | _ => match item cs with
    | some (x, r) => (pList item r).map fun (xs, r') => (x :: xs, r')
    | none => none

partial def pVariants (cs : List Char) : Option (List (In × List In) × List Char) :=
  match cs with
  | ')' :: r => some ([], r)
  | ',' :: r => pVariants r
  | 'V' :: r =>
    let (n, r1) := takeHex r
    match pCs r1 with
    | some (c, r2) => (pVariants r2).map fun (vs, r3) => ((n, c) :: vs, r3)
    | none => none
  | _ => none

def pCT (cs : List Char) : Option (CT × List Char) :=
  match cs with
  | 'T' :: r =>
    let (n, r1) := takeHex r
    match pCs r1 with
    | some (c, '(' :: r2) => (pFields r2).map fun (fs, r3) => (.obj n fs c, r3)
    | _ => none
  | 'N' :: r =>
    let (n, r1) := takeHex r
    match pCs r1 with
    | some (c, '(' :: r2) => (pVariants r2).map fun (vs, r3) => (.enm n vs c, r3)
    | _ => none
  | _ => none

def pMethod (cs : List Char) : Option (Method × List Char) :=
  match cs with
  | 'M' :: r =>
    let (n, r1) := takeHex r
    match pCs r1 with
    | some (c, '(' :: r2) =>
      match pFields r2 with
      | some (ins, '(' :: r3) => (pFields r3).map fun (outs, r4) => (⟨n, ins, outs, c⟩, r4)
      | _ => none
    | _ => none
  | _ => none

def pErr (cs : List Char) : Option (Err × List Char) :=
  match cs with
  | 'R' :: r =>
    let (n, r1) := takeHex r
    match pCs r1 with
    | some (c, '(' :: r2) => (pFields r2).map fun (fs, r3) => (⟨n, fs, c⟩, r3)
    | _ => none
  | _ => none

def pIface (s : String) : Option Iface :=
  match s.toList with
  | 'I' :: r =>
    let (n, r1) := takeHex r
    match pCs r1 with
    | some (c, '[' :: r2) =>
      match pList pCT r2 with
      | some (ts, '[' :: r3) =>
        match pList pMethod r3 with
        | some (ms, '[' :: r4) =>
          match pList pErr r4 with
          | some (es, []) => some ⟨n, c, ts, ms, es⟩
          | _ => none
        | _ => none
      | _ => none
    | _ => none
  | _ => none

def obsOf (o : Outcome) : String :=
  match o with
  | .ok a => "ok " ++ dIface a
  | .error => "error"

/-- `idl K<0|1> X <expected dump | -> T <text> => ok <dump> | error | panic` -/
def handleIdl (ts : List String) : String :=
  match ts with
  | [_, _, "X", x, "T", t, "=>", o] => handleCore x t [o]
  | [_, _, "X", x, "T", t, "=>", o, d] => handleCore x t [o, d]
  | _ => "bad-line"
where
  handleCore (x t : String) (obs : List String) : String :=
    let text := decBytes t
    let m := obsOf (parseInterface text)
    let h : Bool :=
      match obs with
      | ["error"] => x == "-"       -- a legal generated text (expected tree given) must be accepted
      | ["ok", d] =>
        if x != "-" then d == x      -- exactly the denoted tree
        else match pIface d with
          | some a => SpecIdl.nothingIgnored text a
          | none => false
      | _ => false                   -- panic or anything else
    "M " ++ m ++ " | H " ++ (if h then "1" else "0")

/-- `idlrt T <dump> => R <text> P ok <dump>|error|panic RR <0|1|-> EQ <0|1|->` -/
def handleRt (ts : List String) : String :=
  let (inp, obs) := splitAt "=>" ts
  match inp with
  | [_, "T", d] =>
    match pIface d with
    | none => "bad-tree"
    | some a =>
      let text := renderIface a
      let p := parseInterface text
      let rr := match p with
        | .ok a2 => if renderIface a2 == text then "1" else "0"
        | .error => "-"
      let m := "R " ++ encBytes text ++ " P " ++ obsOf p ++ " RR " ++ rr
      -- oracle on the implementation's observation: the parsed tree equals the original one, and
      -- re-rendering reproduces the text
      let (_, o1) := splitAt "R" obs
      let (rtxt, o2) := splitAt "P" o1
      let (pobs, rrobs) := splitAt "RR" o2
      let h := (rtxt.length == 1) && pobs == ["ok", d] && rrobs == ["1"] && SpecIdl.ifaceOK a
      "M " ++ m ++ " | H " ++ (if h then "1" else "0")
  | _ => "bad-line"

/-- `idlx T <dump> => W <frame> X ok <dump>|error|panic|decode-error|method-error|send-error` -/
def handleX (ts : List String) : String :=
  let (inp, obs) := splitAt "=>" ts
  match inp with
  | [_, "T", d] =>
    match pIface d with
    | none => "bad-tree"
    | some a =>
      let frame := IdlExchange.encodeReply a
      let x := match IdlExchange.decodeReply frame with
        | some txt => obsOf (parseInterface txt)
        | none => "decode-error"
      let m := "W " ++ encBytes (frame ++ [0]) ++ " X " ++ x
      -- oracle on the implementation's observation: what the client parsed is what the service described
      let (_, o1) := splitAt "X" obs
      let h := o1 == ["ok", d] && SpecIdl.ifaceOK a
      "M " ++ m ++ " | H " ++ (if h then "1" else "0")
  | _ => "bad-line"

def handle (ts : List String) : String :=
  match ts.head? with
  | some "idlx" => handleX ts
  | some "idl" => handleIdl ts
  | some "idlrt" => handleRt ts
  | _ => "skip"
end DriverIdl
