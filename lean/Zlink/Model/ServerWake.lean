import Zlink.Model.Server
/-! Wake-up discipline of `Server::run` (the waker contract of `core::task`), as a layer over `Srv`.

A real executor does not poll a task whenever it likes: it polls it once when it is spawned and afterwards only
when the task's waker has been woken. A future that returns `Pending` must have arranged for that wake-up. For the
server loop this means: when `Server::run` returns `Pending` it has, in its last pass through the `select_biased!`,
polled *every* event source it can make progress on - `listener.accept()`, the `receive_call` future of every
connection it is reading from (`SelectAll::poll` polls them all when none is ready), and the `next()` future of
every open reply stream - so each of them holds the task's waker.

`W` adds the executor's flag to the server state: `woken` = the task is scheduled. An environment event wakes the
task iff its source is one the parked server waits on (`wakes`). `Ev.run` polls only when the flag is set
(`stepW`), the way an executor does; `stalled` records that an executed poll ran out of the model's fuel before
every branch was pending (it never does with the fuel the driver passes; the theorems assume it did not). -/
namespace Srv

structure W where
  s : S
  woken : Bool      -- the executor has the server task scheduled
  stalled : Bool    -- an executed poll did not reach the point where every branch is pending (fuel)
deriving Inhabited

/-- does this event wake the parked server task? (`s` = the state the server was parked in) -/
def wakes (s : S) : Ev → Bool
  | .connect _ => true                                   -- the pending `listener.accept()` holds the waker
  | .arrive id _ => s.conns.any (·.id == id)             -- so does the socket read of every connection being read
  | .close id => s.conns.any (·.id == id)
  | .produce id n => decide (0 < n) && s.streams.any (·.2.id == id)   -- and the `next()` of every open reply stream
  | .run _ => false

def stepW (C : Rx.Consts) (sizes : Nat → Nat) (w : W) : Ev → W
  | .run fuel =>
    if w.woken then
      let s' := pollServer C sizes fuel w.s
      { s := s', woken := false, stalled := w.stalled || (iter C sizes s').isSome }
    else w
  | ev => { w with s := step C sizes w.s ev, woken := w.woken || wakes w.s ev }

/-- a freshly spawned task is scheduled once -/
def initW : W := { s := init, woken := true, stalled := false }

def runW (C : Rx.Consts) (sizes : Nat → Nat) : List Ev → W → W
  | [], w => w
  | ev :: t, w => runW C sizes t (stepW C sizes w ev)
end Srv
