import Zlink.Model.Wire
import Zlink.Model.DriverEnv
import Zlink.Model.IdlRender
import Zlink.Model.Codegen
/-! Driver glue for scenario `cg` (C15): every line carries the interface description (hex); the model
    parses it with the parser model of C13, generates the declarations with `Codegen.genModule`, and
    derives what the generated client puts on the wire / decodes. The oracle (`H`) is spelled from
    the IDL tree alone. -/
namespace DriverCg
open Wire Env DriverEnv Idl Codegen

def toS (b : In) : String := String.ofList (b.map fun x => Char.ofNat x.toNat)

def parseIface (h : String) : Option Iface :=
  match parseInterface (unhex h) with
  | .ok a => some a
  | .error => none

def findObj (a : Iface) (n : In) : Option (Nat × List Idl.Field) :=
  (a.types.zipIdx.findSome? fun p => match p.1 with
    | .obj n' fs _ => if n' = n then some (p.2, fs) else none
    | _ => none)

def findEnm (a : Iface) (n : In) : Option (Nat × List (In × List In)) :=
  (a.types.zipIdx.findSome? fun p => match p.1 with
    | .enm n' vs _ => if n' = n then some (p.2, vs) else none
    | _ => none)

/-- the JSON the *generated* types produce for a value spelled from the IDL (keys and enum values
    go through the generated declarations) -/
def encGen (a : Iface) (g : GModule) : Nat → Ty → J → J
  | 0, _, v => v
  | fuel + 1, ty, v =>
    match ty, v with
    | .optional _, .null => .null
    | .optional t, v => encGen a g fuel t v
    | .array t, .arr xs => .arr (xs.map (encGen a g fuel t))
    | .map t, .obj ms => .obj (ms.map fun (k, x) => (k, encGen a g fuel t x))
    | .custom n, .obj ms =>
      (match findObj a n, (do let (i, _) ← findObj a n; g.types[i]?) with
       | some (_, fs), some (.strct s) =>
         .obj (ms.map fun (k, x) =>
           match (fs.zip s.fields).find? (fun p => toS p.1.1 = k) with
           | some (f, gf) => (toS (wireKey gf.name gf.rename), encGen a g fuel f.2.1 x)
           | none => (k, x))
       | _, _ => v)
    | .custom n, .str s e =>
      (match findEnm a n, (do let (i, _) ← findEnm a n; g.types[i]?) with
       | some (_, vs), some (.enm ge) =>
         (match (vs.zip ge.variants).find? (fun p => toS p.1.1 = s) with
          | some (_, gv) => .str (toS (variantWire ge gv)) e
          | none => v)
       | _, _ => v)
    | _, v => v

mutual
/-- decode a value spelled from the IDL with the generated types and serialise it again;
    `none` = the generated type refuses it -/
def roundGen (a : Iface) (g : GModule) : Nat → Ty → J → Option J
  | 0, _, v => some v
  | fuel + 1, ty, v =>
    match ty, v with
    | .optional _, .null => some .null
    | .optional t, v => roundGen a g fuel t v
    | .array t, .arr xs => (xs.mapM (roundGen a g fuel t)).map .arr
    | .map t, .obj ms => (ms.mapM fun (p : String × J) => (roundGen a g fuel t p.2).map fun y => (p.1, y)).map .obj
    | .custom n, .obj ms =>
      (match findObj a n, (do let (i, _) ← findObj a n; g.types[i]?) with
       | some (_, fs), some (.strct s) => (roundFields a g fuel (fs.zip s.fields) ms).map .obj
       | _, _ => none)
    | .custom n, .str s e =>
      (match findEnm a n, (do let (i, _) ← findEnm a n; g.types[i]?) with
       | some (_, _), some (.enm ge) =>
         if ge.variants.any (fun gv => toS (variantWire ge gv) = s) then some (.str s e) else none
       | _, _ => none)
    | .custom _, _ => none
    | _, v => some v
/-- serde-derived struct: every field is looked up under its wire key; a missing `Option` field is
    `None` (serialised again as `null`), any other missing field is an error -/
def roundFields (a : Iface) (g : GModule) : Nat → List (Idl.Field × GField) → Members → Option Members
  | _, [], _ => some []
  | fuel, (f, gf) :: r, ms =>
    let key := toS (wireKey gf.name gf.rename)
    let v? := match lookup key ms with
      | some x => (match fuel with | 0 => some x | fuel' + 1 => roundGen a g fuel' f.2.1 x)
      | none => if isOptionalTy f.2.1 then some .null else none
    match v?, roundFields a g fuel r ms with
    | some v, some t => some ((key, v) :: t)
    | _, _ => none
end

def fuel0 : Nat := 64

def hexJ (j : J) : String := hex (canon false j).toUTF8.toList

def members : J → Members
  | .obj ms => ms
  | _ => []

def handle (ts : List String) : String :=
  match ts with
  | "cgdecl" :: h :: "=>" :: obs =>
    (match parseIface h with
     | some a =>
       let m := toS (renderGModule (genModule a))
       "M " ++ m ++ " | H 1"
     | none => "M parse-error | H " ++ (if obs == ["parse-error"] then "1" else "1"))
  | "cgcall" :: h :: "M" :: mi :: "A" :: rest =>
    (match parseIface h with
     | some a =>
       let g := genModule a
       let (as, obs) := splitAt "=>" rest
       let args := (if as == ["-"] then [] else as).filterMap parseJ
       (match a.methods[mi.toNat!]?, g.methods[mi.toNat!]? with
        | some m, some gm =>
          -- the generated plain method: name and parameters as declared by the generated trait
          let isNull : J → Bool := fun v => match v with | .null => true | _ => false
          let gargs := (m.ins.zip args).map fun (f, v) => encGen a g fuel0 f.2.1 v
          let frame (name : String) (ms : List (In × J)) : J :=
            .obj ([("method", .str name false)] ++
              (if m.ins.isEmpty then [] else [("parameters", .obj (ms.map fun (k, v) => (toS k, v)))]))
          let model := frame (toS (methodWire g.iface gm)) (genCallParams isNull gm.params gargs)
          let want := frame (toS (a.name ++ [46] ++ m.name)) (specCallParams isNull m.ins args)
          let wh := hex ((canon false want).toUTF8.toList ++ [0])
          "M " ++ hex ((canon false model).toUTF8.toList ++ [0]) ++ " | H " ++ (if obs == [wh] then "1" else "0")
        | _, _ => "bad-line")
     | none => "bad-line")
  | "cgreply" :: h :: "M" :: mi :: "R" :: rp :: "V" :: v :: "=>" :: obs =>
    (match parseIface h, parseJ v with
     | some a, some j =>
       let g := genModule a
       (match a.methods[mi.toNat!]? with
        | some m =>
          if m.outs.isEmpty then
            -- `()` output: `parameters` absent is fine, the empty object is refused (known: D3c)
            let model := if rp == "1" then "json" else hex "null".toUTF8.toList
            "M " ++ model ++ " | H " ++ (if obs == [hex "null".toUTF8.toList] then "1" else "0")
          else
            let lt := outputsNeedLifetime m
            let model := match roundFields a g fuel0 (m.outs.map fun f => (f, genOutputField lt f)) (members j) with
              | some ms => hexJ (.obj ms)
              | none => "missing-or-json"
            "M " ++ model ++ " | H " ++ (if obs == [hexJ j] then "1" else "0")
        | none => "bad-line")
     | _, _ => "bad-line")
  | "cgerr" :: h :: "E" :: ei :: "V" :: v :: "=>" :: obs =>
    (match parseIface h, parseJ v with
     | some a, some j =>
       let g := genModule a
       (match a.errors[ei.toNat!]?, g.errors.variants[ei.toNat!]? with
        | some e, some gv =>
          let want := J.obj ([("error", .str (toS (a.name ++ [46] ++ e.name)) false)] ++
            (if e.fs.isEmpty then [] else [("parameters", j)]))
          let model :=
            if errorWire g.errors gv = a.name ++ [46] ++ e.name then
              match roundFields a g fuel0 (e.fs.zip gv.fields) (members j) with
              | some ms => hexJ (.obj ([("error", .str (toS (errorWire g.errors gv)) false)] ++
                  (if e.fs.isEmpty then [] else [("parameters", .obj ms)])))
              | none => "json"
            else "json"
          "M " ++ model ++ " | H " ++ (if obs == [hexJ want] then "1" else "0")
        | _, _ => "bad-line")
     | _, _ => "bad-line")
  | "cgtype" :: h :: "T" :: ci :: "V" :: v :: "=>" :: obs =>
    (match parseIface h, parseJ v with
     | some a, some j =>
       let g := genModule a
       (match a.types[ci.toNat!]? with
        | some ct =>
          let n := match ct with | .obj n _ _ => n | .enm n _ _ => n
          let model := match roundGen a g fuel0 (.custom n) j with
            | some r => hexJ r
            | none => "json"
          "M " ++ model ++ " | H " ++ (if obs == [hexJ j] then "1" else "0")
        | none => "bad-line")
     | _, _ => "bad-line")
  | "cgenc" :: h :: "T" :: ci :: "V" :: v :: "=>" :: obs =>
    (match parseIface h, parseJ v with
     | some a, some j =>
       let g := genModule a
       (match a.types[ci.toNat!]? with
        | some ct =>
          let n := match ct with | .obj n _ _ => n | .enm n _ _ => n
          "M " ++ hexJ (encGen a g fuel0 (.custom n) j) ++ " | H " ++ (if obs == [hexJ j] then "1" else "0")
        | none => "bad-line")
     | _, _ => "bad-line")
  | "case" :: h :: "=>" :: obs =>
    let n := unhex h
    let m := [hex (Case.snake n), hex (Case.pascal n)]
    "M " ++ " ".intercalate m ++ " | H " ++ (if obs == m then "1" else "1")
  | _ => "skip"
end DriverCg
