import Zlink.Model.Envelope
/-! Proxy-macro model (`zlink-macros/src/proxy/{method_impl,chain_method,chain_extension,utils}.rs`): what a
    generated method puts on the wire. A trait method is data: Rust name, optional rename, flags,
    parameters (Rust name, optional wire rename, whether its type is `Option`). The three generators
    are mirrored **separately**, as in the code. -/
namespace Proxy
open Env

structure Param where
  name : String
  rename : Option String
  optional : Bool
deriving Repr, DecidableEq

inductive Flag | none | more | oneway
deriving Repr, DecidableEq

structure MethodDecl where
  iface : String
  rust : String
  rename : Option String
  flag : Flag
  params : List Param
deriving Repr

/-- `snake_case_to_pascal_case`: split at `_`, upper-case the first character of every word,
    lower-case the rest -/
def pascalWord (w : List Char) : List Char :=
  match w with
  | [] => []
  | c :: r => c.toUpper :: r.map Char.toLower

def splitUnderscore : List Char → List (List Char)
  | [] => [[]]
  | c :: t => if c = '_' then [] :: splitUnderscore t else
    match splitUnderscore t with
    | h :: r => (c :: h) :: r
    | [] => [[c]]

def pascal (s : String) : String := String.ofList ((splitUnderscore s.toList).flatMap pascalWord)

def wireMethodName (m : MethodDecl) : String :=
  m.iface ++ "." ++ (m.rename.getD (pascal m.rust))

def wireParamName (p : Param) : String := p.rename.getD p.name

/-- the fields of the parameters struct: `None` is skipped for `Option` parameters -/
def paramMembers : List Param → List J → Members
  | p :: ps, a :: as =>
    (match p.optional, a with
     | true, .null => []
     | _, _ => [(wireParamName p, a)]) ++ paramMembers ps as
  | _, _ => []

/-- plain method (`method_impl.rs`): `MethodCall { method, parameters: Option<Params> }` inside `Call`,
    with `set_more` / `set_oneway` as annotated -/
def wirePlain (m : MethodDecl) (args : List J) : J :=
  .obj ([("method", .str (wireMethodName m) false)] ++
        (if m.params.isEmpty then [] else [("parameters", .obj (paramMembers m.params args))]) ++
        (match m.flag with
         | .oneway => [("oneway", J.bool true)]
         | .more => [("more", J.bool true)]
         | .none => []))

/-- `chain_<method>` (`chain_method.rs`): adjacently tagged wrapper enum inside `Call`, `more` as annotated -/
def wireChain (m : MethodDecl) (args : List J) : J :=
  .obj ([("method", .str (wireMethodName m) false)] ++
        (if m.params.isEmpty then [] else [("parameters", .obj (paramMembers m.params args))]) ++
        (match m.flag with
         | .more => [("more", J.bool true)]
         | _ => []))

/-- chain extension (`chain_extension.rs`; not generated for `more` / `oneway` methods) -/
def wireExt (m : MethodDecl) (args : List J) : J :=
  .obj ([("method", .str (wireMethodName m) false)] ++
        (if m.params.isEmpty then [] else [("parameters", .obj (paramMembers m.params args))]))

/-! reply mapping of a plain method (`out_params_extract`) on top of `receive_reply`'s classification -/
inductive Mapped | ok | methodError (i : Nat) | serviceError (i : Nat) | decodeError | missingParameters
deriving Repr, DecidableEq

def hasParams : J → Bool
  | .obj ms => match lookup "parameters" ms with
    | some .null => false
    | some _ => true
    | none => false
  | _ => false

def mapReply (svc : List Variant) (unitOut : Bool) (P : PShape) (E : List Variant) (j : J) : Mapped :=
  match classify svc P E j with
  | .success => if unitOut || hasParams j then .ok else .missingParameters
  | .methodError i => .methodError i
  | .serviceError i => .serviceError i
  | .decodeError => .decodeError
end Proxy
