import Zlink.Model.Wire
import Zlink.Model.Tx
import Zlink.Spec.Tx
import Zlink.Gen.Consts
/-! Driver glue for scenarios `tx` / `tx-bounds`. -/
namespace DriverTx
open Wire Tx

def consts : Consts := { step := Gen.bufferSize, max := Gen.maxBufferSizeHook }

def parseOutcome (s : String) : Option SerOutcome :=
  match s.splitOn ":" with
  | ["ok", b] => some (.ok (decBytes b))
  | ["ke", b] => some (.keyErr (decBytes b))
  | _ => none

def parseOp (t : String) : Option Op :=
  match t.toList with
  | 'E' :: r => (parseOutcome (String.ofList r)).map .enqueue
  | 'S' :: w :: r => (parseOutcome (String.ofList r)).map fun o => .send o (w == '1')
  | ['F', w] => some (.flush (w == '1'))
  | _ => none

def resTok : Res → String
  | .ok => "ok" | .json => "json" | .overflow => "overflow" | .io => "io"

def parseRes (s : String) : Res :=
  if s = "ok" then .ok else if s = "json" then .json else if s = "overflow" then .overflow else .io

def handle (ts : List String) : String :=
  let (_, r1) := splitAt "O" ts
  let (os, obs) := splitAt "=>" r1
  let (ores, owr) := splitAt ";" obs
  match os.mapM parseOp with
  | none => "bad-line"
  | some ops =>
    let (rs, ws) := run consts ops (init consts)
    let m := " ".intercalate (rs.map resTok) ++ " ;" ++ String.join (ws.map fun w => " " ++ encBytes w)
    let implObs : List Res × List (List UInt8) := (ores.map parseRes, owr.map decBytes)
    let h := SpecTx.holds consts ops implObs
    "M " ++ m ++ " | H " ++ (if h then "1" else "0")
end DriverTx
