import Zlink.Model.Idl
import Zlink.Model.Case
import Zlink.Gen.Consts
/-! Code-generator model (`zlink-codegen/src/codegen.rs`): from the IDL tree to the *declarations*
    of the generated module - proxy trait methods (Rust name, wire rename, parameters), output
    structs, custom structs and enums, the error enum - with the IDL type → Rust type tables as
    structured types. What these declarations put on the wire is then given by the proxy-macro model
    (C12), serde's derive semantics for structs and unit-variant enums, and the `ReplyError` derive. -/
namespace Codegen
open Idl Case

def bs (s : String) : In := s.toUTF8.toList

/-! ### identifiers -/

def isKeyword (n : In) : Bool := Gen.rustKeywords.contains n
def notRaw (n : In) : Bool := Gen.notRawKeywords.contains n

/-- `safe_ident` -/
def safeIdent (n : In) : In :=
  if notRaw n then n ++ [95] else if isKeyword n then [114, 35] ++ n else n

/-- `type_ident` -/
def typeIdent (n : In) : In := safeIdent (pascal n)

/-- what serde and the proxy macro make of an identifier: the `r#` prefix is not part of the name -/
def unraw (n : In) : In :=
  match n with
  | a :: b :: r => if a = 114 ∧ b = 35 then r else n
  | _ => n

/-- `Some(idl name)` when the Rust identifier differs from it -/
def renameIf (rust idl : In) : Option In := if rust = idl then none else some idl

/-! ### Rust types, structured -/

inductive RTy
  | bool | i64 | f64
  | string            -- `String`
  | str               -- `&str`
  | strA              -- `&'a str`
  | value             -- `serde_json::Value`
  | valueRef          -- `&serde_json::Value`
  | vec (t : RTy)
  | slice (t : RTy)   -- `&[T]`
  | mapOwned (t : RTy)    -- `std::collections::HashMap<String, T>`
  | mapStr (t : RTy)      -- `std::collections::HashMap<&str, T>`
  | mapStrRef (t : RTy)   -- `&std::collections::HashMap<&str, T>`
  | mapStrA (t : RTy)     -- `std::collections::HashMap<&'a str, T>`
  | option (t : RTy)
  | named (n : In)
  | namedRef (n : In)
deriving Inhabited, DecidableEq

/-- the text the generator writes, without blanks (as the harness normalises it) -/
def RTy.render : RTy → In
  | .bool => [98, 111, 111, 108]
  | .i64 => [105, 54, 52]
  | .f64 => [102, 54, 52]
  | .string => [83, 116, 114, 105, 110, 103]
  | .str => [38, 115, 116, 114]
  | .strA => [38, 39, 97, 115, 116, 114]
  | .value => [115, 101, 114, 100, 101, 95, 106, 115, 111, 110, 58, 58, 86, 97, 108, 117, 101]
  | .valueRef => [38, 115, 101, 114, 100, 101, 95, 106, 115, 111, 110, 58, 58, 86, 97, 108, 117, 101]
  | .vec t => [86, 101, 99, 60] ++ t.render ++ [62]
  | .slice t => [38, 91] ++ t.render ++ [93]
  | .mapOwned t => [115, 116, 100, 58, 58, 99, 111, 108, 108, 101, 99, 116, 105, 111, 110, 115, 58, 58, 72, 97, 115, 104, 77, 97, 112, 60, 83, 116, 114, 105, 110, 103, 44] ++ t.render ++ [62]
  | .mapStr t => [115, 116, 100, 58, 58, 99, 111, 108, 108, 101, 99, 116, 105, 111, 110, 115, 58, 58, 72, 97, 115, 104, 77, 97, 112, 60, 38, 115, 116, 114, 44] ++ t.render ++ [62]
  | .mapStrRef t => [38, 115, 116, 100, 58, 58, 99, 111, 108, 108, 101, 99, 116, 105, 111, 110, 115, 58, 58, 72, 97, 115, 104, 77, 97, 112, 60, 38, 115, 116, 114, 44] ++ t.render ++ [62]
  | .mapStrA t => [115, 116, 100, 58, 58, 99, 111, 108, 108, 101, 99, 116, 105, 111, 110, 115, 58, 58, 72, 97, 115, 104, 77, 97, 112, 60, 38, 39, 97, 115, 116, 114, 44] ++ t.render ++ [62]
  | .option t => [79, 112, 116, 105, 111, 110, 60] ++ t.render ++ [62]
  | .named n => n
  | .namedRef n => [38] ++ n

/-! ### the four type tables -/

/-- `type_to_rust`: fields of custom types and of error variants, outputs without borrowed data -/
def typeToRust : Ty → RTy
  | .bool => .bool | .int => .i64 | .float => .f64 | .string => .string
  | .object => .value
  | .struct _ => .value
  | .enum _ => .string
  | .array t => .vec (typeToRust t)
  | .map t => .mapOwned (typeToRust t)
  | .optional t => .option (typeToRust t)
  | .custom n => .named (typeIdent n)

/-- `type_to_rust_param_elem` -/
def typeToRustParamElem : Ty → RTy
  | .bool => .bool | .int => .i64 | .float => .f64 | .string => .str
  | .object => .value
  | .struct _ => .value
  | .enum _ => .str
  | .array t => .vec (typeToRustParamElem t)
  | .map t => .mapStr (typeToRustParamElem t)
  | .optional t => .option (typeToRustParamElem t)
  | .custom n => .named (typeIdent n)

/-- `type_to_rust_param` -/
def typeToRustParam : Ty → RTy
  | .bool => .bool | .int => .i64 | .float => .f64 | .string => .str
  | .object => .valueRef
  | .struct _ => .valueRef
  | .enum _ => .str
  | .array t => .slice (typeToRustParamElem t)
  | .map t => .mapStrRef (typeToRustParamElem t)
  | .optional t => .option (typeToRustParam t)
  | .custom n => .namedRef (typeIdent n)

/-- `type_to_rust_output` -/
def typeToRustOutput : Ty → RTy
  | .bool => .bool | .int => .i64 | .float => .f64 | .string => .strA
  | .object => .value
  | .struct _ => .value
  | .enum _ => .strA
  | .array t => .vec (typeToRustOutput t)
  | .map t => .mapStrA (typeToRustOutput t)
  | .optional t => .option (typeToRustOutput t)
  | .custom n => .named (typeIdent n)

/-- `type_needs_lifetime` (= `type_needs_borrow`) -/
def typeNeedsLifetime : Ty → Bool
  | .string => true
  | .enum _ => true
  | .array t => typeNeedsLifetime t
  | .map _ => true
  | .optional t => typeNeedsLifetime t
  | _ => false

/-! ### declarations -/

structure GParam where
  name : In
  rename : Option In
  ty : RTy
  optional : Bool       -- the IDL type is `?T` (the proxy macro sees `Option<..>`)

structure GMethod where
  name : In
  rename : Option In
  params : List GParam
  ret : In              -- the `Ok` type of the inner `Result`

structure GField where
  name : In
  rename : Option In
  borrow : Bool
  ty : RTy

structure GStruct where
  name : In
  lt : Bool
  fields : List GField

structure GEnum where
  name : In
  renameAll : Option In
  variants : List (In × Option In)

inductive GType
  | strct (s : GStruct)
  | enm (e : GEnum)

structure GErrVariant where
  name : In
  rename : Option In
  fields : List GField

structure GErrors where
  name : In
  iface : In
  variants : List GErrVariant

structure GModule where
  trait : In
  iface : In
  methods : List GMethod
  outputs : List GStruct
  types : List GType
  errors : GErrors
  /-- the error enum is the stub written before the trait -/
  stub : Bool

/-- split at every occurrence of a separator byte -/
def splitAtByte (sep : UInt8) : In → List In
  | [] => [[]]
  | c :: t =>
    if c = sep then [] :: splitAtByte sep t else
    match splitAtByte sep t with
    | h :: r => (c :: h) :: r
    | [] => [[c]]

/-- `interface_name_to_rust` -/
def lastSegment (n : In) : In :=
  ((splitAtByte 46 n).getLast?).getD n

def interfaceIdent (n : In) : In :=
  let p := pascal (lastSegment n)
  match p with
  | c :: _ => if Case.isDigit c then 95 :: p else safeIdent p
  | [] => safeIdent p

def genParam (f : Field) : GParam :=
  let rust := safeIdent (snake f.1)
  { name := rust, rename := renameIf rust f.1, ty := typeToRustParam f.2.1,
    optional := match f.2.1 with | .optional _ => true | _ => false }

def outputName (m : Method) : In := pascal m.name ++ bs "Output"

def outputsNeedLifetime (m : Method) : Bool := m.outs.any fun f => typeNeedsLifetime f.2.1

def genMethod (m : Method) : GMethod :=
  { name := safeIdent (snake m.name), rename := some m.name, params := m.ins.map genParam,
    ret := if m.outs.isEmpty then bs "()" else
      outputName m ++ (if outputsNeedLifetime m then bs "<'_>" else []) }

/-- `generate_field` / `generate_error_field` -/
def genField (f : Field) : GField :=
  let rust := safeIdent (snake f.1)
  { name := rust, rename := renameIf rust f.1, borrow := false, ty := typeToRust f.2.1 }

def genOutputField (lt : Bool) (f : Field) : GField :=
  let rust := safeIdent (snake f.1)
  { name := rust, rename := renameIf rust f.1, borrow := lt && typeNeedsLifetime f.2.1,
    ty := if lt then typeToRustOutput f.2.1 else typeToRust f.2.1 }

def genOutput (m : Method) : Option GStruct :=
  if m.outs.isEmpty then none else
  let lt := outputsNeedLifetime m
  some { name := outputName m, lt := lt, fields := m.outs.map (genOutputField lt) }

def genVariant (v : In × List In) : In × Option In :=
  let rust := typeIdent v.1
  (rust, renameIf rust v.1)

def genType : CT → GType
  | .obj n fs _ => .strct { name := typeIdent n, lt := false, fields := fs.map genField }
  | .enm n vs _ => .enm { name := typeIdent n, renameAll := none, variants := vs.map genVariant }

def genErr (e : Err) : GErrVariant :=
  let rust := typeIdent e.name
  { name := rust, rename := renameIf rust e.name, fields := e.fs.map genField }

def genModule (a : Iface) : GModule :=
  let t := interfaceIdent a.name
  { trait := t, iface := a.name, methods := a.methods.map genMethod,
    outputs := a.methods.filterMap genOutput, types := a.types.map genType,
    errors := { name := t ++ bs "Error", iface := a.name, variants := a.errors.map genErr },
    stub := a.errors.isEmpty }

/-! ### what the declarations mean on the wire -/

/-- the key serde uses for a struct field / the proxy macro for a parameter -/
def wireKey (rust : In) (rename : Option In) : In := rename.getD (unraw rust)

/-- serde `rename_all = "snake_case"` applied to a variant identifier: an underscore before every
    upper-case letter but the first, everything lower-cased -/
def serdeSnake : In → In
  | [] => []
  | c :: t => toLower c :: t.flatMap fun b => if Case.isUpper b then [95, toLower b] else [b]

/-- the string a unit variant (de)serialises as -/
def variantWire (e : GEnum) (v : In × Option In) : In :=
  match v.2 with
  | some r => r
  | none => match e.renameAll with
    | some _ => serdeSnake (unraw v.1)
    | none => unraw v.1

/-- the qualified error name the `ReplyError` derive uses for a variant -/
def errorWire (g : GErrors) (v : GErrVariant) : In := g.iface ++ [46] ++ v.rename.getD v.name

/-- the method name the proxy macro puts on the wire (`snake_case_to_pascal_case` of the unraw
    identifier unless renamed) -/
def macroPascalWord : In → In
  | [] => []
  | c :: t => toUpper c :: t.map toLower

def macroPascal (n : In) : In := (splitAtByte 95 n).flatMap macroPascalWord

def methodWire (iface : In) (m : GMethod) : In :=
  iface ++ [46] ++ m.rename.getD (macroPascal (unraw m.name))

def isOptionalTy : Ty → Bool
  | .optional _ => true
  | _ => false

/-- the members of `parameters` a generated plain method sends: one per declared parameter, under
    the key the proxy macro uses, `None` left out for `Option` parameters (C12) -/
def genCallParams {α : Type} (isNull : α → Bool) : List GParam → List α → List (In × α)
  | gp :: ps, v :: vs =>
    (if gp.optional && isNull v then [] else [(wireKey gp.name gp.rename, v)]) ++ genCallParams isNull ps vs
  | _, _ => []

/-- the members the IDL prescribes: every input under its IDL name, absent when a nullable one is null -/
def specCallParams {α : Type} (isNull : α → Bool) : List Field → List α → List (In × α)
  | f :: fs, v :: vs =>
    (if isOptionalTy f.2.1 && isNull v then [] else [(f.1, v)]) ++ specCallParams isNull fs vs
  | _, _ => []

/-! ### JSON shapes of the Rust types (serde) -/

inductive Shape
  | bool | int | float | string | any
  | opt (s : Shape) | arr (s : Shape) | map (s : Shape)
  | named (n : In)
deriving DecidableEq

def RTy.shape : RTy → Shape
  | .bool => .bool | .i64 => .int | .f64 => .float
  | .string => .string | .str => .string | .strA => .string
  | .value => .any | .valueRef => .any
  | .vec t => .arr t.shape | .slice t => .arr t.shape
  | .mapOwned t => .map t.shape | .mapStr t => .map t.shape | .mapStrRef t => .map t.shape | .mapStrA t => .map t.shape
  | .option t => .opt t.shape
  | .named n => .named n | .namedRef n => .named n

/-- the shape the IDL declares; inline structs are widened to "any JSON value" and inline enums to
    "any string" by the generator (the generated code does not constrain them further) -/
def idlShape : Ty → Shape
  | .bool => .bool | .int => .int | .float => .float | .string => .string
  | .object => .any
  | .struct _ => .any
  | .enum _ => .string
  | .array t => .arr (idlShape t)
  | .map t => .map (idlShape t)
  | .optional t => .opt (idlShape t)
  | .custom n => .named (typeIdent n)

/-- the type mentions the lifetime `'a` -/
def RTy.hasA : RTy → Bool
  | .strA => true
  | .mapStrA _ => true
  | .vec t => t.hasA | .slice t => t.hasA
  | .mapOwned t => t.hasA | .mapStr t => t.hasA | .mapStrRef t => t.hasA
  | .option t => t.hasA
  | _ => false

/-! ### the canonical text of the declarations (scenario `cgdecl`; same layout as `zvg`) -/

def oD (o : Option In) : In := o.getD [45]
def sp : In := [32]
def b01 (b : Bool) : In := if b then [49] else [48]

def renderGField (f : GField) : In :=
  f.name ++ sp ++ oD f.rename ++ sp ++ b01 f.borrow ++ sp ++ f.ty.render ++ bs " ,"

def renderGStruct (s : GStruct) : In :=
  bs "struct " ++ s.name ++ sp ++ b01 s.lt ++ bs " {" ++ (s.fields.flatMap fun f => sp ++ renderGField f) ++ bs " }"

def renderGEnum (e : GEnum) : In :=
  bs "enum " ++ e.name ++ sp ++ oD e.renameAll ++ bs " {" ++
    (e.variants.flatMap fun v => sp ++ v.1 ++ sp ++ oD v.2 ++ bs " ,") ++ bs " }"

def renderGErrors (g : GErrors) : In :=
  bs "errors " ++ g.name ++ sp ++ g.iface ++ bs " {" ++
    (g.variants.flatMap fun v => sp ++ v.name ++ sp ++ oD v.rename ++ bs " {" ++
      (v.fields.flatMap fun f => sp ++ f.name ++ sp ++ oD f.rename ++ sp ++ f.ty.render ++ bs " ,") ++ bs " } ,") ++ bs " }"

def renderGMethod (errName : In) (m : GMethod) : In :=
  bs "fn " ++ m.name ++ sp ++ oD m.rename ++ bs " - (" ++
    (m.params.flatMap fun p => sp ++ p.name ++ sp ++ oD p.rename ++ sp ++ p.ty.render ++ bs " ,") ++
    bs " ) zlink::Result<Result<" ++ m.ret ++ bs "," ++ errName ++ bs ">> ;"

def renderGModule (g : GModule) : In :=
  (if g.stub then renderGErrors g.errors ++ sp else []) ++
  bs "trait " ++ g.trait ++ sp ++ g.iface ++ bs " {" ++ (g.methods.flatMap fun m => sp ++ renderGMethod g.errors.name m) ++ bs " }" ++
  (g.outputs.flatMap fun s => sp ++ renderGStruct s) ++
  (g.types.flatMap fun t => sp ++ (match t with | .strct s => renderGStruct s | .enm e => renderGEnum e)) ++
  (if g.stub then [] else sp ++ renderGErrors g.errors)
end Codegen
