/-! Poll-level Rx model (import-free): bytes arrive over time; a receive may be pending. -/
namespace Rx
abbrev Byte := UInt8

structure Consts where
  step : Nat
  max : Nat

structure St where
  data : List Byte
  cap : Nat
  msgPos : Nat
deriving Repr

/-- What the transport currently holds for this connection. -/
structure Net where
  avail : List Byte      -- arrived, not yet read
  closed : Bool          -- peer closed: a read on empty `avail` returns 0
  k : Nat                -- reads performed (index into the read-size schedule)
deriving Repr

inductive Err | eof | overflow
deriving Repr, DecidableEq

inductive Out
  | pending
  | frame (f : List Byte)
  | err (e : Err)
deriving Repr, DecidableEq

inductive LoopOut | pending | done | err (e : Err)
deriving Repr, DecidableEq

def readLoop (C : Consts) (sizes : Nat → Nat) : Nat → St → Net → (LoopOut × St × Net)
  | 0, s, e => (.pending, s, e)   -- unreachable with enough fuel
  | fuel+1, s, e =>
    let space := s.cap - s.data.length
    let n := min (min (sizes e.k + 1) space) e.avail.length
    if n = 0 then
      (if e.avail = [] ∧ !e.closed then .pending else .err .eof, s, e)
    else
      let chunk := e.avail.take n
      let e' : Net := { e with avail := e.avail.drop n, k := e.k + 1 }
      let data := s.data ++ chunk
      if data.length = s.cap ∧ data.length ≥ C.max then
        (.err .overflow, { s with data := data }, e')
      else
        let cap' := if data.length = s.cap then s.cap + C.step else s.cap
        let s' : St := { s with data := data, cap := cap' }
        if data.getLast? = some 0 then (.done, s', e')
        else readLoop C sizes fuel s' e'

/-- One poll of a freshly created `receive_*` future. The future owns no state. -/
def poll (C : Consts) (sizes : Nat → Nat) (s : St) (e : Net) : Out × St × Net :=
  let (r, s, e) :=
    if s.msgPos > 0 then (LoopOut.done, s, e) else readLoop C sizes (e.avail.length + 1) s e
  match r with
  | .pending => (.pending, s, e)
  | .err err => (.err err, s, e)
  | .done =>
    let rest := s.data.drop s.msgPos
    let frame := rest.takeWhile (· != 0)
    let nullIdx := s.msgPos + frame.length
    let next := s.data.getD (nullIdx + 1) 0
    let s' : St := if next = 0 then { s with data := [], msgPos := 0 } else { s with msgPos := nullIdx + 1 }
    (.frame frame, s', e)

inductive Ev
  | arrive (bytes : List Byte)
  | close
  | poll          -- create a receive future, poll it once, drop it (= cancellation when pending)
deriving Repr

def step (C : Consts) (sizes : Nat → Nat) (s : St) (e : Net) : Ev → (Option Out × St × Net)
  | .arrive b => (none, s, { e with avail := e.avail ++ b })
  | .close => (none, s, { e with closed := true })
  | .poll => let (o, s', e') := poll C sizes s e; (some o, s', e')

def run (C : Consts) (sizes : Nat → Nat) : List Ev → St → Net → List Out
  | [], _, _ => []
  | ev :: evs, s, e =>
    match step C sizes s e ev with
    | (none, s', e') => run C sizes evs s' e'
    | (some o, s', e') => o :: run C sizes evs s' e'

def enc (fs : List (List Byte)) : List Byte := fs.flatMap (· ++ [0])
def init (C : Consts) : St := { data := [], cap := C.step, msgPos := 0 }
def net0 : Net := { avail := [], closed := false, k := 0 }
end Rx
