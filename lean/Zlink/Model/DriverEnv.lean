import Zlink.Model.Wire
import Zlink.Spec.Envelope
import Zlink.Gen.Consts
/-! Driver glue for scenarios `reply` (C04) and `envelope` (C05). -/
namespace DriverEnv
open Wire Env

def strOfHex (h : String) : String := String.ofList ((unhex h).map fun b => Char.ofNat b.toNat)

def isHexC (c : Char) : Bool := ('0' ≤ c && c ≤ '9') || ('a' ≤ c && c ≤ 'f') || c == '-'

def takeHexS (cs : List Char) : String × List Char :=
  (strOfHex (String.ofList (cs.takeWhile isHexC)), cs.dropWhile isHexC)

def isDigit (c : Char) : Bool := '0' ≤ c && c ≤ '9'
def digitsVal (ds : List Char) : Nat := ds.foldl (fun acc c => acc * 10 + (c.toNat - 48)) 0
/-- integer text as serde_json reads it: optional `-`, digits, no fraction or exponent -/
def parseIntText (t : String) : Option Int :=
  match t.toList with
  | '-' :: ds => if ds != [] && ds.all isDigit then some (-(Int.ofNat (digitsVal ds))) else none
  | ds => if ds != [] && ds.all isDigit then some (Int.ofNat (digitsVal ds)) else none

mutual
partial def pJ (cs : List Char) : Option (J × List Char) :=
  match cs with
  | 'n' :: r => some (.null, r)
  | 'T' :: r => some (.bool true, r)
  | 'F' :: r => some (.bool false, r)
  | '#' :: r =>
    let (s, r') := takeHexS r
    some ((match parseIntText s with | some i => J.int i | none => J.num s), r')
  | 's' :: r => let (s, r') := takeHexS r; some (.str s false, r')
  | 'S' :: r => let (s, r') := takeHexS r; some (.str s true, r')
  | '[' :: r => (pItems r).map fun (xs, r') => (.arr xs, r')
  | '{' :: r => (pMembers r).map fun (ms, r') => (.obj ms, r')
  | _ => none
partial def pItems (cs : List Char) : Option (List J × List Char) :=
  match cs with
  | ']' :: r => some ([], r)
  | ',' :: r => pItems r
  | _ => match pJ cs with
    | some (v, r) => (pItems r).map fun (t, r') => (v :: t, r')
    | none => none
partial def pMembers (cs : List Char) : Option (Members × List Char) :=
  match cs with
  | '}' :: r => some ([], r)
  | ',' :: r => pMembers r
  | _ =>
    let (k, r) := takeHexS cs
    match r with
    | ':' :: r' => match pJ r' with
      | some (v, r'') => (pMembers r'').map fun (t, r3) => ((k, v) :: t, r3)
      | none => none
    | _ => none
end

def parseJ (s : String) : Option J := match pJ s.toList with | some (j, []) => some j | _ => none

partial def parseFT (s : String) : FT :=
  if s.startsWith "?" then .opt (parseFT (s.drop 1).toString) else
  if s = "str" then .str else if s = "bstr" then .bstr else if s = "bool" then .bool else if s = "any" then .any
  else if s = "i32" then .int (-2147483648) 2147483647 else if s = "u32" then .int 0 4294967295
  else if s = "String" then .str
  else .int (-9223372036854775808) 9223372036854775807

def parseFields (s : String) : List Field :=
  if s = "" then [] else (s.splitOn ",").filterMap fun f => match f.splitOn ":" with
    | [n, t] => some { name := n, ty := parseFT t }
    | _ => none

/-- `iface|V|W(f:ty,..)` ↦ variants with qualified names (`iface.V`; bare names when iface is empty) -/
def parseEnum (s : String) : List Variant :=
  match s.splitOn "|" with
  | iface :: vs => (vs.filter (· != "")).map fun v =>
    let q (n : String) := if iface = "" then n else iface ++ "." ++ n
    match v.splitOn "(" with
    | [n, ")"] => { name := q n, fields := none, lenient := true }
    | [n, rest] => { name := q n, fields := some (parseFields ((rest.dropEnd 1).toString)) }
    | _ => { name := q v, fields := none }
  | [] => []

def parseP (s : String) : PShape :=
  if s = "unit" then .unit else if s = "value" then .value
  else .strct (parseFields (((s.drop 7).dropEnd 1).toString))

/-- the standard service errors of the current source (extracted) -/
def svc : List Variant := Gen.svcErrors.map fun (n, fs) =>
  { name := Gen.svcInterface ++ "." ++ n,
    fields := fs.map fun l => l.map fun (a, t) => { name := a, ty := parseFT t },
    lenient := fs.isNone }

def shortName (q : String) : String := (q.splitOn ".").getLast?.getD q

def classTok (E : List Variant) : Class → String
  | .success => "ok"
  | .methodError i => "me:" ++ shortName ((E[i]?.map (·.name)).getD "?")
  | .serviceError i => "se:" ++ shortName ((svc[i]?.map (·.name)).getD "?")
  | .decodeError => "json"

def parseClass (E : List Variant) (t : String) : Option Class :=
  if t = "ok" then some .success else if t = "json" then some .decodeError else
  match t.splitOn ":" with
  | ["me", n] => (E.zipIdx.find? fun p => shortName p.1.name = n).map fun p => .methodError p.2
  | ["se", n] => (svc.zipIdx.find? fun p => shortName p.1.name = n).map fun p => .serviceError p.2
  | _ => none

/-! canonical compact JSON text (keys sorted) of a tree without escapes -/
def insertSorted (kv : String × String) : List (String × String) → List (String × String)
  | [] => [kv]
  | h :: t => if kv.1 < h.1 then kv :: h :: t else h :: insertSorted kv t

partial def canon (sorted : Bool) : J → String
  | .null => "null"
  | .bool b => if b then "true" else "false"
  | .int i => toString i
  | .num t => t
  | .str s _ => "\"" ++ s ++ "\""
  | .arr xs => "[" ++ ",".intercalate (xs.map (canon sorted)) ++ "]"
  | .obj ms =>
    let kvs := ms.map fun (k, v) => (k, canon sorted v)
    let kvs := if sorted then kvs.foldr insertSorted [] else kvs
    "{" ++ ",".intercalate (kvs.map fun (k, v) => "\"" ++ k ++ "\":" ++ v) ++ "}"

def hexOfString (s : String) : String := hex (s.toUTF8.toList)

/-- `reply P <pshape> E <eshape> J <sexpr> => <class>` -/
def handleReply (ts0 : List String) : String :=
  -- `L <hex>` (the frame text as laid out by the harness) is informational: the model works on the tree
  let ts := match ts0 with
    | [a, "P", ps, "E", es, "J", js, "L", _, "=>", obs] => [a, "P", ps, "E", es, "J", js, "=>", obs]
    | t => t
  match ts with
  | [_, "P", ps, "E", es, "J", js, "=>", obs] =>
    match parseJ js with
    | some j =>
      let P := parseP ps
      let E := parseEnum es
      let c := classify svc P E j
      let h := match parseClass E obs, j with
        | some v, .obj ms => SpecEnv.replyOK svc P E ms v
        | _, _ => false
      "M " ++ classTok E c ++ " | H " ++ (if h then "1" else "0")
    | none => "bad-json"
  | _ => "bad-line"

def flagsTok (f : Flags) : String :=
  (if f.oneway then "1" else "0") ++ (if f.more then "1" else "0") ++ (if f.upgrade then "1" else "0")

/-- `calldec M MF J <sexpr>`: the method type is `method` (which must be `x.F`) plus a catch-all that keeps every other
    member it is handed; what it shows is compared with the members of the frame minus the three flags. -/
def handleCallDecOpen (j : J) (obs : List String) : String :=
  let isFlag (k : String) : Bool := k == "oneway" || k == "more" || k == "upgrade"
  let res : Option (Members × Flags) := decodeCallOpen "x.F" j
  let m := match res with
    | some (rest, f) => "ok " ++ hexOfString (canon true (.obj rest)) ++ " " ++ flagsTok f
    | none => "json"
  let h : Bool := match j, obs with
    | .obj ms, ["ok", mh, fl] =>
      let want (k : String) : Option Bool := match (ms.filter (·.1 = k)).getLast? with
        | some (_, .bool b) => some b | some _ => none | none => some false
      let flagsOK := match want "oneway", want "more", want "upgrade" with
        | some a, some b, some c => fl == flagsTok { oneway := a, more := b, upgrade := c }
        | _, _, _ => false
      -- hidden: the three flags; passed through: every other member, with its value
      flagsOK && strOfHex mh == canon true (.obj (ms.filter fun p => !isFlag p.1))
    | .obj ms, ["json"] =>
      -- a frame naming the method, with boolean flags, may not be refused
      !(count "method" ms == 1 && (match lookup "method" ms with | some (.str "x.F" _) => true | _ => false) &&
        ms.all fun p => !isFlag p.1 || (match p.2 with | .bool _ => true | _ => false))
    | _, ["json"] => true
    | _, _ => false
  "M " ++ m ++ " | H " ++ (if h then "1" else "0")

/-- `calldec M <mshape> J <sexpr> => ok <hex canonical method> <omu> | json` -/
def handleCallDec (ts : List String) : String :=
  match ts with
  | _ :: "M" :: "MF" :: "J" :: js :: "=>" :: obs =>
    match parseJ js with
    | some j => handleCallDecOpen j obs
    | none => "bad-json"
  | _ :: "M" :: msh :: "J" :: js :: "=>" :: obs =>
    match parseJ js with
    | some j =>
      let M := parseEnum msh
      let res := decodeCall M j
      let m := match res with
        | none => "json"
        | some c =>
          match M[c.variant]? with
          | some v => "ok " ++ hexOfString (canon true (.obj (encodeAdj "method" "parameters" v c.args))) ++ " " ++ flagsTok c.flags
          | none => "json"
      -- oracle: flags are exactly the (last) boolean values of the flag members, absent = false, and the
      -- decoded method never shows a flag member; a frame whose flag member is not a boolean is refused;
      -- a well-formed call is never refused
      let h : Bool := match j, obs with
        | .obj ms, ["ok", mh, fl] =>
          let want (k : String) : Option Bool := match (ms.filter (·.1 = k)).getLast? with
            | some (_, .bool b) => some b | some _ => none | none => some false
          let flagsOK := match want "oneway", want "more", want "upgrade" with
            | some a, some b, some c => fl == flagsTok { oneway := a, more := b, upgrade := c }
            | _, _, _ => false
          let shown := strOfHex mh
          flagsOK && decide ((shown.splitOn "\"oneway\"").length ≤ 1) && decide ((shown.splitOn "\"more\"").length ≤ 1) &&
            decide ((shown.splitOn "\"upgrade\"").length ≤ 1)
        -- completeness: a well-formed call (in any member order, with any spelling of "no parameters" the
        -- variant must accept) may not be refused
        | .obj ms, ["json"] => !SpecEnv.callMustDecode M ms
        | _, ["json"] => true
        | _, _ => false
      "M " ++ m ++ " | H " ++ (if h then "1" else "0")
    | none => "bad-json"
  | _ => "bad-line"

def parseArgs (fs : List Field) (as : List String) : List V :=
  (fs.zip as).map fun (f, a) =>
    match parseJ a with
    | some j => (decodeF f.ty j).getD .none
    | none => .none

/-- `enc call|error <shape> V <i> A <args> [F <omu>] => ok:<hex>` and `enc reply ...` -/
def handleEnc (ts : List String) : String :=
  let (inp, obs) := splitAt "=>" ts
  let expect : Option String :=
    match inp with
    | _ :: "call" :: sh :: "V" :: i :: "A" :: rest =>
      let (as, fl) := splitAt "F" rest
      let M := parseEnum sh
      match M[i.toNat!]?, fl with
      | some v, [f] =>
        let bits := f.toList
        let flags : Flags := { oneway := bits[0]? == some '1', more := bits[1]? == some '1', upgrade := bits[2]? == some '1' }
        some (canon false (encodeCall v (parseArgs (v.fields.getD []) as) flags))
      | _, _ => none
    | _ :: "error" :: sh :: "V" :: i :: "A" :: as =>
      let E := parseEnum sh
      (E[i.toNat!]?).map fun v => canon false (.obj (encodeAdj "error" "parameters" v (parseArgs (v.fields.getD []) as)))
    | [_, "reply", _, "P", p, "C", c] =>
      let params := if p = "-" then none else parseJ p
      let cont := if c = "T" then some true else if c = "F" then some false else none
      some (canon false (encodeReply params cont))
    | _ => none
  match expect with
  | some t =>
    let m := "ok:" ++ hexOfString t
    "M " ++ m ++ " | H " ++ (if obs == [m] then "1" else "0")
  | none => "bad-line"

/-- `noparams <what> <absent|null|empty> => <class>`: nothing is carried, whichever way it is spelt.
    `M` is what the envelope model of the current code says for the reply-level cases (the method-level
    ones are decoded by `receive_call`, whose model is exercised by `calldec`); `H` is the demand. -/
def handleNoParams (ts : List String) : String :=
  match ts with
  | [_, what, how, "=>", obs] =>
    let want := if what = "svc-method" || what = "enum-method" || what = "unit-reply" then "ok"
      else if what = "svc-error" then "se:PermissionDenied" else "me:Y"
    let ps : Members := if how = "absent" then [] else if how = "null" then [("parameters", .null)] else [("parameters", .obj [])]
    let e1 := parseEnum "x|Y()|Z(code:i32)"
    let model :=
      if what = "unit-reply" then classTok e1 (classify svc .unit e1 (.obj ps))
      else if what = "svc-error" then classTok e1 (classify svc (parseP "struct(name:str)") e1 (.obj ([("error", .str "org.varlink.service.PermissionDenied" false)] ++ ps)))
      else if what = "derived-error" then classTok e1 (classify svc (parseP "struct(name:str)") e1 (.obj ([("error", .str "x.Y" false)] ++ ps)))
      else want
    "M " ++ model ++ " | H " ++ (if obs = want then "1" else "0")
  | _ => "bad-line"

def handle (ts : List String) : String :=
  match ts.head? with
  | some "reply" => handleReply ts
  | some "calldec" => handleCallDec ts
  | some "enc" => handleEnc ts
  | some "noparams" => handleNoParams ts
  | _ => "skip"
end DriverEnv
