import Zlink.Model.Server
/-! Arrivals in the middle of a poll of the server (`t<a>:<k>:<b>:<bytes>` events of the harness): "when the reply stream of
    client `a` has handed over `k` results, `bytes` arrive for client `b`". The poll is run iteration by iteration and the
    arrivals that are due are applied after each iteration. (`Proofs/ServerMid.lean`: this is `runEvs` of a list of `run`
    and `arrive` events, so every theorem about `runEvs` covers it.) -/
namespace Srv

structure Trig where
  a : Nat
  k : Nat
  b : Nat
  bytes : List Rx.Byte

/-- results the server has taken from the reply streams of client `a` so far -/
def usedOf (s : S) (a : Nat) : Nat := match s.all.find? (·.id == a) with | some c => c.used | none => 0

def applyDue (C : Rx.Consts) (sizes : Nat → Nat) (due : List Trig) (s : S) : S :=
  due.foldl (fun s t => step C sizes s (.arrive t.b t.bytes)) s

/-- one poll of the server, iteration by iteration, with the arrivals that are due after each iteration -/
def pollMid (C : Rx.Consts) (sizes : Nat → Nat) : Nat → List Trig → S → S × List Trig
  | 0, trigs, s => (s, trigs)
  | fuel+1, trigs, s =>
    match iter C sizes s with
    | none => (s, trigs)
    | some s' =>
      let due := trigs.filter fun t => Nat.ble t.k (usedOf s' t.a)
      let rest := trigs.filter fun t => !Nat.ble t.k (usedOf s' t.a)
      pollMid C sizes fuel rest (applyDue C sizes due s')

/-- a whole event list with triggers pending: `run` events are polls with mid-poll arrivals -/
def runMid (C : Rx.Consts) (sizes : Nat → Nat) : List Ev → S × List Trig → S × List Trig
  | [], st => st
  | .run fuel :: t, st => runMid C sizes t (pollMid C sizes fuel st.2 st.1)
  | ev :: t, st => runMid C sizes t (step C sizes st.1 ev, st.2)
end Srv
