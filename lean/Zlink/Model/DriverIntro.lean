import Zlink.Model.Wire
import Zlink.Model.DriverIdl
import Zlink.Model.IdlRender
import Zlink.Spec.Introspect
/-! Driver glue for scenario `intro` (C16): the module declaration travels in the case line. -/
namespace DriverIntro
open Wire Idl Introspect DriverIdl

def sb (s : String) : In := s.toUTF8.toList

def docsOf (t : String) : List In := if t = "-" then [] else (t.splitOn ",").map fun d => if d = "_" then [] else unhex d

/-- `ctor(arg)` / `@i` / atom -/
partial def parseRT (s : String) : RT :=
  if s.startsWith "@" then .ref ((s.drop 1).toString.toNat!) else
  match s.splitOn "(" with
  | [a] => .atom (sb a)
  | c :: rest => .app (sb c) (parseRT (("(".intercalate rest).dropEnd 1).toString)
  | [] => .atom []

def parseFields : Nat → List String → List FieldD × List String
  | 0, ts => ([], ts)
  | n + 1, name :: rt :: docs :: r =>
    let (fs, r') := parseFields n r
    ({ name := sb name, ty := parseRT rt, docs := docsOf docs } :: fs, r')
  | _, ts => ([], ts)

def parseVariants : Nat → List String → List (In × List In) × List String
  | 0, ts => ([], ts)
  | n + 1, name :: docs :: r =>
    let (vs, r') := parseVariants n r
    ((sb name, docsOf docs) :: vs, r')
  | _, ts => ([], ts)

def parseErrVariants : Nat → List String → List VarD × List String
  | 0, ts => ([], ts)
  | n + 1, name :: docs :: "u" :: r =>
    let (vs, r') := parseErrVariants n r
    (.unit (sb name) (docsOf docs) :: vs, r')
  | n + 1, name :: docs :: "n" :: k :: r =>
    let (fs, r1) := parseFields k.toNat! r
    let (vs, r') := parseErrVariants n r1
    (.named (sb name) (docsOf docs) fs :: vs, r')
  | n + 1, name :: docs :: "t" :: rt :: r =>
    let (vs, r') := parseErrVariants n r
    (.tuple (sb name) (docsOf docs) (parseRT rt) :: vs, r')
  | _, ts => ([], ts)

def parseTypes : Nat → List String → List TypeD × List String
  | 0, ts => ([], ts)
  | n + 1, kind :: name :: r =>
    if kind = "ts" || kind = "cs" then
      match r with
      | docs :: k :: r1 =>
        let (fs, r2) := parseFields k.toNat! r1
        let (ds, r') := parseTypes n r2
        (.strct (kind = "cs") (sb name) (docsOf docs) fs :: ds, r')
      | _ => ([], r)
    else if kind = "te" || kind = "ce" then
      match r with
      | docs :: k :: r1 =>
        let (vs, r2) := parseVariants k.toNat! r1
        let (ds, r') := parseTypes n r2
        (.enm (kind = "ce") (sb name) (docsOf docs) vs :: ds, r')
      | _ => ([], r)
    else
      match r with
      | k :: r1 =>
        let (vs, r2) := parseErrVariants k.toNat! r1
        let (ds, r') := parseTypes n r2
        (.errs (sb name) vs :: ds, r')
      | _ => ([], r)
  | _, ts => ([], ts)

def parseModule (ts : List String) : Option (List TypeD × List String) :=
  match ts with
  | n :: r => some (parseTypes n.toNat! r)
  | [] => none

/-! the oracle's own derivation: the same walk with `SpecIntro.specTy` instead of the table -/
def specTypeOf (prev : List Ty) : TypeD → Option Ty
  | .strct true n _ _ => some (.custom n)
  | .enm true n _ _ => some (.custom n)
  | .strct false _ _ fs => (SpecIntro.specFields prev fs).map .struct
  | .enm false _ _ vs => some (.enum (vs.map fun v => (v.1, v.2.map SpecIntro.docComment)))
  | .errs _ _ => some .object

def specTypesOf : List TypeD → List Ty → Option (List Ty)
  | [], acc => some acc
  | d :: r, acc =>
    match specTypeOf acc d with
    | some t => specTypesOf r (acc ++ [t])
    | none => none

def specAssemble (name : In) (ds : List TypeD) : Option Iface :=
  match specTypesOf ds [] with
  | none => none
  | some all =>
    let items := ds.zipIdx.filterMap fun (d, i) =>
      let prev := all.take i
      match d with
      | .strct true n cs fs => (SpecIntro.specFields prev fs).map fun x => (some (CT.obj n x (cs.map SpecIntro.docComment)), ([] : List Err))
      | .enm true n cs vs => some (some (CT.enm n (vs.map fun v => (v.1, v.2.map SpecIntro.docComment)) (cs.map SpecIntro.docComment)), [])
      | .errs _ vs => some (none, vs.filterMap fun v => match v with
          | .unit n cs => some { name := n, fs := [], cs := cs.map SpecIntro.docComment }
          | .named n cs fs => (SpecIntro.specFields prev fs).map fun x => { name := n, fs := x, cs := cs.map SpecIntro.docComment }
          | .tuple n cs t => match SpecIntro.specTy prev t with
            | some (.struct fs) => some { name := n, fs := fs, cs := cs.map SpecIntro.docComment }
            | _ => none)
      | _ => none
    some { name := name, cs := [], types := items.filterMap (·.1), methods := [], errors := items.flatMap (·.2) }

def ifaceName (ts : List String) : In := sb ("org.ex.M" ++ (ts.getLast?.getD ""))

def handle (ts : List String) : String :=
  let (inp, obs) := splitAt "=>" ts
  match inp with
  | "introty" :: rest =>
    (match parseModule rest with
     | some (ds, ["I", i]) =>
       let m := ((typesOf ds []).bind (·[i.toNat!]?)).map dTy
       let w := ((specTypesOf ds []).bind (·[i.toNat!]?)).map dTy
       "M " ++ m.getD "no-impl" ++ " | H " ++ (if some (" ".intercalate obs) == w then "1" else "0")
     | _ => "bad-line")
  | "intro" :: "N" :: k :: rest =>
    (match parseModule rest with
     | some (ds, []) =>
       let name := sb ("org.ex.M" ++ k)
       let m := (assemble name ds).map dIface
       let w := (specAssemble name ds).map dIface
       "M " ++ m.getD "no-impl" ++ " | H " ++ (if some (" ".intercalate obs) == w then "1" else "0")
     | _ => "bad-line")
  | "intrort" :: "N" :: k :: rest =>
    (match parseModule rest with
     | some (ds, []) =>
       let name := sb ("org.ex.M" ++ k)
       (match assemble name ds, specAssemble name ds with
        | some a, some w =>
          let text := renderIface a
          let p := parseInterface text
          let m := "R " ++ encBytes text ++ " P " ++ obsOf p
          -- oracle: the rendered text parses back to the description the property demands
          let (_, o1) := splitAt "R" obs
          let (rtxt, pobs) := splitAt "P" o1
          let h := rtxt.length == 1 && pobs == ["ok", dIface w]
          "M " ++ m ++ " | H " ++ (if h then "1" else "0")
        | _, _ => "M no-impl | H 0")
     | _ => "bad-line")
  | _ => "skip"
end DriverIntro
