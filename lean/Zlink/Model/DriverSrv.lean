import Zlink.Model.Wire
import Zlink.Model.DriverRx
import Zlink.Spec.Server
import Zlink.Model.ServerWake
import Zlink.Model.ServerMid
/-! Driver glue for the `srv*` scenarios. -/
namespace DriverSrv
open Wire Rx Srv

def parseDesc (t : String) : Desc :=
  match t.toList with
  | 'e' :: r => .echo (String.ofList r).toNat! false
  | 'E' :: r => .echo (String.ofList r).toNat! true
  | ['f'] => .fail false
  | ['F'] => .fail true
  -- `S<n>`: a oneway call the service answers with a stream of n items: a oneway call like any other (nothing is sent)
  | 'S' :: r => .echo (1000000 + (String.ofList r).toNat!) true
  | ['u'] => .unser false
  | ['U'] => .unser true
  | 's' :: r =>
    match (String.ofList r).splitOn "p" with
    | [n, p] => .sub n.toNat! p.toNat!
    | _ => .sub (String.ofList r).toNat! 0
  | _ => .garbage

def descTok : Desc → String
  | .echo v false => "e" ++ toString v
  | .echo v true => if v ≥ 1000000 then "S" ++ toString (v - 1000000) else "E" ++ toString v
  | .fail false => "f"
  | .fail true => "F"
  | .unser false => "u"
  | .unser true => "U"
  | .sub n p => "s" ++ toString n ++ (if p = 0 then "" else "p" ++ toString p)
  | .garbage => "g"

def tokStr : Tok → String
  | .R v => "V" ++ toString v ++ ":0"
  | .E => "E"
  | .I v c => "V" ++ toString v ++ ":" ++ (match c with | some true => "1" | some false => "0" | none => "n")

def parseTok (s : String) : Tok :=
  if s = "E" then .E else
  match (s.drop 1).toString.splitOn ":" with
  | [v, "1"] => .I v.toNat! (some true)
  | [v, "n"] => .I v.toNat! none
  | [v, _] => .R v.toNat!
  | _ => .E

structure CDecl where
  id : Nat
  good : Bool
  wfail : Option Nat
  descs : List Desc
  credit : Nat := 1000000

def parseDecl (t : String) : Option CDecl :=
  match t.splitOn ":" with
  | [i, g, w, ds] =>
    some { id := i.toNat!, good := g == "g", wfail := if w = "-" then none else some w.toNat!,
           descs := if ds = "-" then [] else (ds.splitOn ",").map parseDesc }
  | [i, g, w, ds, cr] =>
    some { id := i.toNat!, good := g == "g", wfail := if w = "-" then none else some w.toNat!,
           descs := if ds = "-" then [] else (ds.splitOn ",").map parseDesc, credit := cr.toNat! }
  | _ => none

def mkConn (C : Consts) (d : CDecl) : Conn :=
  { id := d.id, rx := Rx.init C, net := net0, calls := d.descs, out := [], wfail := d.wfail, nwrites := 0, credit := d.credit,
    good := d.good, frames := [], descs := d.descs, fut := [], k := 0, granted := d.credit, used := 0 }

def parseEv (C : Consts) (decls : List CDecl) (t : String) : Option Srv.Ev :=
  match t.toList with
  | ['p'] => some (.run 1000000)
  | 'c' :: r =>
    let i := (String.ofList r).toNat!
    (decls.find? (·.id == i)).map fun d => .connect (mkConn C d)
  | 'x' :: r => some (.close (String.ofList r).toNat!)
  | 'r' :: r => some (.close (String.ofList r).toNat!)
  | 'a' :: r =>
    match (String.ofList r).splitOn ":" with
    | [i, b] => some (.arrive i.toNat! (decBytes b))
    | _ => none
  | 'k' :: r =>
    match (String.ofList r).splitOn ":" with
    | [i, n] => some (.produce i.toNat! n.toNat!)
    | _ => none
  | _ => none

/-- was everything of connection `i` delivered, with a server poll after the last event touching it? -/
def completeFor (es : List String) (i : Nat) : Bool :=
  let touches (t : String) : Bool :=
    match t.toList with
    | 'a' :: r => ((String.ofList r).splitOn ":").head? == some (toString i)
    | 'k' :: r => ((String.ofList r).splitOn ":").head? == some (toString i)
    | 'c' :: r => String.ofList r == toString i
    | _ => false
  let rev := es.reverse
  let afterLast := rev.takeWhile (fun t => !touches t)
  afterLast.contains "p"

/-- results the service's streams for client `i` were allowed to hand over in total -/
def creditFor (es : List String) (i : Nat) : Nat :=
  es.foldl (fun acc t => match t.toList with
    | 'k' :: r => match (String.ofList r).splitOn ":" with
      | [j, n] => if j == toString i then acc + n.toNat! else acc
      | _ => acc
    | _ => acc) 0

def parseTrig (t : String) : Option Srv.Trig :=
  match (t.drop 1).toString.splitOn ":" with
  | [a, k, b, bytes] => some { a := a.toNat!, k := k.toNat!, b := b.toNat!, bytes := decBytes bytes }
  | _ => none

/-- a run with arrivals in the middle of polls (`Srv.runMid`; `Srv.runMid_is_run`: it is `runEvs` of an ordinary event list) -/
def runTrig (C : Rx.Consts) (sizes : Nat → Nat) (trigs : List Srv.Trig) (evs : List Srv.Ev) : Srv.S :=
  (runMid C sizes (evs.map fun ev => match ev with | .run _ => .run 100000 | ev => ev) (Srv.init, trigs)).1

def handle (ts : List String) : String :=
  let (_, r0) := splitAt "D" ts
  let (ds, r1) := splitAt "E" r0
  let (es0, obs) := splitAt "=>" r1
  let trigToks := es0.filter (·.startsWith "t")
  let es := es0.filter (fun t => !t.startsWith "t")
  let C := DriverRx.consts
  match ds.mapM parseDecl with
  | none => "bad-decl"
  | some decls =>
    -- a grant that precedes the hand-over of its connection to the listener is part of that connection's
    -- initial allowance (the service's counter exists before the connection does)
    let declsAt (k : Nat) : List CDecl := decls.map fun d => { d with credit := d.credit + creditFor (es.take k) d.id }
    match (es.zipIdx.mapM fun (t, k) => parseEv C (declsAt k) t) with
    | none => "bad-event"
    | some evs =>
      -- `W1`: the harness polled the server only when its waker had been woken; the model does the same
      -- (`C08_wake_driven`: the states are those of the eager run)
      let trigs := trigToks.filterMap parseTrig
      let w := if !trigs.isEmpty then { s := runTrig C (fun _ => 1000000000) trigs evs, woken := false, stalled := false }
        else if ts.contains "W1" then runW C (fun _ => 1000000000) evs initW else { s := runEvs C (fun _ => 1000000000) evs Srv.init, woken := false, stalled := false }
      if w.stalled then "M stalled | H 1" else
      let s := w.s
      let all := s.all
      let outOf (i : Nat) : List Tok := match all.find? (·.id == i) with | some c => c.out | none => []
      let m := String.join (decls.map fun d =>
          let o := outOf d.id
          " " ++ toString d.id ++ "=" ++ (if o.isEmpty then "-" else ",".intercalate (o.map tokStr))) ++
        " L" ++ String.join (s.served.map fun p => " " ++ toString p.1 ++ ":" ++ descTok p.2) ++
        " G " ++ (if s.wlog.isEmpty then "-" else ",".intercalate (s.wlog.map toString)) ++ " X alive"
      -- oracle on the implementation's observation
      let (oouts, o1) := splitAt "L" obs
      let (olog, o2) := splitAt "G" o1
      let (og, ox) := splitAt "X" o2
      let implG : List Nat := match og with
        | [l] => if l = "-" then [] else (l.splitOn ",").map String.toNat!
        | _ => []
      let implOut (i : Nat) : List Tok :=
        match oouts.find? (fun t => (t.splitOn "=").head? == some (toString i)) with
        | some t => match t.splitOn "=" with
          | [_, "-"] => []
          | [_, l] => (l.splitOn ",").map parseTok
          | _ => []
        | none => []
      let implServed (i : Nat) : List Desc :=
        olog.filterMap fun t => match t.splitOn ":" with
          | [c, d] => if c == toString i then some (parseDesc d) else none
          | _ => none
      let h := (ox == ["alive"]) && decls.all fun d =>
        -- complete frames only are scripted; a connection cut mid-burst or with a transport fault is not `good`
        SpecSrv.connOK d.good (completeFor es d.id) (d.credit + creditFor es d.id) d.descs (implOut d.id) (implServed d.id)
      let logIds : List Nat := olog.filterMap fun t => (t.splitOn ":").head?.map String.toNat!
      let total (i : Nat) : Nat := match decls.find? (·.id == i) with
        | some d => (SpecSrv.refServedCredit (d.credit + creditFor es d.id) d.descs).length
        | none => 0
      let h := h && (!(ts.contains "F1") || SpecSrv.fairOK total (decls.map (·.id)) logIds)
      -- `SV1`: a reply stream against waiting calls, judged on the global order of the writes
      let isStreamer (d : CDecl) : Bool := d.descs.any fun x => match x with | .sub _ _ => true | _ => false
      let h := h && (!(ts.contains "SV1") ||
        SpecSrv.svOK ((decls.filter fun d => !isStreamer d && !d.descs.isEmpty).map (·.id)) ((decls.filter isStreamer).map (·.id)) implG)
      let h := h && (!(ts.contains "SV2") ||
        SpecSrv.svMidOK (trigs.map fun t => (t.a, t.k, t.b)) ((decls.filter isStreamer).map (·.id)) implG)
      -- `F2 H<n0>,<n1>,..`: fairness after a history; the first `n_i` calls of client `i` belong to the history, the
      -- clients that were closed are out of the fixed set
      let hist : List Nat := match (ts.takeWhile (· != "D")).find? (fun t => t.startsWith "H") with
        | some t => ((t.drop 1).toString.splitOn ",").map String.toNat!
        | none => []
      let closed (i : Nat) : Bool := es.contains ("x" ++ toString i)
      let histOf (i : Nat) : Nat := match (decls.zip hist).find? (fun p => p.1.id == i) with | some p => p.2 | none => 0
      let h := h && (!(ts.contains "F2") ||
        SpecSrv.fairOK (fun i => total i - histOf i) ((decls.filter fun d => !closed d.id).map (·.id)) (logIds.drop hist.sum))
      "M" ++ m ++ " | H " ++ (if h then "1" else "0")
end DriverSrv
