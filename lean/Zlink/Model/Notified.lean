/-! Notified-state model (import-free): `zlink-tokio/src/notified.rs`, `zlink-smol/src/notified.rs`.

The broadcast channels are third-party (`tokio::sync::broadcast` + `tokio_stream::BroadcastStream`,
`async-broadcast` in overflow mode), both created with capacity 1. They are **modelled**: a channel is
the number of values sent so far and the retained (latest) value; a receiver is a cursor. zlink's own
code — the two `Stream::poll_next` adapters and `State::{new,set,stream}`, `Once` — is mirrored on top. -/
namespace Notified

/-- capacity-1 broadcast channel: `seq` values sent so far, `last` = the one still retained -/
structure Chan where
  seq : Nat
  last : Nat
deriving Repr, DecidableEq

/-- a receiver: index of the next value it has not seen -/
structure Rcv where
  cursor : Nat
deriving Repr, DecidableEq

inductive Item
  | pending
  | item (v : Nat) (continues : Bool)
  | ended
deriving Repr, DecidableEq

def Chan.new : Chan := { seq := 0, last := 0 }
/-- `State::set` → `tx.send(value)` / `broadcast_direct(value)` (never blocks, overwrites) -/
def Chan.send (c : Chan) (v : Nat) : Chan := { seq := c.seq + 1, last := v }
/-- `tx.subscribe()` / `inactive_rx.activate_cloned()`: a new receiver sees only later values -/
def Chan.subscribe (c : Chan) : Rcv := { cursor := c.seq }

/-- `tokio::sync::broadcast::Receiver::recv` as `BroadcastStream` surfaces it -/
inductive TRecv | pending | lagged | value (v : Nat)

def recvTokio (c : Chan) (r : Rcv) : TRecv × Rcv :=
  if r.cursor = c.seq then (.pending, r)
  else if r.cursor + 1 < c.seq then (.lagged, { cursor := c.seq - 1 })   -- jump to the oldest retained value
  else (.value c.last, { cursor := r.cursor + 1 })

/-- `zlink_tokio::notified::Stream::poll_next`, broadcast arm: skip lag errors, items continue -/
def pollTokio (c : Chan) (r : Rcv) : Item × Rcv :=
  match recvTokio c r with
  | (.pending, r') => (.pending, r')
  | (.value v, r') => (.item v true, r')
  | (.lagged, r') =>
    match recvTokio c r' with
    | (.value v, r'') => (.item v true, r'')
    | (.pending, r'') => (.pending, r'')
    | (.lagged, r'') => (.pending, r'')      -- unreachable (see `pollTokio_eq`)

/-- `async_broadcast::Receiver` as a `Stream` in overflow mode: overflowed positions are skipped
    inside the channel's own `poll_next` -/
def recvSmol (c : Chan) (r : Rcv) : Option Nat × Rcv :=
  if r.cursor = c.seq then (none, r) else (some c.last, { cursor := c.seq })

/-- `zlink_smol::notified::Stream::poll_next`, broadcast arm -/
def pollSmol (c : Chan) (r : Rcv) : Item × Rcv :=
  match recvSmol c r with
  | (some v, r') => (.item v true, r')
  | (none, r') => (.pending, r')

/-- a poll after the last `State` handle is gone (the channel is closed): what is still retained is delivered first,
    then the stream ends -/
def pollClosed (poll : Chan → Rcv → Item × Rcv) (c : Chan) (r : Rcv) : Item × Rcv :=
  match poll c r with
  | (.pending, r') => (.ended, r')
  | x => x

/-! one-shot notification (`Once`) -/
inductive OnceSt | waiting | notified (v : Nat) | dropped | terminated
deriving Repr, DecidableEq

/-- both crates: one item marked final, then the end; a dropped notifier ends the stream -/
def pollOnce : OnceSt → Item × OnceSt
  | .waiting => (.pending, .waiting)
  | .notified v => (.item v false, .terminated)
  | .dropped => (.ended, .terminated)
  | .terminated => (.ended, .terminated)

/-! histories -/
inductive Op
  | set (v : Nat)
  | sub                 -- create a new subscriber (appended)
  | poll (k : Nat)      -- poll subscriber k once
  | close               -- the last handle of the state is dropped
deriving Repr

structure St where
  chan : Chan
  subs : List Rcv
  closed : Bool := false
deriving Repr

def run (poll : Chan → Rcv → Item × Rcv) : List Op → St → List (Nat × Item)
  | [], _ => []
  | .set v :: t, s => run poll t { s with chan := s.chan.send v }
  | .sub :: t, s => run poll t { s with subs := s.subs ++ [s.chan.subscribe] }
  | .close :: t, s => run poll t { s with closed := true }
  | .poll k :: t, s =>
    match s.subs[k]? with
    | none => run poll t s
    | some r =>
      let (o, r') := (if s.closed then pollClosed poll else poll) s.chan r
      (k, o) :: run poll t { s with subs := s.subs.set k r' }

def init : St := { chan := Chan.new, subs := [] }
end Notified
