/-! UTF-8 well-formedness (Unicode 15, table 3-7), executable. -/
namespace Utf8
def cont (b : UInt8) : Bool := 0x80 ≤ b && b ≤ 0xBF

def valid : List UInt8 → Bool
  | [] => true
  | b0 :: r =>
    if b0 < 0x80 then valid r
    else if 0xC2 ≤ b0 && b0 ≤ 0xDF then
      match r with
      | b1 :: r' => cont b1 && valid r'
      | _ => false
    else if 0xE0 ≤ b0 && b0 ≤ 0xEF then
      match r with
      | b1 :: b2 :: r' =>
        (if b0 = 0xE0 then 0xA0 ≤ b1 && b1 ≤ 0xBF
         else if b0 = 0xED then 0x80 ≤ b1 && b1 ≤ 0x9F
         else cont b1) && cont b2 && valid r'
      | _ => false
    else if 0xF0 ≤ b0 && b0 ≤ 0xF4 then
      match r with
      | b1 :: b2 :: b3 :: r' =>
        (if b0 = 0xF0 then 0x90 ≤ b1 && b1 ≤ 0xBF
         else if b0 = 0xF4 then 0x80 ≤ b1 && b1 ≤ 0x8F
         else cont b1) && cont b2 && cont b3 && valid r'
      | _ => false
    else false
end Utf8
