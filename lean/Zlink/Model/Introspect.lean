import Zlink.Model.Idl
import Zlink.Gen.Consts
import Zlink.Util.Bytes
/-! Introspection-derive model (`zlink-macros/src/introspect/{shared,type,custom_type,reply_error}.rs`
    and the `Type` impls of `zlink-core/src/introspect/type/*.rs`): Rust declarations as data, the
    description the derives produce for them. The std-type table is the one extracted from the current
    source (`Gen.introAtoms`, `Gen.introCtors`). -/
namespace Introspect
open Idl

/-- Rust type expressions: a std type without parameters, a one-parameter constructor applied to a
    type, or a type declared earlier in the same module (by position) -/
inductive RT
  | atom (name : In)
  | app (ctor : In) (arg : RT)
  | ref (i : Nat)
deriving Inhabited

structure FieldD where
  name : In
  ty : RT
  docs : List In

inductive VarD
  | unit (name : In) (docs : List In)
  | named (name : In) (docs : List In) (fields : List FieldD)
  | tuple (name : In) (docs : List In) (ty : RT)

inductive TypeD
  /-- `custom`: `#[derive(CustomType)]`, otherwise `#[derive(Type)]` -/
  | strct (custom : Bool) (name : In) (docs : List In) (fields : List FieldD)
  | enm (custom : Bool) (name : In) (docs : List In) (variants : List (In × List In))
  | errs (name : In) (variants : List VarD)

/-- `str::trim` on a doc line (`/// text` arrives as `" text"`), for ASCII blanks -/
def isBlank (b : UInt8) : Bool := b == 32 || b == 9
def trimDoc (d : In) : In := ((d.dropWhile isBlank).reverse.dropWhile isBlank).reverse
def trimDocs (ds : List In) : List In := ds.map trimDoc

def lookupT {α : Type} (k : In) : List (In × α) → Option α
  | [] => none
  | (a, b) :: r => if a = k then some b else lookupT k r

/-- the IDL types an impl for a std type without parameters can name -/
inductive Prim | bool | int | float | string | object | unit
deriving DecidableEq, Repr

/-- the right-hand side of such an impl (`idl::Type::<Variant>`; `Object` is only used for `()`:
    the object without fields) -/
def primOfVariant (v : In) : Option Prim :=
  if v = b!"Bool" then some .bool
  else if v = b!"Int" then some .int
  else if v = b!"Float" then some .float
  else if v = b!"String" then some .string
  else if v = b!"ForeignObject" then some .object
  else if v = b!"Object" then some .unit
  else none

def Prim.ty : Prim → Ty
  | .bool => .bool | .int => .int | .float => .float | .string => .string | .object => .object
  | .unit => .struct []

/-- what an impl for a one-parameter constructor does with its argument's type -/
inductive Kind | optional | array | map | transparent
deriving DecidableEq, Repr

def kindOfText (k : In) : Option Kind :=
  if k = b!"Optional" then some .optional
  else if k = b!"Array" then some .array
  else if k = b!"Map" then some .map
  else if k = b!"Transparent" then some .transparent
  else none

def Kind.apply : Kind → Ty → Ty
  | .optional, x => .optional x
  | .array, x => .array x
  | .map, x => .map x
  | .transparent, x => x

/-- `<T as Type>::TYPE`; `prev` holds the `TYPE` of the earlier declarations of the module. A type
    without an impl does not compile: `none`. -/
def idlType (prev : List Ty) : RT → Option Ty
  | .atom n => ((lookupT n Gen.introAtoms).bind primOfVariant).map Prim.ty
  | .ref i => prev[i]?
  | .app c t =>
    match (lookupT c Gen.introCtors).bind kindOfText, idlType prev t with
    | some k, some x => some (k.apply x)
    | _, _ => none

/-- `generate_field_definitions`: one `Field` per named field, in order, under its Rust name, with
    the doc comments -/
def deriveFields (prev : List Ty) : List FieldD → Option (List Field)
  | [] => some []
  | f :: r =>
    match idlType prev f.ty, deriveFields prev r with
    | some t, some fs => some ((f.name, t, trimDocs f.docs) :: fs)
    | _, _ => none

/-- `<T as Type>::TYPE` of a declaration -/
def typeOf (prev : List Ty) : TypeD → Option Ty
  | .strct true n _ _ => some (.custom n)
  | .enm true n _ _ => some (.custom n)
  | .strct false _ _ fs => (deriveFields prev fs).map .struct
  | .enm false _ _ vs => some (.enum (vs.map fun v => (v.1, trimDocs v.2)))
  | .errs _ _ => some .object     -- not a `Type`; never referenced

/-- `CUSTOM_TYPE` -/
def customTypeOf (prev : List Ty) : TypeD → Option CT
  | .strct true n cs fs => (deriveFields prev fs).map fun x => .obj n x (trimDocs cs)
  | .enm true n cs vs => some (.enm n (vs.map fun v => (v.1, trimDocs v.2)) (trimDocs cs))
  | _ => none

/-- one entry of `VARIANTS` -/
def errOf (prev : List Ty) : VarD → Option Err
  | .unit n cs => some { name := n, fs := [], cs := trimDocs cs }
  | .named n cs fs => (deriveFields prev fs).map fun x => { name := n, fs := x, cs := trimDocs cs }
  | .tuple n cs t =>
    match idlType prev t with
    | some (.struct fs) => some { name := n, fs := fs, cs := trimDocs cs }
    | _ => none       -- "Tuple variant field type must have Type::Object": a const panic, i.e. no compile

def errsOf (prev : List Ty) : List VarD → Option (List Err)
  | [] => some []
  | v :: r =>
    match errOf prev v, errsOf prev r with
    | some e, some es => some (e :: es)
    | _, _ => none

/-- the `TYPE`s of a module's declarations, first to last -/
def typesOf : List TypeD → List Ty → Option (List Ty)
  | [], acc => some acc
  | d :: r, acc =>
    match typeOf acc d with
    | some t => typesOf r (acc ++ [t])
    | none => none

/-- the interface assembled from a module: its custom types, then the variants of its error enums -/
def assemble (name : In) (ds : List TypeD) : Option Iface :=
  match typesOf ds [] with
  | none => none
  | some all =>
    let rec go (i : Nat) : List TypeD → Option (List CT × List Err)
      | [] => some ([], [])
      | d :: r =>
        let prev := all.take i
        match go (i + 1) r with
        | none => none
        | some (cts, es) =>
          match d with
          | .strct true .. | .enm true .. =>
            (customTypeOf prev d).map fun c => (c :: cts, es)
          | .errs _ vs => (errsOf prev vs).map fun e => (cts, e ++ es)
          | _ => some (cts, es)
    (go 0 ds).map fun (cts, es) => { name := name, cs := [], types := cts, methods := [], errors := es }
end Introspect
