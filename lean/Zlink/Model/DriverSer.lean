import Zlink.Model.Wire
import Zlink.Spec.Ser
import Zlink.Gen.Consts
/-! Driver glue for scenario `ser`: S-expression reader for `SVal`, model run per capacity. -/
namespace DriverSer
open Wire Ser

def tbl : Tbl :=
  { esc := fun b => UInt8.ofNat (Gen.escapeTable.getD b.toNat 0),
    hexd := fun n => UInt8.ofNat (Gen.hexDigits.getD n 0) }

def isHex (c : Char) : Bool := ('0' ≤ c && c ≤ '9') || ('a' ≤ c && c ≤ 'f') || c == '-'

def takeHex (cs : List Char) : List UInt8 × List Char :=
  let h := cs.takeWhile isHex
  (unhex (String.ofList h), cs.dropWhile isHex)

def takeHint (cs : List Char) : Option Nat × List Char :=
  match cs with
  | '_' :: r => (none, r)
  | _ =>
    let d := cs.takeWhile Char.isDigit
    (some (String.ofList d).toNat!, cs.dropWhile Char.isDigit)

mutual
partial def pVal (cs : List Char) : Option (SVal × List Char) :=
  match cs with
  | 'T' :: r => some (.bool true, r)
  | 'F' :: r => some (.bool false, r)
  | 'n' :: r => some (.fnull, r)
  | 'u' :: r => some (.unit, r)
  | 'i' :: r => let (b, r') := takeHex r; some (.int b, r')
  | 'f' :: r => let (b, r') := takeHex r; some (.float b, r')
  | 's' :: r => let (b, r') := takeHex r; some (.str b, r')
  | 'y' :: r => let (b, r') := takeHex r; some (.bytes b, r')
  | 'o' :: r => (pVal r).map fun (v, r') => (.some v, r')
  | 'w' :: r => (pVal r).map fun (v, r') => (.newtype v, r')
  | 'v' :: r =>
    let (name, r') := takeHex r
    match r' with
    | ':' :: r'' => (pVal r'').map fun (v, r3) => (.variant name v, r3)
    | _ => none
  | 'q' :: r =>
    let (h, r') := takeHint r
    match r' with
    | '(' :: r'' => (pItems r'').map fun (items, r3) => (.seq h items, r3)
    | _ => none
  | 'm' :: r =>
    let (h, r') := takeHint r
    match r' with
    | '(' :: r'' => (pEntries r'').map fun (es, r3) => (.map h es, r3)
    | _ => none
  | _ => none
partial def pItems (cs : List Char) : Option (SList × List Char) :=
  match cs with
  | ')' :: r => some (.nil, r)
  | ',' :: r => pItems r
  | _ =>
    match pVal cs with
    | some (v, r) => (pItems r).map fun (t, r') => (.cons v t, r')
    | none => none
partial def pEntries (cs : List Char) : Option (SEntries × List Char) :=
  match cs with
  | ')' :: r => some (.nil, r)
  | ',' :: r => pEntries r
  | _ =>
    match pVal cs with
    | some (k, ':' :: r) =>
      match pVal r with
      | some (v, r') => (pEntries r').map fun (t, r'') => (.cons k v t, r'')
      | none => none
    | _ => none
end

def outTok : Outcome → String
  | .ok b => "ok:" ++ encBytes b
  | .tooSmall => "small"
  | .keyErr => "keyerr"

def letter (full : Outcome) : Outcome → Char
  | .ok b => match full with
    | .ok f => if b == f then 'O' else 'X'
    | _ => 'X'
  | .tooSmall => 's'
  | .keyErr => 'k'

def capRes : Char → SpecSer.CapRes
  | 'O' => .same | 'X' => .differ | 's' => .small | _ => .key

def parseOutTok (s : String) : Outcome :=
  if s = "small" then .tooSmall else if s = "keyerr" then .keyErr
  else match s.splitOn ":" with
    | ["ok", b] => .ok (decBytes b)
    | _ => .tooSmall

/-- `ser V <sval> J <json|err> C <cap>* => <full> <letters> u<0|1>` -/
def handle (ts : List String) : String :=
  let (_, r1) := splitAt "V" ts
  let (vs, r2) := splitAt "J" r1
  let (js, r3) := splitAt "C" r2
  let (cs, obs) := splitAt "=>" r3
  match vs, js with
  | [vtxt], [jtxt] =>
    match pVal vtxt.toList with
    | some (v, []) =>
      let caps := cs.map String.toNat!
      let full := toSlice tbl v 1048576
      let letters := String.ofList (caps.map fun c => letter full (toSlice tbl v c))
      let u := match full with | .ok b => Utf8.valid b | _ => true
      let m := outTok full ++ " " ++ letters ++ " u" ++ (if u then "1" else "0")
      let json : Option (List UInt8) := if jtxt = "err" then none else some (decBytes jtxt)
      let h := match obs with
        | [f, ls, uflag] =>
          let implFull := parseOutTok f
          let implU := match implFull with | .ok b => Utf8.valid b | _ => true
          SpecSer.holds json implFull (caps.zip (ls.toList.map capRes)) && (uflag == (if implU then "u1" else "u0"))
        | _ => false
      "M " ++ m ++ " | H " ++ (if h then "1" else "0") ++ (if WF v then "" else " | X dishonest-hint")
    | _ => "bad-sval"
  | _, _ => "bad-line"
end DriverSer
