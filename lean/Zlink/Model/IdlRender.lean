import Zlink.Model.Idl
/-! IDL renderer model: the `Display` impls of `zlink-core/src/idl/*` (interface, custom types, types,
    fields, methods, errors, comments, enum variants), and the top-level `parse_interface`
    (`str::trim`, `interface_def`, the final "no input remains" check). -/
namespace Idl

def bs (s : String) : In := s.toUTF8.toList

/-- `Comment`: `# {content}` -/
def renderComment (c : In) : In := ([35, 32] : In) ++ c

/-- comments, each followed by a newline (`writeln!`) -/
def renderComments (cs : List In) : In := cs.flatMap fun c => renderComment c ++ [10]

def joinWith (sep : In) : List In → In
  | [] => []
  | [x] => x
  | x :: xs => x ++ sep ++ joinWith sep xs

mutual
def renderTy : Ty → In
  | .bool => ([98, 111, 111, 108] : In)
  | .int => ([105, 110, 116] : In)
  | .float => ([102, 108, 111, 97, 116] : In)
  | .string => ([115, 116, 114, 105, 110, 103] : In)
  | .object => ([111, 98, 106, 101, 99, 116] : In)
  | .optional t => 63 :: renderTy t
  | .array t => ([91, 93] : In) ++ renderTy t
  | .map t => ([91, 115, 116, 114, 105, 110, 103, 93] : In) ++ renderTy t
  | .custom n => n
  | .enum vs =>
    if vs.any (fun v => !v.2.isEmpty) then
      -- multi-line form when a variant carries comments: `(\n`, then `\t# c\n`* `\tname\n` per variant, `)`
      ([40, 10] : In) ++ (vs.flatMap fun (v, cs) => (cs.flatMap fun c => 9 :: renderComment c ++ [10]) ++ (9 :: v ++ [10])) ++ [41]
    else 40 :: joinWith (([44, 32] : In)) (vs.map (·.1)) ++ [41]
  | .struct fs => 40 :: renderFieldsTy fs ++ [41]
/-- `first` handling of the field loops: `, ` between fields -/
def renderFieldsTy : List (In × Ty × List In) → In
  | [] => []
  | [(n, t, cs)] => renderComments cs ++ n ++ ([58, 32] : In) ++ renderTy t
  | (n, t, cs) :: r => renderComments cs ++ n ++ ([58, 32] : In) ++ renderTy t ++ ([44, 32] : In) ++ renderFieldsTy r
end

def renderField (f : Field) : In := renderComments f.2.2 ++ f.1 ++ ([58, 32] : In) ++ renderTy f.2.1

def renderFields (fs : List Field) : In := joinWith (([44, 32] : In)) (fs.map renderField)

/-- `CustomObject` / `CustomEnum` (the single-line form; the multi-line form used when a variant
    carries comments is `renderEnumMulti`) -/
def renderEnumMulti (n : In) (vs : List (In × List In)) : In :=
  ([116, 121, 112, 101, 32] : In) ++ n ++ ([32, 40, 10] : In) ++
    (vs.flatMap fun (v, cs) => (cs.flatMap fun c => 9 :: renderComment c ++ [10]) ++ (9 :: v ++ [10])) ++ [41]

def renderCT : CT → In
  | .obj n fs cs => renderComments cs ++ ([116, 121, 112, 101, 32] : In) ++ n ++ ([32, 40] : In) ++ renderFields fs ++ [41]
  | .enm n vs cs =>
    renderComments cs ++
      (if vs.any (fun v => !v.2.isEmpty) then renderEnumMulti n vs
       else ([116, 121, 112, 101, 32] : In) ++ n ++ ([32, 40] : In) ++ joinWith (([44, 32] : In)) (vs.map (·.1)) ++ [41])

def renderMethod (m : Method) : In :=
  renderComments m.cs ++ ([109, 101, 116, 104, 111, 100, 32] : In) ++ m.name ++ [40] ++ renderFields m.ins ++ ([41, 32, 45, 62, 32, 40] : In) ++ renderFields m.outs ++ [41]

def renderErr (e : Err) : In :=
  renderComments e.cs ++ ([101, 114, 114, 111, 114, 32] : In) ++ e.name ++ ([32, 40] : In) ++ renderFields e.fs ++ [41]

/-- `Interface`: comments, `interface <name>`, then custom types, methods, errors, each after a blank line -/
def renderIface (a : Iface) : In :=
  renderComments a.cs ++ ([105, 110, 116, 101, 114, 102, 97, 99, 101, 32] : In) ++ a.name ++
    (a.types.flatMap fun t => ([10, 10] : In) ++ renderCT t) ++
    (a.methods.flatMap fun m => ([10, 10] : In) ++ renderMethod m) ++
    (a.errors.flatMap fun e => ([10, 10] : In) ++ renderErr e)

/-! ### `parse_interface` -/

/-- Unicode `White_Space` code points in UTF-8 (`str::trim`) -/
def wsSeqs : List In :=
  [[9],[10],[11],[12],[13],[32],[0xC2,0x85],[0xC2,0xA0],[0xE1,0x9A,0x80],
   [0xE2,0x80,0x80],[0xE2,0x80,0x81],[0xE2,0x80,0x82],[0xE2,0x80,0x83],[0xE2,0x80,0x84],[0xE2,0x80,0x85],
   [0xE2,0x80,0x86],[0xE2,0x80,0x87],[0xE2,0x80,0x88],[0xE2,0x80,0x89],[0xE2,0x80,0x8A],
   [0xE2,0x80,0xA8],[0xE2,0x80,0xA9],[0xE2,0x80,0xAF],[0xE2,0x81,0x9F],[0xE3,0x80,0x80]]

def trimStartN : Nat → In → In
  | 0, i => i
  | n+1, i => match wsSeqs.find? (fun p => p.isPrefixOf i) with
    | some p => trimStartN n (i.drop p.length)
    | none => i

def trimEndRevN : Nat → In → In
  | 0, r => r
  | n+1, r => match wsSeqs.find? (fun p => p.reverse.isPrefixOf r) with
    | some p => trimEndRevN n (r.drop p.length)
    | none => r

def trim (i : In) : In :=
  let a := trimStartN (i.length + 1) i
  (trimEndRevN (a.length + 1) a.reverse).reverse

def parseInterface (input : In) : Outcome :=
  let i := trim input
  if i.isEmpty then .error else
  match interfaceDef i with
  | .err _ => .error
  | .ok a rest => if (wsF rest).isEmpty then .ok a else .error
end Idl
