import Zlink.Model.Tx
import Zlink.Model.Rx
/-! Unix-socket transport model (`zlink-tokio/src/unix/stream.rs`, `zlink-smol/src/unix/stream.rs`):
    the kernel socket is a byte FIFO that accepts any non-empty prefix of a write (partial writes);
    `WriteHalf::write` is the write-all loop `while pos < buf.len() { pos += write(&buf[pos..]) }` whose
    progress counter lives in the future. -/
namespace Pipe
abbrev Byte := UInt8

/-- the write-all loop: `accept k` + 1 bytes (at most what is left) are taken by the k-th `write`;
    returns the chunks handed to the kernel -/
def writeAll (accept : Nat → Nat) : Nat → List Byte → Nat → List (List Byte)
  | 0, _, _ => []
  | fuel+1, buf, k =>
    if buf = [] then [] else
    let n := min (accept k + 1) buf.length
    buf.take n :: writeAll accept fuel (buf.drop n) (k + 1)

/-- The suspension points of the write-all loop: its only `await` is the socket write itself, so the future can be
    dropped exactly when it is parked in one of them; listed is how many bytes of the buffer the kernel had taken
    before each write call (`done` so far). -/
def cutsBefore (accept : Nat → Nat) : Nat → List Byte → Nat → Nat → List Nat
  | 0, _, _, _ => []
  | fuel+1, buf, k, done =>
    if buf = [] then [] else
    let n := min (accept k + 1) buf.length
    done :: cutsBefore accept fuel (buf.drop n) (k + 1) (done + n)

/-- what reaches the pipe when the write future is dropped after `cut` bytes were accepted -/
def writeCancelled (buf : List Byte) (cut : Nat) : List Byte := buf.take cut

/-- `flush` whose transport write is abandoned after `cut` bytes: the queue is **not** cleared
    (`pos = 0` runs only after the write returned) -/
def flushCancelled (s : Tx.St) (cut : Nat) : List Byte × Tx.St := (writeCancelled s.queued cut, s)

/-- connection identifiers: `NEXT_ID.fetch_add(1)` -/
def ids (base n : Nat) : List Nat := List.range' base n
end Pipe
