/-! Envelope model (import-free): how calls, replies and errors are laid out as JSON objects and how
the serde-derived decoders of the shape family used by zlink read them.

Mirrors `call/ser.rs`, `call/de.rs`, `reply.rs`, the `ReplyError` derive (`zlink-macros/src/reply_error.rs`),
`varlink_service::Error` / `Method` and the three-way untagged `ReplyMsg` of `read_connection.rs`
(`receive_reply`). serde / serde_derive semantics are **modelled** for exactly this family (validated
by the correspondence corpus, see DESIGN §3): unknown members are ignored; a duplicate of a known member
is an error; an absent or `null` optional member is `None`; a field-less error variant accepts absent, `null` or object content
(the derive decodes it as a newtype variant around an optional empty struct); a struct variant needs an object as content; a sequence is accepted positionally where a plain
struct is expected (e.g. as the `parameters` of a success reply); a borrowed `&str` field rejects strings written with escapes. -/
namespace Env

/-- JSON tree with member order and duplicates preserved; `str` remembers whether the source text
    used escapes (then it cannot be borrowed). Integer numbers are carried as `Int` (the conversion from and
    to decimal text is the driver's / `itoa`'s / serde_json's business). -/
inductive J
  | null
  | bool (b : Bool)
  | int (i : Int)              -- a number written as an integer
  | num (text : String)        -- any other number (fraction / exponent), kept as text
  | str (s : String) (escaped : Bool)
  | arr (items : List J)
  | obj (members : List (String × J))
deriving Inhabited

abbrev Members := List (String × J)

/-- field types of the shape family -/
inductive FT
  | str            -- String
  | bstr           -- &'a str (borrowed)
  | int (lo hi : Int)
  | bool
  | any            -- serde_json::Value
  | opt (t : FT)
deriving Repr, DecidableEq, Inhabited

/-- decoded field values -/
inductive V
  | str (s : String)
  | int (i : Int)
  | bool (b : Bool)
  | any (j : J)
  | none
  | some (v : V)

def decodeF : FT → J → Option V
  | .str, .str s _ => some (.str s)
  | .bstr, .str s false => some (.str s)
  | .int lo hi, .int i => if lo ≤ i && i ≤ hi then some (.int i) else none
  | .bool, .bool b => some (.bool b)
  | .any, j => some (.any j)
  | .opt _, .null => some .none
  | .opt t, j => (decodeF t j).map .some
  | _, _ => none

def FT.optional : FT → Bool
  | .opt _ => true
  | _ => false

structure Field where
  name : String
  ty : FT
deriving Repr, DecidableEq

def lookup (k : String) : Members → Option J
  | [] => none
  | (k', v) :: r => if k' = k then some v else lookup k r

def count (k : String) (ms : Members) : Nat := (ms.filter (·.1 = k)).length

def hasKey (k : String) (ms : Members) : Bool := ms.any (·.1 = k)

/-- serde-derived struct visitor over an object's members -/
def decodeEach (ms : Members) : List Field → Option (List V)
  | [] => some []
  | f :: fs =>
    let v? := match lookup f.name ms with
      | some j => decodeF f.ty j
      | none => if f.ty.optional then some V.none else none
    match v?, decodeEach ms fs with
    | some v, some vs => some (v :: vs)
    | _, _ => none

def decodeFields (fs : List Field) (ms : Members) : Option (List V) :=
  if fs.any (fun f => count f.name ms > 1) then none else decodeEach ms fs

def decodeSeq : List Field → List J → Option (List V)
  | [], [] => some []
  | f :: fs, j :: js => match decodeF f.ty j, decodeSeq fs js with
    | some v, some vs => some (v :: vs)
    | _, _ => none
  | _, _ => none

def decodeStruct (fs : List Field) : J → Option (List V)
  | .obj ms => decodeFields fs ms
  | .arr items => decodeSeq fs items
  | _ => none

/-- a variant of an adjacently tagged enum: wire name and, for struct variants, its fields -/
structure Variant where
  name : String
  fields : Option (List Field)
  /-- a field-less variant decoded through `Option<NoParams>` (the `ReplyError` derive and
      `varlink_service::Method::GetInfo`): `{}` is accepted too; a plain serde unit variant is not -/
  lenient : Bool := false
deriving Repr, DecidableEq

def findVariant (vs : List Variant) (n : String) : Option (Nat × Variant) :=
  (vs.zipIdx.find? (fun p => p.1.name = n)).map fun p => (p.2, p.1)

/-- serde `#[serde(tag = .., content = ..)]` enum read from an object's members -/
def decodeAdjM (tag content : String) (vs : List Variant) (ms : Members) : Option (Nat × List V) :=
  if count tag ms > 1 || count content ms > 1 then none else
  match lookup tag ms with
  | some (.str n _) =>
    match findVariant vs n with
    | some (i, v) =>
      match v.fields, lookup content ms with
      -- field-less variant (`Option<NoParams>` content): absent, `null`, any object, or `[]`
      | none, none => some (i, [])
      | none, some .null => some (i, [])
      | none, some (.obj _) => if v.lenient then some (i, []) else none
      | none, some (.arr []) => if v.lenient then some (i, []) else none
      | none, some _ => none
      | some fs, some (.obj cm) => (decodeFields fs cm).map fun xs => (i, xs)
      | some _, some _ => none
      | some _, none => none
    | none => none
  | _ => none

def decodeAdj (tag content : String) (vs : List Variant) : J → Option (Nat × List V)
  | .obj ms => decodeAdjM tag content vs ms
  | _ => none

/-! ### replies (`receive_reply`) -/

inductive PShape
  | unit                      -- `()`
  | value                     -- `serde_json::Value`
  | strct (fs : List Field)

def decodeP : PShape → J → Bool
  | .unit, _ => false           -- `Option<()>`: `null` is handled by the option; anything else is not a unit
  | .value, _ => true
  | .strct fs, j => (decodeStruct fs j).isSome

/-- the success arm (`Success<P>`): `parameters: Option<P>`, `continues: Option<bool>`, and an
    `error` member is refused -/
def decodeSuccess (P : PShape) : J → Bool
  | .obj ms =>
    !hasKey "error" ms && count "parameters" ms ≤ 1 && count "continues" ms ≤ 1 &&
    (match lookup "parameters" ms with
      | none => true
      | some .null => true
      | some j => decodeP P j) &&
    (match lookup "continues" ms with
      | none => true
      | some .null => true
      | some (.bool _) => true
      | some _ => false)
  | _ => false

inductive Class
  | success
  | methodError (variant : Nat)
  | serviceError (variant : Nat)
  | decodeError
deriving Repr, DecidableEq

/-- the untagged `ReplyMsg`: standard service error, then the caller's error type, then success -/
def classify (svc : List Variant) (P : PShape) (E : List Variant) (j : J) : Class :=
  match decodeAdj "error" "parameters" svc j with
  | some (i, _) => .serviceError i
  | none =>
    match decodeAdj "error" "parameters" E j with
    | some (i, _) => .methodError i
    | none => if decodeSuccess P j then .success else .decodeError

/-! ### calls (`Call<M>`) -/

structure Flags where
  oneway : Bool := false
  more : Bool := false
  upgrade : Bool := false
deriving Repr, DecidableEq

/-- `FilterMap`: walks the members once; flag members are captured (a later one overwrites an
    earlier one; a non-boolean value is an error) and hidden from the method type -/
def splitFlags : Members → Option (Members × Option Bool × Option Bool × Option Bool)
  | [] => some ([], none, none, none)
  | (k, v) :: r =>
    match splitFlags r with
    | none => none
    | some (rest, o, m, u) =>
      if k = "oneway" then match v with | .bool b => some (rest, (if o.isSome then o else some b), m, u) | _ => none
      else if k = "more" then match v with | .bool b => some (rest, o, (if m.isSome then m else some b), u) | _ => none
      else if k = "upgrade" then match v with | .bool b => some (rest, o, m, (if u.isSome then u else some b)) | _ => none
      else some ((k, v) :: rest, o, m, u)

structure CallV where
  variant : Nat
  args : List V
  flags : Flags

def decodeCall (M : List Variant) : J → Option CallV
  | .obj ms =>
    match splitFlags ms with
    | none => none
    | some (rest, o, m, u) =>
      match decodeAdjM "method" "parameters" M rest with
      | some (i, xs) => some { variant := i, args := xs,
                               flags := { oneway := o.getD false, more := m.getD false, upgrade := u.getD false } }
      | none => none
  | _ => none

/-- a method type that keeps every member it is handed: `method` (which must name it) plus a flattened catch-all.
    What it is shown is what `FilterMap` lets through. -/
def namesMethod (name : String) (rest : Members) : Bool :=
  count "method" rest == 1 && (match lookup "method" rest with | some (.str n _) => n == name | _ => false)

def decodeCallOpen (name : String) : J → Option (Members × Flags)
  | .obj ms =>
    match splitFlags ms with
    | none => none
    | some (rest, o, m, u) =>
      if namesMethod name rest then
        some (rest, { oneway := o.getD false, more := m.getD false, upgrade := u.getD false })
      else none
  | _ => none

/-! ### encoders (`Serialize` impls) -/

def encodeV : V → J
  | .str s => .str s false
  | .int i => .int i
  | .bool b => .bool b
  | .any j => j
  | .none => .null
  | .some v => encodeV v

def encodeFields : List Field → List V → Members
  | f :: fs, v :: vs => (f.name, encodeV v) :: encodeFields fs vs
  | _, _ => []

/-- adjacently tagged enum / `ReplyError` derive: the tag, plus the content exactly when the variant has fields -/
def encodeAdj (tag content : String) (v : Variant) (args : List V) : Members :=
  match v.fields with
  | none => [(tag, .str v.name false)]
  | some fs => [(tag, .str v.name false), (content, .obj (encodeFields fs args))]

def encodeFlags (f : Flags) : Members :=
  (if f.oneway then [("oneway", J.bool true)] else []) ++
  (if f.more then [("more", J.bool true)] else []) ++
  (if f.upgrade then [("upgrade", J.bool true)] else [])

/-- `Call<M>::serialize`: the method type's own members, then the flags that are set -/
def encodeCall (v : Variant) (args : List V) (f : Flags) : J :=
  .obj (encodeAdj "method" "parameters" v args ++ encodeFlags f)

/-- `Reply<T>::serialize`: `parameters` and `continues` only when present -/
def encodeReply (params : Option J) (continues : Option Bool) : J :=
  .obj ((match params with | some p => [("parameters", p)] | none => []) ++
        (match continues with | some c => [("continues", J.bool c)] | none => []))
end Env
