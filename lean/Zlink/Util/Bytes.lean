/-! `b!"text"`: the UTF-8 bytes of a string literal as a list literal, produced at elaboration time
    (string literals themselves do not reduce in the kernel, byte-list literals do). -/
open Lean in
macro:max "b!" s:str : term => do
  let bytes := s.getString.toUTF8.toList
  let elems ← bytes.mapM fun b => `(($(Syntax.mkNumLit (toString b.toNat)) : UInt8))
  `([$(elems.toArray),*])

example : b!"Int" = [73, 110, 116] := by decide
