import Zlink.Proofs.Rx
import Zlink.Spec.Rx
/-! The model's run satisfies the executable oracle `SpecRx.holds` (safety + completeness), for every
    interleaving of arrivals, polls and close; and the closed-stream corollary used by C01. -/
namespace Rx
open SpecRx

theorem run_conforms (C : Consts) (hstep : 0 < C.step) (sizes : Nat → Nat)
    (frames : List (List Byte)) (hF : ∀ f ∈ frames, FrameOK f) (hmax : (enc frames).length < C.max) :
    ∀ (evs : List Ev) (s : St) (e : Net) (fut : List Byte) (done R : List (List Byte)),
      frames = done ++ R → Inv C frames s e fut done → EvsOK evs fut →
      (e.closed = true → fut = []) →
      conforms evs (run C sizes evs s e) ⟨fut.length, R, e.closed⟩ = true := by
  intro evs
  induction evs with
  | nil => intro s e fut done R _ _ _ _; simp [run, conforms]
  | cons ev evs ih =>
    intro s e fut done R hfr inv hok hcl
    cases ev with
    | arrive b =>
      obtain ⟨fut', hfut, hok'⟩ := hok
      simp only [run, step, conforms]
      have hlen : fut.length - b.length = fut'.length := by rw [hfut]; simp
      rw [hlen]
      apply ih s { e with avail := e.avail ++ b } fut' done R hfr ?_ hok'
      · intro h; have := hcl h; subst this
        have : b = [] ∧ fut' = [] := by
          have := hfut.symm; exact List.append_eq_nil_iff.mp this
        exact this.2
      · obtain ⟨hcap, hbound, htail, R0, hfr0, hshape⟩ := inv
        refine ⟨hcap, by simp; rw [hfut] at hbound; simp at hbound; omega, htail, R0, hfr0, ?_⟩
        rcases hshape with ⟨h0, h1⟩ | ⟨h0, F1, F2, h1, h2, h3, h4⟩
        · left; refine ⟨h0, ?_⟩
          show s.data ++ (e.avail ++ b) ++ fut' = enc R0
          rw [← h1, hfut]; simp
        · right; refine ⟨h0, F1, F2, h1, h2, h3, ?_⟩
          show (e.avail ++ b) ++ fut' = enc F2
          rw [← h4, hfut]; simp
    | close =>
      obtain ⟨hfut, hok'⟩ := hok
      simp only [run, step, conforms]
      apply ih s { e with closed := true } fut done R hfr ?_ hok' (fun _ => hfut)
      obtain ⟨hcap, hbound, htail, hshape⟩ := inv
      exact ⟨hcap, hbound, htail, hshape⟩
    | poll =>
      have hok' : EvsOK evs fut := hok
      simp only [run, step]
      rcases poll_spec C hstep sizes frames hF hmax s e fut done inv with
        ⟨s', e', h1, h2, h3, h4, h5, h6⟩ | ⟨s', e', f, R', h1, h2, h3, h4⟩ | ⟨s', e', h1, h2, h5⟩
      · rw [h1]
        simp only [conforms]
        have hrec := ih s' e' fut done R hfr h2 hok' (by rw [h3]; exact hcl)
        rw [h3] at hrec
        have hk : okOut ⟨fut.length, R, e.closed⟩ .pending = true := by
          simp only [okOut, h4]
          by_cases hf : fut = []
          · subst hf
            -- everything has arrived and the poll is pending: nothing can be owed
            obtain ⟨_, _, htail, R0, hfrR, hshape⟩ := h2
            have hR : R0 = R := List.append_cancel_left (hfrR.symm.trans hfr)
            subst hR
            rcases hshape with ⟨_, hs⟩ | ⟨hpos, _⟩
            · rw [h5] at hs
              simp at hs
              cases R0 with
              | nil => simp
              | cons a b =>
                exfalso
                obtain ⟨p, hp⟩ := enc_ne_nil_last (a :: b) (by simp)
                apply htail h6
                rw [hs, hp]; simp
            · omega
          · have : fut.length ≠ 0 := by
              intro h; exact hf (List.length_eq_zero_iff.mp h)
            simp [this]
        simp only [advance]
        rw [hk, hrec]; rfl
      · rw [h1]
        have hR : R = f :: R' := by
          have := hfr.symm.trans h2; exact List.append_cancel_left this
        subst hR
        simp only [conforms, okOut, advance, List.drop_one, List.tail_cons, beq_self_eq_true, Bool.true_and]
        have hrec := ih s' e' fut (done ++ [f]) R' (by rw [h2]; simp) h3 hok' (by rw [h4]; exact hcl)
        rw [h4] at hrec
        exact hrec
      · rw [h1]
        have hfut := hcl h2
        subst hfut
        obtain ⟨hR0, hinv', hcl'⟩ := h5 rfl
        have hR : R = [] := by
          have := hfr.symm.trans hR0; simpa using this
        subst hR
        simp only [conforms, okOut, advance, h2, List.isEmpty_nil, Bool.and_self, Bool.true_and]
        have hrec := ih s' e' [] done [] hfr hinv' hok' (fun _ => rfl)
        rw [hcl', h2] at hrec
        exact hrec

/-- The model's run satisfies the executable oracle. -/
theorem run_holds (C : Consts) (hstep : 0 < C.step) (sizes : Nat → Nat)
    (frames : List (List Byte)) (hF : ∀ f ∈ frames, FrameOK f) (hmax : (enc frames).length < C.max)
    (evs : List Ev) (hev : EvsOK evs (enc frames)) :
    holds frames evs (run C sizes evs (init C) net0) = true := by
  have := run_conforms C hstep sizes frames hF hmax evs (init C) net0 (enc frames) [] frames (by simp)
    (inv_init C hstep frames) hev (by simp [net0])
  simpa [holds, g0, net0] using this

/-- `n` successive receives (each runs to completion: the peer has sent everything and closed). -/
def recvN (C : Consts) (sizes : Nat → Nat) : Nat → St → Net → List Out
  | 0, _, _ => []
  | n+1, s, e =>
    let r := poll C sizes s e
    r.1 :: recvN C sizes n r.2.1 r.2.2

theorem recvN_eof (C : Consts) (hstep : 0 < C.step) (sizes : Nat → Nat)
    (frames : List (List Byte)) (hF : ∀ f ∈ frames, FrameOK f) (hmax : (enc frames).length < C.max) :
    ∀ (m : Nat) (s : St) (e : Net), Inv C frames s e [] frames → e.closed = true →
      recvN C sizes m s e = List.replicate m (.err .eof) := by
  intro m
  induction m with
  | zero => intro s e _ _; rfl
  | succ m ih =>
    intro s e inv hc
    rcases poll_spec C hstep sizes frames hF hmax s e [] frames inv with
      ⟨s', e', h1, h2, h3, h4, h5, h6⟩ | ⟨s', e', f, R', h1, h2, h3, h4⟩ | ⟨s', e', h1, h2, h5⟩
    · rw [hc] at h4; cases h4
    · exfalso
      have : frames ++ [] = frames ++ f :: R' := by simp at h2
      have := List.append_cancel_left this
      cases this
    · obtain ⟨_, hinv', hcl'⟩ := h5 rfl
      simp only [recvN, h1, List.replicate_succ]
      rw [ih s' e' hinv' (by rw [hcl']; exact hc)]

theorem recvN_frames (C : Consts) (hstep : 0 < C.step) (sizes : Nat → Nat)
    (frames : List (List Byte)) (hF : ∀ f ∈ frames, FrameOK f) (hmax : (enc frames).length < C.max)
    (m : Nat) :
    ∀ (R done : List (List Byte)) (s : St) (e : Net), frames = done ++ R →
      Inv C frames s e [] done → e.closed = true →
      recvN C sizes (R.length + m) s e = R.map .frame ++ List.replicate m (.err .eof) := by
  intro R
  induction R with
  | nil =>
    intro done s e hfr inv hc
    have : done = frames := by simpa using hfr.symm
    subst this
    simpa using recvN_eof C hstep sizes done hF hmax m s e inv hc
  | cons f R ih =>
    intro done s e hfr inv hc
    obtain ⟨s', e', h1, h2, h3⟩ := poll_complete C hstep sizes frames hF hmax s e done f R hfr inv
    have hl : (f :: R).length + m = (R.length + m) + 1 := by simp; omega
    rw [hl]
    simp only [recvN, h1, List.map_cons, List.cons_append]
    rw [ih (done ++ [f]) s' e' (by rw [hfr]; simp) h2 (by rw [h3]; exact hc)]

theorem inv_all_arrived (C : Consts) (hstep : 0 < C.step) (frames : List (List Byte)) :
    Inv C frames (init C) ⟨enc frames, true, 0⟩ [] [] := by
  refine ⟨by simp [init]; exact hstep, by simp [init], fun _ => by simp [init], frames, by simp, Or.inl ⟨rfl, ?_⟩⟩
  simp [init]

end Rx
