import Zlink.Proofs.IdlSound
import Zlink.Proofs.IdlLayoutWs
/-! Soundness of the IDL parser at the level of the *text*, part 1: what the layout skippers, the comment
    reader and the name lexers consume. Every lemma has the shape "if the parser returned `r` as the rest,
    the input was `s ++ r` for an `s` of the corresponding grammar class". -/
namespace Idl
open SpecIdl

/-! ### white space -/

theorem multispace0_split (i : In) : ∃ w, i = w ++ multispace0 i ∧ wsOnly w = true := by
  refine ⟨i.takeWhile isMultispace, ?_, ?_⟩
  · simp [multispace0, List.takeWhile_append_dropWhile]
  · exact all_takeWhile isMultispace i

theorem whitespaceOnly_split (i : In) : ∃ w, i = w ++ whitespaceOnly i ∧ wsOnly w = true := multispace0_split i

theorem ws1_split (i r : In) (h : ws1 i = .ok () r) : ∃ g, i = g ++ r ∧ gap1OK g = true := by
  unfold ws1 at h
  simp only [] at h
  split at h
  · cases h
  · rename_i hne
    simp only [PR.ok.injEq, true_and] at h
    subst h
    refine ⟨i.takeWhile isAsciiWs, by simp [List.takeWhile_append_dropWhile], ?_⟩
    simp only [gap1OK, Bool.and_eq_true, Bool.not_eq_true', List.isEmpty_eq_false_iff]
    refine ⟨?_, all_takeWhile isAsciiWs i⟩
    intro h0
    apply hne
    have : i = i.takeWhile isAsciiWs ++ i.dropWhile isAsciiWs := by simp [List.takeWhile_append_dropWhile]
    rw [h0] at this
    simp at this
    rw [← this]

/-- layout that `ws` skips: white space, and `#` comments up to (and including) their line end -/
inductive GapC : In → Prop
  | nil : GapC []
  | ws {c g} : isMultispace c = true → GapC g → GapC (c :: g)
  | comment {b eol g} : (∀ x ∈ b, x ≠ 10 ∧ x ≠ 13) → (eol = [10] ∨ eol = [13] ∨ eol = [13, 10] ∨ (eol = [] ∧ g = [])) →
      GapC g → GapC (35 :: (b ++ (eol ++ g)))

theorem GapC.of_wsOnly {w : In} (h : wsOnly w = true) : GapC w := by
  induction w with
  | nil => exact .nil
  | cons c t ih =>
    simp only [wsOnly, List.all_cons, Bool.and_eq_true] at h
    exact .ws h.1 (ih (by simpa [wsOnly] using h.2))

theorem GapC.prepend_ws {w g : In} (hw : wsOnly w = true) (hg : GapC g) : GapC (w ++ g) := by
  induction w with
  | nil => exact hg
  | cons c t ih =>
    simp only [wsOnly, List.all_cons, Bool.and_eq_true] at hw
    exact .ws hw.1 (ih (by simpa [wsOnly] using hw.2))

theorem skipComment_cons_other (c : Byte) (t : In) (h10 : c ≠ 10) (h13 : c ≠ 13) : skipComment (c :: t) = skipComment t :=
  skipComment.eq_5 c t (fun _ h _ => h13 h) h10 h13

theorem skipComment_split : ∀ (t : In), ∃ b eol, t = b ++ (eol ++ skipComment t) ∧ (∀ x ∈ b, x ≠ 10 ∧ x ≠ 13) ∧
    (eol = [10] ∨ eol = [13] ∨ eol = [13, 10] ∨ (eol = [] ∧ skipComment t = []))
  | [] => ⟨[], [], by simp [skipComment], by simp, Or.inr (Or.inr (Or.inr ⟨rfl, rfl⟩))⟩
  | c :: t => by
    by_cases h10 : c = 10
    · subst h10
      refine ⟨[], [10], ?_, by simp, Or.inl rfl⟩
      have : skipComment (10 :: t) = t := by unfold skipComment; rfl
      simp [this]
    · by_cases h13 : c = 13
      · subst h13
        cases t with
        | nil =>
          refine ⟨[], [13], ?_, by simp, Or.inr (Or.inl rfl)⟩
          have : skipComment [13] = [] := by unfold skipComment; rfl
          simp [this]
        | cons d t' =>
          by_cases hd : d = 10
          · subst hd
            refine ⟨[], [13, 10], ?_, by simp, Or.inr (Or.inr (Or.inl rfl))⟩
            have : skipComment (13 :: 10 :: t') = t' := by unfold skipComment; rfl
            simp [this]
          · refine ⟨[], [13], ?_, by simp, Or.inr (Or.inl rfl)⟩
            have : skipComment (13 :: d :: t') = d :: t' :=
              skipComment.eq_4 (d :: t') (by intro t1 h; simp at h; exact hd h.1)
            simp [this]
      · obtain ⟨b, eol, e, hb, he⟩ := skipComment_split t
        rw [skipComment_cons_other c t h10 h13]
        refine ⟨c :: b, eol, by simp only [List.cons_append]; rw [← e], ?_, he⟩
        intro x hx
        simp only [List.mem_cons] at hx
        rcases hx with rfl | hx
        · exact ⟨h10, h13⟩
        · exact hb x hx

theorem skipComment_length (t : In) : (skipComment t).length ≤ t.length := by
  obtain ⟨b, eol, e, _, _⟩ := skipComment_split t
  have : t.length = b.length + (eol.length + (skipComment t).length) := by
    conv => lhs; rw [e]
    simp
  omega

/-- what `ws` skipped is layout -/
theorem ws_split : ∀ (n : Nat) (i : In), ∃ g, i = g ++ ws n i ∧ GapC g := by
  intro n
  induction n with
  | zero => intro i; exact ⟨[], rfl, .nil⟩
  | succ n ih =>
    intro i
    obtain ⟨w, hw, hwo⟩ := multispace0_split i
    unfold ws
    simp only []
    generalize hi1 : multispace0 i = i1 at hw
    cases i1 with
    | nil =>
      have hws0 : ws n [] = [] := by cases n <;> simp [ws, multispace0, optComment]
      have hoc : optComment ([] : In) = [] := rfl
      rw [hoc]
      by_cases hl : ([] : In).length = i.length
      · rw [if_pos hl]
        exact ⟨w, by rw [hw], by simpa using GapC.prepend_ws hwo .nil⟩
      · rw [if_neg hl, hws0]
        exact ⟨w, by rw [hw], by simpa using GapC.prepend_ws hwo .nil⟩
    | cons c t =>
      by_cases hc : c = 35
      · subst hc
        have hopt : optComment (35 :: t) = skipComment t := rfl
        rw [hopt]
        obtain ⟨b, eol, e, hb, he⟩ := skipComment_split t
        split
        · rename_i hlen
          exfalso
          have h1 := skipComment_length t
          have : i.length = w.length + (t.length + 1) := by rw [hw]; simp
          omega
        · obtain ⟨g, hg, hG⟩ := ih (skipComment t)
          refine ⟨w ++ 35 :: (b ++ (eol ++ g)), ?_, GapC.prepend_ws hwo (.comment hb ?_ hG)⟩
          · have e3 : t = b ++ (eol ++ (g ++ ws n (skipComment t))) := by rw [← hg]; exact e
            have e4 : (w ++ 35 :: (b ++ (eol ++ g))) ++ ws n (skipComment t)
                = w ++ 35 :: (b ++ (eol ++ (g ++ ws n (skipComment t)))) := by simp
            rw [e4, ← e3]; exact hw
          · rcases he with h | h | h | ⟨h1, h2⟩
            · exact Or.inl h
            · exact Or.inr (Or.inl h)
            · exact Or.inr (Or.inr (Or.inl h))
            · refine Or.inr (Or.inr (Or.inr ⟨h1, ?_⟩))
              rw [h2] at hg
              have : ws n [] = [] := by cases n <;> simp [ws, multispace0, optComment]
              rw [this] at hg
              simpa using hg
      · have hopt : optComment (c :: t) = c :: t := by
          unfold optComment
          split
          · rename_i heq; simp at heq; exact absurd heq.1 hc
          · rfl
        rw [hopt]
        split
        · exact ⟨w, hw, by simpa using GapC.prepend_ws hwo .nil⟩
        · obtain ⟨g, hg, hG⟩ := ih (c :: t)
          exact ⟨w ++ g, by rw [hw, List.append_assoc, ← hg], GapC.prepend_ws hwo hG⟩

theorem wsF_split (i : In) : ∃ g, i = g ++ wsF i ∧ GapC g := ws_split _ i

/-! ### comments -/

theorem commentDef_split (i c r : In) (h : commentDef i = .ok c r) :
    ∃ b, i = 35 :: (b ++ (c ++ r)) ∧ blanksOnly b = true ∧ commentOK c = true ∧
      (r = [] ∨ r.head? = some 10 ∨ r.head? = some 13) := by
  have hok := commentDef_sound i c r h
  unfold commentDef at h
  split at h
  · rename_i t
    simp only [PR.ok.injEq] at h
    obtain ⟨rfl, rfl⟩ := h
    refine ⟨t.takeWhile (fun c => c == 32 || c == 9), ?_, all_takeWhile _ t, hok, ?_⟩
    · have e1 : t = t.takeWhile (fun c => c == 32 || c == 9) ++ t.dropWhile (fun c => c == 32 || c == 9) := by
        simp [List.takeWhile_append_dropWhile]
      have e2 := takeWhile_append_drop (fun x => x != 10 && x != 13) (t.dropWhile (fun c => c == 32 || c == 9))
      conv => lhs; rw [e1, ← e2]
    · generalize t.dropWhile (fun c => c == 32 || c == 9) = d
      have : d.drop (d.takeWhile (fun x => x != 10 && x != 13)).length = d.dropWhile (fun x => x != 10 && x != 13) := by
        induction d with
        | nil => rfl
        | cons a b ih =>
          by_cases ha : (a != 10 && a != 13) = true
          · simp only [List.takeWhile_cons, List.dropWhile_cons, ha, if_true, List.length_cons, List.drop_succ_cons, ih]
          · simp [List.takeWhile_cons, List.dropWhile_cons, ha]
      rw [this]
      cases hd : d.dropWhile (fun x => x != 10 && x != 13) with
      | nil => left; rfl
      | cons a b =>
        right
        have := head_dropWhile' (fun x => x != 10 && x != 13) d a b hd
        simp only [Bool.and_eq_false_iff, bne_eq_false_iff_eq] at this
        rcases this with h1 | h1
        · left; simp [h1]
        · right; simp [h1]
  · cases h

/-- comment lines as the parser attaches them: each `#`, blanks, text, a line end (`e`: LF or CR) and a gap -/
inductive CommentsS : List In → In → Prop
  | nil : CommentsS [] []
  | cons {w0 b c w1 cs s} {e : Byte} : wsOnly w0 = true → blanksOnly b = true → commentOK c = true → (e = 10 ∨ e = 13) →
      wsOnly w1 = true → CommentsS cs s → CommentsS (c :: cs) (w0 ++ 35 :: (b ++ (c ++ e :: (w1 ++ s))))

theorem CommentsS.snoc {cs : List In} {s : In} (h : CommentsS cs s) {w0 b c w1 : In} {e : Byte} (h0 : wsOnly w0 = true)
    (hb : blanksOnly b = true) (hc : commentOK c = true) (he : e = 10 ∨ e = 13) (h1 : wsOnly w1 = true) :
    CommentsS (cs ++ [c]) (s ++ (w0 ++ 35 :: (b ++ (c ++ e :: w1)))) := by
  induction h with
  | nil => simpa using CommentsS.cons h0 hb hc he h1 .nil
  | cons a1 a2 a3 a4 a5 _ ih =>
    have := CommentsS.cons a1 a2 a3 a4 a5 ih
    simpa using this

/-- `parse_preceding_comments`: either the rest is empty (and whatever follows will fail), or what was
    consumed is a block of comment lines -/
theorem pc_split : ∀ (k : Nat) (i : In) (acc : List In) (s0 : In), CommentsS acc s0 →
    (∃ s, s0 ++ i = s ++ (precedingComments k i acc).2 ∧ CommentsS (precedingComments k i acc).1 s) ∨
      (precedingComments k i acc).2 = [] := by
  intro k
  induction k with
  | zero => intro i acc s0 h; left; exact ⟨s0, rfl, h⟩
  | succ k ih =>
    intro i acc s0 h
    unfold precedingComments
    split
    · left; exact ⟨s0, rfl, h⟩
    · simp only []
      split
      · right; rename_i he; simpa using he
      · split
        · rename_i c r hc
          obtain ⟨w0, hw0, hw0o⟩ := whitespaceOnly_split i
          obtain ⟨b, e, hb, hcok, hr⟩ := commentDef_split _ _ _ hc
          obtain ⟨w1, hw1, hw1o⟩ := whitespaceOnly_split r
          rcases hr with hr | hr
          · -- the comment reaches the end of the input
            right
            subst hr
            have : whitespaceOnly ([] : In) = [] := rfl
            rw [this]
            cases k with
            | zero => rfl
            | succ k => simp [precedingComments]
          · cases r with
            | nil => simp at hr
            | cons r0 rt =>
              have hr0 : r0 = 10 ∨ r0 = 13 := by
                rcases hr with hr | hr
                · left; simpa using hr
                · right; simpa using hr
              have hr0ws : isMultispace r0 = true := by rcases hr0 with rfl | rfl <;> decide
              cases w1 with
              | nil =>
                -- impossible: the line end is white space, so it was skipped
                exfalso
                have h10 : whitespaceOnly (r0 :: rt) = whitespaceOnly rt := multispace0_cons_ws r0 rt hr0ws
                simp only [List.nil_append] at hw1
                rw [h10] at hw1
                obtain ⟨w, hw, _⟩ := whitespaceOnly_split rt
                have : (r0 :: rt).length = (whitespaceOnly rt).length := by rw [← hw1]
                have : rt.length = w.length + (whitespaceOnly rt).length := by conv => lhs; rw [hw]; simp
                simp at *; omega
              | cons a w1' =>
                have ha : a = r0 := by
                  have := congrArg List.head? hw1; simpa using this.symm
                subst ha
                have hw1o' : wsOnly w1' = true := by
                  simp only [wsOnly, List.all_cons, Bool.and_eq_true] at hw1o ⊢
                  exact hw1o.2
                have hnext := ih (whitespaceOnly (a :: rt)) (acc ++ [c]) (s0 ++ (w0 ++ 35 :: (b ++ (c ++ a :: w1'))))
                  (h.snoc hw0o hb hcok hr0 hw1o')
                rcases hnext with ⟨s, hs, hS⟩ | hnil
                · left
                  refine ⟨s, ?_, hS⟩
                  rw [← hs]
                  have e2 : (a :: rt) = a :: w1' ++ whitespaceOnly (a :: rt) := by simpa using hw1
                  conv => lhs; rw [hw0, e, e2]
                  simp
                · right; exact hnil
        · left; exact ⟨s0, rfl, h⟩

theorem pcF_split (i : In) : (∃ s, i = s ++ (pcF i).2 ∧ CommentsS (pcF i).1 s) ∨ (pcF i).2 = [] := by
  have := pc_split (i.length + 1) i [] [] .nil
  simpa [pcF] using this

/-! ### interface names: what was consumed -/

theorem nameSegs_consumes : ∀ (n : Nat) (acc r : In) (dot : Bool) (name r' : In) (dot' : Bool),
    nameSegs n acc r dot = some (name, r', dot') → acc ++ r = name ++ r' := by
  intro n
  induction n with
  | zero =>
    intro acc r dot name r' dot' h
    simp only [nameSegs, Option.some.injEq, Prod.mk.injEq] at h
    obtain ⟨rfl, rfl, _⟩ := h; rfl
  | succ n ih =>
    intro acc r dot name r' dot' h
    rw [nameSegs.eq_def] at h
    simp only [] at h
    split at h
    · rename_i c r2
      split at h
      · rename_i hc
        split at h
        · rename_i s r3 hst
          have := ih _ _ _ _ _ _ h
          obtain ⟨e, _, _⟩ := segTail_sound c r2 s r3 hc hst
          rw [← this, e]; simp
        · cases h
      · cases h
    · cases h
    · simp only [Option.some.injEq, Prod.mk.injEq] at h
      obtain ⟨rfl, rfl, _⟩ := h; rfl

theorem interfaceName_consumes (i n r : In) (h : interfaceName i = .ok n r) : i = n ++ r := by
  unfold interfaceName at h
  split at h
  · rename_i b t
    split at h
    · cases h
    · rename_i hb
      split at h
      · cases h
      · rename_i seg1 rest hst
        split at h
        · rename_i name r2 hns
          cases h
          have hb' : isAlpha b = true := by simpa using hb
          obtain ⟨e, _, _⟩ := segTail_sound b t seg1 rest (by bytes) hst
          have := nameSegs_consumes _ _ _ _ _ _ _ hns
          rw [← this, e]; simp
        · cases h
  · cases h

end Idl
