import Zlink.Proofs.IdlTypeRT
/-! Round trip of the members of an interface: parameter lists, `type`, `method` and `error` definitions
    as rendered by the `Display` impls are read back exactly by `parameter_list`, `type_def`,
    `method_def` and `error_def`. -/
namespace Idl
open SpecIdl

/-! ### fuel: `tyFuel` covers every rendered type -/

theorem renderFieldsTy_length_cons (f : In × Ty × List In) (r : List (In × Ty × List In)) :
    (renderTy f.2.1).length + (renderFieldsTy r).length + 2 ≤ (renderFieldsTy (f :: r)).length := by
  rw [renderFieldsTy_cons]
  cases r with
  | nil => simp [fieldText, moreFields, renderFieldsTy]; omega
  | cons g gs => rw [renderFieldsTy_cons]; simp [fieldText, moreFields, List.flatMap_cons]; omega

mutual
theorem M_le : ∀ (t : Ty), M t ≤ 8 * (renderTy t).length + 1
  | .bool => by simp [M, renderTy]
  | .int => by simp [M, renderTy]
  | .float => by simp [M, renderTy]
  | .string => by simp [M, renderTy]
  | .object => by simp [M, renderTy]
  | .custom n => by simp [M, renderTy]
  | .optional t => by have := M_le t; simp [M, renderTy]; omega
  | .array t => by have := M_le t; simp [M, renderTy]; omega
  | .map t => by have := M_le t; simp [M, renderTy]; omega
  | .enum vs => by
    rw [renderTy]; split <;> simp [M] <;> omega
  | .struct fs => by have := MF_le fs; simp [M, renderTy]; omega
theorem MF_le : ∀ (fs : List (In × Ty × List In)), MF fs ≤ 8 * (renderFieldsTy fs).length + 1
  | [] => by simp [MF, renderFieldsTy]
  | (n, t, cs) :: r => by
    have h1 := M_le t
    have h2 := MF_le r
    have h3 := renderFieldsTy_length_cons (n, t, cs) r
    simp only [MF]
    simp only [] at h3
    omega
end

theorem tyFuel_ok (t : Ty) (z : In) : M t < tyFuel (renderTy t ++ z) := by
  have := M_le t
  simp only [tyFuel, List.length_append]
  omega

/-- `varlink_type` with the fuel the member parsers give it -/
theorem varlinkType_tyFuel (t : Ty) (z : In) (ht : tyOK t = true) (hv : noVC t = true) (hz : stopTy z = true) :
    varlinkType (tyFuel (renderTy t ++ z)) (renderTy t ++ z) = .ok t z :=
  varlinkType_render t z _ ht hv (tyFuel_ok t z) hz

/-! ### parameter lists -/

theorem renderFields_eq (fs : List Field) : renderFields fs = renderFieldsTy fs := by
  induction fs with
  | nil => rfl
  | cons f r ih =>
    obtain ⟨n, t, cs⟩ := f
    cases r with
    | nil => simp [renderFields, joinWith, renderField, renderFieldsTy]
    | cons g gs =>
      simp only [renderFields, List.map_cons, joinWith] at ih ⊢
      rw [renderFieldsTy]
      · rw [← ih]; simp [renderField]
      · simp

theorem moreFields_length (fs : List Field) : fs.length ≤ (moreFields fs).length := by
  induction fs with
  | nil => simp [moreFields]
  | cons f r ih => simp only [moreFields, List.flatMap_cons, List.length_append, List.length_cons] at *; omega

/-- the field loop of `parameter_list` -/
theorem paramLoop_ok (fs : List Field) : ∀ (f : Field) (k : Nat) (rest : In) (acc : List Field),
    fieldsTyOK (f :: fs) = true → noVCF (f :: fs) = true → fs.length < k →
    paramList.loop k (fieldText f ++ (moreFields fs ++ 41 :: rest)) acc = .ok (acc ++ f :: fs) rest := by
  induction fs with
  | nil =>
    intro f k rest acc hok hvc hk
    obtain ⟨n, t, cs⟩ := f
    obtain ⟨hn, ht, hcs, _⟩ := fieldsTyOK_cons hok
    simp only [noVCF, Bool.and_eq_true] at hvc
    obtain ⟨k, rfl⟩ : ∃ k', k = k' + 1 := ⟨k - 1, by omega⟩
    simp only [moreFields, List.flatMap_nil, List.nil_append]
    have e : fieldText (n, t, cs) ++ 41 :: rest = renderComments cs ++ (n ++ 58 :: 32 :: (renderTy t ++ 41 :: rest)) := by
      simp [fieldText]
    have ha : alphaHead (n ++ 58 :: 32 :: (renderTy t ++ 41 :: rest)) = true := alphaHead_append _ (fieldNameOK_alphaHead hn)
    rw [e, paramList.loop, pcF_comments cs _ hcs (alphaHead_plain ha) (alphaHead_ne_nil ha)]
    simp only []
    rw [fieldName_complete n _ hn (by simp [stopsName, isAlnum, isAlpha, isDigit])]
    simp only []
    rw [wsF_plain (plainHead_cons 58 _ (by decide))]
    have hl : litB [58] (58 :: 32 :: (renderTy t ++ 41 :: rest)) = .ok () (32 :: (renderTy t ++ 41 :: rest)) := litB_append [58] _
    rw [hl]
    simp only []
    rw [wsF_space (renderTy_plain t ht _), varlinkType_tyFuel t _ ht hvc.1 (by simp [stopTy])]
    simp only []
    rw [whitespaceOnly_plain (plainHead_cons 41 rest (by decide)), litB_cons_ne 44 41 [] rest (by decide)]
    simp only []
    have hl2 : litB [41] (41 :: rest) = .ok () rest := litB_append [41] rest
    rw [hl2]
  | cons g gs ih =>
    intro f k rest acc hok hvc hk
    obtain ⟨n, t, cs⟩ := f
    obtain ⟨hn, ht, hcs, hr⟩ := fieldsTyOK_cons hok
    have hvc' := hvc
    simp only [noVCF, Bool.and_eq_true] at hvc
    obtain ⟨k, rfl⟩ : ∃ k', k = k' + 1 := ⟨k - 1, by omega⟩
    have hgn : fieldNameOK g.1 = true := by obtain ⟨gn, gt, gc⟩ := g; exact (fieldsTyOK_cons hr).1
    have em : moreFields (g :: gs) ++ 41 :: rest = 44 :: 32 :: (fieldText g ++ (moreFields gs ++ 41 :: rest)) := by
      simp [moreFields, List.flatMap_cons]
    rw [em]
    generalize hZ : fieldText g ++ (moreFields gs ++ 41 :: rest) = Z
    have e : fieldText (n, t, cs) ++ 44 :: 32 :: Z = renderComments cs ++ (n ++ 58 :: 32 :: (renderTy t ++ 44 :: 32 :: Z)) := by
      simp [fieldText]
    have ha : alphaHead (n ++ 58 :: 32 :: (renderTy t ++ 44 :: 32 :: Z)) = true := alphaHead_append _ (fieldNameOK_alphaHead hn)
    rw [e, paramList.loop, pcF_comments cs _ hcs (alphaHead_plain ha) (alphaHead_ne_nil ha)]
    simp only []
    rw [fieldName_complete n _ hn (by simp [stopsName, isAlnum, isAlpha, isDigit])]
    simp only []
    rw [wsF_plain (plainHead_cons 58 _ (by decide))]
    have hl : litB [58] (58 :: 32 :: (renderTy t ++ 44 :: 32 :: Z)) = .ok () (32 :: (renderTy t ++ 44 :: 32 :: Z)) := litB_append [58] _
    rw [hl]
    simp only []
    rw [wsF_space (renderTy_plain t ht _), varlinkType_tyFuel t _ ht hvc.1 (by simp [stopTy])]
    simp only []
    rw [whitespaceOnly_plain (plainHead_cons 44 _ (by decide))]
    have hl2 : litB [44] (44 :: 32 :: Z) = .ok () (32 :: Z) := litB_append [44] _
    rw [hl2]
    simp only []
    rw [← hZ, fieldText_plainOrComment g _ hgn]
    rw [ih g k rest (acc ++ [(n, t, cs)]) hr (by simpa [noVCF] using hvc.2) (by simp at hk; omega)]
    simp

/-- `parameter_list` reads `(fields)` back -/
theorem paramList_ok (fs : List Field) (rest : In) (hok : fieldsOK fs = true) (hvc : noVCF fs = true) :
    paramList (40 :: (renderFields fs ++ 41 :: rest)) = .ok fs rest := by
  rw [renderFields_eq]
  unfold paramList
  have hl : litB [40] (40 :: (renderFieldsTy fs ++ 41 :: rest)) = .ok () (renderFieldsTy fs ++ 41 :: rest) := litB_append [40] _
  rw [hl]
  simp only []
  cases fs with
  | nil =>
    simp only [renderFieldsTy, List.nil_append]
    rw [whitespaceOnly_plain (plainHead_cons 41 rest (by decide))]
    have hl2 : litB [41] (41 :: rest) = .ok () rest := litB_append [41] rest
    rw [hl2]
  | cons f r =>
    have hfn : fieldNameOK f.1 = true := by obtain ⟨n, t, cs⟩ := f; exact (fieldsTyOK_cons hok).1
    rw [renderFieldsTy_cons]
    have e : fieldText f ++ moreFields r ++ 41 :: rest = fieldText f ++ (moreFields r ++ 41 :: rest) := by simp
    rw [e]
    have hw : whitespaceOnly (fieldText f ++ (moreFields r ++ 41 :: rest)) = fieldText f ++ (moreFields r ++ 41 :: rest) := by
      obtain ⟨n, t, cs⟩ := f
      have e2 : fieldText (n, t, cs) ++ (moreFields r ++ 41 :: rest)
          = renderComments cs ++ (n ++ 58 :: 32 :: (renderTy t ++ (moreFields r ++ 41 :: rest))) := by simp [fieldText]
      rw [e2]
      exact whitespaceOnly_comments cs (alphaHead_plain (alphaHead_append _ (fieldNameOK_alphaHead hfn)))
    rw [hw]
    have h41 : litB [41] (fieldText f ++ (moreFields r ++ 41 :: rest)) = .err (fieldText f ++ (moreFields r ++ 41 :: rest)) := by
      apply litB_head_ne
      obtain ⟨n, t, cs⟩ := f
      cases cs with
      | nil =>
        cases n with
        | nil => simp [fieldNameOK] at hfn
        | cons c tl =>
          simp only [fieldNameOK, Bool.and_eq_true] at hfn
          have hc := hfn.1
          simp only [fieldText, renderComments, List.flatMap_nil, List.nil_append, List.cons_append, List.head?_cons, ne_eq, Option.some.injEq]
          bytes
      | cons c cs' => simp [fieldText, renderComments_cons, renderComment]
    rw [h41]
    simp only []
    have := paramLoop_ok r f ((fieldText f ++ (moreFields r ++ 41 :: rest)).length + 1) rest [] hok hvc
      (by have := moreFields_length r; simp only [List.length_append]; omega)
    simpa using this

/-! ### keywords, names and the blank after them -/

theorem ws1_space (i : In) (h : ∀ c, i.head? = some c → isAsciiWs c = false) : ws1 (32 :: i) = .ok () i := by
  unfold ws1
  have : (32 :: i).dropWhile isAsciiWs = i := by
    rw [List.dropWhile_cons, if_pos (by decide)]
    cases i with
    | nil => rfl
    | cons c t => rw [List.dropWhile_cons, if_neg (by simp [h c rfl])]
  rw [this, if_neg (by simp)]

theorem upper_not_asciiWs (n : In) (z : In) (h : typeNameOK n = true) :
    ∀ c, (n ++ z).head? = some c → isAsciiWs c = false := by
  obtain ⟨c, tl, e, hc⟩ := typeNameOK_head h
  intro d hd
  rw [e] at hd
  simp at hd
  subst hd
  bytes

theorem typeName_then (n z : In) (c : Byte) (h : typeNameOK n = true) (hc : isAlnum c = false) :
    typeName (n ++ c :: z) = .ok n (c :: z) :=
  typeName_complete n (c :: z) h (by intro d hd; simp at hd; subst hd; exact hc)

/-! ### `error` definitions -/

def noVCErr (e : Err) : Bool := noVCF e.fs
def errOK (e : Err) : Bool := typeNameOK e.name && fieldsOK e.fs && e.cs.all commentOK

theorem errorDef_ok (e : Err) (rest : In) (hok : errOK e = true) (hvc : noVCErr e = true) :
    errorDef (renderErr e ++ rest) = .ok e rest := by
  obtain ⟨name, fs, cs⟩ := e
  simp only [errOK, Bool.and_eq_true] at hok
  obtain ⟨⟨hn, hf⟩, hcs⟩ := hok
  have e1 : renderErr ⟨name, fs, cs⟩ ++ rest
      = renderComments cs ++ (([101, 114, 114, 111, 114] : In) ++ 32 :: (name ++ 32 :: 40 :: (renderFields fs ++ 41 :: rest))) := by
    simp [renderErr]
  unfold errorDef
  rw [e1, pcF_comments cs _ hcs (plainHead_append _ (by simp) (by decide)) (by simp)]
  simp only []
  rw [litB_append [101, 114, 114, 111, 114] _]
  simp only []
  rw [ws1_space _ (upper_not_asciiWs name _ hn)]
  simp only []
  rw [typeName_then name _ 32 hn (by decide)]
  simp only []
  rw [wsF_space (plainHead_cons 40 _ (by decide)), paramList_ok fs rest hf hvc]

/-! ### `method` definitions -/

def noVCMethod (m : Method) : Bool := noVCF m.ins && noVCF m.outs
def methodOK (m : Method) : Bool := typeNameOK m.name && fieldsOK m.ins && fieldsOK m.outs && m.cs.all commentOK

theorem methodDef_ok (m : Method) (rest : In) (hok : methodOK m = true) (hvc : noVCMethod m = true) :
    methodDef (renderMethod m ++ rest) = .ok m rest := by
  obtain ⟨name, ins, outs, cs⟩ := m
  simp only [methodOK, Bool.and_eq_true] at hok
  obtain ⟨⟨⟨hn, hi⟩, ho⟩, hcs⟩ := hok
  simp only [noVCMethod, Bool.and_eq_true] at hvc
  have e1 : renderMethod ⟨name, ins, outs, cs⟩ ++ rest
      = renderComments cs ++ (([109, 101, 116, 104, 111, 100] : In) ++ 32 :: (name ++ 40 :: (renderFields ins ++
          41 :: 32 :: (([45, 62] : In) ++ 32 :: 40 :: (renderFields outs ++ 41 :: rest))))) := by
    simp [renderMethod]
  unfold methodDef
  rw [e1, pcF_comments cs _ hcs (plainHead_append _ (by simp) (by decide)) (by simp)]
  simp only []
  rw [litB_append [109, 101, 116, 104, 111, 100] _]
  simp only []
  rw [ws1_space _ (upper_not_asciiWs name _ hn)]
  simp only []
  rw [typeName_then name _ 40 hn (by decide)]
  simp only []
  rw [wsF_plain (plainHead_cons 40 _ (by decide)), paramList_ok ins _ hi hvc.1]
  simp only []
  rw [wsF_space (plainHead_append _ (by simp) (by decide)), litB_append [45, 62] _]
  simp only []
  rw [wsF_space (plainHead_cons 40 _ (by decide)), paramList_ok outs rest ho hvc.2]

/-! ### `type` definitions -/

theorem joinWith_cons_flat (sep x : In) (xs : List In) :
    joinWith sep (x :: xs) = x ++ xs.flatMap (fun y => sep ++ y) := by
  induction xs generalizing x with
  | nil => simp [joinWith]
  | cons y ys ih =>
    rw [joinWith, ih y]
    · simp [List.flatMap_cons]
    · simp

/-- the member loop of `type_def` on the fields of an object type -/
theorem tdLoopObj_ok (cs0 : List In) (nm : In) (fs : List Field) :
    ∀ (f : Field) (k : Nat) (rest : In) (acc : List Field),
    fieldsTyOK (f :: fs) = true → noVCF (f :: fs) = true → fs.length < k →
    typeDef.loop cs0 nm k (fieldText f ++ (moreFields fs ++ 41 :: rest)) acc [] = .ok (.obj nm (acc ++ f :: fs) cs0) rest := by
  induction fs with
  | nil =>
    intro f k rest acc hok hvc hk
    obtain ⟨n, t, cs⟩ := f
    obtain ⟨hn, ht, hcs, _⟩ := fieldsTyOK_cons hok
    simp only [noVCF, Bool.and_eq_true] at hvc
    obtain ⟨k, rfl⟩ : ∃ k', k = k' + 1 := ⟨k - 1, by omega⟩
    simp only [moreFields, List.flatMap_nil, List.nil_append]
    have e : fieldText (n, t, cs) ++ 41 :: rest = renderComments cs ++ (n ++ 58 :: 32 :: (renderTy t ++ 41 :: rest)) := by
      simp [fieldText]
    have ha : alphaHead (n ++ 58 :: 32 :: (renderTy t ++ 41 :: rest)) = true := alphaHead_append _ (fieldNameOK_alphaHead hn)
    rw [e, typeDef.loop, pcF_comments cs _ hcs (alphaHead_plain ha) (alphaHead_ne_nil ha)]
    simp only []
    rw [fieldName_complete n _ hn (by simp [stopsName, isAlnum, isAlpha, isDigit])]
    simp only []
    rw [whitespaceOnly_plain (plainHead_cons 58 _ (by decide))]
    have hl : litB [58] (58 :: 32 :: (renderTy t ++ 41 :: rest)) = .ok () (32 :: (renderTy t ++ 41 :: rest)) := litB_append [58] _
    rw [hl]
    simp only []
    rw [whitespaceOnly_space (renderTy_plain t ht _), varlinkType_tyFuel t _ ht hvc.1 (by simp [stopTy])]
    simp only []
    rw [whitespaceOnly_plain (plainHead_cons 41 rest (by decide)), litB_cons_ne 44 41 [] rest (by decide)]
    simp only []
    have hl2 : litB [41] (41 :: rest) = .ok () rest := litB_append [41] rest
    rw [hl2]
    simp
  | cons g gs ih =>
    intro f k rest acc hok hvc hk
    obtain ⟨n, t, cs⟩ := f
    obtain ⟨hn, ht, hcs, hr⟩ := fieldsTyOK_cons hok
    simp only [noVCF, Bool.and_eq_true] at hvc
    obtain ⟨k, rfl⟩ : ∃ k', k = k' + 1 := ⟨k - 1, by omega⟩
    have hgn : fieldNameOK g.1 = true := by obtain ⟨gn, gt, gc⟩ := g; exact (fieldsTyOK_cons hr).1
    have em : moreFields (g :: gs) ++ 41 :: rest = 44 :: 32 :: (fieldText g ++ (moreFields gs ++ 41 :: rest)) := by
      simp [moreFields, List.flatMap_cons]
    rw [em]
    generalize hZ : fieldText g ++ (moreFields gs ++ 41 :: rest) = Z
    have e : fieldText (n, t, cs) ++ 44 :: 32 :: Z = renderComments cs ++ (n ++ 58 :: 32 :: (renderTy t ++ 44 :: 32 :: Z)) := by
      simp [fieldText]
    have ha : alphaHead (n ++ 58 :: 32 :: (renderTy t ++ 44 :: 32 :: Z)) = true := alphaHead_append _ (fieldNameOK_alphaHead hn)
    rw [e, typeDef.loop, pcF_comments cs _ hcs (alphaHead_plain ha) (alphaHead_ne_nil ha)]
    simp only []
    rw [fieldName_complete n _ hn (by simp [stopsName, isAlnum, isAlpha, isDigit])]
    simp only []
    rw [whitespaceOnly_plain (plainHead_cons 58 _ (by decide))]
    have hl : litB [58] (58 :: 32 :: (renderTy t ++ 44 :: 32 :: Z)) = .ok () (32 :: (renderTy t ++ 44 :: 32 :: Z)) := litB_append [58] _
    rw [hl]
    simp only []
    rw [whitespaceOnly_space (renderTy_plain t ht _), varlinkType_tyFuel t _ ht hvc.1 (by simp [stopTy])]
    simp only []
    rw [whitespaceOnly_plain (plainHead_cons 44 _ (by decide))]
    have hl2 : litB [44] (44 :: 32 :: Z) = .ok () (32 :: Z) := litB_append [44] _
    rw [hl2]
    simp only []
    rw [← hZ, fieldText_plainOrComment g _ hgn]
    rw [ih g k rest (acc ++ [(n, t, cs)]) hr (by simpa [noVCF] using hvc.2) (by simp at hk; omega)]
    simp

/-- text of one variant of a custom enum in the reference form: its comments, then the name -/
def variantText (v : In × List In) : In := renderComments v.2 ++ v.1
def moreVars (vs : List (In × List In)) : In := vs.flatMap fun v => ([44, 32] : In) ++ variantText v

def variantOK (v : In × List In) : Bool := fieldNameOK v.1 && v.2.all commentOK

theorem stopTy_moreVars (vs : List (In × List In)) (rest : In) : stopTy (moreVars vs ++ 41 :: rest) = true := by
  cases vs with
  | nil => simp [moreVars, stopTy]
  | cons w ws => simp [moreVars, List.flatMap_cons, stopTy]

theorem variantText_ws (v : In × List In) (z : In) (hv : variantOK v = true) :
    whitespaceOnly (32 :: (variantText v ++ z)) = variantText v ++ z := by
  simp only [variantOK, Bool.and_eq_true] at hv
  show multispace0 (32 :: _) = _
  rw [multispace0_cons_ws 32 _ (by decide)]
  have e : variantText v ++ z = renderComments v.2 ++ (v.1 ++ z) := by simp [variantText]
  rw [e]
  exact whitespaceOnly_comments v.2 (alphaHead_plain (alphaHead_append _ (fieldNameOK_alphaHead hv.1)))

/-- the member loop of `type_def` on the variants of an enum type -/
theorem tdLoopEnm_ok (cs0 : List In) (nm : In) (vs : List (In × List In)) :
    ∀ (v : In × List In) (k : Nat) (rest : In) (acc : List (In × List In)),
    (v :: vs).all variantOK = true → vs.length < k →
    typeDef.loop cs0 nm k (variantText v ++ (moreVars vs ++ 41 :: rest)) [] acc = .ok (.enm nm (acc ++ v :: vs) cs0) rest := by
  induction vs with
  | nil =>
    intro v k rest acc hok hk
    obtain ⟨n, cs⟩ := v
    simp only [List.all_cons, List.all_nil, Bool.and_true, variantOK, Bool.and_eq_true] at hok
    obtain ⟨hn, hcs⟩ := hok
    obtain ⟨k, rfl⟩ : ∃ k', k = k' + 1 := ⟨k - 1, by omega⟩
    simp only [moreVars, List.flatMap_nil, List.nil_append]
    have e : variantText (n, cs) ++ 41 :: rest = renderComments cs ++ (n ++ 41 :: rest) := by simp [variantText]
    have ha : alphaHead (n ++ 41 :: rest) = true := alphaHead_append _ (fieldNameOK_alphaHead hn)
    rw [e, typeDef.loop, pcF_comments cs _ hcs (alphaHead_plain ha) (alphaHead_ne_nil ha)]
    simp only []
    rw [fieldName_complete n _ hn (by simp [stopsName, isAlnum, isAlpha, isDigit])]
    simp only []
    rw [whitespaceOnly_plain (plainHead_cons 41 rest (by decide)), litB_cons_ne 58 41 [] rest (by decide)]
    simp only []
    rw [whitespaceOnly_plain (plainHead_cons 41 rest (by decide)), litB_cons_ne 44 41 [] rest (by decide)]
    simp only []
    have hl2 : litB [41] (41 :: rest) = .ok () rest := litB_append [41] rest
    rw [hl2]
    simp
  | cons w ws ih =>
    intro v k rest acc hok hk
    obtain ⟨n, cs⟩ := v
    rw [List.all_cons] at hok
    simp only [Bool.and_eq_true] at hok
    obtain ⟨hv, hr⟩ := hok
    have hw : variantOK w = true := by rw [List.all_cons] at hr; simp only [Bool.and_eq_true] at hr; exact hr.1
    simp only [variantOK, Bool.and_eq_true] at hv
    obtain ⟨hn, hcs⟩ := hv
    obtain ⟨k, rfl⟩ : ∃ k', k = k' + 1 := ⟨k - 1, by omega⟩
    have em : moreVars (w :: ws) ++ 41 :: rest = 44 :: 32 :: (variantText w ++ (moreVars ws ++ 41 :: rest)) := by
      simp [moreVars, List.flatMap_cons]
    rw [em]
    generalize hZ : variantText w ++ (moreVars ws ++ 41 :: rest) = Z
    have e : variantText (n, cs) ++ 44 :: 32 :: Z = renderComments cs ++ (n ++ 44 :: 32 :: Z) := by simp [variantText]
    have ha : alphaHead (n ++ 44 :: 32 :: Z) = true := alphaHead_append _ (fieldNameOK_alphaHead hn)
    rw [e, typeDef.loop, pcF_comments cs _ hcs (alphaHead_plain ha) (alphaHead_ne_nil ha)]
    simp only []
    rw [fieldName_complete n _ hn (by simp [stopsName, isAlnum, isAlpha, isDigit])]
    simp only []
    rw [whitespaceOnly_plain (plainHead_cons 44 _ (by decide)), litB_cons_ne 58 44 [] _ (by decide)]
    simp only []
    rw [whitespaceOnly_plain (plainHead_cons 44 _ (by decide))]
    have hl2 : litB [44] (44 :: 32 :: Z) = .ok () (32 :: Z) := litB_append [44] _
    rw [hl2]
    simp only []
    rw [← hZ, variantText_ws w _ hw]
    rw [ih w k rest (acc ++ [(n, cs)]) hr (by simp at hk; omega)]
    simp

theorem litB1 (a : Byte) (r : In) : litB [a] (a :: r) = .ok () r := litB_append [a] r

def ctOK : CT → Bool
  | .obj n fs cs => typeNameOK n && fieldsOK fs && cs.all commentOK
  | .enm n vs cs => typeNameOK n && !vs.isEmpty && vs.all (fun v => fieldNameOK v.1 && v.2.all commentOK) && cs.all commentOK

/-- no inline enum with commented variants inside the fields of a custom type -/
def noVCCT : CT → Bool
  | .obj _ fs _ => noVCF fs
  | .enm _ _ _ => true

theorem moreVars_length (vs : List (In × List In)) : vs.length ≤ (moreVars vs).length := by
  induction vs with
  | nil => simp [moreVars]
  | cons f r ih => simp only [moreVars, List.flatMap_cons, List.length_append, List.length_cons] at *; omega

theorem head_not_41_of_text (cs : List In) (n z : In) (hn : fieldNameOK n = true) :
    (renderComments cs ++ (n ++ z)).head? ≠ some 41 := by
  cases cs with
  | nil =>
    cases n with
    | nil => simp [fieldNameOK] at hn
    | cons c tl =>
      simp only [fieldNameOK, Bool.and_eq_true] at hn
      have hc := hn.1
      simp only [renderComments, List.flatMap_nil, List.nil_append, List.cons_append, List.head?_cons, ne_eq, Option.some.injEq]
      bytes
  | cons c cs' => simp [renderComments_cons, renderComment]

/-- `type_def` reads the reference text of a custom type back -/
theorem typeDef_ok (t : CT) (rest : In) (hok : ctOK t = true) (hvc : noVCCT t = true) :
    typeDef (refCT t ++ rest) = .ok t rest := by
  cases t with
  | obj name fs cs =>
    simp only [ctOK, Bool.and_eq_true] at hok
    obtain ⟨⟨hn, hf⟩, hcs⟩ := hok
    simp only [noVCCT] at hvc
    have e1 : refCT (.obj name fs cs) ++ rest
        = renderComments cs ++ (([116, 121, 112, 101] : In) ++ 32 :: (name ++ 32 :: 40 :: (renderFieldsTy fs ++ 41 :: rest))) := by
      simp [refCT, renderCT, renderFields_eq]
    unfold typeDef
    rw [e1, pcF_comments cs _ hcs (plainHead_append _ (by simp) (by decide)) (by simp)]
    simp only []
    rw [litB_append [116, 121, 112, 101] _]
    simp only []
    rw [ws1_space _ (upper_not_asciiWs name _ hn)]
    simp only []
    rw [typeName_then name _ 32 hn (by decide)]
    simp only []
    rw [wsF_space (plainHead_cons 40 _ (by decide)), litB1 40 _]
    simp only []
    cases fs with
    | nil =>
      simp only [renderFieldsTy, List.nil_append]
      rw [whitespaceOnly_plain (plainHead_cons 41 rest (by decide)), litB1 41 rest]
    | cons f r =>
      have hfn : fieldNameOK f.1 = true := by obtain ⟨n, t, cs⟩ := f; exact (fieldsTyOK_cons hf).1
      rw [renderFieldsTy_cons]
      have e : fieldText f ++ moreFields r ++ 41 :: rest = fieldText f ++ (moreFields r ++ 41 :: rest) := by simp
      rw [e]
      have e2 : fieldText f ++ (moreFields r ++ 41 :: rest)
          = renderComments f.2.2 ++ (f.1 ++ (58 :: 32 :: (renderTy f.2.1 ++ (moreFields r ++ 41 :: rest)))) := by simp [fieldText]
      have hw : whitespaceOnly (fieldText f ++ (moreFields r ++ 41 :: rest)) = fieldText f ++ (moreFields r ++ 41 :: rest) := by
        rw [e2]
        exact whitespaceOnly_comments _ (alphaHead_plain (alphaHead_append _ (fieldNameOK_alphaHead hfn)))
      rw [hw]
      have h41 : litB [41] (fieldText f ++ (moreFields r ++ 41 :: rest)) = .err (fieldText f ++ (moreFields r ++ 41 :: rest)) := by
        apply litB_head_ne
        rw [e2]
        exact head_not_41_of_text _ _ _ hfn
      rw [h41]
      simp only []
      have := tdLoopObj_ok cs name r f ((fieldText f ++ (moreFields r ++ 41 :: rest)).length + 1) rest [] hf hvc
        (by have := moreFields_length r; simp only [List.length_append]; omega)
      simpa using this
  | enm name vs cs =>
    simp only [ctOK, Bool.and_eq_true, Bool.not_eq_true', List.isEmpty_eq_false_iff] at hok
    obtain ⟨⟨⟨hn, hne⟩, hvs⟩, hcs⟩ := hok
    cases vs with
    | nil => exact absurd rfl hne
    | cons v r =>
      have hall : (v :: r).all variantOK = true := hvs
      have hv : variantOK v = true := by rw [List.all_cons] at hall; simp only [Bool.and_eq_true] at hall; exact hall.1
      have e1 : refCT (.enm name (v :: r) cs) ++ rest
          = renderComments cs ++ (([116, 121, 112, 101] : In) ++ 32 :: (name ++ 32 :: 40 :: (variantText v ++ (moreVars r ++ 41 :: rest)))) := by
        simp only [refCT, List.map_cons]
        rw [joinWith_cons_flat]
        simp [variantText, moreVars, List.flatMap_map]
      unfold typeDef
      rw [e1, pcF_comments cs _ hcs (plainHead_append _ (by simp) (by decide)) (by simp)]
      simp only []
      rw [litB_append [116, 121, 112, 101] _]
      simp only []
      rw [ws1_space _ (upper_not_asciiWs name _ hn)]
      simp only []
      rw [typeName_then name _ 32 hn (by decide)]
      simp only []
      rw [wsF_space (plainHead_cons 40 _ (by decide)), litB1 40 _]
      simp only []
      simp only [variantOK, Bool.and_eq_true] at hv
      have e2 : variantText v ++ (moreVars r ++ 41 :: rest) = renderComments v.2 ++ (v.1 ++ (moreVars r ++ 41 :: rest)) := by
        simp [variantText]
      have hw : whitespaceOnly (variantText v ++ (moreVars r ++ 41 :: rest)) = variantText v ++ (moreVars r ++ 41 :: rest) := by
        rw [e2]
        exact whitespaceOnly_comments _ (alphaHead_plain (alphaHead_append _ (fieldNameOK_alphaHead hv.1)))
      rw [hw]
      have h41 : litB [41] (variantText v ++ (moreVars r ++ 41 :: rest)) = .err (variantText v ++ (moreVars r ++ 41 :: rest)) := by
        apply litB_head_ne
        rw [e2]
        exact head_not_41_of_text _ _ _ hv.1
      rw [h41]
      simp only []
      have := tdLoopEnm_ok cs name r v ((variantText v ++ (moreVars r ++ 41 :: rest)).length + 1) rest [] hall
        (by have := moreVars_length r; simp only [List.length_append]; omega)
      simpa using this

/-- without variant comments the `Display` form of a custom type is its reference text -/
theorem renderCT_eq_refCT (t : CT) (h : match t with | .enm _ vs _ => vs.all (fun v => v.2.isEmpty) | _ => true) :
    renderCT t = refCT t := by
  cases t with
  | obj n fs cs => rfl
  | enm n vs cs =>
    simp only at h
    have hany : (vs.any fun v => !v.2.isEmpty) = false := by
      simp only [List.any_eq_false, Bool.not_eq_true, Bool.not_eq_false']
      intro x hx
      simp only [List.all_eq_true] at h
      simpa using h x hx
    have hm : vs.map (fun v => renderComments v.2 ++ v.1) = vs.map (·.1) := by
      apply List.map_congr_left
      intro x hx
      simp only [List.all_eq_true, List.isEmpty_iff] at h
      simp [h x hx, renderComments]
    simp only [renderCT, refCT, hany, hm]
    simp

end Idl
