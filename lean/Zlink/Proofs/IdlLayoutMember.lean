import Zlink.Proofs.IdlLayoutTy
/-! Arbitrary inter-token layout, part 3: parameter lists and the three kinds of members. -/
namespace Idl
open SpecIdl

/-- text of a parenthesised field list: `(` gap `)` or `(` gap field (gap `,` gap field)* gap `)` -/
inductive ParamsL : List Field → In → Prop
  | nil {g} : wsOnly g = true → ParamsL [] (40 :: (g ++ [41]))
  | cons {f fs g0 s1 s2} : wsOnly g0 = true → FieldL f s1 → FieldsMoreL fs s2 →
      ParamsL (f :: fs) (40 :: (g0 ++ (s1 ++ s2)))

theorem FieldL.head_not_41 {f : Field} {s : In} (h : FieldL f s) (z : In) : (s ++ z).head? ≠ some 41 := by
  cases h with
  | @mk n t cs sc st g1 g2 hc hn _ _ _ =>
    cases hc with
    | nil =>
      cases n with
      | nil => simp [fieldNameOK] at hn
      | cons c tl =>
        simp only [fieldNameOK, Bool.and_eq_true] at hn
        have hc := hn.1
        simp only [List.nil_append, List.cons_append, List.head?_cons, ne_eq, Option.some.injEq]
        bytes
    | cons _ _ _ _ => simp

theorem FieldsMoreL.length_le {fs : List Field} {s : In} (h : FieldsMoreL fs s) : fs.length ≤ s.length := by
  match fs, s, h with
  | _, _, .done _ => simp
  | _, _, .more _ _ _ hm => have := hm.length_le; simp only [List.length_cons, List.length_append]; omega

/-- the field loop of `parameter_list`, for every layout -/
theorem paramLoopL_ok : ∀ (fs : List Field) (f : Field) (s1 s2 : In), FieldL f s1 → FieldsMoreL fs s2 →
    ∀ (k : Nat) (rest : In) (acc : List Field), fs.length < k →
    paramList.loop k (s1 ++ (s2 ++ rest)) acc = .ok (acc ++ f :: fs) rest := by
  intro fs
  induction fs with
  | nil =>
    intro f s1 s2 hf hm k rest acc hk
    obtain ⟨k, rfl⟩ : ∃ k', k = k' + 1 := ⟨k - 1, by omega⟩
    cases hm with
    | @done g hg =>
      cases hf with
      | @mk n t cs sc st g1 g2 hc hn h1 h2 ht =>
        have e : sc ++ (n ++ (g1 ++ 58 :: (g2 ++ st))) ++ (g ++ [41] ++ rest)
            = sc ++ (n ++ (g1 ++ 58 :: (g2 ++ (st ++ (g ++ 41 :: rest))))) := by simp
        have ha : alphaHead (n ++ (g1 ++ 58 :: (g2 ++ (st ++ (g ++ 41 :: rest))))) = true := alphaHead_append _ (fieldNameOK_alphaHead hn)
        rw [e, paramList.loop, pcF_commentsL hc _ (alphaHead_plain ha) (alphaHead_ne_nil ha)]
        simp only []
        rw [fieldName_complete n _ hn (punctHead_stopsName (gap_punct g1 58 _ h1 (by decide)))]
        simp only []
        rw [wsF_gap g1 _ h1 (plainHead_cons 58 _ (by decide)), litB1 58 _]
        simp only []
        rw [wsF_gap g2 _ h2 (ht.plain _), varlinkType_tyFuelL ht _ ⟨g, 41 :: rest, rfl, hg, rfl⟩]
        simp only []
        rw [whitespaceOnly_gap g _ hg (plainHead_nonWs (plainHead_cons 41 rest (by decide))),
          litB_cons_ne 44 41 [] rest (by decide)]
        simp only []
        rw [litB1 41 rest]
  | cons f' fs ih =>
    intro f s1 s2 hf hm k rest acc hk
    obtain ⟨k, rfl⟩ : ∃ k', k = k' + 1 := ⟨k - 1, by omega⟩
    cases hm with
    | @more _ _ g1' g2' s1' s2' h1' h2' hf' hm' =>
      cases hf with
      | @mk n t cs sc st g1 g2 hc hn h1 h2 ht =>
        generalize hZ : s1' ++ (s2' ++ rest) = Z
        have e : sc ++ (n ++ (g1 ++ 58 :: (g2 ++ st))) ++ (g1' ++ 44 :: (g2' ++ (s1' ++ s2')) ++ rest)
            = sc ++ (n ++ (g1 ++ 58 :: (g2 ++ (st ++ (g1' ++ 44 :: (g2' ++ Z)))))) := by rw [← hZ]; simp
        have ha : alphaHead (n ++ (g1 ++ 58 :: (g2 ++ (st ++ (g1' ++ 44 :: (g2' ++ Z)))))) = true := alphaHead_append _ (fieldNameOK_alphaHead hn)
        rw [e, paramList.loop, pcF_commentsL hc _ (alphaHead_plain ha) (alphaHead_ne_nil ha)]
        simp only []
        rw [fieldName_complete n _ hn (punctHead_stopsName (gap_punct g1 58 _ h1 (by decide)))]
        simp only []
        rw [wsF_gap g1 _ h1 (plainHead_cons 58 _ (by decide)), litB1 58 _]
        simp only []
        rw [wsF_gap g2 _ h2 (ht.plain _), varlinkType_tyFuelL ht _ ⟨g1', 44 :: (g2' ++ Z), rfl, h1', rfl⟩]
        simp only []
        rw [whitespaceOnly_gap g1' _ h1' (plainHead_nonWs (plainHead_cons 44 _ (by decide))), litB1 44 _]
        simp only []
        rw [← hZ, whitespaceOnly_gap g2' _ h2' (hf'.nonWs _)]
        rw [ih f' s1' s2' hf' hm' k rest (acc ++ [(n, t, cs)]) (by simp at hk; omega)]
        simp

/-- `parameter_list` reads every layout of a field list back -/
theorem paramListL_ok {fs : List Field} {s : In} (h : ParamsL fs s) (rest : In) :
    paramList (s ++ rest) = .ok fs rest := by
  cases h with
  | @nil g hg =>
    have e : 40 :: (g ++ [41]) ++ rest = 40 :: (g ++ 41 :: rest) := by simp
    rw [e]
    unfold paramList
    rw [litB1 40 _]
    simp only []
    rw [whitespaceOnly_gap g _ hg (plainHead_nonWs (plainHead_cons 41 rest (by decide))), litB1 41 rest]
  | @cons f fs g0 s1 s2 hg0 hf hm =>
    have e : 40 :: (g0 ++ (s1 ++ s2)) ++ rest = 40 :: (g0 ++ (s1 ++ (s2 ++ rest))) := by simp
    rw [e]
    unfold paramList
    rw [litB1 40 _]
    simp only []
    rw [whitespaceOnly_gap g0 _ hg0 (hf.nonWs _)]
    rw [litB_head_ne 41 [] _ (hf.head_not_41 _)]
    simp only []
    have := paramLoopL_ok fs f s1 s2 hf hm ((s1 ++ (s2 ++ rest)).length + 1) rest []
      (by have := hm.length_le; simp only [List.length_append]; omega)
    simpa using this

end Idl
