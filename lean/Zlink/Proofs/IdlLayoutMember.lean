import Zlink.Proofs.IdlLayoutTy
/-! Arbitrary inter-token layout, part 3: parameter lists and the three kinds of members. -/
namespace Idl
open SpecIdl

/-- text of a parenthesised field list: `(` gap `)` or `(` gap field (gap `,` gap field)* gap `)` -/
inductive ParamsL : List Field → In → Prop
  | nil {g} : wsOnly g = true → ParamsL [] (40 :: (g ++ [41]))
  | cons {f fs g0 s1 s2} : wsOnly g0 = true → FieldL f s1 → FieldsMoreL fs s2 →
      ParamsL (f :: fs) (40 :: (g0 ++ (s1 ++ s2)))

theorem FieldL.head_not_41 {f : Field} {s : In} (h : FieldL f s) (z : In) : (s ++ z).head? ≠ some 41 := by
  cases h with
  | @mk n t cs sc st g1 g2 hc hn _ _ _ =>
    cases hc with
    | nil =>
      cases n with
      | nil => simp [fieldNameOK] at hn
      | cons c tl =>
        simp only [fieldNameOK, Bool.and_eq_true] at hn
        have hc := hn.1
        simp only [List.nil_append, List.cons_append, List.head?_cons, ne_eq, Option.some.injEq]
        bytes
    | cons _ _ _ _ => simp

theorem FieldsMoreL.length_le {fs : List Field} {s : In} (h : FieldsMoreL fs s) : fs.length ≤ s.length := by
  match fs, s, h with
  | _, _, .done _ => simp
  | _, _, .more _ _ _ hm => have := hm.length_le; simp only [List.length_cons, List.length_append]; omega

/-- the field loop of `parameter_list`, for every layout -/
theorem paramLoopL_ok : ∀ (fs : List Field) (f : Field) (s1 s2 : In), FieldL f s1 → FieldsMoreL fs s2 →
    ∀ (k : Nat) (rest : In) (acc : List Field), fs.length < k →
    paramList.loop k (s1 ++ (s2 ++ rest)) acc = .ok (acc ++ f :: fs) rest := by
  intro fs
  induction fs with
  | nil =>
    intro f s1 s2 hf hm k rest acc hk
    obtain ⟨k, rfl⟩ : ∃ k', k = k' + 1 := ⟨k - 1, by omega⟩
    cases hm with
    | @done g hg =>
      cases hf with
      | @mk n t cs sc st g1 g2 hc hn h1 h2 ht =>
        have e : sc ++ (n ++ (g1 ++ 58 :: (g2 ++ st))) ++ (g ++ [41] ++ rest)
            = sc ++ (n ++ (g1 ++ 58 :: (g2 ++ (st ++ (g ++ 41 :: rest))))) := by simp
        have ha : alphaHead (n ++ (g1 ++ 58 :: (g2 ++ (st ++ (g ++ 41 :: rest))))) = true := alphaHead_append _ (fieldNameOK_alphaHead hn)
        rw [e, paramList.loop, pcF_commentsL hc _ (alphaHead_plain ha) (alphaHead_ne_nil ha)]
        simp only []
        rw [fieldName_complete n _ hn (punctHead_stopsName (gap_punct g1 58 _ h1 (by decide)))]
        simp only []
        rw [wsF_gap g1 _ h1 (plainHead_cons 58 _ (by decide)), litB1 58 _]
        simp only []
        rw [wsF_gap g2 _ h2 (ht.plain _), varlinkType_tyFuelL ht _ ⟨g, 41 :: rest, rfl, hg, rfl⟩]
        simp only []
        rw [whitespaceOnly_gap g _ hg (plainHead_nonWs (plainHead_cons 41 rest (by decide))),
          litB_cons_ne 44 41 [] rest (by decide)]
        simp only []
        rw [litB1 41 rest]
  | cons f' fs ih =>
    intro f s1 s2 hf hm k rest acc hk
    obtain ⟨k, rfl⟩ : ∃ k', k = k' + 1 := ⟨k - 1, by omega⟩
    cases hm with
    | @more _ _ g1' g2' s1' s2' h1' h2' hf' hm' =>
      cases hf with
      | @mk n t cs sc st g1 g2 hc hn h1 h2 ht =>
        generalize hZ : s1' ++ (s2' ++ rest) = Z
        have e : sc ++ (n ++ (g1 ++ 58 :: (g2 ++ st))) ++ (g1' ++ 44 :: (g2' ++ (s1' ++ s2')) ++ rest)
            = sc ++ (n ++ (g1 ++ 58 :: (g2 ++ (st ++ (g1' ++ 44 :: (g2' ++ Z)))))) := by rw [← hZ]; simp
        have ha : alphaHead (n ++ (g1 ++ 58 :: (g2 ++ (st ++ (g1' ++ 44 :: (g2' ++ Z)))))) = true := alphaHead_append _ (fieldNameOK_alphaHead hn)
        rw [e, paramList.loop, pcF_commentsL hc _ (alphaHead_plain ha) (alphaHead_ne_nil ha)]
        simp only []
        rw [fieldName_complete n _ hn (punctHead_stopsName (gap_punct g1 58 _ h1 (by decide)))]
        simp only []
        rw [wsF_gap g1 _ h1 (plainHead_cons 58 _ (by decide)), litB1 58 _]
        simp only []
        rw [wsF_gap g2 _ h2 (ht.plain _), varlinkType_tyFuelL ht _ ⟨g1', 44 :: (g2' ++ Z), rfl, h1', rfl⟩]
        simp only []
        rw [whitespaceOnly_gap g1' _ h1' (plainHead_nonWs (plainHead_cons 44 _ (by decide))), litB1 44 _]
        simp only []
        rw [← hZ, whitespaceOnly_gap g2' _ h2' (hf'.nonWs _)]
        rw [ih f' s1' s2' hf' hm' k rest (acc ++ [(n, t, cs)]) (by simp at hk; omega)]
        simp

/-- `parameter_list` reads every layout of a field list back -/
theorem paramListL_ok {fs : List Field} {s : In} (h : ParamsL fs s) (rest : In) :
    paramList (s ++ rest) = .ok fs rest := by
  cases h with
  | @nil g hg =>
    have e : 40 :: (g ++ [41]) ++ rest = 40 :: (g ++ 41 :: rest) := by simp
    rw [e]
    unfold paramList
    rw [litB1 40 _]
    simp only []
    rw [whitespaceOnly_gap g _ hg (plainHead_nonWs (plainHead_cons 41 rest (by decide))), litB1 41 rest]
  | @cons f fs g0 s1 s2 hg0 hf hm =>
    have e : 40 :: (g0 ++ (s1 ++ s2)) ++ rest = 40 :: (g0 ++ (s1 ++ (s2 ++ rest))) := by simp
    rw [e]
    unfold paramList
    rw [litB1 40 _]
    simp only []
    rw [whitespaceOnly_gap g0 _ hg0 (hf.nonWs _)]
    rw [litB_head_ne 41 [] _ (hf.head_not_41 _)]
    simp only []
    have := paramLoopL_ok fs f s1 s2 hf hm ((s1 ++ (s2 ++ rest)).length + 1) rest []
      (by have := hm.length_le; simp only [List.length_append]; omega)
    simpa using this

/-! ### names after keywords -/

/-- what follows a type or member name: a gap, then `(` — never a letter or digit -/
theorem gap_paren_notAlnum (g : In) (t : In) (hg : wsOnly g = true) :
    ∀ c, (g ++ 40 :: t).head? = some c → isAlnum c = false := by
  intro c hc
  cases g with
  | nil => simp at hc; subst hc; decide
  | cons a r =>
    simp only [wsOnly, List.all_cons, Bool.and_eq_true] at hg
    simp at hc; subst hc
    have := hg.1
    bytes

theorem typeName_gap_paren (n g t : In) (hn : typeNameOK n = true) (hg : wsOnly g = true) :
    typeName (n ++ (g ++ 40 :: t)) = .ok n (g ++ 40 :: t) :=
  typeName_complete n _ hn (gap_paren_notAlnum g t hg)

/-! ### `error` and `method` definitions -/

inductive ErrL : Err → In → Prop
  | mk {name fs cs sc g1 g2 sp} : CommentsL cs sc → gap1OK g1 = true → typeNameOK name = true → wsOnly g2 = true →
      ParamsL fs sp →
      ErrL ⟨name, fs, cs⟩ (sc ++ (([101, 114, 114, 111, 114] : In) ++ (g1 ++ (name ++ (g2 ++ sp)))))

theorem ParamsL.head {fs : List Field} {s : In} (h : ParamsL fs s) : ∃ t, s = 40 :: t := by
  cases h with
  | nil _ => exact ⟨_, rfl⟩
  | cons _ _ _ => exact ⟨_, rfl⟩

theorem errorDefL_ok {e : Err} {s : In} (h : ErrL e s) (rest : In) : errorDef (s ++ rest) = .ok e rest := by
  cases h with
  | @mk name fs cs sc g1 g2 sp hc h1 hn h2 hp =>
    obtain ⟨t, ht⟩ := hp.head
    have e1 : sc ++ (([101, 114, 114, 111, 114] : In) ++ (g1 ++ (name ++ (g2 ++ sp)))) ++ rest
        = sc ++ (([101, 114, 114, 111, 114] : In) ++ (g1 ++ (name ++ (g2 ++ (sp ++ rest))))) := by simp
    unfold errorDef
    rw [e1, pcF_commentsL hc _ (plainHead_append _ (by simp) (by decide)) (by simp)]
    simp only []
    rw [litB_append [101, 114, 114, 111, 114] _]
    simp only []
    rw [ws1_gap g1 _ h1 (upper_not_asciiWs name _ hn)]
    simp only []
    have e2 : sp ++ rest = 40 :: (t ++ rest) := by rw [ht]; simp
    rw [e2, typeName_gap_paren name g2 _ hn h2]
    simp only []
    rw [wsF_gap g2 _ h2 (plainHead_cons 40 _ (by decide)), ← e2, paramListL_ok hp rest]

inductive MethodL : Method → In → Prop
  | mk {name ins outs cs sc g1 g2 g3 g4 si so} : CommentsL cs sc → gap1OK g1 = true → typeNameOK name = true →
      wsOnly g2 = true → ParamsL ins si → wsOnly g3 = true → wsOnly g4 = true → ParamsL outs so →
      MethodL ⟨name, ins, outs, cs⟩
        (sc ++ (([109, 101, 116, 104, 111, 100] : In) ++ (g1 ++ (name ++ (g2 ++ (si ++ (g3 ++ (([45, 62] : In) ++ (g4 ++ so)))))))))

theorem methodDefL_ok {m : Method} {s : In} (h : MethodL m s) (rest : In) : methodDef (s ++ rest) = .ok m rest := by
  cases h with
  | @mk name ins outs cs sc g1 g2 g3 g4 si so hc h1 hn h2 hi h3 h4 ho =>
    obtain ⟨ti, hti⟩ := hi.head
    obtain ⟨to, hto⟩ := ho.head
    generalize hZ : g3 ++ (([45, 62] : In) ++ (g4 ++ (so ++ rest))) = Z
    have e1 : sc ++ (([109, 101, 116, 104, 111, 100] : In) ++ (g1 ++ (name ++ (g2 ++ (si ++ (g3 ++ (([45, 62] : In) ++ (g4 ++ so)))))))) ++ rest
        = sc ++ (([109, 101, 116, 104, 111, 100] : In) ++ (g1 ++ (name ++ (g2 ++ (si ++ Z))))) := by rw [← hZ]; simp
    unfold methodDef
    rw [e1, pcF_commentsL hc _ (plainHead_append _ (by simp) (by decide)) (by simp)]
    simp only []
    rw [litB_append [109, 101, 116, 104, 111, 100] _]
    simp only []
    rw [ws1_gap g1 _ h1 (upper_not_asciiWs name _ hn)]
    simp only []
    have e2 : si ++ Z = 40 :: (ti ++ Z) := by rw [hti]; simp
    rw [e2, typeName_gap_paren name g2 _ hn h2]
    simp only []
    rw [wsF_gap g2 _ h2 (plainHead_cons 40 _ (by decide)), ← e2, paramListL_ok hi Z]
    simp only []
    rw [← hZ, wsF_gap g3 _ h3 (plainHead_append _ (by simp) (by decide)), litB_append [45, 62] _]
    simp only []
    have e3 : so ++ rest = 40 :: (to ++ rest) := by rw [hto]; simp
    rw [e3, wsF_gap g4 _ h4 (plainHead_cons 40 _ (by decide)), ← e3, paramListL_ok ho rest]

/-! ### `type` definitions -/

/-- the member loop of `type_def` on the fields of an object type, for every layout -/
theorem tdLoopObjL_ok (cs0 : List In) (nm : In) : ∀ (fs : List Field) (f : Field) (s1 s2 : In),
    FieldL f s1 → FieldsMoreL fs s2 →
    ∀ (k : Nat) (rest : In) (acc : List Field), fs.length < k →
    typeDef.loop cs0 nm k (s1 ++ (s2 ++ rest)) acc [] = .ok (.obj nm (acc ++ f :: fs) cs0) rest := by
  intro fs
  induction fs with
  | nil =>
    intro f s1 s2 hf hm k rest acc hk
    obtain ⟨k, rfl⟩ : ∃ k', k = k' + 1 := ⟨k - 1, by omega⟩
    cases hm with
    | @done g hg =>
      cases hf with
      | @mk n t cs sc st g1 g2 hc hn h1 h2 ht =>
        have e : sc ++ (n ++ (g1 ++ 58 :: (g2 ++ st))) ++ (g ++ [41] ++ rest)
            = sc ++ (n ++ (g1 ++ 58 :: (g2 ++ (st ++ (g ++ 41 :: rest))))) := by simp
        have ha : alphaHead (n ++ (g1 ++ 58 :: (g2 ++ (st ++ (g ++ 41 :: rest))))) = true := alphaHead_append _ (fieldNameOK_alphaHead hn)
        rw [e, typeDef.loop, pcF_commentsL hc _ (alphaHead_plain ha) (alphaHead_ne_nil ha)]
        simp only []
        rw [fieldName_complete n _ hn (punctHead_stopsName (gap_punct g1 58 _ h1 (by decide)))]
        simp only []
        rw [whitespaceOnly_gap g1 _ h1 (plainHead_nonWs (plainHead_cons 58 _ (by decide))), litB1 58 _]
        simp only []
        rw [whitespaceOnly_gap g2 _ h2 (plainHead_nonWs (ht.plain _)), varlinkType_tyFuelL ht _ ⟨g, 41 :: rest, rfl, hg, rfl⟩]
        simp only []
        rw [whitespaceOnly_gap g _ hg (plainHead_nonWs (plainHead_cons 41 rest (by decide))),
          litB_cons_ne 44 41 [] rest (by decide)]
        simp only []
        rw [litB1 41 rest]
        simp
  | cons f' fs ih =>
    intro f s1 s2 hf hm k rest acc hk
    obtain ⟨k, rfl⟩ : ∃ k', k = k' + 1 := ⟨k - 1, by omega⟩
    cases hm with
    | @more _ _ g1' g2' s1' s2' h1' h2' hf' hm' =>
      cases hf with
      | @mk n t cs sc st g1 g2 hc hn h1 h2 ht =>
        generalize hZ : s1' ++ (s2' ++ rest) = Z
        have e : sc ++ (n ++ (g1 ++ 58 :: (g2 ++ st))) ++ (g1' ++ 44 :: (g2' ++ (s1' ++ s2')) ++ rest)
            = sc ++ (n ++ (g1 ++ 58 :: (g2 ++ (st ++ (g1' ++ 44 :: (g2' ++ Z)))))) := by rw [← hZ]; simp
        have ha : alphaHead (n ++ (g1 ++ 58 :: (g2 ++ (st ++ (g1' ++ 44 :: (g2' ++ Z)))))) = true := alphaHead_append _ (fieldNameOK_alphaHead hn)
        rw [e, typeDef.loop, pcF_commentsL hc _ (alphaHead_plain ha) (alphaHead_ne_nil ha)]
        simp only []
        rw [fieldName_complete n _ hn (punctHead_stopsName (gap_punct g1 58 _ h1 (by decide)))]
        simp only []
        rw [whitespaceOnly_gap g1 _ h1 (plainHead_nonWs (plainHead_cons 58 _ (by decide))), litB1 58 _]
        simp only []
        rw [whitespaceOnly_gap g2 _ h2 (plainHead_nonWs (ht.plain _)), varlinkType_tyFuelL ht _ ⟨g1', 44 :: (g2' ++ Z), rfl, h1', rfl⟩]
        simp only []
        rw [whitespaceOnly_gap g1' _ h1' (plainHead_nonWs (plainHead_cons 44 _ (by decide))), litB1 44 _]
        simp only []
        rw [← hZ, whitespaceOnly_gap g2' _ h2' (hf'.nonWs _)]
        rw [ih f' s1' s2' hf' hm' k rest (acc ++ [(n, t, cs)]) (by simp at hk; omega)]
        simp

/-- one variant of a custom enum: its comment lines, then the name -/
inductive CVarL : In × List In → In → Prop
  | mk {v cs sc} : CommentsL cs sc → fieldNameOK v = true → CVarL (v, cs) (sc ++ v)
/-- the variants after the first, then the closing parenthesis -/
inductive CVarsMoreL : List (In × List In) → In → Prop
  | done {g} : wsOnly g = true → CVarsMoreL [] (g ++ [41])
  | more {v vs g1 g2 s1 s2} : wsOnly g1 = true → wsOnly g2 = true → CVarL v s1 → CVarsMoreL vs s2 →
      CVarsMoreL (v :: vs) (g1 ++ 44 :: (g2 ++ (s1 ++ s2)))

theorem CVarL.nonWs {v : In × List In} {s : In} (h : CVarL v s) (z : In) : nonWs (s ++ z) = true := by
  cases h with
  | @mk v cs sc hc hv =>
    rw [List.append_assoc]
    exact hc.nonWs_append _ (plainHead_nonWs (alphaHead_plain (alphaHead_append _ (fieldNameOK_alphaHead hv))))

theorem CVarL.head_not_41 {v : In × List In} {s : In} (h : CVarL v s) (z : In) : (s ++ z).head? ≠ some 41 := by
  cases h with
  | @mk v cs sc hc hv =>
    cases hc with
    | nil =>
      cases v with
      | nil => simp [fieldNameOK] at hv
      | cons c tl =>
        simp only [fieldNameOK, Bool.and_eq_true] at hv
        have hc := hv.1
        simp only [List.nil_append, List.cons_append, List.head?_cons, ne_eq, Option.some.injEq]
        bytes
    | cons _ _ _ _ => simp

theorem CVarsMoreL.length_le {vs : List (In × List In)} {s : In} (h : CVarsMoreL vs s) : vs.length ≤ s.length := by
  induction h with
  | done _ => simp
  | more _ _ _ _ ih => simp only [List.length_cons, List.length_append]; omega

/-- the member loop of `type_def` on the variants of an enum type, for every layout -/
theorem tdLoopEnmL_ok (cs0 : List In) (nm : In) : ∀ (vs : List (In × List In)) (v : In × List In) (s1 s2 : In),
    CVarL v s1 → CVarsMoreL vs s2 →
    ∀ (k : Nat) (rest : In) (acc : List (In × List In)), vs.length < k →
    typeDef.loop cs0 nm k (s1 ++ (s2 ++ rest)) [] acc = .ok (.enm nm (acc ++ v :: vs) cs0) rest := by
  intro vs
  induction vs with
  | nil =>
    intro v s1 s2 hv hm k rest acc hk
    obtain ⟨k, rfl⟩ : ∃ k', k = k' + 1 := ⟨k - 1, by omega⟩
    cases hm with
    | @done g hg =>
      cases hv with
      | @mk n cs sc hc hn =>
        have e : sc ++ n ++ (g ++ [41] ++ rest) = sc ++ (n ++ (g ++ 41 :: rest)) := by simp
        have ha : alphaHead (n ++ (g ++ 41 :: rest)) = true := alphaHead_append _ (fieldNameOK_alphaHead hn)
        rw [e, typeDef.loop, pcF_commentsL hc _ (alphaHead_plain ha) (alphaHead_ne_nil ha)]
        simp only []
        rw [fieldName_complete n _ hn (punctHead_stopsName (gap_punct g 41 _ hg (by decide)))]
        simp only []
        rw [whitespaceOnly_gap g _ hg (plainHead_nonWs (plainHead_cons 41 rest (by decide))),
          litB_cons_ne 58 41 [] rest (by decide)]
        simp only []
        rw [whitespaceOnly_plain (plainHead_cons 41 rest (by decide)), litB_cons_ne 44 41 [] rest (by decide)]
        simp only []
        rw [litB1 41 rest]
        simp
  | cons w ws ih =>
    intro v s1 s2 hv hm k rest acc hk
    obtain ⟨k, rfl⟩ : ∃ k', k = k' + 1 := ⟨k - 1, by omega⟩
    cases hm with
    | @more _ _ g1' g2' s1' s2' h1' h2' hw hm' =>
      cases hv with
      | @mk n cs sc hc hn =>
        generalize hZ : s1' ++ (s2' ++ rest) = Z
        have e : sc ++ n ++ (g1' ++ 44 :: (g2' ++ (s1' ++ s2')) ++ rest) = sc ++ (n ++ (g1' ++ 44 :: (g2' ++ Z))) := by
          rw [← hZ]; simp
        have ha : alphaHead (n ++ (g1' ++ 44 :: (g2' ++ Z))) = true := alphaHead_append _ (fieldNameOK_alphaHead hn)
        rw [e, typeDef.loop, pcF_commentsL hc _ (alphaHead_plain ha) (alphaHead_ne_nil ha)]
        simp only []
        rw [fieldName_complete n _ hn (punctHead_stopsName (gap_punct g1' 44 _ h1' (by decide)))]
        simp only []
        rw [whitespaceOnly_gap g1' _ h1' (plainHead_nonWs (plainHead_cons 44 _ (by decide))),
          litB_cons_ne 58 44 [] _ (by decide)]
        simp only []
        rw [whitespaceOnly_plain (plainHead_cons 44 _ (by decide)), litB1 44 _]
        simp only []
        rw [← hZ, whitespaceOnly_gap g2' _ h2' (hw.nonWs _)]
        rw [ih w s1' s2' hw hm' k rest (acc ++ [(n, cs)]) (by simp at hk; omega)]
        simp

inductive TypeL : CT → In → Prop
  | obj {name fs cs sc g1 g2 sp} : CommentsL cs sc → gap1OK g1 = true → typeNameOK name = true → wsOnly g2 = true →
      ParamsL fs sp →
      TypeL (.obj name fs cs) (sc ++ (([116, 121, 112, 101] : In) ++ (g1 ++ (name ++ (g2 ++ sp)))))
  | enm {name v vs cs sc g1 g2 g0 s1 s2} : CommentsL cs sc → gap1OK g1 = true → typeNameOK name = true →
      wsOnly g2 = true → wsOnly g0 = true → CVarL v s1 → CVarsMoreL vs s2 →
      TypeL (.enm name (v :: vs) cs)
        (sc ++ (([116, 121, 112, 101] : In) ++ (g1 ++ (name ++ (g2 ++ 40 :: (g0 ++ (s1 ++ s2)))))))

theorem typeDefL_ok {t : CT} {s : In} (h : TypeL t s) (rest : In) : typeDef (s ++ rest) = .ok t rest := by
  cases h with
  | @obj name fs cs sc g1 g2 sp hc h1 hn h2 hp =>
    cases hp with
    | @nil g hg =>
      have e1 : sc ++ (([116, 121, 112, 101] : In) ++ (g1 ++ (name ++ (g2 ++ 40 :: (g ++ [41]))))) ++ rest
          = sc ++ (([116, 121, 112, 101] : In) ++ (g1 ++ (name ++ (g2 ++ 40 :: (g ++ 41 :: rest))))) := by simp
      unfold typeDef
      rw [e1, pcF_commentsL hc _ (plainHead_append _ (by simp) (by decide)) (by simp)]
      simp only []
      rw [litB_append [116, 121, 112, 101] _]
      simp only []
      rw [ws1_gap g1 _ h1 (upper_not_asciiWs name _ hn)]
      simp only []
      rw [typeName_gap_paren name g2 _ hn h2]
      simp only []
      rw [wsF_gap g2 _ h2 (plainHead_cons 40 _ (by decide)), litB1 40 _]
      simp only []
      rw [whitespaceOnly_gap g _ hg (plainHead_nonWs (plainHead_cons 41 rest (by decide))), litB1 41 rest]
    | @cons f fs g0 s1 s2 hg0 hf hm =>
      have e1 : sc ++ (([116, 121, 112, 101] : In) ++ (g1 ++ (name ++ (g2 ++ 40 :: (g0 ++ (s1 ++ s2)))))) ++ rest
          = sc ++ (([116, 121, 112, 101] : In) ++ (g1 ++ (name ++ (g2 ++ 40 :: (g0 ++ (s1 ++ (s2 ++ rest))))))) := by simp
      unfold typeDef
      rw [e1, pcF_commentsL hc _ (plainHead_append _ (by simp) (by decide)) (by simp)]
      simp only []
      rw [litB_append [116, 121, 112, 101] _]
      simp only []
      rw [ws1_gap g1 _ h1 (upper_not_asciiWs name _ hn)]
      simp only []
      rw [typeName_gap_paren name g2 _ hn h2]
      simp only []
      rw [wsF_gap g2 _ h2 (plainHead_cons 40 _ (by decide)), litB1 40 _]
      simp only []
      rw [whitespaceOnly_gap g0 _ hg0 (hf.nonWs _), litB_head_ne 41 [] _ (hf.head_not_41 _)]
      simp only []
      have := tdLoopObjL_ok cs name fs f s1 s2 hf hm ((s1 ++ (s2 ++ rest)).length + 1) rest []
        (by have := hm.length_le; simp only [List.length_append]; omega)
      simpa using this
  | @enm name v vs cs sc g1 g2 g0 s1 s2 hc h1 hn h2 hg0 hv hm =>
    have e1 : sc ++ (([116, 121, 112, 101] : In) ++ (g1 ++ (name ++ (g2 ++ 40 :: (g0 ++ (s1 ++ s2)))))) ++ rest
        = sc ++ (([116, 121, 112, 101] : In) ++ (g1 ++ (name ++ (g2 ++ 40 :: (g0 ++ (s1 ++ (s2 ++ rest))))))) := by simp
    unfold typeDef
    rw [e1, pcF_commentsL hc _ (plainHead_append _ (by simp) (by decide)) (by simp)]
    simp only []
    rw [litB_append [116, 121, 112, 101] _]
    simp only []
    rw [ws1_gap g1 _ h1 (upper_not_asciiWs name _ hn)]
    simp only []
    rw [typeName_gap_paren name g2 _ hn h2]
    simp only []
    rw [wsF_gap g2 _ h2 (plainHead_cons 40 _ (by decide)), litB1 40 _]
    simp only []
    rw [whitespaceOnly_gap g0 _ hg0 (hv.nonWs _), litB_head_ne 41 [] _ (hv.head_not_41 _)]
    simp only []
    have := tdLoopEnmL_ok cs name vs v s1 s2 hv hm ((s1 ++ (s2 ++ rest)).length + 1) rest []
      (by have := hm.length_le; simp only [List.length_append]; omega)
    simpa using this

end Idl
