import Zlink.Proofs.IdlIfaceRT
/-! Soundness of the IDL parser at the level of the *result tree*: whatever text is accepted, every
    name in the resulting description is a word of the grammar's regular expression for its class,
    every comment is a single line without leading blank, an optional type is never nested directly in
    an optional type, and inline enums carry no variant comments. (That an inline enum has at least one
    variant needs a fuel argument and is not part of this statement.) -/
namespace Idl
open SpecIdl

mutual
/-- well-formedness of a type as far as names and comments go -/
def tyW : Ty → Bool
  | .optional (.optional _) => false
  | .optional t => tyW t
  | .array t => tyW t
  | .map t => tyW t
  | .custom n => typeNameOK n
  | .enum vs => vs.all (fun v => fieldNameOK v.1 && v.2.isEmpty)
  | .struct fs => fieldsW fs
  | _ => true
def fieldsW : List (In × Ty × List In) → Bool
  | [] => true
  | (n, t, cs) :: r => fieldNameOK n && tyW t && cs.all commentOK && fieldsW r
end

theorem tyW_optional (t : Ty) (h1 : isOpt t = false) (h2 : tyW t = true) : tyW (.optional t) = true := by
  cases t <;> first | (simp [isOpt] at h1; done) | (simpa [tyW] using h2)

theorem fieldsW_append (a b : List (In × Ty × List In)) : fieldsW (a ++ b) = (fieldsW a && fieldsW b) := by
  induction a with
  | nil => simp [fieldsW]
  | cons f r ih =>
    obtain ⟨n, t, cs⟩ := f
    simp only [List.cons_append, fieldsW, ih, Bool.and_assoc]

/-! ### comments -/

theorem mem_takeWhile' (p : Byte → Bool) : ∀ (l : In) (x : Byte), x ∈ l.takeWhile p → p x = true
  | [], x, h => by simp at h
  | a :: t, x, h => by
    by_cases ha : p a = true
    · simp only [List.takeWhile_cons, ha, if_true, List.mem_cons] at h
      rcases h with rfl | h
      · exact ha
      · exact mem_takeWhile' p t x h
    · simp [List.takeWhile_cons, ha] at h

theorem head_dropWhile' (p : Byte → Bool) : ∀ (l : In) (a : Byte) (b : In), l.dropWhile p = a :: b → p a = false
  | [], a, b, h => by simp at h
  | c :: t, a, b, h => by
    by_cases hc : p c = true
    · simp only [List.dropWhile_cons, hc, if_true] at h
      exact head_dropWhile' p t a b h
    · simp only [List.dropWhile_cons, hc] at h
      simp at h
      obtain ⟨rfl, _⟩ := h
      simpa using hc

theorem commentDef_sound (i c r : In) (h : commentDef i = .ok c r) : commentOK c = true := by
  unfold commentDef at h
  split at h
  · rename_i t
    simp only [PR.ok.injEq] at h
    obtain ⟨rfl, _⟩ := h
    simp only [commentOK, Bool.and_eq_true, Bool.not_eq_true']
    have hmem : ∀ x ∈ (t.dropWhile (fun c => c == 32 || c == 9)).takeWhile (fun x => x != 10 && x != 13), x ≠ 10 ∧ x ≠ 13 := by
      intro x hx
      have := mem_takeWhile' _ _ x hx
      simpa only [Bool.and_eq_true, bne_iff_ne, ne_eq] using this
    refine ⟨⟨?_, ?_⟩, ?_⟩
    · -- no line feed inside
      rw [List.contains_eq_any_beq, List.any_eq_false]
      intro x hx
      simp only [beq_iff_eq]
      exact fun e => (hmem x hx).1 e.symm
    · -- no carriage return inside
      rw [List.contains_eq_any_beq, List.any_eq_false]
      intro x hx
      simp only [beq_iff_eq]
      exact fun e => (hmem x hx).2 e.symm
    · -- no leading blank
      generalize hd : t.dropWhile (fun c => c == 32 || c == 9) = d
      cases d with
      | nil => rfl
      | cons a b =>
        have ha : ¬ ((a == 32 || a == 9) = true) := by
          have := head_dropWhile' (fun c => c == 32 || c == 9) t a b hd
          simp [this]
        by_cases hn : (a != 10 && a != 13) = true
        · simp only [List.takeWhile_cons, hn, if_true]
          simp only [Bool.or_eq_true, beq_iff_eq, not_or] at ha
          split <;> simp_all
        · simp [List.takeWhile_cons, hn]
  · cases h

theorem pc_sound : ∀ (k : Nat) (i : In) (acc : List In), acc.all commentOK = true →
    (precedingComments k i acc).1.all commentOK = true := by
  intro k
  induction k with
  | zero => intro i acc h; exact h
  | succ k ih =>
    intro i acc h
    unfold precedingComments
    split
    · exact h
    · simp only []
      split
      · exact h
      · split
        · rename_i c r hc
          apply ih
          rw [List.all_append, h]
          simp [commentDef_sound _ _ _ hc]
        · exact h

theorem pcF_sound (i : In) : (pcF i).1.all commentOK = true := pc_sound _ i [] rfl

/-! ### types -/

def PostTy (r : PR Ty) : Prop := ∀ t rest, r = .ok t rest → tyW t = true
def PostTyN (r : PR Ty) : Prop := ∀ t rest, r = .ok t rest → tyW t = true ∧ isOpt t = false

structure QT (f : Nat) : Prop where
  v : ∀ i, PostTy (varlinkType f i)
  o : ∀ i, PostTy (optionalType f i)
  a : ∀ i, PostTyN (arrayType f i)
  m : ∀ i, PostTyN (mapType f i)
  e : ∀ i, PostTyN (elementType f i)
  il : ∀ i, PostTyN (inlineType f i)
  s : ∀ i, PostTyN (structType f i)
  en : ∀ i, PostTyN (enumType f i)
  fs : ∀ i fl r, fieldsSep f i = .ok fl r → fieldsW fl = true
  fm : ∀ i acc fl r, fieldsMore f i acc = .ok fl r → fieldsW acc = true → fieldsW fl = true
  fd : ∀ i fld r, field f i = .ok fld r → fieldsW [fld] = true

theorem primitive_sound (i : In) (t : Ty) (r : In) (h : primitive i = .ok t r) : tyW t = true ∧ isOpt t = false := by
  unfold primitive at h
  repeat' (split at h)
  all_goals first | (cases h; exact ⟨rfl, rfl⟩) | cases h

theorem enum_more_sound : ∀ (n : Nat) (i : In) (acc : List In), acc.all fieldNameOK = true →
    (enumType.more n i acc).1.all fieldNameOK = true := by
  intro n
  induction n with
  | zero => intro i acc h; exact h
  | succ n ih =>
    intro i acc h
    rw [enumType.more]
    split
    · split
      · rename_i v r hv
        apply ih
        rw [List.all_append, h]
        simp [(fieldName_sound _ _ _ hv).1]
      · exact h
    · exact h

theorem qt_zero : QT 0 := by
  constructor <;> intros <;> first | (intro _ _ h; cases h) | (rename_i h; cases h) | skip
  all_goals (first | (rename_i h _; cases h) | (rename_i h; cases h))

theorem qt_succ (f : Nat) (q : QT f) : QT (f + 1) := by
  refine ⟨?v, ?o, ?a, ?m, ?e, ?il, ?s, ?en, ?fs, ?fm, ?fd⟩
  case v =>
    intro i t rest h
    rw [varlinkType] at h
    split at h
    · rename_i t1 r1 h1; cases h; exact q.o i _ _ h1
    · split at h
      · rename_i t1 r1 h1; cases h; exact (q.a i _ _ h1).1
      · split at h
        · rename_i t1 r1 h1; cases h; exact (q.m i _ _ h1).1
        · exact (q.e i _ _ h).1
  case o =>
    intro i t rest h
    rw [optionalType] at h
    split at h
    · rename_i r0 _
      split at h
      · rename_i t1 r1 h1; cases h
        obtain ⟨a, b⟩ := q.a r0 _ _ h1; exact tyW_optional _ b a
      · split at h
        · rename_i t1 r1 h1; cases h
          obtain ⟨a, b⟩ := q.m r0 _ _ h1; exact tyW_optional _ b a
        · split at h
          · rename_i t1 r1 h1; cases h
            obtain ⟨a, b⟩ := q.e r0 _ _ h1; exact tyW_optional _ b a
          · cases h
    · cases h
  case a =>
    intro i t rest h
    rw [arrayType] at h
    split at h
    · split at h
      · rename_i t1 r1 h1; cases h; exact ⟨by simpa [tyW] using q.v _ _ _ h1, rfl⟩
      · cases h
    · cases h
  case m =>
    intro i t rest h
    rw [mapType] at h
    split at h
    · split at h
      · rename_i t1 r1 h1; cases h; exact ⟨by simpa [tyW] using q.v _ _ _ h1, rfl⟩
      · cases h
    · cases h
  case e =>
    intro i t rest h
    rw [elementType] at h
    split at h
    · rename_i t1 r1 h1; cases h; exact primitive_sound _ _ _ h1
    · split at h
      · rename_i n r1 h1; cases h
        exact ⟨by simpa [tyW] using (typeName_sound _ _ _ h1).1, rfl⟩
      · exact q.il i _ _ h
  case il =>
    intro i t rest h
    rw [inlineType] at h
    split at h
    · rename_i t1 r1 h1; cases h; exact q.s i _ _ h1
    · exact q.en i _ _ h
  case s =>
    intro i t rest h
    rw [structType] at h
    split at h
    · simp only [] at h
      split at h
      · rename_i fl r1 h1
        split at h
        · cases h; exact ⟨by simpa [tyW] using q.fs _ _ _ h1, rfl⟩
        · cases h
      · cases h
    · cases h
  case en =>
    intro i t rest h
    rw [enumType] at h
    split at h
    · rename_i r0 _
      simp only [] at h
      split at h
      · cases h
        refine ⟨?_, rfl⟩
        simp only [tyW, List.all_map]
        have hall : ∀ (vs : List In), vs.all fieldNameOK = true →
            (vs.all ((fun v : In × List In => fieldNameOK v.1 && v.2.isEmpty) ∘ fun v => (v, ([] : List In)))) = true := by
          intro vs hvs
          rw [List.all_eq_true] at hvs ⊢
          intro x hx
          simp [hvs x hx]
        apply hall
        split
        · rename_i v r1 hv
          exact enum_more_sound _ _ _ (by simp [(fieldName_sound _ _ _ hv).1])
        · rfl
      · cases h
    · cases h
  case fs =>
    intro i fl r h
    rw [fieldsSep] at h
    split at h
    · cases h; rfl
    · rename_i fld r1 h1
      exact q.fm _ _ _ _ h (q.fd _ _ _ h1)
  case fm =>
    intro i acc fl r h hacc
    rw [fieldsMore] at h
    simp only [] at h
    split at h
    · split at h
      · cases h; exact hacc
      · rename_i fld r1 h1
        apply q.fm _ _ _ _ h
        rw [fieldsW_append, hacc, q.fd _ _ _ h1]; rfl
    · cases h; exact hacc
  case fd =>
    intro i fld r h
    rw [field] at h
    split at h
    rename_i cs i1 hpc
    split at h
    · rename_i n r1 hn
      simp only [] at h
      split at h
      · split at h
        · rename_i t r3 ht
          cases h
          have hcs : cs.all commentOK = true := by
            have := pcF_sound i; rw [hpc] at this; exact this
          simp [fieldsW, (fieldName_sound _ _ _ hn).1, q.v _ _ _ ht, hcs]
        · cases h
      · cases h
    · cases h

theorem qt_all : ∀ f, QT f := by
  intro f
  induction f with
  | zero => exact qt_zero
  | succ f ih => exact qt_succ f ih

/-- whatever `varlink_type` accepts is a type whose names are grammatical -/
theorem varlinkType_sound (f : Nat) (i : In) (t : Ty) (r : In) (h : varlinkType f i = .ok t r) : tyW t = true :=
  (qt_all f).v i t r h

/-! ### interface names -/

theorem splitOn_no_dot (s : In) (h : ∀ b ∈ s, b ≠ 46) : splitOn 46 s = [s] := by
  induction s with
  | nil => rfl
  | cons c t ih =>
    have hc : (c == 46) = false := by simpa using h c (by simp)
    rw [splitOn, if_neg (by simp [hc]), ih (fun b hb => h b (by simp [hb]))]

theorem splitOn_dot (s rest : In) (h : ∀ b ∈ s, b ≠ 46) : splitOn 46 (s ++ 46 :: rest) = s :: splitOn 46 rest := by
  induction s with
  | nil => simp [splitOn]
  | cons c t ih =>
    have hc : (c == 46) = false := by simpa using h c (by simp)
    rw [List.cons_append, splitOn, if_neg (by simp [hc]), ih (fun b hb => h b (by simp [hb]))]

theorem seg_no_dot {first : Byte → Bool} {s : In} (hf : ∀ c, first c = true → isAlnum c = true) (h : segOK first s = true) :
    ∀ b ∈ s, b ≠ 46 := by
  obtain ⟨c, t, rfl, hc, ht, _⟩ := segOK_parts h
  intro b hb
  simp only [List.mem_cons] at hb
  rcases hb with rfl | hb
  · have := hf _ hc; bytes
  · have := List.all_eq_true.mp ht b hb
    simp only [isSegByte, Bool.or_eq_true, beq_iff_eq] at this
    rcases this with h1 | h1
    · bytes
    · subst h1; decide

theorem splitOn_dotted (s0 : In) (segs : List In) (h0 : ∀ b ∈ s0, b ≠ 46) (hs : ∀ s ∈ segs, ∀ b ∈ s, b ≠ 46) :
    splitOn 46 (s0 ++ dotted segs) = s0 :: segs := by
  induction segs generalizing s0 with
  | nil => simpa [dotted] using splitOn_no_dot s0 h0
  | cons s r ih =>
    have e : s0 ++ dotted (s :: r) = s0 ++ 46 :: (s ++ dotted r) := by simp [dotted, List.flatMap_cons]
    rw [e, splitOn_dot s0 _ h0, ih s (hs s (by simp)) (fun x hx => hs x (by simp [hx]))]

theorem segTail_sound (c : Byte) (t s r : In) (hc : isAlnum c = true) (h : segTail t = some (s, r)) :
    t = s ++ r ∧ s.all isSegByte = true ∧ (c :: s).getLast? ≠ some 45 := by
  unfold segTail at h
  simp only [] at h
  split at h
  · cases h
  · rename_i hl
    simp only [Option.some.injEq, Prod.mk.injEq] at h
    obtain ⟨rfl, rfl⟩ := h
    refine ⟨(takeWhile_append_drop _ t).symm, all_takeWhile _ t, ?_⟩
    generalize t.takeWhile (fun c => isAlnum c || c == 45) = s at hl
    cases s with
    | nil => simp only [List.getLast?_singleton, ne_eq, Option.some.injEq]; bytes
    | cons a b => simpa [List.getLast?_cons_cons] using hl

/-- invariant of the segment loop: the name so far is a first segment and dotted further segments -/
def NameInv (acc : In) (dot : Bool) : Prop :=
  ∃ s0 segs, acc = s0 ++ dotted segs ∧ segOK isAlpha s0 = true ∧ segs.all (segOK isAlnum) = true ∧ (dot = true → segs ≠ [])
    ∧ (segs ≠ [] → dot = true)

theorem nameSegs_sound : ∀ (n : Nat) (acc r : In) (dot : Bool) (name r' : In) (dot' : Bool),
    NameInv acc dot → nameSegs n acc r dot = some (name, r', dot') → NameInv name dot' := by
  intro n
  induction n with
  | zero =>
    intro acc r dot name r' dot' hinv h
    simp only [nameSegs, Option.some.injEq, Prod.mk.injEq] at h
    obtain ⟨rfl, _, rfl⟩ := h
    exact hinv
  | succ n ih =>
    intro acc r dot name r' dot' hinv h
    rw [nameSegs.eq_def] at h
    simp only [] at h
    split at h
    · rename_i c r2
      split at h
      · rename_i hc
        split at h
        · rename_i s r3 hst
          apply ih _ _ _ _ _ _ _ h
          obtain ⟨s0, segs, e, h0, hs, _, _⟩ := hinv
          obtain ⟨_, hall, hlast⟩ := segTail_sound c r2 s r3 hc hst
          refine ⟨s0, segs ++ [c :: s], ?_, h0, ?_, fun _ => by simp, fun _ => rfl⟩
          · rw [e]; simp [dotted, List.flatMap_append]
          · rw [List.all_append, hs]
            have hall' : (s.all fun x => isAlnum x || x == 45) = true := hall
            simp only [List.all_cons, List.all_nil, Bool.and_true, Bool.true_and, segOK, hc, hall', bne_iff_ne, ne_eq]
            exact hlast
        · cases h
      · cases h
    · cases h
    · simp only [Option.some.injEq, Prod.mk.injEq] at h
      obtain ⟨rfl, _, rfl⟩ := h
      exact hinv

/-- **soundness of the interface-name lexer**: whatever it accepts is a word of the grammar's regular
    expression (and a prefix of the input is not claimed here: only the name's shape) -/
theorem interfaceName_sound (i n r : In) (h : interfaceName i = .ok n r) : ifaceNameOK n = true := by
  unfold interfaceName at h
  split at h
  · rename_i b t
    split at h
    · cases h
    · rename_i hb
      split at h
      · cases h
      · rename_i seg1 rest hst
        split at h
        · rename_i name r2 hns
          cases h
          have hb' : isAlpha b = true := by simpa using hb
          obtain ⟨_, hall, hlast⟩ := segTail_sound b t seg1 rest (by bytes) hst
          have hinv0 : NameInv (b :: seg1) false :=
            ⟨b :: seg1, [], by simp [dotted],
              (by
                have hall' : (seg1.all fun x => isAlnum x || x == 45) = true := hall
                simp only [segOK, hb', hall', Bool.true_and, bne_iff_ne, ne_eq]; exact hlast),
              rfl, ⟨(fun h => by cases h), (fun h => absurd rfl h)⟩⟩
          obtain ⟨s0, segs, e, h0, hs, hd, _⟩ := nameSegs_sound _ _ _ _ _ _ _ hinv0 hns
          have hne := hd rfl
          rw [e]
          unfold ifaceNameOK
          rw [splitOn_dotted s0 segs (seg_no_dot (fun c hc => by bytes) h0)
            (fun s hs' => seg_no_dot (fun _ h => h) (List.all_eq_true.mp hs s hs'))]
          cases segs with
          | nil => exact absurd rfl hne
          | cons s1 rest' => simp only [h0, hs, Bool.and_self]
        · cases h
  · cases h

/-! ### members -/

def variantW (v : In × List In) : Bool := fieldNameOK v.1 && v.2.all commentOK
def ctW : CT → Bool
  | .obj n fs cs => typeNameOK n && fieldsW fs && cs.all commentOK
  | .enm n vs cs => typeNameOK n && vs.all variantW && cs.all commentOK
def methodW (m : Method) : Bool := typeNameOK m.name && fieldsW m.ins && fieldsW m.outs && m.cs.all commentOK
def errW (e : Err) : Bool := typeNameOK e.name && fieldsW e.fs && e.cs.all commentOK
/-- every name of the description is a word of its class's regular expression, every comment a single
    line without leading blank, no `??`, no comments on inline-enum variants -/
def ifaceW (a : Iface) : Bool :=
  ifaceNameOK a.name && a.cs.all commentOK && a.types.all ctW && a.methods.all methodW && a.errors.all errW

theorem paramLoop_sound : ∀ (n : Nat) (i : In) (acc fs : List Field) (r : In),
    fieldsW acc = true → paramList.loop n i acc = .ok fs r → fieldsW fs = true := by
  intro n
  induction n with
  | zero => intro i acc fs r _ h; simp [paramList.loop] at h
  | succ n ih =>
    intro i acc fs r hacc h
    rw [paramList.loop] at h
    split at h
    rename_i cs i1 hpc
    split at h
    · rename_i nm r1 hn
      try simp only [] at h
      split at h
      · split at h
        · rename_i t r3 ht
          try simp only [] at h
          have hcs : cs.all commentOK = true := by have := pcF_sound i; rw [hpc] at this; exact this
          have hacc' : fieldsW (acc ++ [(nm, t, cs)]) = true := by
            rw [fieldsW_append, hacc]
            simp [fieldsW, (fieldName_sound _ _ _ hn).1, varlinkType_sound _ _ _ _ ht, hcs]
          split at h
          · exact ih _ _ _ _ hacc' h
          · split at h
            · cases h; exact hacc'
            · cases h
        · cases h
      · cases h
    · cases h

theorem paramList_sound (i : In) (fs : List Field) (r : In) (h : paramList i = .ok fs r) : fieldsW fs = true := by
  unfold paramList at h
  split at h
  · try simp only [] at h
    split at h
    · cases h; rfl
    · exact paramLoop_sound _ _ _ _ _ rfl h
  · cases h

theorem methodDef_sound (i : In) (m : Method) (r : In) (h : methodDef i = .ok m r) : methodW m = true := by
  unfold methodDef at h
  split at h
  rename_i cs i1 hpc
  try simp only [] at h
  split at h
  · split at h
    · split at h
      · rename_i n r2 hn
        try simp only [] at h
        split at h
        · rename_i ins r3 hi
          try simp only [] at h
          split at h
          · try simp only [] at h
            split at h
            · rename_i outs r5 ho
              cases h
              have hcs : cs.all commentOK = true := by have := pcF_sound i; rw [hpc] at this; exact this
              simp [methodW, (typeName_sound _ _ _ hn).1, paramList_sound _ _ _ hi, paramList_sound _ _ _ ho, hcs]
            · cases h
          · cases h
        · cases h
      · cases h
    · cases h
  · cases h

theorem errorDef_sound (i : In) (e : Err) (r : In) (h : errorDef i = .ok e r) : errW e = true := by
  unfold errorDef at h
  split at h
  rename_i cs i1 hpc
  try simp only [] at h
  split at h
  · split at h
    · split at h
      · rename_i n r2 hn
        try simp only [] at h
        split at h
        · rename_i fs r3 hf
          cases h
          have hcs : cs.all commentOK = true := by have := pcF_sound i; rw [hpc] at this; exact this
          simp [errW, (typeName_sound _ _ _ hn).1, paramList_sound _ _ _ hf, hcs]
        · cases h
      · cases h
    · cases h
  · cases h

theorem tdLoop_sound (cs0 : List In) (nm : In) (hn0 : typeNameOK nm = true) (hcs0 : cs0.all commentOK = true) :
    ∀ (k : Nat) (i : In) (fs : List Field) (vs : List (In × List In)) (t : CT) (r : In),
    fieldsW fs = true → vs.all variantW = true → typeDef.loop cs0 nm k i fs vs = .ok t r → ctW t = true := by
  intro k
  induction k with
  | zero => intro i fs vs t r _ _ h; simp [typeDef.loop] at h
  | succ k ih =>
    intro i fs vs t r hfs hvs h
    rw [typeDef.loop] at h
    split at h
    rename_i fcs i1 hpc
    have hfcs : fcs.all commentOK = true := by have := pcF_sound i; rw [hpc] at this; exact this
    split at h
    · rename_i fname r1 hfn
      have hname := (fieldName_sound _ _ _ hfn).1
      try simp only [] at h
      split at h
      · rename_i fs' vs' r3 hstep
        have hboth : fieldsW fs' = true ∧ vs'.all variantW = true := by
          split at hstep
          · try simp only [] at hstep
            split at hstep
            · rename_i ty r4 hty
              simp only [PR.ok.injEq, Prod.mk.injEq] at hstep
              obtain ⟨⟨rfl, rfl⟩, _⟩ := hstep
              refine ⟨?_, hvs⟩
              rw [fieldsW_append, hfs]
              simp [fieldsW, hname, varlinkType_sound _ _ _ _ hty, hfcs]
            · cases hstep
          · simp only [PR.ok.injEq, Prod.mk.injEq] at hstep
            obtain ⟨⟨rfl, rfl⟩, _⟩ := hstep
            refine ⟨hfs, ?_⟩
            rw [List.all_append, hvs]
            simp [variantW, hname, hfcs]
        try simp only [] at h
        split at h
        · exact ih _ _ _ _ _ hboth.1 hboth.2 h
        · split at h
          · split at h
            · cases h
            · split at h
              · cases h; simp [ctW, hn0, hboth.1, hcs0]
              · cases h; simp [ctW, hn0, hboth.2, hcs0]
          · cases h
      · cases h
    · cases h

theorem typeDef_sound (i : In) (t : CT) (r : In) (h : typeDef i = .ok t r) : ctW t = true := by
  unfold typeDef at h
  split at h
  rename_i cs i1 hpc
  have hcs : cs.all commentOK = true := by have := pcF_sound i; rw [hpc] at this; exact this
  try simp only [] at h
  split at h
  · split at h
    · split at h
      · rename_i n r2 hn
        have hn' := (typeName_sound _ _ _ hn).1
        try simp only [] at h
        split at h
        · try simp only [] at h
          split at h
          · cases h; simp [ctW, hn', hcs, fieldsW]
          · exact tdLoop_sound cs n hn' hcs _ _ _ _ _ _ rfl rfl h
        · cases h
      · cases h
    · cases h
  · cases h

theorem loop_sound : ∀ (k : Nat) (i : In) (acc a : Iface) (r : In),
    ifaceW acc = true → interfaceDef.loop k i acc = .ok a r → ifaceW a = true := by
  intro k
  induction k with
  | zero => intro i acc a r hacc h; simp only [interfaceDef.loop, PR.ok.injEq] at h; rw [← h.1]; exact hacc
  | succ k ih =>
    intro i acc a r hacc h
    simp only [ifaceW, Bool.and_eq_true] at hacc
    obtain ⟨⟨⟨⟨h1, h2⟩, h3⟩, h4⟩, h5⟩ := hacc
    rw [interfaceDef.loop] at h
    split at h
    · cases h; simp [ifaceW, h1, h2, h3, h4, h5]
    · try simp only [] at h
      split at h
      · cases h; simp [ifaceW, h1, h2, h3, h4, h5]
      · split at h
        · rename_i t r1 ht
          apply ih _ _ _ _ _ h
          simp [ifaceW, h1, h2, h3, h4, h5, List.all_append, typeDef_sound _ _ _ ht]
        · split at h
          · rename_i m r1 hm
            apply ih _ _ _ _ _ h
            simp [ifaceW, h1, h2, h3, h4, h5, List.all_append, methodDef_sound _ _ _ hm]
          · split at h
            · rename_i e r1 he
              apply ih _ _ _ _ _ h
              simp [ifaceW, h1, h2, h3, h4, h5, List.all_append, errorDef_sound _ _ _ he]
            · cases h

theorem interfaceDef_sound (i : In) (a : Iface) (r : In) (h : interfaceDef i = .ok a r) : ifaceW a = true := by
  unfold interfaceDef at h
  split at h
  rename_i cs i1 hpc
  have hcs : cs.all commentOK = true := by have := pcF_sound i; rw [hpc] at this; exact this
  try simp only [] at h
  split at h
  · split at h
    · split at h
      · rename_i name r2 hn
        try simp only [] at h
        exact loop_sound _ _ _ _ _ (by simp [ifaceW, interfaceName_sound _ _ _ hn, hcs]) h
      · cases h
    · cases h
  · cases h

/-- **C13 (soundness at the level of the tree)**: whatever text `parse_interface` accepts, the
    description it returns is made of grammatical names and parser-shaped comments only. -/
theorem parseInterface_sound (s : In) (a : Iface) (h : parseInterface s = .ok a) : ifaceW a = true := by
  unfold parseInterface at h
  try simp only [] at h
  split at h
  · cases h
  · split at h
    · cases h
    · rename_i a' rest hd
      split at h
      · cases h; exact interfaceDef_sound _ _ _ hd
      · cases h

end Idl
