import Zlink.Proofs.RxOracle
import Zlink.Proofs.RxBounds
/-! Streams of any total length (C01 / C07 / C17): the receive-path theorems of `Proofs/Rx.lean` bound the
    *whole* stream by the limit. Here that bound is only asked of each **burst** between two moments at
    which the connection is idle (everything that arrived has been handed out): from any idle state the
    theorems apply afresh, a fully consumed burst leaves the connection idle again, and so what a
    connection carried before changes nothing — neither for the frames of a later burst nor for the
    verdict on a frame that reaches the limit. -/
namespace Rx
open SpecRx

/-- nothing buffered, no message pending in the buffer -/
def Idle (s : St) : Prop := s.data = [] ∧ s.msgPos = 0

def isFrame : Out → Bool
  | .frame _ => true
  | _ => false

/-- how many frames a list of poll outcomes handed out -/
def frameCount (outs : List Out) : Nat := (outs.filter isFrame).length

def hasClose : List Ev → Bool
  | [] => false
  | .close :: _ => true
  | _ :: t => hasClose t

theorem init_idle (C : Consts) : Idle (init C) := ⟨rfl, rfl⟩

/-- From any idle state with some capacity, the invariant of the framing proof holds for a fresh burst. -/
theorem inv_of_idle (C : Consts) (B : List (List Byte)) (s : St) (e : Net) (hi : Idle s) (hc : 0 < s.cap)
    (ha : e.avail = []) : Inv C B s e (enc B) [] := by
  obtain ⟨hd, hm⟩ := hi
  refine ⟨by rw [hd]; simpa using hc, by rw [hd, ha]; simp, fun _ => by rw [hd]; simp, B, by simp,
    Or.inl ⟨hm, by rw [hd, ha]; simp⟩⟩

/-- Once every frame of the burst has been handed out, the connection is idle again. -/
theorem idle_of_inv_done (C : Consts) (B : List (List Byte)) (s : St) (e : Net) (fut : List Byte)
    (inv : Inv C B s e fut B) : Idle s ∧ e.avail = [] ∧ fut = [] := by
  obtain ⟨_, _, _, R, hfr, hshape⟩ := inv
  have hR : R = [] := by
    have : B ++ [] = B ++ R := by simpa using hfr
    exact (List.append_cancel_left this).symm
  subst hR
  rcases hshape with ⟨h0, h1⟩ | ⟨_, F1, F2, h1, h2, _, _⟩
  · have h1' : s.data ++ e.avail ++ fut = [] := by simpa [enc] using h1
    have ha := List.append_eq_nil_iff.mp h1'
    have hb := List.append_eq_nil_iff.mp ha.1
    exact ⟨⟨hb.1, h0⟩, hb.2, ha.2⟩
  · exfalso
    have := List.append_eq_nil_iff.mp h1.symm
    exact h2 this.1

theorem frameCount_cons (o : Out) (t : List Out) :
    frameCount (o :: t) = (if isFrame o then 1 else 0) + frameCount t := by
  unfold frameCount
  by_cases h : isFrame o = true
  · simp [h]; omega
  · simp [h]

/-- The invariant at the **end** of a run: the frames handed out are the next ones owed, in number
    `frameCount`. -/
theorem run_final_inv (C : Consts) (hstep : 0 < C.step) (sizes : Nat → Nat)
    (frames : List (List Byte)) (hF : ∀ f ∈ frames, FrameOK f) (hmax : (enc frames).length < C.max) :
    ∀ (evs : List Ev) (s : St) (e : Net) (fut : List Byte) (done : List (List Byte)),
      Inv C frames s e fut done → EvsOK evs fut → (e.closed = true → fut = []) →
      ∃ fut' done', Inv C frames (finalSt C sizes evs s e).1 (finalSt C sizes evs s e).2 fut' done' ∧
        done'.length = done.length + frameCount (run C sizes evs s e) := by
  intro evs
  induction evs with
  | nil => intro s e fut done inv _ _; exact ⟨fut, done, inv, by simp [run, frameCount]⟩
  | cons ev evs ih =>
    intro s e fut done inv hok hcl
    cases ev with
    | arrive b =>
      obtain ⟨fut', hfut, hok'⟩ := hok
      simp only [run, step, finalSt]
      apply ih s { e with avail := e.avail ++ b } fut' done ?_ hok'
      · intro h; have := hcl h; subst this
        have : b = [] ∧ fut' = [] := by
          have := hfut.symm; exact List.append_eq_nil_iff.mp this
        exact this.2
      · obtain ⟨hcap, hbound, htail, R0, hfr0, hshape⟩ := inv
        refine ⟨hcap, by simp; rw [hfut] at hbound; simp at hbound; omega, htail, R0, hfr0, ?_⟩
        rcases hshape with ⟨h0, h1⟩ | ⟨h0, F1, F2, h1, h2, h3, h4⟩
        · left; refine ⟨h0, ?_⟩
          show s.data ++ (e.avail ++ b) ++ fut' = enc R0
          rw [← h1, hfut]; simp
        · right; refine ⟨h0, F1, F2, h1, h2, h3, ?_⟩
          show (e.avail ++ b) ++ fut' = enc F2
          rw [← h4, hfut]; simp
    | close =>
      obtain ⟨hfut, hok'⟩ := hok
      simp only [run, step, finalSt]
      apply ih s { e with closed := true } fut done ?_ hok' (fun _ => hfut)
      obtain ⟨hcap, hbound, htail, hshape⟩ := inv
      exact ⟨hcap, hbound, htail, hshape⟩
    | poll =>
      have hok' : EvsOK evs fut := hok
      rcases poll_spec C hstep sizes frames hF hmax s e fut done inv with
        ⟨s', e', h1, h2, h3, _, _, _⟩ | ⟨s', e', f, R', h1, h2, h3, h4⟩ | ⟨s', e', h1, h2, h5⟩
      · simp only [run, step, finalSt, h1]
        obtain ⟨fut', done', g1, g2⟩ := ih s' e' fut done h2 hok' (by rw [h3]; exact hcl)
        exact ⟨fut', done', g1, by rw [g2, frameCount_cons]; simp [isFrame]⟩
      · simp only [run, step, finalSt, h1]
        obtain ⟨fut', done', g1, g2⟩ := ih s' e' fut (done ++ [f]) h3 hok' (by rw [h4]; exact hcl)
        exact ⟨fut', done', g1, by rw [g2, frameCount_cons]; simp [isFrame]; omega⟩
      · simp only [run, step, finalSt, h1]
        have hfut := hcl h2
        subst hfut
        obtain ⟨_, hinv', hcl'⟩ := h5 rfl
        obtain ⟨fut', done', g1, g2⟩ := ih s' e' [] done hinv' hok' (fun _ => rfl)
        exact ⟨fut', done', g1, by rw [g2, frameCount_cons]; simp [isFrame]⟩

theorem finalSt_closed (C : Consts) (sizes : Nat → Nat) :
    ∀ (evs : List Ev) (s : St) (e : Net), hasClose evs = false → (finalSt C sizes evs s e).2.closed = e.closed := by
  intro evs
  induction evs with
  | nil => intro s e _; rfl
  | cons ev evs ih =>
    intro s e h
    cases ev with
    | arrive b => simp only [finalSt, step]; exact ih _ _ (by simpa [hasClose] using h)
    | close => simp [hasClose] at h
    | poll =>
      simp only [finalSt, step]
      rw [ih _ _ (by simpa [hasClose] using h)]
      -- a poll never changes `closed`
      unfold poll
      split
      rename_i r s1 e1 hr
      have hcl : e1.closed = e.closed := by
        split at hr
        · cases hr; rfl
        · have := readLoop_closed C sizes (e.avail.length + 1) s e
          rw [hr] at this; exact this
      cases r <;> simp [hcl]
where
  readLoop_closed (C : Consts) (sizes : Nat → Nat) :
      ∀ (fuel : Nat) (s : St) (e : Net), (readLoop C sizes fuel s e).2.2.closed = e.closed := by
    intro fuel
    induction fuel with
    | zero => intro s e; rfl
    | succ fuel ih =>
      intro s e
      unfold readLoop
      simp only []
      split
      · rfl
      · split
        · rfl
        · split
          · rfl
          · rw [ih]

theorem run_append (C : Consts) (sizes : Nat → Nat) :
    ∀ (a b : List Ev) (s : St) (e : Net),
      run C sizes (a ++ b) s e = run C sizes a s e ++ run C sizes b (finalSt C sizes a s e).1 (finalSt C sizes a s e).2 := by
  intro a
  induction a with
  | nil => intro b s e; rfl
  | cons ev a ih =>
    intro b s e
    cases ev with
    | arrive x => simp only [List.cons_append, run, step, finalSt]; exact ih _ _ _
    | close => simp only [List.cons_append, run, step, finalSt]; exact ih _ _ _
    | poll =>
      simp only [List.cons_append, run, step, finalSt]
      rw [ih]

/-- **One burst from an idle connection**: whatever capacity the buffer has grown to, a burst shorter than
    the limit is received as on a fresh connection (the oracle of C01 / C07 holds for it), and if the run
    handed out all its frames the connection is idle again. -/
theorem burst_from_idle (C : Consts) (M : Nat) (hstep : 0 < C.step) (hm : C.max = M * C.step) (sizes : Nat → Nat)
    (B : List (List Byte)) (hF : ∀ f ∈ B, FrameOK f) (hmax : (enc B).length < C.max)
    (evs : List Ev) (hev : EvsOK evs (enc B))
    (s : St) (e : Net) (hi : Idle s) (hc : CapInv C M s) (ha : e.avail = []) (hcl : e.closed = false) :
    conforms evs (run C sizes evs s e) (g0 B) = true ∧
    Good (run C sizes evs s e) B ∧
    CapInv C M (finalSt C sizes evs s e).1 ∧
    (frameCount (run C sizes evs s e) = B.length →
      Idle (finalSt C sizes evs s e).1 ∧ (finalSt C sizes evs s e).2.avail = []) := by
  have hcap : 0 < s.cap := by
    obtain ⟨k, hk, hk1, _⟩ := hc
    rw [hk]; exact Nat.mul_pos (by omega) hstep
  have inv := inv_of_idle C B s e hi hcap ha
  refine ⟨?_, ?_, ?_, ?_⟩
  · have := run_conforms C hstep sizes B hF hmax evs s e (enc B) [] B (by simp) inv hev (by simp [hcl])
    simpa [g0, hcl] using this
  · exact run_good C hstep sizes B hF hmax evs s e (enc B) [] B (by simp) inv hev (by simp [hcl])
  · exact (run_capInv C M hstep hm sizes evs s e hc (by rw [hi.1]; simp)).1
  · intro hcount
    obtain ⟨fut', done', g1, g2⟩ := run_final_inv C hstep sizes B hF hmax evs s e (enc B) [] inv hev (by simp [hcl])
    obtain ⟨_, _, _, R, hfr, _⟩ := id g1
    have hR : R = [] := by
      have hl := congrArg List.length hfr
      simp at hl g2
      have : R.length = 0 := by omega
      exact List.length_eq_zero_iff.mp this
    subst hR
    have hd : done' = B := by simpa using hfr.symm
    subst hd
    obtain ⟨h1, h2, _⟩ := idle_of_inv_done C done' _ _ fut' g1
    exact ⟨h1, h2⟩

/-- A history: bursts with the events under which each arrives and is polled. -/
abbrev Phase := List (List Byte) × List Ev

/-- the outcomes of every phase, and the state the history leaves behind -/
def runPhases (C : Consts) (sizes : Nat → Nat) : List Phase → St → Net → List (List Out) × St × Net
  | [], s, e => ([], s, e)
  | p :: ps, s, e =>
    let r := runPhases C sizes ps (finalSt C sizes p.2 s e).1 (finalSt C sizes p.2 s e).2
    (run C sizes p.2 s e :: r.1, r.2)

/-- every phase is a burst of well-formed frames shorter than the limit, arriving completely under its
    events, without the peer closing -/
def PhaseOK (C : Consts) (p : Phase) : Prop :=
  (∀ f ∈ p.1, FrameOK f) ∧ (enc p.1).length < C.max ∧ EvsOK p.2 (enc p.1) ∧ hasClose p.2 = false

/-- every phase's outcomes satisfy the oracle of C01 / C07 for that phase's burst, as long as the earlier
    phases were consumed completely -/
def PhasesHold : List Phase → List (List Out) → Prop
  | [], _ => True
  | _ :: _, [] => False
  | p :: ps, o :: os => holds p.1 p.2 o = true ∧ Good o p.1 ∧ (frameCount o = p.1.length → PhasesHold ps os)

/-- every phase handed out all its frames -/
def AllConsumed : List Phase → List (List Out) → Prop
  | [], _ => True
  | _ :: _, [] => False
  | p :: ps, o :: os => frameCount o = p.1.length ∧ AllConsumed ps os

theorem phases_from_idle (C : Consts) (M : Nat) (hstep : 0 < C.step) (hm : C.max = M * C.step) (sizes : Nat → Nat) :
    ∀ (ps : List Phase) (s : St) (e : Net), (∀ p ∈ ps, PhaseOK C p) → Idle s → CapInv C M s → e.avail = [] →
      e.closed = false →
      PhasesHold ps (runPhases C sizes ps s e).1 ∧
      (AllConsumed ps (runPhases C sizes ps s e).1 →
        Idle (runPhases C sizes ps s e).2.1 ∧ CapInv C M (runPhases C sizes ps s e).2.1 ∧
        (runPhases C sizes ps s e).2.2.avail = [] ∧ (runPhases C sizes ps s e).2.2.closed = false) := by
  intro ps
  induction ps with
  | nil => intro s e _ hi hc ha hcl; exact ⟨trivial, fun _ => ⟨hi, hc, ha, hcl⟩⟩
  | cons p ps ih =>
    intro s e hall hi hc ha hcl
    obtain ⟨hF, hmax, hev, hnc⟩ := hall p (by simp)
    obtain ⟨g1, g2, g3, g4⟩ := burst_from_idle C M hstep hm sizes p.1 hF hmax p.2 hev s e hi hc ha hcl
    have hcl' : (finalSt C sizes p.2 s e).2.closed = false := by rw [finalSt_closed C sizes p.2 s e hnc]; exact hcl
    simp only [runPhases, PhasesHold, AllConsumed]
    refine ⟨⟨by simpa [holds] using g1, g2, fun hcount => ?_⟩, fun hcons => ?_⟩
    · obtain ⟨i1, i2⟩ := g4 hcount
      exact (ih _ _ (fun q hq => hall q (by simp [hq])) i1 g3 i2 hcl').1
    · obtain ⟨i1, i2⟩ := g4 hcons.1
      exact (ih _ _ (fun q hq => hall q (by simp [hq])) i1 g3 i2 hcl').2 hcons.2

/-- **The verdict on a frame does not depend on the state the buffer was left in**: from any idle state
    (whatever capacity ≤ the limit the buffer has grown to) a lone frame is delivered iff its wire size is
    below the limit, and refused with `overflow` otherwise. -/
theorem threshold_from_idle (C : Consts) (M : Nat) (hstep : 0 < C.step) (hm : C.max = M * C.step)
    (sizes : Nat → Nat) (s : St) (hi : Idle s) (hc : CapInv C M s) (k : Nat)
    (f : List Byte) (hf : FrameOK f) :
    (poll C sizes s ⟨f ++ [0], true, k⟩).1 = if f.length + 1 < C.max then .frame f else .err .overflow := by
  have hcap : 0 < s.cap := by
    obtain ⟨j, hj, hj1, _⟩ := hc
    rw [hj]; exact Nat.mul_pos (by omega) hstep
  by_cases hlt : f.length + 1 < C.max
  · rw [if_pos hlt]
    have h := recvN_frames C hstep sizes [f] (by intro g hg; simp at hg; rw [hg]; exact hf)
      (by simp [enc]; omega) 1 [f] [] s ⟨enc [f], true, k⟩ (by simp)
      (by simpa using inv_of_idle C [f] s ⟨[], true, k⟩ hi hcap rfl |> fun h => by
            -- the burst has already arrived: move it from the future into `avail`
            obtain ⟨a, b, c, R, d, sh⟩ := h
            refine ⟨a, by simpa using b, c, R, d, ?_⟩
            rcases sh with ⟨h0, h1⟩ | ⟨h0, _⟩
            · exact Or.inl ⟨h0, by simpa using h1⟩
            · rw [hi.2] at h0; omega) rfl
    simp only [recvN, enc] at h
    simpa using (List.cons.inj h).1
  · rw [if_neg hlt]
    obtain ⟨s', e', h1, _⟩ := readLoop_overflow C M hstep hm sizes ((f ++ [0]).length + 1) s ⟨f ++ [0], true, k⟩
      (by simp) hc (by rw [hi.1]; simpa using hcap) (by rw [hi.1]; simp; omega)
      (by
        rw [hi.1]
        intro h
        have : List.take (C.max - ([] : List Byte).length - 1) (f ++ [0]) = List.take (C.max - 1) f := by
          simp only [List.length_nil, Nat.sub_zero]
          rw [List.take_append_of_le_length (by omega)]
        rw [this] at h
        exact hf.2 (List.mem_of_mem_take h))
    unfold poll
    simp only [hi.2, Nat.lt_irrefl, gt_iff_lt, if_false]
    rw [h1]

end Rx
