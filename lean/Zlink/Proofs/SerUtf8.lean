import Zlink.Model.Utf8
import Zlink.Proofs.Ser
import Zlink.Gen.Consts
import Zlink.Model.JsonStr
namespace Utf8

/-- one well-formed UTF-8 scalar value -/
def scalar : List UInt8 → Bool
  | [b0] => b0 < 0x80
  | [b0, b1] => 0xC2 ≤ b0 && b0 ≤ 0xDF && cont b1
  | [b0, b1, b2] => 0xE0 ≤ b0 && b0 ≤ 0xEF &&
      (if b0 = 0xE0 then 0xA0 ≤ b1 && b1 ≤ 0xBF else if b0 = 0xED then 0x80 ≤ b1 && b1 ≤ 0x9F else cont b1) && cont b2
  | [b0, b1, b2, b3] => 0xF0 ≤ b0 && b0 ≤ 0xF4 &&
      (if b0 = 0xF0 then 0x90 ≤ b1 && b1 ≤ 0xBF else if b0 = 0xF4 then 0x80 ≤ b1 && b1 ≤ 0x8F else cont b1) && cont b2 && cont b3
  | _ => false

macro "u8omega" : tactic => `(tactic| (simp only [UInt8.lt_iff_toNat_lt, UInt8.le_iff_toNat_le, UInt8.toNat_ofNat, UInt8.reduceToNat, Nat.not_lt, Nat.not_le] at * <;> omega))

theorem valid_step (b0 : UInt8) (r : List UInt8) (h : valid (b0 :: r) = true) :
    ∃ c r', b0 :: r = c ++ r' ∧ scalar c = true ∧ valid r' = true ∧ c ≠ [] := by
  rw [valid.eq_def] at h
  simp only [] at h
  split at h
  · rename_i h0
    exact ⟨[b0], r, rfl, by simpa [scalar] using h0, h, by simp⟩
  · split at h
    · rename_i h1
      split at h
      · rename_i b1 r'
        simp only [Bool.and_eq_true] at h
        exact ⟨[b0, b1], r', rfl, by simp only [scalar, Bool.and_eq_true]; exact ⟨by simpa using h1, h.1⟩, h.2, by simp⟩
      · cases h
    · split at h
      · rename_i h2
        split at h
        · rename_i b1 b2 r'
          simp only [Bool.and_eq_true] at h
          exact ⟨[b0, b1, b2], r', rfl, by simp only [scalar, Bool.and_eq_true]; exact ⟨⟨by simpa using h2, h.1.1⟩, h.1.2⟩, h.2, by simp⟩
        · cases h
      · split at h
        · rename_i h3
          split at h
          · rename_i b1 b2 b3 r'
            simp only [Bool.and_eq_true] at h
            exact ⟨[b0, b1, b2, b3], r', rfl, by simp only [scalar, Bool.and_eq_true]; exact ⟨⟨⟨by simpa using h3, h.1.1.1⟩, h.1.1.2⟩, h.1.2⟩, h.2, by simp⟩
          · cases h
        · cases h

theorem valid_comp (c r : List UInt8) (hc : scalar c = true) (hr : valid r = true) : valid (c ++ r) = true := by
  match c, hc with
  | [b0], hc =>
    simp only [scalar, decide_eq_true_eq] at hc
    simp only [List.cons_append, List.nil_append]
    rw [valid.eq_def]; simp only []
    rw [if_pos hc]; exact hr
  | [b0, b1], hc =>
    simp only [scalar, Bool.and_eq_true, decide_eq_true_eq] at hc
    simp only [List.cons_append, List.nil_append]
    rw [valid.eq_def]; simp only []
    rw [if_neg (by have := hc.1.1; u8omega), if_pos (by simpa using hc.1)]
    simp [hc.2, hr]
  | [b0, b1, b2], hc =>
    simp only [scalar, Bool.and_eq_true, decide_eq_true_eq] at hc
    simp only [List.cons_append, List.nil_append]
    rw [valid.eq_def]; simp only []
    rw [if_neg (by have := hc.1.1.1; u8omega), if_neg (by have := hc.1.1.1; simp only [Bool.and_eq_true, decide_eq_true_eq, not_and]; intro _; u8omega),
      if_pos (by simpa using hc.1.1)]
    simp [hc.1.2, hc.2, hr]
  | [b0, b1, b2, b3], hc =>
    simp only [scalar, Bool.and_eq_true, decide_eq_true_eq] at hc
    simp only [List.cons_append, List.nil_append]
    rw [valid.eq_def]; simp only []
    rw [if_neg (by have := hc.1.1.1.1; u8omega), if_neg (by have := hc.1.1.1.1; simp only [Bool.and_eq_true, decide_eq_true_eq, not_and]; intro _; u8omega),
      if_neg (by have := hc.1.1.1.1; simp only [Bool.and_eq_true, decide_eq_true_eq, not_and]; intro _; u8omega),
      if_pos (by simpa using hc.1.1.1)]
    simp [hc.1.1.2, hc.1.2, hc.2, hr]


theorem valid_append : ∀ (n : Nat) (a b : List UInt8), a.length ≤ n → valid a = true → valid b = true → valid (a ++ b) = true := by
  intro n
  induction n with
  | zero => intro a b hl _ hb; have : a = [] := List.eq_nil_of_length_eq_zero (by omega); subst this; simpa using hb
  | succ n ih =>
    intro a b hl ha hb
    cases a with
    | nil => simpa using hb
    | cons b0 r =>
      obtain ⟨c, r', e, hc, hr', hne⟩ := valid_step b0 r ha
      rw [e, List.append_assoc]
      apply valid_comp c _ hc
      apply ih r' b _ hr' hb
      have h1 : r.length + 1 = c.length + r'.length := by
        have : (b0 :: r).length = (c ++ r').length := by rw [e]
        simpa using this
      have h2 : 1 ≤ c.length := by cases c with | nil => exact absurd rfl hne | cons _ _ => simp
      simp at hl; omega

theorem valid_app (a b : List UInt8) (ha : valid a = true) (hb : valid b = true) : valid (a ++ b) = true :=
  valid_append a.length a b (Nat.le_refl _) ha hb

def ascii (l : List UInt8) : Bool := l.all (fun x => decide (x < 0x80))

theorem valid_of_ascii (l : List UInt8) (h : ascii l = true) : valid l = true := by
  induction l with
  | nil => rfl
  | cons b r ih =>
    simp only [ascii, List.all_cons, Bool.and_eq_true, decide_eq_true_eq] at h
    rw [valid.eq_def]; simp only []
    rw [if_pos h.1]
    exact ih (by simpa [ascii] using h.2)

/-! ### escaping keeps UTF-8 well-formed: only ASCII bytes are rewritten, into ASCII -/
open Ser

/-- the escape tables of the current source -/
abbrev tbl : Tbl := JsonStr.tbl

theorem escByte_table (n : Nat) (hn : n < 256) :
    (if n < 128 then ascii (escByte tbl (UInt8.ofNat n)) else escByte tbl (UInt8.ofNat n) == [UInt8.ofNat n]) = true := by
  revert n
  decide +kernel

theorem escByte_low (b : UInt8) (h : b < 0x80) : ascii (escByte tbl b) = true := by
  have := escByte_table b.toNat (UInt8.toNat_lt b)
  have hb : UInt8.ofNat b.toNat = b := UInt8.ofNat_toNat
  rw [hb, if_pos (by u8omega)] at this
  exact this

theorem escByte_high (b : UInt8) (h : ¬ b < 0x80) : escByte tbl b = [b] := by
  have := escByte_table b.toNat (UInt8.toNat_lt b)
  have hb : UInt8.ofNat b.toNat = b := UInt8.ofNat_toNat
  rw [hb, if_neg (by u8omega)] at this
  simpa using this

theorem cont_high (b : UInt8) (h : cont b = true) : ¬ b < 0x80 := by
  simp only [cont, Bool.and_eq_true, decide_eq_true_eq] at h
  have := h.1; u8omega

theorem escape_cons (b : UInt8) (r : List UInt8) : escape tbl (b :: r) = escByte tbl b ++ escape tbl r := by
  simp [escape, List.flatMap_cons]

/-- escaping a scalar value: ASCII stays ASCII, a multi-byte sequence is copied -/
theorem escape_scalar (c : List UInt8) (hc : scalar c = true) : valid (escape tbl c) = true := by
  match c, hc with
  | [b0], hc =>
    simp only [scalar, decide_eq_true_eq] at hc
    rw [escape_cons]; simp only [escape, List.flatMap_nil, List.append_nil]
    exact valid_of_ascii _ (escByte_low b0 hc)
  | [b0, b1], hc =>
    have hc' := hc
    simp only [scalar, Bool.and_eq_true, decide_eq_true_eq] at hc
    rw [escape_cons, escape_cons, escByte_high b0 (by have := hc.1.1; u8omega), escByte_high b1 (cont_high b1 hc.2)]
    simp only [escape, List.flatMap_nil, List.append_nil, List.cons_append, List.nil_append]
    have := valid_comp [b0, b1] [] hc' rfl
    simpa using this
  | [b0, b1, b2], hc =>
    have hc' := hc
    simp only [scalar, Bool.and_eq_true, decide_eq_true_eq] at hc
    have h1 : ¬ b1 < 0x80 := by
      have := hc.1.2
      split at this
      · simp only [Bool.and_eq_true, decide_eq_true_eq] at this; have := this.1; u8omega
      · split at this
        · simp only [Bool.and_eq_true, decide_eq_true_eq] at this; have := this.1; u8omega
        · exact cont_high b1 this
    rw [escape_cons, escape_cons, escape_cons, escByte_high b0 (by have := hc.1.1.1; u8omega), escByte_high b1 h1, escByte_high b2 (cont_high b2 hc.2)]
    simp only [escape, List.flatMap_nil, List.append_nil, List.cons_append, List.nil_append]
    have := valid_comp [b0, b1, b2] [] hc' rfl
    simpa using this
  | [b0, b1, b2, b3], hc =>
    have hc' := hc
    simp only [scalar, Bool.and_eq_true, decide_eq_true_eq] at hc
    have h1 : ¬ b1 < 0x80 := by
      have := hc.1.1.2
      split at this
      · simp only [Bool.and_eq_true, decide_eq_true_eq] at this; have := this.1; u8omega
      · split at this
        · simp only [Bool.and_eq_true, decide_eq_true_eq] at this; have := this.1; u8omega
        · exact cont_high b1 this
    rw [escape_cons, escape_cons, escape_cons, escape_cons, escByte_high b0 (by have := hc.1.1.1.1; u8omega), escByte_high b1 h1,
      escByte_high b2 (cont_high b2 hc.1.2), escByte_high b3 (cont_high b3 hc.2)]
    simp only [escape, List.flatMap_nil, List.append_nil, List.cons_append, List.nil_append]
    have := valid_comp [b0, b1, b2, b3] [] hc' rfl
    simpa using this

theorem escape_append (a b : List UInt8) : escape tbl (a ++ b) = escape tbl a ++ escape tbl b := by
  simp [escape, List.flatMap_append]

theorem valid_escape : ∀ (n : Nat) (s : List UInt8), s.length ≤ n → valid s = true → valid (escape tbl s) = true := by
  intro n
  induction n with
  | zero => intro s hl _; have : s = [] := List.eq_nil_of_length_eq_zero (by omega); subst this; rfl
  | succ n ih =>
    intro s hl hs
    cases s with
    | nil => rfl
    | cons b0 r =>
      obtain ⟨c, r', e, hc, hr', hne⟩ := valid_step b0 r hs
      rw [e, escape_append]
      apply valid_app _ _ (escape_scalar c hc)
      apply ih r' _ hr'
      have h1 : r.length + 1 = c.length + r'.length := by
        have : (b0 :: r).length = (c ++ r').length := by rw [e]
        simpa using this
      have h2 : 1 ≤ c.length := by cases c with | nil => exact absurd rfl hne | cons _ _ => simp
      simp at hl; omega

theorem valid_quoted (s : List UInt8) (hs : valid s = true) : valid (quoted tbl s) = true := by
  have h1 : quoted tbl s = [34] ++ (escape tbl s ++ [34]) := rfl
  rw [h1]
  exact valid_app _ _ rfl (valid_app _ _ (valid_escape _ s (Nat.le_refl _) hs) rfl)


theorem ascii_append (a b : List UInt8) : ascii (a ++ b) = (ascii a && ascii b) := by simp [ascii]

theorem dec3_ascii (n : Nat) (hn : n < 256) : ascii (dec3 (UInt8.ofNat n)) = true := by
  revert n
  decide +kernel

theorem renderBytes_ascii : ∀ (bs : List UInt8) (first : Bool), ascii (renderBytes first bs) = true := by
  intro bs
  induction bs with
  | nil => intro _; rfl
  | cons b r ih =>
    intro first
    have hb : ascii (dec3 b) = true := by
      have := dec3_ascii b.toNat (UInt8.toNat_lt b)
      rwa [UInt8.ofNat_toNat] at this
    simp only [renderBytes, ascii_append, hb, ih, Bool.and_true]
    cases first <;> rfl

/-! Strings (and variant names) are Rust `str`s, hence well-formed UTF-8; integer and float texts come
    from `itoa` / `ryu` and are ASCII. -/
mutual
def U8ok : SVal → Bool
  | .int x => ascii x
  | .float x => ascii x
  | .str s => valid s
  | .some v => U8ok v
  | .newtype v => U8ok v
  | .variant n v => valid n && U8ok v
  | .seq _ items => U8okItems items
  | .map _ entries => U8okEntries entries
  | _ => true
def U8okItems : SList → Bool
  | .nil => true
  | .cons v r => U8ok v && U8okItems r
def U8okEntries : SEntries → Bool
  | .nil => true
  | .cons k v r => U8ok k && U8ok v && U8okEntries r
end

theorem valid_cons_ascii (b : UInt8) (r : List UInt8) (hb : b < 0x80) (hr : valid r = true) : valid (b :: r) = true := by
  rw [valid.eq_def]; simp only []; rw [if_pos hb]; exact hr

theorem renderKey_valid : ∀ k, U8ok k = true → valid (renderKey tbl k).1 = true
  | .str s, h => by simpa [renderKey] using valid_quoted s (by simpa [U8ok] using h)
  | .int x, h => by
      simp only [U8ok] at h
      simp only [renderKey]
      exact valid_cons_ascii 34 _ (by decide) (valid_app _ _ (valid_of_ascii x h) rfl)
  | .newtype v, h => by simpa [renderKey] using renderKey_valid v (by simpa [U8ok] using h)
  | .bool _, _ => rfl
  | .float _, _ => rfl
  | .fnull, _ => rfl
  | .bytes _, _ => rfl
  | .unit, _ => rfl
  | .some _, _ => rfl
  | .variant _ _, _ => rfl
  | .seq _ _, _ => rfl
  | .map _ _, _ => rfl

mutual
theorem render_valid : ∀ v, U8ok v = true → valid (render tbl v).1 = true
  | .bool true, _ => by decide
  | .bool false, _ => by decide
  | .int x, h => by simpa [render] using valid_of_ascii x (by simpa [U8ok] using h)
  | .float x, h => by simpa [render] using valid_of_ascii x (by simpa [U8ok] using h)
  | .fnull, _ => by decide
  | .unit, _ => by decide
  | .str s, h => by simpa [render] using valid_quoted s (by simpa [U8ok] using h)
  | .bytes bs, _ => by
      simp only [render]
      exact valid_cons_ascii 91 _ (by decide) (valid_app _ _ (valid_of_ascii _ (renderBytes_ascii bs true)) rfl)
  | .some v, h => by simpa [render] using render_valid v (by simpa [U8ok] using h)
  | .newtype v, h => by simpa [render] using render_valid v (by simpa [U8ok] using h)
  | .variant name v, h => by
      simp only [U8ok, Bool.and_eq_true] at h
      have hv := render_valid v h.2
      have hq := valid_quoted name h.1
      simp only [render]
      split
      · exact valid_cons_ascii 123 _ (by decide) (valid_app _ _ (valid_app _ _ hq rfl) hv)
      · exact valid_cons_ascii 123 _ (by decide) (valid_app _ _ (valid_app _ _ (valid_app _ _ hq rfl) hv) rfl)
  | .seq _ items, h => by
      have hi := items_valid true items (by simpa [U8ok] using h)
      simp only [render]
      split
      · exact valid_cons_ascii 91 _ (by decide) hi
      · exact valid_cons_ascii 91 _ (by decide) (valid_app _ _ hi rfl)
  | .map _ entries, h => by
      have hi := entries_valid true entries (by simpa [U8ok] using h)
      simp only [render]
      split
      · exact valid_cons_ascii 123 _ (by decide) hi
      · exact valid_cons_ascii 123 _ (by decide) (valid_app _ _ hi rfl)
theorem items_valid : ∀ (first : Bool) items, U8okItems items = true → valid (renderItems tbl first items).1 = true
  | _, .nil, _ => rfl
  | first, .cons v r, h => by
      simp only [U8okItems, Bool.and_eq_true] at h
      have hv := render_valid v h.1
      have hr := items_valid false r h.2
      have hsep : valid (if first then [] else [44] : List UInt8) = true := by cases first <;> rfl
      simp only [renderItems]
      split
      · exact valid_app _ _ hsep hv
      · exact valid_app _ _ (valid_app _ _ hsep hv) hr
theorem entries_valid : ∀ (first : Bool) es, U8okEntries es = true → valid (renderEntries tbl first es).1 = true
  | _, .nil, _ => rfl
  | first, .cons k v r, h => by
      simp only [U8okEntries, Bool.and_eq_true] at h
      have hk := renderKey_valid k h.1.1
      have hv := render_valid v h.1.2
      have hr := entries_valid false r h.2
      have hsep : valid (if first then [] else [44] : List UInt8) = true := by cases first <;> rfl
      simp only [renderEntries]
      split
      · exact valid_app _ _ hsep hk
      · split
        · exact valid_app _ _ (valid_app _ _ (valid_app _ _ hsep hk) rfl) hv
        · exact valid_app _ _ (valid_app _ _ (valid_app _ _ (valid_app _ _ hsep hk) rfl) hv) hr
end

end Utf8
