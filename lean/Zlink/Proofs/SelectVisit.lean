import Zlink.Proofs.Select
/-! When `SelectAll::poll` returns `Pending` it has polled every future: each of them holds the task's waker. -/
namespace Sel

theorem visited_of_scan_none (n start : Nat) (ready : Nat → Bool) : ∀ i, i ≤ n → scan n start ready i = none →
    visited n start ready i = (List.range i).map (fun k => (start % n + (n - i + k)) % n) := by
  intro i
  induction i with
  | zero => intro _ _; rfl
  | succ i ih =>
    intro hi h
    simp only [scan] at h
    by_cases hr : ready ((start % n + (n - (i + 1))) % n) = true
    · rw [if_pos hr] at h; cases h
    · rw [if_neg hr] at h
      simp only [visited, if_neg hr]
      rw [ih (by omega) h, List.range_succ_eq_map, List.map_cons, List.map_map]
      congr 1
      · apply List.map_congr_left
        intro k _
        simp only [Function.comp]
        have : n - (i + 1) + (k + 1) = n - i + k := by omega
        rw [this]

/-- **`Pending` means everybody was polled**: if no future is ready, every index below `n` is among the polled ones. -/
theorem scan_none_visits_all (n start : Nat) (ready : Nat → Bool) (hn : 0 < n) (h : scan n start ready n = none) :
    ∀ x, x < n → x ∈ visited n start ready n := by
  intro x hx
  rw [visited_of_scan_none n start ready n (Nat.le_refl _) h]
  apply List.mem_map.mpr
  refine ⟨dist n start x, List.mem_range.mpr (dist_lt n start x hn), ?_⟩
  have := idx_of_dist n start x hn hx
  simpa using this

/-- a ready future ends the scan: nothing behind the winner is polled in this round (the loop comes round again) -/
theorem visited_last_is_winner (n start : Nat) (ready : Nat → Bool) : ∀ i w, scan n start ready i = some w →
    (visited n start ready i).getLast? = some w := by
  intro i
  induction i with
  | zero => intro w h; cases h
  | succ i ih =>
    intro w h
    simp only [scan] at h
    by_cases hr : ready ((start % n + (n - (i + 1))) % n) = true
    · rw [if_pos hr] at h
      simp only [visited, if_pos hr]
      cases h; rfl
    · rw [if_neg hr] at h
      simp only [visited, if_neg hr]
      have := ih w h
      cases hv : visited n start ready i with
      | nil => rw [hv] at this; cases this
      | cons a t => rw [hv] at this; simpa [List.getLast?_cons_cons] using this
end Sel
