import Zlink.Proofs.IdlWs
/-! Round trip of the type sub-language: for every well-formed type `t` without commented enum variants,
    the parser's `varlink_type` reads `render t` followed by `,` or `)` back as exactly `t` and stops
    there — for every nesting depth and every number of fields or variants. -/
namespace Idl
open SpecIdl

/-! ### side conditions -/

mutual
/-- no inline enum carries comments on its variants (such enums render in a form the parser refuses:
    the known finding of C14) -/
def noVC : Ty → Bool
  | .optional t => noVC t
  | .array t => noVC t
  | .map t => noVC t
  | .enum vs => vs.all (fun v => v.2.isEmpty)
  | .struct fs => noVCF fs
  | _ => true
def noVCF : List (In × Ty × List In) → Bool
  | [] => true
  | (_, t, _) :: r => noVC t && noVCF r
end

mutual
/-- fuel that suffices for `nonOptional` on the rendering of a type -/
def M : Ty → Nat
  | .optional t => M t + 1
  | .array t => M t + 2
  | .map t => M t + 2
  | .enum _ => 5
  | .struct fs => MF fs + 5
  | _ => 1
def MF : List (In × Ty × List In) → Nat
  | [] => 1
  | (_, t, _) :: r => M t + 2 + MF r
end

def isOpt : Ty → Bool
  | .optional _ => true
  | _ => false

/-- what follows a type in a rendered text: `,` or `)` -/
def stopTy : In → Bool
  | c :: _ => c == 44 || c == 41
  | [] => false

theorem stopTy_plain {r : In} (h : stopTy r = true) : plainHead r = true := by
  cases r with
  | nil => rfl
  | cons c t =>
    simp only [stopTy, Bool.or_eq_true, beq_iff_eq] at h
    simp only [plainHead, Bool.and_eq_true, Bool.not_eq_true', bne_iff_ne, ne_eq]
    rcases h with h | h <;> subst h <;> decide

theorem stopTy_stopsName {r : In} (h : stopTy r = true) : stopsName r = true := by
  cases r with
  | nil => rfl
  | cons c t =>
    simp only [stopTy, Bool.or_eq_true, beq_iff_eq] at h
    rcases h with h | h <;> subst h <;> simp [stopsName, isAlnum, isAlpha, isDigit]

theorem stopTy_notAlnum {r : In} (h : stopTy r = true) : ∀ c, r.head? = some c → isAlnum c = false := by
  cases r with
  | nil => simp
  | cons c t =>
    simp only [stopTy, Bool.or_eq_true, beq_iff_eq] at h
    intro d hd
    simp at hd; subst hd
    rcases h with h | h <;> subst h <;> decide

theorem tyOK_optional {t : Ty} (h : tyOK (.optional t) = true) : isOpt t = false ∧ tyOK t = true := by
  cases t with
  | optional t' => simp [tyOK] at h
  | _ => exact ⟨rfl, by first | (simp [tyOK] at h ⊢; done) | (simp [tyOK] at h ⊢; exact h)⟩

/-! ### the alternatives of `varlink_type` -/

/-- `non_optional_type = alt((array_type, map_type, element_type))` -/
def nonOptional (fuel : Nat) (r : In) : PR Ty :=
  match arrayType fuel r with
  | .ok t r' => .ok t r'
  | .err _ =>
    match mapType fuel r with
    | .ok t r' => .ok t r'
    | .err _ => elementType fuel r

theorem litB_head_ne (a : Byte) (p i : In) (h : i.head? ≠ some a) : litB (a :: p) i = .err i := by
  cases i with
  | nil => exact litB_nil a p
  | cons c t => exact litB_cons_ne a c p t (by simpa using h)

theorem optionalType_head_ne (f : Nat) (i : In) (h : i.head? ≠ some 63) : optionalType f i = .err i := by
  cases f with
  | zero => rfl
  | succ f => rw [optionalType, litB_head_ne 63 [] i h]

theorem arrayType_head_ne (f : Nat) (i : In) (h : i.head? ≠ some 91) : arrayType f i = .err i := by
  cases f with
  | zero => rfl
  | succ f => rw [arrayType, litB_head_ne 91 [93] i h]

theorem mapType_head_ne (f : Nat) (i : In) (h : i.head? ≠ some 91) : mapType f i = .err i := by
  cases f with
  | zero => rfl
  | succ f => rw [mapType, litB_head_ne 91 _ i h]

/-- an input that does not start with `?` is handed to the three non-optional alternatives -/
theorem varlinkType_not_opt (f : Nat) (i : In) (h : i.head? ≠ some 63) :
    varlinkType (f + 1) i = nonOptional f i := by
  rw [varlinkType, optionalType_head_ne f i h]
  unfold nonOptional
  cases h1 : arrayType f i <;> simp only []
  cases h2 : mapType f i <;> simp only []

/-- `?` followed by something the non-optional alternatives accept -/
theorem varlinkType_opt (f : Nat) (r r' : In) (t : Ty) (h : nonOptional f r = .ok t r') :
    varlinkType (f + 2) (63 :: r) = .ok (.optional t) r' := by
  rw [varlinkType, optionalType]
  have hl : litB [63] (63 :: r) = .ok () r := litB_append [63] r
  rw [hl]
  simp only []
  unfold nonOptional at h
  cases h1 : arrayType f r with
  | ok t1 r1 => rw [h1] at h; simp only [] at h; cases h; rfl
  | err e1 =>
    rw [h1] at h; simp only [] at h
    cases h2 : mapType f r with
    | ok t2 r2 => rw [h2] at h; simp only [] at h; cases h; rfl
    | err e2 =>
      rw [h2] at h; simp only [] at h
      rw [h]

/-! ### element types -/

theorem primitive_ok_bool (r : In) : primitive (([98, 111, 111, 108] : In) ++ r) = .ok .bool r := by
  simp [primitive, pfxB, List.isPrefixOf]
theorem primitive_ok_int (r : In) : primitive (([105, 110, 116] : In) ++ r) = .ok .int r := by
  simp [primitive, pfxB, List.isPrefixOf]
theorem primitive_ok_float (r : In) : primitive (([102, 108, 111, 97, 116] : In) ++ r) = .ok .float r := by
  simp [primitive, pfxB, List.isPrefixOf]
theorem primitive_ok_string (r : In) : primitive (([115, 116, 114, 105, 110, 103] : In) ++ r) = .ok .string r := by
  simp [primitive, pfxB, List.isPrefixOf]
theorem primitive_ok_object (r : In) : primitive (([111, 98, 106, 101, 99, 116] : In) ++ r) = .ok .object r := by
  simp [primitive, pfxB, List.isPrefixOf]

/-- `primitive` needs a lower-case first letter -/
theorem primitive_not_lower (c : Byte) (t : In) (h : c ≠ 98 ∧ c ≠ 105 ∧ c ≠ 102 ∧ c ≠ 115 ∧ c ≠ 111) :
    primitive (c :: t) = .err (c :: t) := by
  obtain ⟨h1, h2, h3, h4, h5⟩ := h
  have e : ∀ (a : Byte) (p : In), c ≠ a → pfxB (a :: p) (c :: t) = false := by
    intro a p hne
    simp only [pfxB, List.isPrefixOf, Bool.and_eq_false_iff, beq_eq_false_iff_ne, ne_eq]
    left; exact fun e => hne e.symm
  simp [primitive, e _ _ h1, e _ _ h2, e _ _ h3, e _ _ h4, e _ _ h5]

theorem typeName_not_upper (c : Byte) (t : In) (h : isUpper c = false) : typeName (c :: t) = .err (c :: t) := by
  simp [typeName, h]

theorem plainHead_cons (c : Byte) (t : In) (h : (!isMultispace c && c != 35) = true) : plainHead (c :: t) = true := h

/-! ### inline enums -/

/-- text of the variants after the first: `, v` each -/
def moreVariants (vs : List In) : In := vs.flatMap fun v => ([44, 32] : In) ++ v

theorem joinWith_cons_more (v : In) (vs : List In) :
    joinWith ([44, 32] : In) (v :: vs) = v ++ moreVariants vs := by
  induction vs generalizing v with
  | nil => simp [joinWith, moreVariants]
  | cons w ws ih =>
    rw [joinWith, ih w]
    · simp [moreVariants, List.flatMap_cons]
    · simp

theorem fieldNameOK_alphaHead {n : In} (h : fieldNameOK n = true) : alphaHead n = true := by
  cases n with
  | nil => simp [fieldNameOK] at h
  | cons c t => simp only [fieldNameOK, Bool.and_eq_true] at h; exact h.1

theorem enum_more_ok (vs : List In) : ∀ (k : Nat) (rest : In) (acc : List In),
    vs.all fieldNameOK = true → vs.length < k →
    enumType.more k (moreVariants vs ++ 41 :: rest) acc = (acc ++ vs, 41 :: rest) := by
  induction vs with
  | nil =>
    intro k rest acc _ hk
    cases k with
    | zero => simp at hk
    | succ k =>
      simp only [moreVariants, List.flatMap_nil, List.nil_append]
      rw [enumType.more, wsF_plain (plainHead_cons 41 rest (by decide)), litB_cons_ne 44 41 [] rest (by decide)]
      simp
  | cons v vs ih =>
    intro k rest acc hok hk
    cases k with
    | zero => simp at hk
    | succ k =>
      simp only [List.all_cons, Bool.and_eq_true] at hok
      have e : moreVariants (v :: vs) ++ 41 :: rest = 44 :: 32 :: (v ++ (moreVariants vs ++ 41 :: rest)) := by
        simp [moreVariants, List.flatMap_cons]
      rw [e, enumType.more, wsF_plain (plainHead_cons 44 _ (by decide))]
      have hl : litB [44] (44 :: 32 :: (v ++ (moreVariants vs ++ 41 :: rest))) = .ok () (32 :: (v ++ (moreVariants vs ++ 41 :: rest))) :=
        litB_append [44] _
      rw [hl]
      simp only []
      rw [wsF_space (alphaHead_plain (alphaHead_append _ (fieldNameOK_alphaHead hok.1)))]
      have hs : stopsName (moreVariants vs ++ 41 :: rest) = true := by
        cases vs with
        | nil => simp [moreVariants, stopsName, isAlnum, isAlpha, isDigit]
        | cons w ws => simp [moreVariants, List.flatMap_cons, stopsName, isAlnum, isAlpha, isDigit]
      rw [fieldName_complete v _ hok.1 hs]
      simp only []
      rw [ih k rest (acc ++ [v]) hok.2 (by simp at hk; omega)]
      simp

theorem moreVariants_length (vs : List In) : vs.length ≤ (moreVariants vs).length := by
  induction vs with
  | nil => simp [moreVariants]
  | cons v vs ih =>
    simp only [moreVariants, List.flatMap_cons, List.length_append, List.length_cons] at *
    omega

theorem fieldName_variant (v rest : In) (hv : fieldNameOK v = true) (hs : stopTy rest = true) :
    fieldName (v ++ rest) = .ok v rest := fieldName_complete v rest hv (stopTy_stopsName hs)

theorem stopTy_more (vs : List In) (rest : In) : stopTy (moreVariants vs ++ 41 :: rest) = true := by
  cases vs with
  | nil => simp [moreVariants, stopTy]
  | cons w ws => simp [moreVariants, List.flatMap_cons, stopTy]

/-- `enum_type` reads `(v1, v2, …)` back -/
theorem enumType_ok (v : In) (vs : List In) (f : Nat) (rest : In)
    (hok : (v :: vs).all fieldNameOK = true) :
    enumType (f + 1) (40 :: (joinWith ([44, 32] : In) (v :: vs) ++ 41 :: rest))
      = .ok (.enum ((v :: vs).map fun x => (x, []))) rest := by
  simp only [List.all_cons, Bool.and_eq_true] at hok
  rw [joinWith_cons_more, enumType]
  have hl : litB [40] (40 :: (v ++ moreVariants vs ++ 41 :: rest)) = .ok () (v ++ moreVariants vs ++ 41 :: rest) :=
    litB_append [40] _
  rw [hl]
  simp only []
  have e : v ++ moreVariants vs ++ 41 :: rest = v ++ (moreVariants vs ++ 41 :: rest) := by simp
  rw [e, wsF_plain (alphaHead_plain (alphaHead_append _ (fieldNameOK_alphaHead hok.1)))]
  rw [fieldName_variant v _ hok.1 (stopTy_more vs rest)]
  simp only []
  rw [enum_more_ok vs _ rest [v] hok.2 (by have := moreVariants_length vs; simp; omega)]
  simp only []
  rw [wsF_plain (plainHead_cons 41 rest (by decide))]
  have hl2 : litB [41] (41 :: rest) = .ok () rest := litB_append [41] rest
  rw [hl2]
  simp

/-- `struct_type` refuses the text of an enum (its first "field" has no colon) -/
theorem structType_enum_err (v : In) (vs : List In) (f : Nat) (rest : In)
    (hok : (v :: vs).all fieldNameOK = true) :
    ∃ e, structType (f + 3) (40 :: (joinWith ([44, 32] : In) (v :: vs) ++ 41 :: rest)) = .err e := by
  simp only [List.all_cons, Bool.and_eq_true] at hok
  rw [joinWith_cons_more, structType]
  have hl : litB [40] (40 :: (v ++ moreVariants vs ++ 41 :: rest)) = .ok () (v ++ moreVariants vs ++ 41 :: rest) :=
    litB_append [40] _
  rw [hl]
  simp only []
  have e : v ++ moreVariants vs ++ 41 :: rest = v ++ (moreVariants vs ++ 41 :: rest) := by simp
  have hp : plainHead (v ++ (moreVariants vs ++ 41 :: rest)) = true :=
    alphaHead_plain (alphaHead_append _ (fieldNameOK_alphaHead hok.1))
  rw [e, whitespaceOnly_plain hp, fieldsSep, field, pcF_plain hp]
  simp only []
  rw [fieldName_variant v _ hok.1 (stopTy_more vs rest)]
  simp only []
  have hp2 : plainHead (moreVariants vs ++ 41 :: rest) = true := stopTy_plain (stopTy_more vs rest)
  rw [wsF_plain hp2]
  have hl3 : litB [58] (moreVariants vs ++ 41 :: rest) = .err (moreVariants vs ++ 41 :: rest) := by
    apply litB_head_ne
    cases vs with
    | nil => simp [moreVariants]
    | cons w ws => simp [moreVariants, List.flatMap_cons]
  rw [hl3]
  simp only []
  rw [wsF_plain hp]
  have hl4 : litB [41] (v ++ (moreVariants vs ++ 41 :: rest)) = .err (v ++ (moreVariants vs ++ 41 :: rest)) := by
    apply litB_head_ne
    cases v with
    | nil => simp [fieldNameOK] at hok
    | cons c t =>
      have := hok.1
      simp only [fieldNameOK, Bool.and_eq_true] at this
      have hc := this.1
      simp only [List.cons_append, List.head?_cons, ne_eq, Option.some.injEq]
      bytes
  rw [hl4]
  exact ⟨_, rfl⟩

/-! ### first byte of a rendered type -/

theorem typeNameOK_head {n : In} (h : typeNameOK n = true) : ∃ c tl, n = c :: tl ∧ isUpper c = true := by
  cases n with
  | nil => simp [typeNameOK] at h
  | cons c t => simp only [typeNameOK, Bool.and_eq_true] at h; exact ⟨c, t, rfl, h.1⟩

/-- a rendered type starts with a letter, `?`, `[` or `(`; with `?` only when it is optional -/
theorem renderTy_head (t : Ty) (h : tyOK t = true) :
    ∃ c tl, renderTy t = c :: tl ∧ (isAlpha c = true ∨ c = 63 ∨ c = 91 ∨ c = 40) ∧ (isOpt t = false → c ≠ 63) := by
  cases t with
  | bool => exact ⟨98, _, rfl, Or.inl (by decide), fun _ => by decide⟩
  | int => exact ⟨105, _, rfl, Or.inl (by decide), fun _ => by decide⟩
  | float => exact ⟨102, _, rfl, Or.inl (by decide), fun _ => by decide⟩
  | string => exact ⟨115, _, rfl, Or.inl (by decide), fun _ => by decide⟩
  | object => exact ⟨111, _, rfl, Or.inl (by decide), fun _ => by decide⟩
  | optional t => exact ⟨63, _, rfl, Or.inr (Or.inl rfl), fun h => by simp [isOpt] at h⟩
  | array t => exact ⟨91, _, rfl, Or.inr (Or.inr (Or.inl rfl)), fun _ => by decide⟩
  | map t => exact ⟨91, _, rfl, Or.inr (Or.inr (Or.inl rfl)), fun _ => by decide⟩
  | custom n =>
    obtain ⟨c, tl, hn, hc⟩ := typeNameOK_head (by simpa [tyOK] using h : typeNameOK n = true)
    refine ⟨c, tl, by rw [renderTy, hn], Or.inl (by bytes), fun _ => by bytes⟩
  | enum vs =>
    rw [renderTy]
    split
    · exact ⟨40, _, rfl, Or.inr (Or.inr (Or.inr rfl)), fun _ => by decide⟩
    · exact ⟨40, _, rfl, Or.inr (Or.inr (Or.inr rfl)), fun _ => by decide⟩
  | struct fs => exact ⟨40, renderFieldsTy fs ++ [41], by rw [renderTy]; rfl, Or.inr (Or.inr (Or.inr rfl)), fun _ => by decide⟩

theorem renderTy_plain (t : Ty) (h : tyOK t = true) (z : In) : plainHead (renderTy t ++ z) = true := by
  obtain ⟨c, tl, e, hc, _⟩ := renderTy_head t h
  rw [e]
  apply plainHead_cons
  rcases hc with hc | hc | hc | hc
  · simp only [Bool.and_eq_true, Bool.not_eq_true', bne_iff_ne, ne_eq]; exact ⟨by bytes, by bytes⟩
  · subst hc; decide
  · subst hc; decide
  · subst hc; decide

/-! ### fields of an inline struct -/

/-- the induction hypothesis on types, for all fuels below `F` -/
def TyIH (F : Nat) : Prop :=
  ∀ m, m < F → ∀ (t : Ty) (rest : In), tyOK t = true → noVC t = true → M t ≤ m → stopTy rest = true →
    varlinkType (m + 1) (renderTy t ++ rest) = .ok t rest

/-- text of one field: its comments, `name: type` -/
def fieldText (f : In × Ty × List In) : In :=
  renderComments f.2.2 ++ f.1 ++ ([58, 32] : In) ++ renderTy f.2.1

/-- text of the fields after the first: `, field` each -/
def moreFields (fs : List (In × Ty × List In)) : In := fs.flatMap fun f => ([44, 32] : In) ++ fieldText f

theorem renderFieldsTy_cons (f : In × Ty × List In) (fs : List (In × Ty × List In)) :
    renderFieldsTy (f :: fs) = fieldText f ++ moreFields fs := by
  induction fs generalizing f with
  | nil => obtain ⟨n, t, cs⟩ := f; simp [renderFieldsTy, fieldText, moreFields]
  | cons g gs ih =>
    obtain ⟨n, t, cs⟩ := f
    rw [renderFieldsTy, ih g]
    · simp [fieldText, moreFields, List.flatMap_cons]
    · simp

theorem stopTy_moreFields (fs : List (In × Ty × List In)) (rest : In) : stopTy (moreFields fs ++ 41 :: rest) = true := by
  cases fs with
  | nil => simp [moreFields, stopTy]
  | cons w ws => simp [moreFields, List.flatMap_cons, stopTy]

/-- `field` reads `comments name: type` back, given the induction hypothesis for the type -/
theorem field_ok {F : Nat} (ih : TyIH F) (n : In) (t : Ty) (cs : List In) (m : Nat) (z : In)
    (hn : fieldNameOK n = true) (ht : tyOK t = true) (hv : noVC t = true) (hcs : cs.all commentOK = true)
    (hm : M t ≤ m) (hF : m < F) (hz : stopTy z = true) :
    field (m + 2) (fieldText (n, t, cs) ++ z) = .ok (n, t, cs) z := by
  have e : fieldText (n, t, cs) ++ z = renderComments cs ++ (n ++ 58 :: 32 :: (renderTy t ++ z)) := by
    simp [fieldText]
  have ha : alphaHead (n ++ 58 :: 32 :: (renderTy t ++ z)) = true := alphaHead_append _ (fieldNameOK_alphaHead hn)
  rw [e, field, pcF_comments cs _ hcs (alphaHead_plain ha) (alphaHead_ne_nil ha)]
  simp only []
  rw [fieldName_complete n _ hn (by simp [stopsName, isAlnum, isAlpha, isDigit])]
  simp only []
  rw [wsF_plain (plainHead_cons 58 _ (by decide))]
  have hl : litB [58] (58 :: 32 :: (renderTy t ++ z)) = .ok () (32 :: (renderTy t ++ z)) := litB_append [58] _
  rw [hl]
  simp only []
  rw [wsF_space (renderTy_plain t ht z), ih m hF t z ht hv hm hz]

theorem fieldsTyOK_cons {n : In} {t : Ty} {cs : List In} {r : List (In × Ty × List In)}
    (h : fieldsTyOK ((n, t, cs) :: r) = true) :
    fieldNameOK n = true ∧ tyOK t = true ∧ cs.all commentOK = true ∧ fieldsTyOK r = true := by
  simp only [fieldsTyOK, Bool.and_eq_true] at h
  exact ⟨h.1.1.1, h.1.1.2, h.1.2, h.2⟩

theorem fieldText_plainOrComment (f : In × Ty × List In) (z : In) (hn : fieldNameOK f.1 = true) :
    whitespaceOnly (32 :: (fieldText f ++ z)) = fieldText f ++ z := by
  obtain ⟨n, t, cs⟩ := f
  have e : fieldText (n, t, cs) ++ z = renderComments cs ++ (n ++ 58 :: 32 :: (renderTy t ++ z)) := by
    simp [fieldText]
  rw [e]
  show multispace0 (32 :: _) = _
  rw [multispace0_cons_ws 32 _ (by decide)]
  exact whitespaceOnly_comments cs (alphaHead_plain (alphaHead_append _ (fieldNameOK_alphaHead hn)))

/-- `separated`'s continuation: `, field` repeated, stopping in front of `)` -/
theorem fieldsMore_ok {F : Nat} (ih : TyIH F) (fs : List (In × Ty × List In)) :
    ∀ (k : Nat) (rest : In) (acc : List (In × Ty × List In)),
    fieldsTyOK fs = true → noVCF fs = true → MF fs ≤ k → k ≤ F + 1 →
    fieldsMore k (moreFields fs ++ 41 :: rest) acc = .ok (acc ++ fs) (41 :: rest) := by
  induction fs with
  | nil =>
    intro k rest acc _ _ hk _
    cases k with
    | zero => simp [MF] at hk
    | succ k =>
      simp only [moreFields, List.flatMap_nil, List.nil_append]
      rw [fieldsMore]
      simp only []
      rw [wsF_plain (plainHead_cons 41 rest (by decide)), litB_cons_ne 44 41 [] rest (by decide)]
      simp
  | cons f fs ihl =>
    intro k rest acc hok hvc hk hkF
    obtain ⟨n, t, cs⟩ := f
    obtain ⟨hn, ht, hcs, hr⟩ := fieldsTyOK_cons hok
    simp only [noVCF, Bool.and_eq_true] at hvc
    simp only [MF] at hk
    have hMF : 1 ≤ MF fs := by cases fs <;> simp [MF] <;> omega
    obtain ⟨m, rfl⟩ : ∃ m, k = m + 3 := ⟨k - 3, by omega⟩
    have e : moreFields ((n, t, cs) :: fs) ++ 41 :: rest
        = 44 :: 32 :: (fieldText (n, t, cs) ++ (moreFields fs ++ 41 :: rest)) := by
      simp [moreFields, List.flatMap_cons]
    rw [e, fieldsMore]
    simp only []
    rw [wsF_plain (plainHead_cons 44 _ (by decide))]
    have hl : litB [44] (44 :: 32 :: (fieldText (n, t, cs) ++ (moreFields fs ++ 41 :: rest)))
        = .ok () (32 :: (fieldText (n, t, cs) ++ (moreFields fs ++ 41 :: rest))) := litB_append [44] _
    rw [hl]
    simp only []
    rw [fieldText_plainOrComment (n, t, cs) _ hn]
    rw [field_ok ih n t cs m _ hn ht hvc.1 hcs (by omega) (by omega) (stopTy_moreFields fs rest)]
    simp only []
    rw [ihl (m + 2) rest (acc ++ [(n, t, cs)]) hr hvc.2 (by omega) (by omega)]
    simp

/-- `struct_type` reads `(fields)` back -/
theorem structType_ok {F : Nat} (ih : TyIH F) (fs : List (In × Ty × List In)) (k : Nat) (rest : In)
    (hok : fieldsTyOK fs = true) (hvc : noVCF fs = true) (hk : MF fs + 2 ≤ k) (hkF : k ≤ F + 1) :
    structType (k + 1) (40 :: (renderFieldsTy fs ++ 41 :: rest)) = .ok (.struct fs) rest := by
  rw [structType]
  have hl : litB [40] (40 :: (renderFieldsTy fs ++ 41 :: rest)) = .ok () (renderFieldsTy fs ++ 41 :: rest) :=
    litB_append [40] _
  rw [hl]
  simp only []
  have hl2 : litB [41] (41 :: rest) = .ok () rest := litB_append [41] rest
  cases fs with
  | nil =>
    simp only [renderFieldsTy, List.nil_append]
    rw [whitespaceOnly_plain (plainHead_cons 41 rest (by decide))]
    obtain ⟨k', rfl⟩ : ∃ k', k = k' + 2 := ⟨k - 2, by simp [MF] at hk; omega⟩
    rw [fieldsSep, field, pcF_plain (plainHead_cons 41 rest (by decide))]
    simp only []
    have hfn : fieldName (41 :: rest) = .err (41 :: rest) := by simp [fieldName, isAlpha]
    rw [hfn]
    simp only []
    rw [wsF_plain (plainHead_cons 41 rest (by decide)), hl2]
  | cons f fs =>
    obtain ⟨n, t, cs⟩ := f
    obtain ⟨hn, ht, hcs, hr⟩ := fieldsTyOK_cons hok
    simp only [noVCF, Bool.and_eq_true] at hvc
    simp only [MF] at hk
    have hMF : 1 ≤ MF fs := by cases fs <;> simp [MF] <;> omega
    obtain ⟨m, rfl⟩ : ∃ m, k = m + 4 := ⟨k - 4, by omega⟩
    rw [renderFieldsTy_cons]
    have e : fieldText (n, t, cs) ++ moreFields fs ++ 41 :: rest = fieldText (n, t, cs) ++ (moreFields fs ++ 41 :: rest) := by simp
    rw [e]
    have hw : whitespaceOnly (fieldText (n, t, cs) ++ (moreFields fs ++ 41 :: rest)) = fieldText (n, t, cs) ++ (moreFields fs ++ 41 :: rest) := by
      have e2 : fieldText (n, t, cs) ++ (moreFields fs ++ 41 :: rest)
          = renderComments cs ++ (n ++ 58 :: 32 :: (renderTy t ++ (moreFields fs ++ 41 :: rest))) := by simp [fieldText]
      rw [e2]
      exact whitespaceOnly_comments cs (alphaHead_plain (alphaHead_append _ (fieldNameOK_alphaHead hn)))
    rw [hw, fieldsSep]
    rw [field_ok ih n t cs (m + 1) _ hn ht hvc.1 hcs (by omega) (by omega) (stopTy_moreFields fs rest)]
    simp only []
    rw [fieldsMore_ok ih fs (m + 3) rest [(n, t, cs)] hr hvc.2 (by omega) (by omega)]
    simp only []
    rw [wsF_plain (plainHead_cons 41 rest (by decide)), hl2]
    simp

/-! ### the induction -/

theorem elementType_prim (f : Nat) (i r : In) (t : Ty) (h : primitive i = .ok t r) :
    elementType (f + 1) i = .ok t r := by
  rw [elementType, h]

theorem nonOptional_alpha (f : Nat) (i : In) (h : alphaHead i = true) :
    nonOptional f i = elementType f i := by
  have h91 : i.head? ≠ some 91 := by
    cases i with
    | nil => simp
    | cons c t => simp only [alphaHead] at h; simp only [List.head?_cons, ne_eq, Option.some.injEq]; bytes
  unfold nonOptional
  rw [arrayType_head_ne f i h91, mapType_head_ne f i h91]

theorem nonOptional_paren (f : Nat) (i : In) : nonOptional f (40 :: i) = elementType f (40 :: i) := by
  unfold nonOptional
  rw [arrayType_head_ne f _ (by simp), mapType_head_ne f _ (by simp)]

theorem elementType_paren (f : Nat) (i : In) : elementType (f + 1) (40 :: i) = inlineType f (40 :: i) := by
  rw [elementType, primitive_not_lower 40 i (by decide), typeName_not_upper 40 i (by decide)]

theorem map_fst_nil (vs : List (In × List In)) (h : vs.all (fun v => v.2.isEmpty) = true) :
    (vs.map (·.1)).map (fun x => (x, ([] : List In))) = vs := by
  induction vs with
  | nil => rfl
  | cons v vs ih =>
    obtain ⟨a, b⟩ := v
    simp only [List.all_cons, Bool.and_eq_true, List.isEmpty_iff] at h
    simp only [List.map_cons, List.cons.injEq, Prod.mk.injEq, true_and]
    exact ⟨h.1.symm, ih h.2⟩

theorem tyIH_step (F : Nat) (ih : TyIH F) (t : Ty) (rest : In) (ht : tyOK t = true) (hv : noVC t = true)
    (hm : M t ≤ F) (hs : stopTy rest = true) : varlinkType (F + 1) (renderTy t ++ rest) = .ok t rest := by
  have prim : ∀ (p : In) (ty : Ty), alphaHead p = true → primitive (p ++ rest) = .ok ty rest → 1 ≤ F →
      varlinkType (F + 1) (p ++ rest) = .ok ty rest := by
    intro p ty hp hprim h1
    obtain ⟨f, rfl⟩ : ∃ f, F = f + 1 := ⟨F - 1, by omega⟩
    have ha := alphaHead_append rest hp
    have h63 : (p ++ rest).head? ≠ some 63 := by
      cases p with
      | nil => simp [alphaHead] at hp
      | cons c tl => simp only [alphaHead] at hp; simp only [List.cons_append, List.head?_cons, ne_eq, Option.some.injEq]; bytes
    rw [varlinkType_not_opt _ _ h63, nonOptional_alpha _ _ ha, elementType_prim f _ _ _ hprim]
  cases t with
  | bool => exact prim _ _ (by decide) (primitive_ok_bool rest) (by simpa [M] using hm)
  | int => exact prim _ _ (by decide) (primitive_ok_int rest) (by simpa [M] using hm)
  | float => exact prim _ _ (by decide) (primitive_ok_float rest) (by simpa [M] using hm)
  | string => exact prim _ _ (by decide) (primitive_ok_string rest) (by simpa [M] using hm)
  | object => exact prim _ _ (by decide) (primitive_ok_object rest) (by simpa [M] using hm)
  | custom n =>
    have hn : typeNameOK n = true := by simpa [tyOK] using ht
    obtain ⟨c, tl, e, hc⟩ := typeNameOK_head hn
    obtain ⟨f, rfl⟩ : ∃ f, F = f + 1 := ⟨F - 1, by simp [M] at hm; omega⟩
    have ha : alphaHead (n ++ rest) = true := by rw [e]; simp only [List.cons_append, alphaHead]; bytes
    have h63 : (n ++ rest).head? ≠ some 63 := by
      rw [e]; simp only [List.cons_append, List.head?_cons, ne_eq, Option.some.injEq]; bytes
    rw [renderTy, varlinkType_not_opt _ _ h63, nonOptional_alpha _ _ ha, elementType]
    have hp : primitive (n ++ rest) = .err (n ++ rest) := by
      rw [e]; exact primitive_not_lower c _ ⟨by bytes, by bytes, by bytes, by bytes, by bytes⟩
    rw [hp]
    simp only []
    rw [typeName_complete n rest hn (stopTy_notAlnum hs)]
  | optional t' =>
    obtain ⟨hno, ht'⟩ := tyOK_optional ht
    have hv' : noVC t' = true := by simpa [noVC] using hv
    obtain ⟨f, rfl⟩ : ∃ f, F = f + 1 := ⟨F - 1, by simp [M] at hm; omega⟩
    have hm' : M t' ≤ f := by simp [M] at hm; omega
    obtain ⟨c, tl, e, _, h63⟩ := renderTy_head t' ht'
    have h63' : (renderTy t' ++ rest).head? ≠ some 63 := by
      rw [e]; simpa using h63 hno
    have := ih f (by omega) t' rest ht' hv' hm' hs
    rw [varlinkType_not_opt _ _ h63'] at this
    rw [renderTy]
    exact varlinkType_opt f _ _ _ this
  | array t' =>
    have ht' : tyOK t' = true := by simpa [tyOK] using ht
    have hv' : noVC t' = true := by simpa [noVC] using hv
    obtain ⟨f, rfl⟩ : ∃ f, F = f + 2 := ⟨F - 2, by simp [M] at hm; omega⟩
    have hm' : M t' ≤ f := by simp [M] at hm; omega
    rw [renderTy]
    have e : ([91, 93] : In) ++ renderTy t' ++ rest = ([91, 93] : In) ++ (renderTy t' ++ rest) := by simp
    rw [e, varlinkType_not_opt _ _ (by simp)]
    unfold nonOptional
    rw [arrayType, litB_append [91, 93] _]
    simp only []
    rw [ih f (by omega) t' rest ht' hv' hm' hs]
  | map t' =>
    have ht' : tyOK t' = true := by simpa [tyOK] using ht
    have hv' : noVC t' = true := by simpa [noVC] using hv
    obtain ⟨f, rfl⟩ : ∃ f, F = f + 2 := ⟨F - 2, by simp [M] at hm; omega⟩
    have hm' : M t' ≤ f := by simp [M] at hm; omega
    rw [renderTy]
    have e : ([91, 115, 116, 114, 105, 110, 103, 93] : In) ++ renderTy t' ++ rest
        = ([91, 115, 116, 114, 105, 110, 103, 93] : In) ++ (renderTy t' ++ rest) := by simp
    rw [e, varlinkType_not_opt _ _ (by simp)]
    unfold nonOptional
    have ha : arrayType (f + 2) (([91, 115, 116, 114, 105, 110, 103, 93] : In) ++ (renderTy t' ++ rest))
        = .err (([91, 115, 116, 114, 105, 110, 103, 93] : In) ++ (renderTy t' ++ rest)) := by
      rw [arrayType]
      have : litB [91, 93] (([91, 115, 116, 114, 105, 110, 103, 93] : In) ++ (renderTy t' ++ rest))
          = .err (([91, 115, 116, 114, 105, 110, 103, 93] : In) ++ (renderTy t' ++ rest)) := by
        simp [litB, List.isPrefixOf]
      rw [this]
    rw [ha]
    simp only []
    rw [mapType, litB_append [91, 115, 116, 114, 105, 110, 103, 93] _]
    simp only []
    rw [ih f (by omega) t' rest ht' hv' hm' hs]
  | enum vs =>
    have hvc : vs.all (fun v => v.2.isEmpty) = true := by simpa [noVC] using hv
    have hany : (vs.any fun v => !v.2.isEmpty) = false := by
      simp only [List.any_eq_false, Bool.not_eq_true, Bool.not_eq_false']
      intro x hx
      simp only [List.all_eq_true] at hvc
      simpa using hvc x hx
    have hok : vs ≠ [] ∧ (vs.map (·.1)).all fieldNameOK = true := by
      simp only [tyOK, Bool.and_eq_true, Bool.not_eq_true', List.isEmpty_eq_false_iff, List.all_eq_true] at ht
      refine ⟨ht.1, ?_⟩
      simp only [List.all_eq_true, List.mem_map]
      rintro x ⟨v, hv, rfl⟩
      exact (ht.2 v hv).1
    obtain ⟨f, rfl⟩ : ∃ f, F = f + 5 := ⟨F - 5, by simp [M] at hm; omega⟩
    rw [renderTy, if_neg (by simp [hany])]
    cases hvs : vs.map (·.1) with
    | nil => exact absurd (List.map_eq_nil_iff.mp hvs) hok.1
    | cons v w =>
      have hokv : (v :: w).all fieldNameOK = true := by rw [← hvs]; exact hok.2
      have e : 40 :: joinWith ([44, 32] : In) (v :: w) ++ [41] ++ rest = 40 :: (joinWith ([44, 32] : In) (v :: w) ++ 41 :: rest) := by simp
      rw [e, varlinkType_not_opt _ _ (by simp), nonOptional_paren, elementType_paren, inlineType]
      obtain ⟨er, her⟩ := structType_enum_err v w f rest hokv
      rw [her]
      simp only []
      rw [enumType_ok v w (f + 2) rest hokv, ← hvs, map_fst_nil vs hvc]
  | struct fs =>
    have hok : fieldsTyOK fs = true := by simpa [tyOK] using ht
    have hvc : noVCF fs = true := by simpa [noVC] using hv
    obtain ⟨f, rfl⟩ : ∃ f, F = f + 5 := ⟨F - 5, by simp [M] at hm; omega⟩
    have hm' : MF fs ≤ f := by simp [M] at hm; omega
    rw [renderTy]
    have e : 40 :: renderFieldsTy fs ++ [41] ++ rest = 40 :: (renderFieldsTy fs ++ 41 :: rest) := by simp
    rw [e, varlinkType_not_opt _ _ (by simp), nonOptional_paren, elementType_paren, inlineType]
    rw [structType_ok ih fs (f + 2) rest hok hvc (by omega) (by omega)]

/-- **Types round-trip**, for every fuel that covers the type -/
theorem tyIH_all : ∀ F, TyIH F := by
  intro F
  induction F with
  | zero => intro m hm; omega
  | succ F ih =>
    intro m hm t rest ht hv hM hs
    by_cases h : m < F
    · exact ih m h t rest ht hv hM hs
    · have : m = F := by omega
      subst this
      exact tyIH_step m ih t rest ht hv hM hs

theorem varlinkType_render (t : Ty) (rest : In) (f : Nat) (ht : tyOK t = true) (hv : noVC t = true)
    (hf : M t < f) (hs : stopTy rest = true) : varlinkType f (renderTy t ++ rest) = .ok t rest := by
  obtain ⟨m, rfl⟩ : ∃ m, f = m + 1 := ⟨f - 1, by omega⟩
  exact tyIH_all (m + 1) m (by omega) t rest ht hv (by omega) hs

end Idl
