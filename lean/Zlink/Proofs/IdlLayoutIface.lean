import Zlink.Proofs.IdlLayoutMember
/-! Arbitrary inter-token layout, part 4: the whole interface. Members of the three kinds may be
    interleaved in any order (the description keeps the order within each kind), separated by non-empty
    gaps; the text may start and end with a gap. `parse_interface` returns exactly the described tree. -/
namespace Idl
open SpecIdl

inductive Member
  | ty (t : CT)
  | me (m : Method)
  | er (e : Err)

inductive MemberL : Member → In → Prop
  | ty {t s} : TypeL t s → MemberL (.ty t) s
  | me {m s} : MethodL m s → MemberL (.me m) s
  | er {e s} : ErrL e s → MemberL (.er e) s

/-- what the member loop does with one parsed member -/
def addMember (a : Iface) : Member → Iface
  | .ty t => ⟨a.name, a.cs, a.types ++ [t], a.methods, a.errors⟩
  | .me m => ⟨a.name, a.cs, a.types, a.methods ++ [m], a.errors⟩
  | .er e => ⟨a.name, a.cs, a.types, a.methods, a.errors ++ [e]⟩

/-- the members, each after a non-empty gap -/
inductive MembersL : List Member → In → Prop
  | nil : MembersL [] []
  | cons {m ms g s ss} : wsOnly g = true → g ≠ [] → MemberL m s → MembersL ms ss →
      MembersL (m :: ms) (g ++ (s ++ ss))

/-- every member text is: comment lines, then a keyword -/
theorem MemberL.split {m : Member} {s : In} (h : MemberL m s) (z : In) :
    ∃ cs sc K, s ++ z = sc ++ K ∧ CommentsL cs sc ∧ alphaHead K = true ∧
      ((∃ t, m = .ty t) ∧ K.head? = some 116 ∨ (∃ x, m = .me x) ∧ K.head? = some 109 ∨ (∃ e, m = .er e) ∧ K.head? = some 101) := by
  cases h with
  | ty ht =>
    cases ht with
    | @obj name fs cs sc g1 g2 sp hc _ _ _ _ =>
      exact ⟨cs, sc, ([116, 121, 112, 101] : In) ++ (g1 ++ (name ++ (g2 ++ sp))) ++ z, by simp, hc,
        alphaHead_kw _ _ (alphaHead_kw _ _ (by decide)), Or.inl ⟨⟨_, rfl⟩, rfl⟩⟩
    | @enm name v vs cs sc g1 g2 g0 s1 s2 hc _ _ _ _ _ _ =>
      exact ⟨cs, sc, ([116, 121, 112, 101] : In) ++ (g1 ++ (name ++ (g2 ++ 40 :: (g0 ++ (s1 ++ s2))))) ++ z, by simp, hc,
        alphaHead_kw _ _ (alphaHead_kw _ _ (by decide)), Or.inl ⟨⟨_, rfl⟩, rfl⟩⟩
  | me hm =>
    cases hm with
    | @mk name ins outs cs sc g1 g2 g3 g4 si so hc _ _ _ _ _ _ _ =>
      exact ⟨cs, sc, ([109, 101, 116, 104, 111, 100] : In) ++ (g1 ++ (name ++ (g2 ++ (si ++ (g3 ++ (([45, 62] : In) ++ (g4 ++ so))))))) ++ z,
        by simp, hc, alphaHead_kw _ _ (alphaHead_kw _ _ (by decide)), Or.inr (Or.inl ⟨⟨_, rfl⟩, rfl⟩)⟩
  | er he =>
    cases he with
    | @mk name fs cs sc g1 g2 sp hc _ _ _ _ =>
      exact ⟨cs, sc, ([101, 114, 114, 111, 114] : In) ++ (g1 ++ (name ++ (g2 ++ sp))) ++ z, by simp, hc,
        alphaHead_kw _ _ (alphaHead_kw _ _ (by decide)), Or.inr (Or.inr ⟨⟨_, rfl⟩, rfl⟩)⟩

theorem typeDef_other_kwL {cs : List In} {sc : In} (hc : CommentsL cs sc) (K : In) (ha : alphaHead K = true)
    (hk : K.head? ≠ some 116) : ∃ e, typeDef (sc ++ K) = .err e := by
  unfold typeDef
  rw [pcF_commentsL hc K (alphaHead_plain ha) (alphaHead_ne_nil ha)]
  simp only []
  rw [litB_head_ne 116 _ K hk]
  exact ⟨_, rfl⟩

theorem methodDef_other_kwL {cs : List In} {sc : In} (hc : CommentsL cs sc) (K : In) (ha : alphaHead K = true)
    (hk : K.head? ≠ some 109) : ∃ e, methodDef (sc ++ K) = .err e := by
  unfold methodDef
  rw [pcF_commentsL hc K (alphaHead_plain ha) (alphaHead_ne_nil ha)]
  simp only []
  rw [litB_head_ne 109 _ K hk]
  exact ⟨_, rfl⟩

theorem MemberL.nonWs {m : Member} {s : In} (h : MemberL m s) (z : In) : nonWs (s ++ z) = true ∧ s ++ z ≠ [] := by
  obtain ⟨cs, sc, K, e, hc, ha, _⟩ := h.split z
  rw [e]
  refine ⟨hc.nonWs_append K (plainHead_nonWs (alphaHead_plain ha)), ?_⟩
  intro h0
  have := List.append_eq_nil_iff.mp h0
  exact alphaHead_ne_nil ha this.2

/-- the member loop of `interface_def`, for every layout and every interleaving of the kinds -/
theorem loopL_ok {ms : List Member} {ss : In} (h : MembersL ms ss) : ∀ (k : Nat) (acc : Iface), ms.length < k →
    interfaceDef.loop k ss acc = .ok (ms.foldl addMember acc) [] := by
  induction h with
  | nil =>
    intro k acc hk
    obtain ⟨k, rfl⟩ : ∃ k', k = k' + 1 := ⟨k - 1, by omega⟩
    simp [interfaceDef.loop]
  | @cons m ms g s ss hg hne hm _ ih =>
    intro k acc hk
    obtain ⟨k, rfl⟩ : ∃ k', k = k' + 1 := ⟨k - 1, by omega⟩
    obtain ⟨hnw, hnn⟩ := hm.nonWs ss
    rw [interfaceDef.loop, if_neg (by cases g <;> simp_all)]
    simp only []
    rw [whitespaceOnly_gap g _ hg hnw, if_neg (by cases h0 : s ++ ss <;> simp_all)]
    obtain ⟨cs, sc, K, e, hc, ha, hkind⟩ := hm.split ss
    rcases hkind with ⟨⟨t, rfl⟩, _⟩ | ⟨⟨x, rfl⟩, hK⟩ | ⟨⟨x, rfl⟩, hK⟩
    · cases hm with
      | ty ht =>
        rw [typeDefL_ok ht ss]
        simp only []
        rw [ih k _ (by simp at hk; omega)]
        rfl
    · cases hm with
      | me hx =>
        obtain ⟨e1, h1⟩ := typeDef_other_kwL hc K ha (by rw [hK]; decide)
        rw [e, h1]
        simp only []
        rw [← e, methodDefL_ok hx ss]
        simp only []
        rw [ih k _ (by simp at hk; omega)]
        rfl
    · cases hm with
      | er hx =>
        obtain ⟨e1, h1⟩ := typeDef_other_kwL hc K ha (by rw [hK]; decide)
        obtain ⟨e2, h2⟩ := methodDef_other_kwL hc K ha (by rw [hK]; decide)
        rw [e, h1]
        simp only []
        rw [h2]
        simp only []
        rw [← e, errorDefL_ok hx ss]
        simp only []
        rw [ih k _ (by simp at hk; omega)]
        rfl

theorem nws_pos (s : In) (hne : s ≠ []) (h : nonWs s = true) : 1 ≤ nws s := by
  cases s with
  | nil => exact absurd rfl hne
  | cons c t =>
    simp only [nonWs, Bool.not_eq_true'] at h
    simp [nws, List.filter_cons, h]

theorem MembersL.count {ms : List Member} {ss : In} (h : MembersL ms ss) : ms.length ≤ nws ss := by
  induction h with
  | nil => simp
  | @cons m ms g s ss _ _ hm _ ih =>
    have h1 : 1 ≤ nws s := by
      obtain ⟨hnw, hnn⟩ := hm.nonWs []
      simp only [List.append_nil] at hnw hnn
      exact nws_pos s hnn hnw
    rw [nws_append, nws_append]
    simp only [List.length_cons]; omega

theorem MembersL.nameStop {ms : List Member} {ss : In} (h : MembersL ms ss) : nameStop ss = true := by
  cases h with
  | nil => rfl
  | @cons m ms g s ss hg hne _ _ =>
    cases g with
    | nil => exact absurd rfl hne
    | cons c t =>
      simp only [wsOnly, List.all_cons, Bool.and_eq_true] at hg
      have hc := hg.1
      show (!isAlnum c && c != 45 && c != 46) = true
      simp only [Bool.and_eq_true, Bool.not_eq_true', bne_iff_ne, ne_eq]
      exact ⟨⟨by bytes, by bytes⟩, by bytes⟩

theorem MembersL.eq_nil {ms : List Member} {ss : In} (h : MembersL ms ss) (hs : ss = []) : ms = [] := by
  cases h with
  | nil => rfl
  | @cons m ms g s ss hg hne _ _ =>
    exfalso
    have := List.append_eq_nil_iff.mp hs
    exact hne this.1

/-- the part of a text between the leading and the trailing gap -/
inductive IfaceCoreL : Iface → In → Prop
  | mk {name cs sc g1 ms ss} : CommentsL cs sc → gap1OK g1 = true → ifaceNameOK name = true → MembersL ms ss →
      IfaceCoreL (ms.foldl addMember ⟨name, cs, [], [], []⟩)
        (sc ++ (([105, 110, 116, 101, 114, 102, 97, 99, 101] : In) ++ (g1 ++ (name ++ ss))))

theorem interfaceDefL_ok {a : Iface} {s : In} (h : IfaceCoreL a s) : interfaceDef s = .ok a [] := by
  cases h with
  | @mk name cs sc g1 ms ss hc h1 hn hms =>
    unfold interfaceDef
    rw [pcF_commentsL hc _ (plainHead_append _ (by simp) (by decide)) (by simp)]
    simp only []
    rw [litB_append [105, 110, 116, 101, 114, 102, 97, 99, 101] _]
    simp only []
    obtain ⟨c, t, hnm, hcA⟩ := ifaceName_head hn
    have hws : ∀ d, (name ++ ss).head? = some d → isAsciiWs d = false := by
      intro d hd
      rw [hnm] at hd; simp at hd; subst hd
      bytes
    rw [ws1_gap g1 _ h1 hws]
    simp only []
    rw [interfaceName_complete name ss hn hms.nameStop]
    simp only []
    have hcount : ms.length < (whitespaceOnly ss).length + 1 := by
      have h1 := hms.count
      have h2 := nws_le_multispace0 ss
      show _ < (multispace0 ss).length + 1
      omega
    by_cases hne : ss = []
    · have hnil := hms.eq_nil hne
      subst hne
      subst hnil
      simp [whitespaceOnly, multispace0, interfaceDef.loop]
    · rw [loop_whitespaceOnly _ ss _ hne]
      exact loopL_ok hms _ _ hcount

/-! ### every member ends with `)` -/

theorem FieldsMoreL.ends : ∀ {fs : List Field} {s : In}, FieldsMoreL fs s → ∃ pre, s = pre ++ [41]
  | _, _, .done _ => ⟨_, rfl⟩
  | _, _, .more (g1 := g1) (g2 := g2) (s1 := s1) _ _ _ hm => by
    obtain ⟨pre, h⟩ := hm.ends
    exact ⟨g1 ++ 44 :: (g2 ++ (s1 ++ pre)), by rw [h]; simp⟩

theorem CVarsMoreL.ends {vs : List (In × List In)} {s : In} (h : CVarsMoreL vs s) : ∃ pre, s = pre ++ [41] := by
  induction h with
  | done _ => exact ⟨_, rfl⟩
  | @more v vs g1 g2 s1 s2 _ _ _ _ ih =>
    obtain ⟨pre, h⟩ := ih
    exact ⟨g1 ++ 44 :: (g2 ++ (s1 ++ pre)), by rw [h]; simp⟩

theorem ParamsL.ends {fs : List Field} {s : In} (h : ParamsL fs s) : ∃ pre, s = pre ++ [41] := by
  cases h with
  | @nil g _ => exact ⟨40 :: g, by simp⟩
  | @cons f fs g0 s1 s2 _ _ hm =>
    obtain ⟨pre, h⟩ := hm.ends
    exact ⟨40 :: (g0 ++ (s1 ++ pre)), by rw [h]; simp⟩

theorem MemberL.ends {m : Member} {s : In} (h : MemberL m s) : ∃ pre, s = pre ++ [41] := by
  cases h with
  | ty ht =>
    cases ht with
    | @obj name fs cs sc g1 g2 sp _ _ _ _ hp =>
      obtain ⟨pre, h⟩ := hp.ends
      exact ⟨sc ++ (([116, 121, 112, 101] : In) ++ (g1 ++ (name ++ (g2 ++ pre)))), by rw [h]; simp⟩
    | @enm name v vs cs sc g1 g2 g0 s1 s2 _ _ _ _ _ _ hm =>
      obtain ⟨pre, h⟩ := hm.ends
      exact ⟨sc ++ (([116, 121, 112, 101] : In) ++ (g1 ++ (name ++ (g2 ++ 40 :: (g0 ++ (s1 ++ pre)))))), by rw [h]; simp⟩
  | me hm =>
    cases hm with
    | @mk name ins outs cs sc g1 g2 g3 g4 si so _ _ _ _ _ _ _ ho =>
      obtain ⟨pre, h⟩ := ho.ends
      exact ⟨sc ++ (([109, 101, 116, 104, 111, 100] : In) ++ (g1 ++ (name ++ (g2 ++ (si ++ (g3 ++ (([45, 62] : In) ++ (g4 ++ pre)))))))),
        by rw [h]; simp⟩
  | er he =>
    cases he with
    | @mk name fs cs sc g1 g2 sp _ _ _ _ hp =>
      obtain ⟨pre, h⟩ := hp.ends
      exact ⟨sc ++ (([101, 114, 114, 111, 114] : In) ++ (g1 ++ (name ++ (g2 ++ pre)))), by rw [h]; simp⟩

theorem MembersL.last {ms : List Member} {ss : In} (h : MembersL ms ss) : ∀ d, ss.getLast? = some d → d = 41 := by
  induction h with
  | nil => intro d hd; simp at hd
  | @cons m ms g s ss _ _ hm _ ih =>
    intro d hd
    rw [← List.append_assoc, List.getLast?_append] at hd
    cases hr : ss.getLast? with
    | some e => rw [hr] at hd; simp at hd; subst hd; exact ih _ hr
    | none =>
      rw [hr] at hd
      obtain ⟨pre, hp⟩ := hm.ends
      rw [hp] at hd
      simp at hd
      exact hd.symm

/-! ### `str::trim` removes the gaps around the text -/

theorem find_ws_head (c : Byte) (t : In) (hc : isMultispace c = true) :
    wsSeqs.find? (fun p => p.isPrefixOf (c :: t)) = some [c] := by
  have : c = 32 ∨ c = 9 ∨ c = 13 ∨ c = 10 := by
    simp only [isMultispace, Bool.or_eq_true, beq_iff_eq] at hc
    rcases hc with ((h | h) | h) | h
    · exact Or.inl h
    · exact Or.inr (Or.inl h)
    · exact Or.inr (Or.inr (Or.inl h))
    · exact Or.inr (Or.inr (Or.inr h))
  rcases this with rfl | rfl | rfl | rfl <;> simp [wsSeqs, List.find?, List.isPrefixOf]

theorem find_ws_last (c : Byte) (t : In) (hc : isMultispace c = true) :
    wsSeqs.find? (fun p => p.reverse.isPrefixOf (c :: t)) = some [c] := by
  have : c = 32 ∨ c = 9 ∨ c = 13 ∨ c = 10 := by
    simp only [isMultispace, Bool.or_eq_true, beq_iff_eq] at hc
    rcases hc with ((h | h) | h) | h
    · exact Or.inl h
    · exact Or.inr (Or.inl h)
    · exact Or.inr (Or.inr (Or.inl h))
    · exact Or.inr (Or.inr (Or.inr h))
  rcases this with rfl | rfl | rfl | rfl <;> simp [wsSeqs, List.find?, List.isPrefixOf]

theorem trimStartN_gap (g : In) : ∀ (n : Nat) (c : Byte) (t : In), wsOnly g = true → plainAscii c = true → g.length < n →
    trimStartN n (g ++ c :: t) = c :: t := by
  induction g with
  | nil => intro n c t _ hc _; exact trimStartN_id n c t hc
  | cons a r ih =>
    intro n c t hg hc hn
    obtain ⟨n, rfl⟩ : ∃ n', n = n' + 1 := ⟨n - 1, by simp at hn; omega⟩
    simp only [wsOnly, List.all_cons, Bool.and_eq_true] at hg
    rw [List.cons_append, trimStartN, find_ws_head a _ hg.1]
    simp only [List.length_singleton, List.drop_succ_cons, List.drop_zero]
    exact ih n c t (by simpa [wsOnly] using hg.2) hc (by simp at hn; omega)

theorem trimEndRevN_gap (g : In) : ∀ (n : Nat) (c : Byte) (t : In), wsOnly g = true → plainAscii c = true → g.length < n →
    trimEndRevN n (g ++ c :: t) = c :: t := by
  induction g with
  | nil => intro n c t _ hc _; exact trimEndRevN_id n c t hc
  | cons a r ih =>
    intro n c t hg hc hn
    obtain ⟨n, rfl⟩ : ∃ n', n = n' + 1 := ⟨n - 1, by simp at hn; omega⟩
    simp only [wsOnly, List.all_cons, Bool.and_eq_true] at hg
    rw [List.cons_append, trimEndRevN, find_ws_last a _ hg.1]
    simp only [List.length_singleton, List.drop_succ_cons, List.drop_zero]
    exact ih n c t (by simpa [wsOnly] using hg.2) hc (by simp at hn; omega)

theorem wsOnly_reverse (g : In) (h : wsOnly g = true) : wsOnly g.reverse = true := by
  simp only [wsOnly, List.all_eq_true] at h ⊢
  intro x hx
  exact h x (List.mem_reverse.mp hx)

/-- a text between two gaps trims to itself -/
theorem trim_gaps (lead trail : In) (c d : Byte) (mid : In) (hl : wsOnly lead = true) (ht : wsOnly trail = true)
    (hc : plainAscii c = true) (hd : plainAscii d = true) :
    trim (lead ++ (c :: (mid ++ [d])) ++ trail) = c :: (mid ++ [d]) := by
  unfold trim
  have e1 : lead ++ (c :: (mid ++ [d])) ++ trail = lead ++ c :: (mid ++ [d] ++ trail) := by simp
  rw [e1]
  have e0 : trimStartN ((lead ++ c :: (mid ++ [d] ++ trail)).length + 1) (lead ++ c :: (mid ++ [d] ++ trail))
      = c :: (mid ++ [d] ++ trail) :=
    trimStartN_gap lead _ c _ hl hc (by simp only [List.length_append, List.length_cons]; omega)
  simp only [e0]
  have e2 : (c :: (mid ++ [d] ++ trail)).reverse = trail.reverse ++ d :: (mid.reverse ++ [c]) := by simp
  rw [e2, trimEndRevN_gap trail.reverse _ d _ (wsOnly_reverse trail ht) hd
    (by simp only [List.length_append, List.length_cons, List.length_reverse]; omega)]
  simp

theorem IfaceCoreL.shape {a : Iface} {s : In} (h : IfaceCoreL a s) :
    ∃ c mid d, s = c :: (mid ++ [d]) ∧ plainAscii c = true ∧ plainAscii d = true := by
  cases h with
  | @mk name cs sc g1 ms ss hc h1 hn hms =>
    -- first byte: `#` or `i`
    have hhead : ∃ c t, sc ++ (([105, 110, 116, 101, 114, 102, 97, 99, 101] : In) ++ (g1 ++ (name ++ ss))) = c :: t ∧ plainAscii c = true := by
      cases hc with
      | nil => exact ⟨105, _, rfl, by decide⟩
      | cons _ _ _ _ => exact ⟨35, _, rfl, by decide⟩
    obtain ⟨c, t, e, hcp⟩ := hhead
    rw [e]
    -- last byte: `)` or the last byte of the name
    have hlast : ∀ d, (c :: t).getLast? = some d → plainAscii d = true := by
      intro d hd
      rw [← e] at hd
      have e2 : sc ++ (([105, 110, 116, 101, 114, 102, 97, 99, 101] : In) ++ (g1 ++ (name ++ ss)))
          = (sc ++ ([105, 110, 116, 101, 114, 102, 97, 99, 101] : In) ++ g1 ++ name) ++ ss := by simp
      rw [e2, List.getLast?_append] at hd
      cases hr : ss.getLast? with
      | some x =>
        rw [hr] at hd; simp at hd; subst hd
        rw [hms.last _ hr]; decide
      | none =>
        rw [hr] at hd
        simp only [Option.none_or] at hd
        rw [List.getLast?_append] at hd
        obtain ⟨c0, t0, hnm, _⟩ := ifaceName_head hn
        have hne : name.getLast? = some (name.getLast (by rw [hnm]; simp)) := List.getLast?_eq_some_getLast _
        rw [hne] at hd
        simp at hd
        subst hd
        exact segByte_plain _ (ifaceName_bytes hn _ (List.getLast_mem _))
    rcases List.eq_nil_or_concat t with rfl | ⟨mid, d, rfl⟩
    · exfalso
      have : (sc ++ (([105, 110, 116, 101, 114, 102, 97, 99, 101] : In) ++ (g1 ++ (name ++ ss)))).length = 1 := by rw [e]; rfl
      simp only [List.length_append, List.length_cons, List.length_nil] at this
      omega
    · refine ⟨c, mid, d, by simp, hcp, hlast d ?_⟩
      rw [List.concat_eq_append, ← List.cons_append, List.getLast?_append]; simp

/-- **C13 (completeness, every layout)**: a text that consists of an optional gap, the interface in any
    layout the grammar allows (gaps between tokens inside parentheses and around the member keywords,
    comment lines with any blanks in front of the interface, members, fields, parameters and custom-enum
    variants, members of the three kinds interleaved in any order) and an optional gap, parses to exactly
    the description it denotes. -/
theorem parseInterface_layout {a : Iface} {core : In} (h : IfaceCoreL a core) (lead trail : In)
    (hl : wsOnly lead = true) (ht : wsOnly trail = true) :
    parseInterface (lead ++ core ++ trail) = .ok a := by
  obtain ⟨c, mid, d, e, hc, hd⟩ := h.shape
  have htrim : trim (lead ++ core ++ trail) = core := by rw [e]; exact trim_gaps lead trail c d mid hl ht hc hd
  unfold parseInterface
  simp only [htrim]
  rw [if_neg (by rw [e]; simp), interfaceDefL_ok h]
  simp [wsF, ws, multispace0, optComment]

end Idl
