import Zlink.Proofs.IdlTextSound2
/-! Soundness of the IDL parser at the level of the text, part 3: parameter lists and members. -/
namespace Idl
open SpecIdl

/-! ### parameter lists -/

/-- after a parameter: white space, then `)` or `,` white space and the next parameter -/
inductive ParamMoreS : List Field → In → Prop
  | done {w} : wsOnly w = true → ParamMoreS [] (w ++ [41])
  | more {w1 w2 f fs s1 s2} : wsOnly w1 = true → wsOnly w2 = true → FieldS f s1 → ParamMoreS fs s2 →
      ParamMoreS (f :: fs) (w1 ++ 44 :: (w2 ++ (s1 ++ s2)))

inductive ParamsS : List Field → In → Prop
  | nil {w} : wsOnly w = true → ParamsS [] (40 :: (w ++ [41]))
  | cons {w f fs s1 s2} : wsOnly w = true → FieldS f s1 → ParamMoreS fs s2 → ParamsS (f :: fs) (40 :: (w ++ (s1 ++ s2)))

theorem paramLoop_split : ∀ (k : Nat) (i : In) (acc fs : List Field) (r : In),
    paramList.loop k i acc = .ok fs r → fieldsNE fs = true →
    ∃ f more s1 s2, fs = acc ++ f :: more ∧ i = s1 ++ (s2 ++ r) ∧ FieldS f s1 ∧ ParamMoreS more s2 := by
  intro k
  induction k with
  | zero => intro i acc fs r h; simp [paramList.loop] at h
  | succ k ih =>
    intro i acc fs r h hne
    rw [paramList.loop] at h
    split at h
    rename_i cs i1 hpc
    have hsplit := pcF_split i
    rw [hpc] at hsplit
    simp only [] at hsplit
    split at h
    · rename_i n r1 hn
      obtain ⟨hnok, hne1⟩ := fieldName_sound _ _ _ hn
      rcases hsplit with ⟨sc, hsc, hC⟩ | hnil
      · try simp only [] at h
        obtain ⟨g1, hg1, hG1⟩ := wsF_split r1
        split at h
        · rename_i r2 hl
          have e1 := litB_split _ _ _ hl
          obtain ⟨g2, hg2, hG2⟩ := wsF_split r2
          split at h
          · rename_i t r3 ht
            try simp only [] at h
            obtain ⟨w3, hw3, hw3o⟩ := whitespaceOnly_split r3
            -- the text of this parameter
            have field_text : ∀ (hT : tyNE t = true), ∃ s1, i = s1 ++ r3 ∧ FieldS (n, t, cs) s1 := by
              intro hT
              obtain ⟨st, hst, hTS⟩ := varlinkType_textSound _ _ _ _ ht hT
              refine ⟨sc ++ (n ++ (g1 ++ 58 :: (g2 ++ st))), ?_, .mk hC hnok hG1 hG2 hTS⟩
              conv => lhs; rw [hsc, hne1, hg1, e1, hg2, hst]
              simp
            split at h
            · rename_i r4 hl4
              have e4 := litB_split _ _ _ hl4
              obtain ⟨w5, hw5, hw5o⟩ := whitespaceOnly_split r4
              obtain ⟨f', more', s1', s2', hfs, hi', hF', hM'⟩ := ih _ _ _ _ h hne
              have hT : tyNE t = true := by
                rw [hfs, fieldsNE_append, fieldsNE_append] at hne
                simp only [fieldsNE, Bool.and_eq_true] at hne; exact hne.1.2.1
              obtain ⟨s1, hs1, hF⟩ := field_text hT
              refine ⟨(n, t, cs), f' :: more', s1, w3 ++ 44 :: (w5 ++ (s1' ++ s2')), by rw [hfs]; simp, ?_, hF, .more hw3o hw5o hF' hM'⟩
              conv => lhs; rw [hs1, hw3, e4, hw5, hi']
              simp
            · split at h
              · rename_i r4 hl4
                cases h
                have e4 := litB_split _ _ _ hl4
                have hT : tyNE t = true := by
                  rw [fieldsNE_append] at hne
                  simp only [fieldsNE, Bool.and_eq_true] at hne; exact hne.2.1
                obtain ⟨s1, hs1, hF⟩ := field_text hT
                refine ⟨(n, t, cs), [], s1, w3 ++ [41], rfl, ?_, hF, .done hw3o⟩
                conv => lhs; rw [hs1, hw3, e4]
                simp
              · cases h
          · cases h
        · cases h
      · subst hnil; simp [fieldName] at hn
    · cases h

theorem paramList_split (i : In) (fs : List Field) (r : In) (h : paramList i = .ok fs r) (hne : fieldsNE fs = true) :
    ∃ s, i = s ++ r ∧ ParamsS fs s := by
  unfold paramList at h
  split at h
  · rename_i r0 hl
    have e0 := litB_split _ _ _ hl
    try simp only [] at h
    obtain ⟨w, hw, hwo⟩ := whitespaceOnly_split r0
    split at h
    · rename_i r1 hl1
      cases h
      have e1 := litB_split _ _ _ hl1
      exact ⟨40 :: (w ++ [41]), by rw [e0, hw, e1]; simp, .nil hwo⟩
    · obtain ⟨f, more, s1, s2, hfs, hi, hF, hM⟩ := paramLoop_split _ _ _ _ _ h hne
      simp only [List.nil_append] at hfs
      subst hfs
      exact ⟨40 :: (w ++ (s1 ++ s2)), by rw [e0, hw, hi]; simp, .cons hwo hF hM⟩
  · cases h

/-! ### `error` and `method` definitions -/

inductive ErrS : Err → In → Prop
  | mk {name fs cs sc a1 g2 sp} : CommentsS cs sc → gap1OK a1 = true → typeNameOK name = true → GapC g2 → ParamsS fs sp →
      ErrS ⟨name, fs, cs⟩ (sc ++ (([101, 114, 114, 111, 114] : In) ++ (a1 ++ (name ++ (g2 ++ sp)))))

theorem errorDef_split (i : In) (e : Err) (r : In) (h : errorDef i = .ok e r) (hne : fieldsNE e.fs = true) :
    ∃ s, i = s ++ r ∧ ErrS e s := by
  unfold errorDef at h
  split at h
  rename_i cs i1 hpc
  have hsplit := pcF_split i
  rw [hpc] at hsplit
  simp only [] at hsplit
  try simp only [] at h
  split at h
  · rename_i r1 hl
    have e1 := litB_split _ _ _ hl
    rcases hsplit with ⟨sc, hsc, hC⟩ | hnil
    · split at h
      · rename_i r2 hws
        obtain ⟨a1, ha1, hA1⟩ := ws1_split _ _ hws
        split at h
        · rename_i n r3 hn
          obtain ⟨hnok, hne3⟩ := typeName_sound _ _ _ hn
          try simp only [] at h
          obtain ⟨g2, hg2, hG2⟩ := wsF_split r3
          split at h
          · rename_i fs r4 hf
            cases h
            obtain ⟨sp, hsp, hP⟩ := paramList_split _ _ _ hf hne
            refine ⟨sc ++ (([101, 114, 114, 111, 114] : In) ++ (a1 ++ (n ++ (g2 ++ sp)))), ?_, .mk hC hA1 hnok hG2 hP⟩
            conv => lhs; rw [hsc, e1, ha1, hne3, hg2, hsp]
            simp
          · cases h
        · cases h
      · cases h
    · subst hnil; simp [litB, List.isPrefixOf] at hl
  · cases h

inductive MethodS : Method → In → Prop
  | mk {name ins outs cs sc a1 g2 g3 g4 si so} : CommentsS cs sc → gap1OK a1 = true → typeNameOK name = true →
      GapC g2 → ParamsS ins si → GapC g3 → GapC g4 → ParamsS outs so →
      MethodS ⟨name, ins, outs, cs⟩
        (sc ++ (([109, 101, 116, 104, 111, 100] : In) ++ (a1 ++ (name ++ (g2 ++ (si ++ (g3 ++ (([45, 62] : In) ++ (g4 ++ so)))))))))

theorem methodDef_split (i : In) (m : Method) (r : In) (h : methodDef i = .ok m r)
    (hne : fieldsNE m.ins = true ∧ fieldsNE m.outs = true) : ∃ s, i = s ++ r ∧ MethodS m s := by
  unfold methodDef at h
  split at h
  rename_i cs i1 hpc
  have hsplit := pcF_split i
  rw [hpc] at hsplit
  simp only [] at hsplit
  try simp only [] at h
  split at h
  · rename_i r1 hl
    have e1 := litB_split _ _ _ hl
    rcases hsplit with ⟨sc, hsc, hC⟩ | hnil
    · split at h
      · rename_i r2 hws
        obtain ⟨a1, ha1, hA1⟩ := ws1_split _ _ hws
        split at h
        · rename_i n r3 hn
          obtain ⟨hnok, hne3⟩ := typeName_sound _ _ _ hn
          try simp only [] at h
          obtain ⟨g2, hg2, hG2⟩ := wsF_split r3
          split at h
          · rename_i ins r4 hi
            try simp only [] at h
            obtain ⟨g3, hg3, hG3⟩ := wsF_split r4
            split at h
            · rename_i r5 hl5
              have e5 := litB_split _ _ _ hl5
              try simp only [] at h
              obtain ⟨g4, hg4, hG4⟩ := wsF_split r5
              split at h
              · rename_i outs r6 ho
                cases h
                obtain ⟨si, hsi, hPi⟩ := paramList_split _ _ _ hi hne.1
                obtain ⟨so, hso, hPo⟩ := paramList_split _ _ _ ho hne.2
                refine ⟨sc ++ (([109, 101, 116, 104, 111, 100] : In) ++ (a1 ++ (n ++ (g2 ++ (si ++ (g3 ++ (([45, 62] : In) ++ (g4 ++ so)))))))), ?_,
                  .mk hC hA1 hnok hG2 hPi hG3 hG4 hPo⟩
                conv => lhs; rw [hsc, e1, ha1, hne3, hg2, hsi, hg3, e5, hg4, hso]
                simp
              · cases h
            · cases h
          · cases h
        · cases h
      · cases h
    · subst hnil; simp [litB, List.isPrefixOf] at hl
  · cases h

/-! ### `type` definitions -/

/-- a typed member of a `type` definition: comment lines, name, white space, `:`, white space, type -/
inductive TdFieldS : Field → In → Prop
  | mk {n t cs sc st w1 w2} : CommentsS cs sc → fieldNameOK n = true → wsOnly w1 = true → wsOnly w2 = true → TyS t st →
      TdFieldS (n, t, cs) (sc ++ (n ++ (w1 ++ 58 :: (w2 ++ st))))
/-- an untyped member (enum variant): comment lines, name -/
inductive CVarS : In × List In → In → Prop
  | mk {v cs sc} : CommentsS cs sc → fieldNameOK v = true → CVarS (v, cs) (sc ++ v)

/-- the member list of a `type` definition after `(` and white space, up to and including `)`;
    the typed members are `fs`, the untyped ones `vs` (each in source order) -/
inductive TdItemsS : List Field → List (In × List In) → In → Prop
  | lastF {f s1 w} : TdFieldS f s1 → wsOnly w = true → TdItemsS [f] [] (s1 ++ (w ++ [41]))
  | lastV {v s1 w} : CVarS v s1 → wsOnly w = true → TdItemsS [] [v] (s1 ++ (w ++ [41]))
  | moreF {f fs vs s1 w1 w2 s2} : TdFieldS f s1 → wsOnly w1 = true → wsOnly w2 = true → TdItemsS fs vs s2 →
      TdItemsS (f :: fs) vs (s1 ++ (w1 ++ 44 :: (w2 ++ s2)))
  | moreV {v fs vs s1 w1 w2 s2} : CVarS v s1 → wsOnly w1 = true → wsOnly w2 = true → TdItemsS fs vs s2 →
      TdItemsS fs (v :: vs) (s1 ++ (w1 ++ 44 :: (w2 ++ s2)))

theorem whitespaceOnly_idem (i : In) : whitespaceOnly (whitespaceOnly i) = whitespaceOnly i := dropWhile_idem _ i

theorem tdLoop_split (cs0 : List In) (nm : In) : ∀ (k : Nat) (i : In) (fs0 : List Field) (vs0 : List (In × List In)) (ct : CT) (r : In),
    typeDef.loop cs0 nm k i fs0 vs0 = .ok ct r →
    (∀ fs cs', ct = .obj nm fs cs' → fieldsNE fs = true) →
    ∃ fs vs s, i = s ++ r ∧ TdItemsS fs vs s ∧
      ((vs0 ++ vs = [] ∧ ct = .obj nm (fs0 ++ fs) cs0) ∨ (fs0 ++ fs = [] ∧ ct = .enm nm (vs0 ++ vs) cs0)) := by
  intro k
  induction k with
  | zero => intro i fs0 vs0 ct r h; simp [typeDef.loop] at h
  | succ k ih =>
    intro i fs0 vs0 ct r h hne
    rw [typeDef.loop] at h
    split at h
    rename_i fcs i1 hpc
    have hsplit := pcF_split i
    rw [hpc] at hsplit
    simp only [] at hsplit
    split at h
    · rename_i fname r1 hfn
      obtain ⟨hnok, hne1⟩ := fieldName_sound _ _ _ hfn
      rcases hsplit with ⟨sc, hsc, hC⟩ | hnil
      · try simp only [] at h
        obtain ⟨w1, hw1, hw1o⟩ := whitespaceOnly_split r1
        split at h
        · rename_i fs' vs' r3 hstep
          try simp only [] at h
          obtain ⟨w3, hw3, hw3o⟩ := whitespaceOnly_split r3
          -- what this member was
          split at hstep
          · -- typed member
            rename_i r2 hl
            have e2 := litB_split _ _ _ hl
            try simp only [] at hstep
            obtain ⟨w2, hw2, hw2o⟩ := whitespaceOnly_split r2
            split at hstep
            · rename_i ty r4 hty
              simp only [PR.ok.injEq, Prod.mk.injEq] at hstep
              obtain ⟨⟨rfl, rfl⟩, rfl⟩ := hstep
              have item : ∀ (hT : tyNE ty = true), ∃ s1, i = s1 ++ r4 ∧ TdFieldS (fname, ty, fcs) s1 := by
                intro hT
                obtain ⟨st, hst, hTS⟩ := varlinkType_textSound _ _ _ _ hty hT
                refine ⟨sc ++ (fname ++ (w1 ++ 58 :: (w2 ++ st))), ?_, .mk hC hnok hw1o hw2o hTS⟩
                conv => lhs; rw [hsc, hne1, hw1, e2, hw2, hst]
                simp
              split at h
              · rename_i r5 hl5
                have e5 := litB_split _ _ _ hl5
                obtain ⟨w5, hw5, hw5o⟩ := whitespaceOnly_split r5
                obtain ⟨fs, vs, s2, hi2, hI, hfin⟩ := ih _ _ _ _ _ h hne
                have hT : tyNE ty = true := by
                  rcases hfin with ⟨_, hct⟩ | ⟨hnil, _⟩
                  · have := hne _ _ hct
                    rw [fieldsNE_append, fieldsNE_append] at this
                    simp only [fieldsNE, Bool.and_eq_true] at this; exact this.1.2.1
                  · simp at hnil
                obtain ⟨s1, hs1, hF⟩ := item hT
                refine ⟨(fname, ty, fcs) :: fs, vs, s1 ++ (w3 ++ 44 :: (w5 ++ s2)), ?_, .moreF hF hw3o hw5o hI, ?_⟩
                · conv => lhs; rw [hs1, hw3, e5, hw5, hi2]
                  simp
                · rcases hfin with ⟨h1, h2⟩ | ⟨h1, h2⟩
                  · left; exact ⟨h1, by rw [h2]; simp⟩
                  · simp at h1
              · split at h
                · rename_i r5 hl5
                  have e5 := litB_split _ _ _ hl5
                  split at h
                  · cases h
                  · rename_i hboth
                    split at h
                    · cases h
                      have hvs0 : vs0 = [] := by
                        cases vs0 with
                        | nil => rfl
                        | cons a b => simp at hboth
                      have hT : tyNE ty = true := by
                        have := hne _ _ rfl
                        rw [fieldsNE_append] at this
                        simp only [fieldsNE, Bool.and_eq_true] at this; exact this.2.1
                      obtain ⟨s1, hs1, hF⟩ := item hT
                      refine ⟨[(fname, ty, fcs)], [], s1 ++ (w3 ++ [41]), ?_, .lastF hF hw3o, Or.inl ⟨by simp [hvs0], rfl⟩⟩
                      conv => lhs; rw [hs1, hw3, e5]
                      simp
                    · rename_i hfe
                      simp at hfe
                · cases h
            · cases hstep
          · -- untyped member: an enum variant
            simp only [PR.ok.injEq, Prod.mk.injEq] at hstep
            obtain ⟨⟨rfl, rfl⟩, rfl⟩ := hstep
            have hw3' : whitespaceOnly (whitespaceOnly r1) = whitespaceOnly r1 := whitespaceOnly_idem r1
            have item : i = (sc ++ fname) ++ (w1 ++ whitespaceOnly r1) ∧ CVarS (fname, fcs) (sc ++ fname) := by
              refine ⟨?_, .mk hC hnok⟩
              conv => lhs; rw [hsc, hne1, hw1]
              simp
            split at h
            · rename_i r5 hl5
              have e5 := litB_split _ _ _ hl5
              obtain ⟨w5, hw5, hw5o⟩ := whitespaceOnly_split r5
              obtain ⟨fs, vs, s2, hi2, hI, hfin⟩ := ih _ _ _ _ _ h hne
              refine ⟨fs, (fname, fcs) :: vs, (sc ++ fname) ++ ((w1 ++ w3) ++ 44 :: (w5 ++ s2)), ?_,
                .moreV item.2 (by rw [wsOnly_append, hw1o, hw3o]; rfl) hw5o hI, ?_⟩
              · conv => lhs; rw [item.1, hw3, e5, hw5, hi2]
                simp
              · rcases hfin with ⟨h1, h2⟩ | ⟨h1, h2⟩
                · simp at h1
                · right; exact ⟨h1, by rw [h2]; simp⟩
            · split at h
              · rename_i r5 hl5
                have e5 := litB_split _ _ _ hl5
                split at h
                · cases h
                · rename_i hboth
                  split at h
                  · rename_i hfe
                    exfalso
                    simp only [Bool.and_eq_true, Bool.not_eq_true', not_and, Bool.not_eq_false] at hboth
                    have h1 : fs0.isEmpty = false := by simpa using hfe
                    have := hboth h1
                    simp at this
                  · rename_i hfe
                    cases h
                    have hfs0 : fs0 = [] := by
                      cases fs0 with
                      | nil => rfl
                      | cons a b => simp at hfe
                    refine ⟨[], [(fname, fcs)], (sc ++ fname) ++ ((w1 ++ w3) ++ [41]), ?_,
                      .lastV item.2 (by rw [wsOnly_append, hw1o, hw3o]; rfl), Or.inr ⟨by simp [hfs0], rfl⟩⟩
                    conv => lhs; rw [item.1, hw3, e5]
                    simp
              · cases h
        · cases h
      · subst hnil; simp [fieldName] at hfn
    · cases h

inductive TypeS : CT → In → Prop
  | obj0 {name cs sc a1 g2 w} : CommentsS cs sc → gap1OK a1 = true → typeNameOK name = true → GapC g2 → wsOnly w = true →
      TypeS (.obj name [] cs) (sc ++ (([116, 121, 112, 101] : In) ++ (a1 ++ (name ++ (g2 ++ 40 :: (w ++ [41]))))))
  | obj {name fs cs sc a1 g2 w s} : CommentsS cs sc → gap1OK a1 = true → typeNameOK name = true → GapC g2 → wsOnly w = true →
      TdItemsS fs [] s → TypeS (.obj name fs cs) (sc ++ (([116, 121, 112, 101] : In) ++ (a1 ++ (name ++ (g2 ++ 40 :: (w ++ s))))))
  | enm {name vs cs sc a1 g2 w s} : CommentsS cs sc → gap1OK a1 = true → typeNameOK name = true → GapC g2 → wsOnly w = true →
      TdItemsS [] vs s → TypeS (.enm name vs cs) (sc ++ (([116, 121, 112, 101] : In) ++ (a1 ++ (name ++ (g2 ++ 40 :: (w ++ s))))))

def ctNE : CT → Bool
  | .obj _ fs _ => fieldsNE fs
  | .enm _ vs _ => !vs.isEmpty

theorem typeDef_split (i : In) (t : CT) (r : In) (h : typeDef i = .ok t r) (hne : ctNE t = true) :
    ∃ s, i = s ++ r ∧ TypeS t s := by
  unfold typeDef at h
  split at h
  rename_i cs i1 hpc
  have hsplit := pcF_split i
  rw [hpc] at hsplit
  simp only [] at hsplit
  try simp only [] at h
  split at h
  · rename_i r1 hl
    have e1 := litB_split _ _ _ hl
    rcases hsplit with ⟨sc, hsc, hC⟩ | hnil
    · split at h
      · rename_i r2 hws
        obtain ⟨a1, ha1, hA1⟩ := ws1_split _ _ hws
        split at h
        · rename_i n r3 hn
          obtain ⟨hnok, hne3⟩ := typeName_sound _ _ _ hn
          try simp only [] at h
          obtain ⟨g2, hg2, hG2⟩ := wsF_split r3
          split at h
          · rename_i r4 hl4
            have e4 := litB_split _ _ _ hl4
            try simp only [] at h
            obtain ⟨w, hw, hwo⟩ := whitespaceOnly_split r4
            split at h
            · rename_i r5 hl5
              cases h
              have e5 := litB_split _ _ _ hl5
              refine ⟨sc ++ (([116, 121, 112, 101] : In) ++ (a1 ++ (n ++ (g2 ++ 40 :: (w ++ [41]))))), ?_, .obj0 hC hA1 hnok hG2 hwo⟩
              conv => lhs; rw [hsc, e1, ha1, hne3, hg2, e4, hw, e5]
              simp
            · obtain ⟨fs, vs, s, hi, hI, hfin⟩ := tdLoop_split cs n _ _ _ _ _ _ h (by
                intro fs cs' hct; rw [hct] at hne; exact hne)
              have htext : i = (sc ++ (([116, 121, 112, 101] : In) ++ (a1 ++ (n ++ (g2 ++ 40 :: (w ++ s)))))) ++ r := by
                conv => lhs; rw [hsc, e1, ha1, hne3, hg2, e4, hw, hi]
                simp
              rcases hfin with ⟨h1, h2⟩ | ⟨h1, h2⟩
              · simp only [List.nil_append] at h1 h2
                subst h1; subst h2
                exact ⟨_, htext, .obj hC hA1 hnok hG2 hwo hI⟩
              · simp only [List.nil_append] at h1 h2
                subst h1; subst h2
                exact ⟨_, htext, .enm hC hA1 hnok hG2 hwo hI⟩
          · cases h
        · cases h
      · cases h
    · subst hnil; simp [litB, List.isPrefixOf] at hl
  · cases h

end Idl
