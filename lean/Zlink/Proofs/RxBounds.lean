import Zlink.Proofs.Rx
/-! Bounds of the receive buffer (C17, inbound): capacity never exceeds the limit; oversized or
    unterminated input ends in `overflow` once exactly `max` bytes are buffered. -/
namespace Rx

/-- Capacity is a positive multiple of the growth step, at most the limit (`M` steps). -/
def CapInv (C : Consts) (M : Nat) (s : St) : Prop :=
  ∃ k, s.cap = k * C.step ∧ 1 ≤ k ∧ k ≤ M

theorem readLoop_capInv (C : Consts) (M : Nat) (hs : 0 < C.step) (hm : C.max = M * C.step) (sizes : Nat → Nat) :
    ∀ (fuel : Nat) (s : St) (e : Net), CapInv C M s → s.data.length ≤ s.cap →
      CapInv C M (readLoop C sizes fuel s e).2.1 ∧
      (readLoop C sizes fuel s e).2.1.data.length ≤ (readLoop C sizes fuel s e).2.1.cap ∧
      (readLoop C sizes fuel s e).2.1.msgPos = s.msgPos := by
  intro fuel
  induction fuel with
  | zero => intro s e h h2; exact ⟨h, h2, rfl⟩
  | succ fuel ih =>
    intro s e hc hlt
    unfold readLoop
    simp only []
    generalize hnd : min (min (sizes e.k + 1) (s.cap - s.data.length)) e.avail.length = n at *
    by_cases hn : n = 0
    · rw [if_pos hn]; exact ⟨hc, hlt, rfl⟩
    · rw [if_neg hn]
      have hn2 : n ≤ e.avail.length := by omega
      have hn3 : n ≤ s.cap - s.data.length := by omega
      have hlen : (s.data ++ List.take n e.avail).length = s.data.length + n := by simp; omega
      by_cases hov : (s.data ++ List.take n e.avail).length = s.cap ∧ (s.data ++ List.take n e.avail).length ≥ C.max
      · rw [if_pos hov]
        exact ⟨hc, by show (s.data ++ List.take n e.avail).length ≤ s.cap; omega, rfl⟩
      · rw [if_neg hov]
        obtain ⟨k, hk, hk1, hkM⟩ := hc
        have hc' : CapInv C M
            { s with data := s.data ++ List.take n e.avail,
                     cap := if (s.data ++ List.take n e.avail).length = s.cap then s.cap + C.step else s.cap } := by
          by_cases hfull : (s.data ++ List.take n e.avail).length = s.cap
          · have hklt : k < M := by
              rcases Nat.lt_or_ge k M with h | h
              · exact h
              · exfalso; apply hov
                refine ⟨hfull, ?_⟩
                rw [hfull, hk, hm]; exact Nat.mul_le_mul_right _ h
            refine ⟨k + 1, ?_, by omega, by omega⟩
            show (if _ then s.cap + C.step else s.cap) = _
            rw [if_pos hfull, hk, Nat.add_mul]; simp
          · refine ⟨k, ?_, hk1, hkM⟩
            show (if _ then s.cap + C.step else s.cap) = _
            rw [if_neg hfull, hk]
        have hle' : (s.data ++ List.take n e.avail).length ≤
            (if (s.data ++ List.take n e.avail).length = s.cap then s.cap + C.step else s.cap) := by
          by_cases hfull : (s.data ++ List.take n e.avail).length = s.cap
          · rw [if_pos hfull]; omega
          · rw [if_neg hfull]; omega
        by_cases hlast : (s.data ++ List.take n e.avail).getLast? = some 0
        · rw [if_pos hlast]; exact ⟨hc', hle', rfl⟩
        · rw [if_neg hlast]
          exact ih _ _ hc' hle'

theorem poll_capInv (C : Consts) (M : Nat) (hs : 0 < C.step) (hm : C.max = M * C.step) (sizes : Nat → Nat)
    (s : St) (e : Net) (hc : CapInv C M s) (hle : s.data.length ≤ s.cap) :
    CapInv C M (poll C sizes s e).2.1 ∧ (poll C sizes s e).2.1.data.length ≤ (poll C sizes s e).2.1.cap := by
  unfold poll
  by_cases hm0 : s.msgPos > 0
  · simp only [hm0, if_true]
    split <;> first | exact ⟨hc, hle⟩ | (exact ⟨hc, by simp⟩)
  · simp only [hm0, if_false]
    obtain ⟨h1, h2, _⟩ := readLoop_capInv C M hs hm sizes (e.avail.length + 1) s e hc hle
    rcases hr : readLoop C sizes (e.avail.length + 1) s e with ⟨r, s1, e1⟩
    rw [hr] at h1 h2
    simp only [] at h1 h2
    cases r with
    | pending => exact ⟨h1, h2⟩
    | err x => exact ⟨h1, h2⟩
    | done =>
      simp only []
      split <;> first | exact ⟨h1, h2⟩ | (exact ⟨h1, by simp⟩)

/-- State reached after a list of events. -/
def finalSt (C : Consts) (sizes : Nat → Nat) : List Ev → St → Net → St × Net
  | [], s, e => (s, e)
  | ev :: evs, s, e => finalSt C sizes evs (step C sizes s e ev).2.1 (step C sizes s e ev).2.2

theorem run_capInv (C : Consts) (M : Nat) (hs : 0 < C.step) (hm : C.max = M * C.step) (sizes : Nat → Nat) :
    ∀ (evs : List Ev) (s : St) (e : Net), CapInv C M s → s.data.length ≤ s.cap →
      CapInv C M (finalSt C sizes evs s e).1 ∧ (finalSt C sizes evs s e).1.data.length ≤ (finalSt C sizes evs s e).1.cap := by
  intro evs
  induction evs with
  | nil => intro s e h1 h2; exact ⟨h1, h2⟩
  | cons ev evs ih =>
    intro s e h1 h2
    simp only [finalSt]
    cases ev with
    | arrive b => exact ih _ _ h1 h2
    | close => exact ih _ _ h1 h2
    | poll =>
      obtain ⟨g1, g2⟩ := poll_capInv C M hs hm sizes s e h1 h2
      exact ih _ _ g1 g2

/-- Oversized / unterminated input: if the next `max - buffered` bytes to come contain no NUL, the
    read loop ends in `overflow` with exactly `max` bytes buffered. -/
theorem readLoop_overflow (C : Consts) (M : Nat) (hs : 0 < C.step) (hm : C.max = M * C.step)
    (sizes : Nat → Nat) :
    ∀ (fuel : Nat) (s : St) (e : Net), e.avail.length < fuel → CapInv C M s → s.data.length < s.cap →
      C.max - s.data.length ≤ e.avail.length → (0 : Byte) ∉ e.avail.take (C.max - s.data.length - 1) →
      ∃ s' e', readLoop C sizes fuel s e = (.err .overflow, s', e') ∧ s'.data.length = C.max := by
  intro fuel
  induction fuel with
  | zero => intro s e h; omega
  | succ fuel ih =>
    intro s e hfuel hc hlt hav hnz
    obtain ⟨k, hk, hk1, hkM⟩ := hc
    have hcapmax : s.cap ≤ C.max := by rw [hk, hm]; exact Nat.mul_le_mul_right _ hkM
    unfold readLoop
    simp only []
    generalize hnd : min (min (sizes e.k + 1) (s.cap - s.data.length)) e.avail.length = n at *
    have hn1 : 1 ≤ n := by omega
    have hn2 : n ≤ e.avail.length := by omega
    have hn3 : n ≤ s.cap - s.data.length := by omega
    rw [if_neg (by omega)]
    have hlen : (s.data ++ List.take n e.avail).length = s.data.length + n := by simp; omega
    by_cases hov : (s.data ++ List.take n e.avail).length = s.cap ∧ (s.data ++ List.take n e.avail).length ≥ C.max
    · rw [if_pos hov]
      exact ⟨_, _, rfl, by show (s.data ++ List.take n e.avail).length = C.max; omega⟩
    · rw [if_neg hov]
      have hchunk : (0 : Byte) ∉ List.take n e.avail := by
        intro h; apply hnz
        have : List.take n e.avail = List.take n (List.take (C.max - s.data.length - 1) e.avail) := by
          rw [List.take_take]; congr 1; omega
        rw [this] at h
        exact List.mem_of_mem_take h
      have hlast : (s.data ++ List.take n e.avail).getLast? ≠ some 0 := by
        intro h
        rcases List.getLast?_eq_some_iff.mp h with ⟨p, hp⟩
        have hne : List.take n e.avail ≠ [] := by
          intro h0
          have h1 : (List.take n e.avail).length = n := by rw [List.length_take]; omega
          rw [h0] at h1; simp at h1; omega
        rw [List.getLast?_append] at h
        cases hg : (List.take n e.avail).getLast? with
        | none => exact hne (List.getLast?_eq_none_iff.mp hg)
        | some x =>
          rw [hg] at h
          simp at h
          subst h
          exact hchunk (List.mem_of_getLast? hg)
      rw [if_neg hlast]
      have hc' : CapInv C M
          { s with data := s.data ++ List.take n e.avail,
                   cap := if (s.data ++ List.take n e.avail).length = s.cap then s.cap + C.step else s.cap } := by
        by_cases hfull : (s.data ++ List.take n e.avail).length = s.cap
        · have hklt : k < M := by
            rcases Nat.lt_or_ge k M with h | h
            · exact h
            · exfalso; apply hov
              refine ⟨hfull, ?_⟩
              rw [hfull, hk, hm]; exact Nat.mul_le_mul_right _ h
          refine ⟨k + 1, ?_, by omega, by omega⟩
          show (if _ then s.cap + C.step else s.cap) = _
          rw [if_pos hfull, hk, Nat.add_mul]; simp
        · refine ⟨k, ?_, hk1, hkM⟩
          show (if _ then s.cap + C.step else s.cap) = _
          rw [if_neg hfull, hk]
      apply ih _ _ (by show (List.drop n e.avail).length < fuel; simp; omega) hc'
      · show (s.data ++ List.take n e.avail).length < (if _ then s.cap + C.step else s.cap)
        by_cases hfull : (s.data ++ List.take n e.avail).length = s.cap
        · rw [if_pos hfull]; omega
        · rw [if_neg hfull]; omega
      · show C.max - (s.data ++ List.take n e.avail).length ≤ (List.drop n e.avail).length
        rw [hlen]; simp; omega
      · show (0 : Byte) ∉ List.take (C.max - (s.data ++ List.take n e.avail).length - 1) (List.drop n e.avail)
        rw [hlen]
        intro h; apply hnz
        have hsub : C.max - s.data.length - 1 = n + (C.max - (s.data.length + n) - 1) := by omega
        rw [hsub, List.take_add]
        exact List.mem_append_right _ h

end Rx
