import Zlink.Proofs.IdlIfaceRT
/-! Arbitrary inter-token layout, part 1: gaps of white space and comment lines with arbitrary blanks.
    A *gap* is any string over space, tab, CR, LF; the parser's three layout skippers (`multispace0`,
    `ws`, and the mandatory `ws1`) all swallow a gap and stop at the next token. -/
namespace Idl
open SpecIdl

/-- a gap: any string of layout bytes (space, tab, LF, CR) -/
def wsOnly (g : In) : Bool := g.all isMultispace
/-- blanks between `#` and the comment text -/
def blanksOnly (g : In) : Bool := g.all (fun c => c == 32 || c == 9)

/-- the input is empty or starts with a byte that is not layout -/
def nonWs : In → Bool
  | [] => true
  | c :: _ => !isMultispace c

theorem plainHead_nonWs {x : In} (h : plainHead x = true) : nonWs x = true := by
  cases x with
  | nil => rfl
  | cons c t => simp only [plainHead, Bool.and_eq_true] at h; exact h.1

theorem multispace0_gap (g x : In) (hg : wsOnly g = true) (hx : nonWs x = true) : multispace0 (g ++ x) = x := by
  induction g with
  | nil =>
    cases x with
    | nil => rfl
    | cons c t =>
      simp only [nonWs, Bool.not_eq_true'] at hx
      simp [multispace0, hx]
  | cons a t ih =>
    simp only [wsOnly, List.all_cons, Bool.and_eq_true] at hg
    rw [List.cons_append, multispace0_cons_ws a _ hg.1]
    exact ih (by simpa [wsOnly] using hg.2)

theorem whitespaceOnly_gap (g x : In) (hg : wsOnly g = true) (hx : nonWs x = true) : whitespaceOnly (g ++ x) = x :=
  multispace0_gap g x hg hx

theorem wsF_gap (g x : In) (hg : wsOnly g = true) (hx : plainHead x = true) : wsF (g ++ x) = x := by
  unfold wsF
  show ws ((g ++ x).length + 1) (g ++ x) = x
  unfold ws
  simp only [multispace0_gap g x hg (plainHead_nonWs hx), optComment_plain (plainHead_not35 hx)]
  split
  · rfl
  · exact ws_plain _ hx (plainHead_not35 hx)

theorem wsOnly_append (a b : In) : wsOnly (a ++ b) = (wsOnly a && wsOnly b) := by simp [wsOnly]
theorem wsOnly_nil : wsOnly [] = true := rfl

/-- a mandatory gap: non-empty, ASCII white space only (what `gap1` of the generator produces) -/
def gap1OK (g : In) : Bool := !g.isEmpty && g.all isAsciiWs

theorem ws1_gap (g x : In) (hg : gap1OK g = true) (hx : ∀ c, x.head? = some c → isAsciiWs c = false) :
    ws1 (g ++ x) = .ok () x := by
  simp only [gap1OK, Bool.and_eq_true, Bool.not_eq_true', List.isEmpty_eq_false_iff] at hg
  unfold ws1
  have : (g ++ x).dropWhile isAsciiWs = x := by
    rw [List.dropWhile_append_of_pos (by simpa [List.all_eq_true] using hg.2)]
    cases x with
    | nil => rfl
    | cons c t => rw [List.dropWhile_cons, if_neg (by simp [hx c rfl])]
  rw [this, if_neg]
  · simp only [List.length_append]
    have : 0 < g.length := List.length_pos_iff.mpr hg.1
    omega

/-! ### comment lines -/

/-- a block of comment lines in front of an item: `#`, blanks, the text, the line end (`e` = LF or CR; CR LF is
    a CR followed by a gap that starts with LF), a gap — repeated -/
inductive CommentsL : List In → In → Prop
  | nil : CommentsL [] []
  | cons {b c post cs s} {e : Byte} : blanksOnly b = true → commentOK c = true → (e = 10 ∨ e = 13) → wsOnly post = true →
      CommentsL cs s → CommentsL (c :: cs) (35 :: (b ++ (c ++ e :: (post ++ s))))

theorem commentDef_blanks (b c rest : In) (e : Byte) (he : e = 10 ∨ e = 13) (hb : blanksOnly b = true) (hok : commentOK c = true) :
    commentDef (35 :: (b ++ (c ++ e :: rest))) = .ok c (e :: rest) := by
  have hok' := hok
  simp only [commentOK, Bool.and_eq_true, Bool.not_eq_true'] at hok
  obtain ⟨hnl, hlead⟩ := hok
  have hdrop0 : (c ++ e :: rest).dropWhile (fun x => x == 32 || x == 9) = c ++ e :: rest := by
    cases c with
    | nil => rcases he with rfl | rfl <;> simp [List.dropWhile_cons]
    | cons a t =>
      have : (a == 32 || a == 9) = false := by
        by_cases h1 : a = 32
        · subst h1; simp at hlead
        · by_cases h2 : a = 9
          · subst h2; simp at hlead
          · simp [h1, h2]
      simp [List.dropWhile_cons, this]
  have hdrop : (b ++ (c ++ e :: rest)).dropWhile (fun x => x == 32 || x == 9) = c ++ e :: rest := by
    rw [List.dropWhile_append_of_pos (by simpa [blanksOnly, List.all_eq_true] using hb), hdrop0]
  simp only [commentDef]
  rw [hdrop, takeWhile_ne_nl' c rest e he hnl]
  simp

theorem CommentsL.nonWs_append {cs : List In} {s : In} (h : CommentsL cs s) (rest : In) (hr : nonWs rest = true) :
    nonWs (s ++ rest) = true := by
  cases h with
  | nil => simpa using hr
  | cons _ _ _ _ _ => rfl

theorem CommentsL.length_le {cs : List In} {s : In} (h : CommentsL cs s) : cs.length ≤ s.length := by
  induction h with
  | nil => simp
  | cons _ _ _ _ _ ih => simp only [List.length_cons, List.length_append]; omega

/-- the comment lines in front of an item are read back exactly, whatever blanks and gaps they carry -/
theorem pc_commentsL {cs : List In} {s : In} (h : CommentsL cs s) : ∀ (k : Nat) (rest : In) (acc : List In),
    plainHead rest = true → rest ≠ [] → cs.length < k →
    precedingComments k (s ++ rest) acc = (acc ++ cs, rest) := by
  induction h with
  | nil =>
    intro k rest acc hp _ _
    simpa using pc_plain k acc hp
  | @cons b c post cs s e hb hc he hpost hcs ih =>
    intro k rest acc hp hne hk
    obtain ⟨k, rfl⟩ : ∃ k', k = k' + 1 := ⟨k - 1, by simp at hk; omega⟩
    have e0 : 35 :: (b ++ (c ++ e :: (post ++ s))) ++ rest = 35 :: (b ++ (c ++ e :: (post ++ (s ++ rest)))) := by simp
    rw [e0]
    unfold precedingComments
    rw [if_neg (by simp)]
    have e2 : whitespaceOnly (35 :: (b ++ (c ++ e :: (post ++ (s ++ rest))))) = 35 :: (b ++ (c ++ e :: (post ++ (s ++ rest)))) := by
      simp [whitespaceOnly, multispace0, isMultispace]
    simp only [e2]
    rw [if_neg (by simp), commentDef_blanks b c _ e he hb hc]
    simp only []
    have e4 : whitespaceOnly (e :: (post ++ (s ++ rest))) = s ++ rest := by
      have : (e :: (post ++ (s ++ rest))) = (e :: post) ++ (s ++ rest) := by simp
      rw [this]
      exact whitespaceOnly_gap _ _ (by rcases he with rfl | rfl <;> (simp [wsOnly, isMultispace] at hpost ⊢; exact hpost))
        (hcs.nonWs_append rest (plainHead_nonWs hp))
    rw [e4, ih k rest (acc ++ [c]) hp hne (by simp at hk; omega)]
    simp

theorem pcF_commentsL {cs : List In} {s : In} (h : CommentsL cs s) (rest : In)
    (hp : plainHead rest = true) (hne : rest ≠ []) : pcF (s ++ rest) = (cs, rest) := by
  unfold pcF
  have := pc_commentsL h ((s ++ rest).length + 1) rest [] hp hne (by have := h.length_le; simp; omega)
  simpa using this

/-- the canonical rendering of comments is one of the layouts -/
theorem commentsL_render (cs : List In) (h : cs.all commentOK = true) : CommentsL cs (renderComments cs) := by
  induction cs with
  | nil => exact .nil
  | cons c cs ih =>
    simp only [List.all_cons, Bool.and_eq_true] at h
    rw [renderComments_cons]
    have := CommentsL.cons (b := [32]) (post := []) (e := 10) (by decide) h.1 (Or.inl rfl) rfl (ih h.2)
    simpa [renderComment] using this

end Idl
