import Zlink.Proofs.Server
import Zlink.Proofs.ServerFair
/-! Quiescence of the server loop: when no branch of the `select_biased!` can make progress (`iter`
    returns `none`, i.e. `Server::run` would return `Pending`), nobody waits in the listener queue, no
    reply stream has a result ready (an open stream whose service has nothing to hand over is pending), and every well-behaved connection whose bytes have all arrived has had **all**
    its calls consumed. Together with the refinement invariant this turns "a prefix of the calls was
    answered" into "every call was answered". -/
namespace Srv
open Rx

theorem scan_none_all_pending (C : Consts) (sizes : Nat → Nat) (n start : Nat) (hn : 0 < n) (cs : List Conn)
    (hlen : cs.length = n) (h : (scanCalls C sizes n start n cs).2 = none) :
    ∀ (j : Nat) c, cs[j]? = some c → (poll C sizes c.rx c.net).1 = .pending := by
  have hw := scanCalls_winner C sizes n start hn cs n (Nat.le_refl _) cs hlen (fun _ _ _ => rfl)
  rw [h] at hw
  have hs := Sel.scan_spec n start (readyOf C sizes cs) hn n (Nat.le_refl _)
  rw [← hw] at hs
  simp only [Option.map_none] at hs
  intro j c hj
  have hjn : j < n := by
    rw [← hlen]
    exact (List.getElem?_eq_some_iff.mp hj).1
  have := hs j hjn (by omega)
  simp only [readyOf, hj, bne_eq_false_iff_eq] at this
  exact this

theorem iter_none (C : Consts) (hstep : 0 < C.step) (sizes : Nat → Nat) (s : S) (g : GInv C s)
    (h : iter C sizes s = none) :
    s.listenQ = [] ∧ (∀ p ∈ s.streams, p.2.credit = 0) ∧
    ∀ c ∈ s.conns, c.good = true → c.fut = [] → c.k = c.frames.length := by
  unfold iter at h
  cases hq : s.listenQ with
  | cons c q => rw [hq] at h; simp at h
  | nil =>
    rw [hq] at h
    simp only [] at h
    refine ⟨rfl, ?_⟩
    split at h
    · -- somebody was ready: every branch makes progress
      exfalso
      rename_i idx o c hsc
      cases o with
      | pending => simp at h
      | err e => simp at h
      | frame f =>
        simp only [] at h
        cases hc : c.calls with
        | nil => rw [hc] at h; simp at h
        | cons d rest =>
          rw [hc] at h
          simp only [] at h
          cases d with
          | garbage => simp at h
          | sub m p => simp at h
          | echo v ow =>
            simp only [] at h
            split at h
            · simp at h
            · split at h <;> simp at h
          | unser ow =>
            cases ow with
            | false => simp at h
            | true =>
              simp only [] at h
              split at h
              · simp at h
              · split at h <;> simp at h
          | fail ow =>
            simp only [] at h
            split at h
            · simp at h
            · split at h <;> simp at h
    · rename_i hscan
      constructor
      · -- no reply stream has a result ready
        by_cases hm : s.streams.length = 0
        · intro p hp
          rw [List.eq_nil_of_length_eq_zero hm] at hp; cases hp
        · rw [if_neg (by simpa using hm)] at h
          have hspec := Sel.scan_spec s.streams.length (streamStart s.lastStream) (streamReady s.streams)
            (by omega) s.streams.length (Nat.le_refl _)
          generalize hsel : Sel.scan s.streams.length (streamStart s.lastStream)
              (streamReady s.streams) s.streams.length = sel at h hspec
          cases sel with
          | none =>
            simp only [] at hspec
            intro p hp
            obtain ⟨j, hj⟩ := List.mem_iff_getElem?.mp hp
            have hjn : j < s.streams.length := (List.getElem?_eq_some_iff.mp hj).1
            have := hspec j hjn (by omega)
            simp only [streamReady, hj, decide_eq_false_iff_not] at this
            omega
          | some idx =>
            exfalso
            simp only [] at h hspec
            obtain ⟨hr, hlt, _, _⟩ := hspec
            cases hst : s.streams[idx]? with
            | none => simp [streamReady, hst] at hr
            | some p =>
              rw [hst] at h
              obtain ⟨items, c0⟩ := p
              simp only [] at h
              cases items with
              | nil => simp at h
              | cons it rest =>
                simp only [] at h
                split at h <;> simp at h
      · intro c hc hg hfut
        by_cases hn : s.conns.length = 0
        · have := List.eq_nil_of_length_eq_zero hn
          rw [this] at hc; simp at hc
        · rw [if_neg hn] at hscan
          obtain ⟨j, hj⟩ := List.mem_iff_getElem?.mp hc
          have hpend := scan_none_all_pending C sizes s.conns.length _ (by omega) s.conns rfl hscan j c hj
          have inv := g.conns j c hj hg
          have hk := inv.bk.k_le
          by_cases hlt : c.k < c.frames.length
          · exfalso
            have hsplit : c.frames = c.frames.take c.k ++ c.frames[c.k] :: c.frames.drop (c.k + 1) := by
              rw [List.getElem_cons_drop]; exact (List.take_append_drop c.k c.frames).symm
            have hrx := inv.rx
            rw [hfut] at hrx
            obtain ⟨s', e', hp, _, _⟩ := poll_complete C hstep sizes c.frames inv.st.ok inv.st.small c.rx c.net
              (c.frames.take c.k) (c.frames[c.k]) (c.frames.drop (c.k + 1)) hsplit hrx
            rw [hp] at hpend
            cases hpend
          · omega

/-- **The server loop rotates exactly as `SelectAll` prescribes**: with nothing to accept, one iteration of
    `Server::run` serves the connection that `SelectAll` picks when started right after the previous winner,
    and records it as the new previous winner - whatever else the iteration does (reply, error, drop of the
    connection, hand-over to a reply stream). When no connection is ready the previous winner is kept. -/
theorem iter_rotation (C : Consts) (sizes : Nat → Nat) (s s' : S) (hq : s.listenQ = []) (hn : 0 < s.conns.length)
    (h : iter C sizes s = some s') :
    match Sel.selectAll s.conns.length (some (nextStart s)) (readyOf C sizes s.conns) with
    | some w => s'.lastCall = some w
    | none => s'.lastCall = s.lastCall := by
  have hsel := scanCalls_winner C sizes s.conns.length (nextStart s) hn s.conns s.conns.length (Nat.le_refl _) s.conns rfl (fun _ _ _ => rfl)
  have hsa : Sel.selectAll s.conns.length (some (nextStart s)) (readyOf C sizes s.conns)
      = Sel.scan s.conns.length (nextStart s) (readyOf C sizes s.conns) s.conns.length := by
    simp [Sel.selectAll, Nat.ne_of_gt hn]
  rw [hsa, ← hsel]
  unfold iter at h
  rw [hq] at h
  simp only [] at h
  rw [if_neg (Nat.ne_of_gt hn)] at h
  cases hsc : (scanCalls C sizes s.conns.length (nextStart s) s.conns.length s.conns).2 with
  | none =>
    rw [hsc] at h
    simp only [Option.map_none]
    simp only [] at h
    split at h
    · cases h
    · split at h
      · cases h
      · split at h
        · cases h
        · rename_i items c hp
          cases items with
          | nil => simp only [Option.some.injEq] at h; rw [← h]
          | cons it rest =>
            simp only [] at h
            split at h <;> (simp only [Option.some.injEq] at h; rw [← h])
  | some x =>
    obtain ⟨idx, o, c⟩ := x
    rw [hsc] at h
    simp only [Option.map_some]
    simp only [] at h
    cases o with
    | pending => simp only [Option.some.injEq] at h; rw [← h]
    | err e => simp only [Option.some.injEq] at h; rw [← h]
    | frame f =>
      simp only [] at h
      cases hc : c.calls with
      | nil => rw [hc] at h; simp only [Option.some.injEq] at h; rw [← h]
      | cons d rest =>
        rw [hc] at h
        simp only [] at h
        cases d with
        | garbage => simp only [Option.some.injEq] at h; rw [← h]
        | sub m p => simp only [Option.some.injEq] at h; rw [← h]
        | echo v ow =>
          simp only [] at h
          split at h
          · simp only [Option.some.injEq] at h; rw [← h]
          · split at h <;> (simp only [Option.some.injEq] at h; rw [← h])
        | unser ow =>
          cases ow with
          | false => simp only [Option.some.injEq] at h; rw [← h]
          | true =>
            simp only [] at h
            split at h
            · simp only [Option.some.injEq] at h; rw [← h]
            · split at h <;> (simp only [Option.some.injEq] at h; rw [← h])
        | fail ow =>
          simp only [] at h
          split at h
          · simp only [Option.some.injEq] at h; rw [← h]
          · split at h <;> (simp only [Option.some.injEq] at h; rw [← h])

end Srv

namespace Srv
open Rx

/-- **The reply streams rotate exactly as `SelectAll` prescribes**: with nothing to accept and no call ready,
    one iteration forwards a result of the stream `SelectAll` picks among the streams that have one ready,
    started right after the previous stream winner, records it as the new previous winner and leaves the call
    rotation alone. -/
theorem iter_stream_rotation (C : Consts) (sizes : Nat → Nat) (s s' : S) (hq : s.listenQ = [])
    (hnone : (if s.conns.length = 0 then (s.conns, none) else
        scanCalls C sizes s.conns.length (nextStart s) s.conns.length s.conns).2 = none)
    (h : iter C sizes s = some s') :
    some s'.lastStream = (Sel.selectAll s.streams.length (some (streamStart s.lastStream)) (streamReady s.streams)).map some
      ∧ s'.lastCall = s.lastCall := by
  unfold iter at h
  rw [hq] at h
  simp only [] at h
  generalize (if s.conns.length = 0 then (s.conns, none) else
        scanCalls C sizes s.conns.length (nextStart s) s.conns.length s.conns) = sc at h hnone
  obtain ⟨cs, w⟩ := sc
  simp only [] at hnone
  subst hnone
  simp only [] at h
  by_cases hm : s.streams.length = 0
  · rw [if_pos hm] at h; cases h
  · rw [if_neg hm] at h
    have hsa : Sel.selectAll s.streams.length (some (streamStart s.lastStream)) (streamReady s.streams)
        = Sel.scan s.streams.length (streamStart s.lastStream) (streamReady s.streams) s.streams.length := by
      simp [Sel.selectAll, hm]
    rw [hsa]
    generalize Sel.scan s.streams.length (streamStart s.lastStream) (streamReady s.streams) s.streams.length = sel at h
    cases sel with
    | none => cases h
    | some idx =>
      simp only [] at h
      split at h
      · cases h
      · rename_i items c0 hp
        cases items with
        | nil => simp only [Option.some.injEq] at h; rw [← h]; exact ⟨rfl, rfl⟩
        | cons it rest =>
          simp only [] at h
          split at h <;> (simp only [Option.some.injEq] at h; rw [← h]; exact ⟨rfl, rfl⟩)

/-- Polling a reply stream that has nothing ready changes nothing: `streamReady` reads the state, it does not
    write it, and the stream branch of `iter` touches only the winner — every other entry of `streams` is the
    same object afterwards (possibly at the position `swap_remove` moved it to). -/
theorem iter_streams_others_untouched (C : Consts) (sizes : Nat → Nat) (s s' : S)
    (h : iter C sizes s = some s') :
    ∀ p ∈ s.streams, p.2.credit = 0 → p ∈ s'.streams := by
  intro p hp hcr
  unfold iter at h
  cases hq : s.listenQ with
  | cons c q => rw [hq] at h; simp only [Option.some.injEq] at h; rw [← h]; exact hp
  | nil =>
    rw [hq] at h
    simp only [] at h
    generalize (if s.conns.length = 0 then (s.conns, none) else
          scanCalls C sizes s.conns.length (nextStart s) s.conns.length s.conns) = sc at h
    obtain ⟨cs, w⟩ := sc
    cases w with
    | some x =>
      obtain ⟨idx, o, c⟩ := x
      simp only [] at h
      cases o with
      | pending => simp only [Option.some.injEq] at h; rw [← h]; exact hp
      | err e => simp only [Option.some.injEq] at h; rw [← h]; exact hp
      | frame f =>
        simp only [] at h
        cases hc : c.calls with
        | nil => rw [hc] at h; simp only [Option.some.injEq] at h; rw [← h]; exact hp
        | cons d rest =>
          rw [hc] at h
          simp only [] at h
          cases d with
          | garbage => simp only [Option.some.injEq] at h; rw [← h]; exact hp
          | sub m pt => simp only [Option.some.injEq] at h; rw [← h]; exact List.mem_append_left _ hp
          | echo v ow =>
            simp only [] at h
            split at h
            · simp only [Option.some.injEq] at h; rw [← h]; exact hp
            · split at h <;> (simp only [Option.some.injEq] at h; rw [← h]; exact hp)
          | unser ow =>
            cases ow with
            | false => simp only [Option.some.injEq] at h; rw [← h]; exact hp
            | true =>
              simp only [] at h
              split at h
              · simp only [Option.some.injEq] at h; rw [← h]; exact hp
              · split at h <;> (simp only [Option.some.injEq] at h; rw [← h]; exact hp)
          | fail ow =>
            simp only [] at h
            split at h
            · simp only [Option.some.injEq] at h; rw [← h]; exact hp
            · split at h <;> (simp only [Option.some.injEq] at h; rw [← h]; exact hp)
    | none =>
      simp only [] at h
      by_cases hm : s.streams.length = 0
      · rw [if_pos hm] at h; cases h
      · rw [if_neg hm] at h
        have hspec := Sel.scan_spec s.streams.length (streamStart s.lastStream) (streamReady s.streams)
          (by omega) s.streams.length (Nat.le_refl _)
        generalize Sel.scan s.streams.length (streamStart s.lastStream) (streamReady s.streams) s.streams.length = sel at h hspec
        cases sel with
        | none => cases h
        | some idx =>
          simp only [] at h hspec
          obtain ⟨hr, hlt, _, _⟩ := hspec
          obtain ⟨j, hj⟩ := List.mem_iff_getElem?.mp hp
          have hjn : j < s.streams.length := (List.getElem?_eq_some_iff.mp hj).1
          -- the winner is ready, `p` is not: they sit at different positions
          have hne : j ≠ idx := by
            intro e; subst e
            simp [streamReady, hj, hcr] at hr
          have hsr : p ∈ swapRemove s.streams idx := by
            unfold swapRemove
            cases hl : s.streams.getLast? with
            | none =>
              have := List.getLast?_eq_none_iff.mp hl
              rw [this] at hm; simp at hm
            | some last =>
              simp only []
              have hlast : s.streams[s.streams.length - 1]? = some last := by
                rw [← List.getLast?_eq_getElem?]; exact hl
              by_cases hi : idx + 1 = s.streams.length
              · rw [if_pos hi]
                apply List.mem_iff_getElem?.mpr
                refine ⟨j, ?_⟩
                rw [List.getElem?_dropLast, if_pos (by omega)]
                exact hj
              · rw [if_neg hi]
                by_cases hjl : j + 1 = s.streams.length
                · -- `p` is the last element: it moves to position `idx`
                  have hpl : p = last := by
                    have : s.streams[j]? = some last := by
                      have : j = s.streams.length - 1 := by omega
                      rw [this]; exact hlast
                    rw [hj] at this; exact Option.some.inj this
                  apply List.mem_iff_getElem?.mpr
                  refine ⟨idx, ?_⟩
                  rw [List.getElem?_dropLast, if_pos (by simp; omega), List.getElem?_set_self hlt, hpl]
                · apply List.mem_iff_getElem?.mpr
                  refine ⟨j, ?_⟩
                  rw [List.getElem?_dropLast, if_pos (by simp; omega), List.getElem?_set_ne (Ne.symm hne)]
                  exact hj
          split at h
          · cases h
          · rename_i items c0 hpw
            cases items with
            | nil => simp only [Option.some.injEq] at h; rw [← h]; exact hsr
            | cons it rest =>
              simp only [] at h
              split at h
              · simp only [Option.some.injEq] at h; rw [← h]
                apply List.mem_iff_getElem?.mpr
                exact ⟨j, by rw [List.getElem?_set_ne (Ne.symm hne)]; exact hj⟩
              · simp only [Option.some.injEq] at h; rw [← h]; exact hsr
end Srv
