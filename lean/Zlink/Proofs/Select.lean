import Zlink.Model.Select
namespace Sel
theorem idx_of_dist (n start x : Nat) (hn : 0 < n) (hx : x < n) :
    (start % n + dist n start x) % n = x := by
  unfold dist
  have hs : start % n < n := Nat.mod_lt _ hn
  generalize start % n = s at *
  rcases Nat.lt_or_ge x s with h | h
  · have : (x + n - s) % n = x + n - s := Nat.mod_eq_of_lt (by omega)
    rw [this]
    have : s + (x + n - s) = x + n := by omega
    rw [this, Nat.add_mod_right, Nat.mod_eq_of_lt hx]
  · have hd : (x + n - s) % n = x - s := by
      have : x + n - s = (x - s) + n := by omega
      rw [this, Nat.add_mod_right]
      exact Nat.mod_eq_of_lt (by omega)
    rw [hd]
    have : s + (x - s) = x := by omega
    rw [this, Nat.mod_eq_of_lt hx]

theorem dist_lt (n start x : Nat) (hn : 0 < n) : dist n start x < n := Nat.mod_lt _ hn

theorem dist_of_idx (n start off : Nat) (hn : 0 < n) (hoff : off < n) :
    dist n start ((start % n + off) % n) = off := by
  unfold dist
  have hs : start % n < n := Nat.mod_lt _ hn
  generalize start % n = s at *
  rcases Nat.lt_or_ge (s + off) n with h | h
  · rw [Nat.mod_eq_of_lt h]
    have : s + off + n - s = off + n := by omega
    rw [this, Nat.add_mod_right, Nat.mod_eq_of_lt hoff]
  · have : (s + off) % n = s + off - n := by
      rw [Nat.mod_eq_sub_mod h, Nat.mod_eq_of_lt (by omega)]
    rw [this]
    have : s + off - n + n - s = off := by omega
    rw [this, Nat.mod_eq_of_lt hoff]

/-- The scan returns a ready index, and every index at a smaller rotation distance (among the
    offsets it looked at) is not ready. -/
theorem scan_spec (n start : Nat) (ready : Nat → Bool) (hn : 0 < n) :
    ∀ i, i ≤ n →
      match scan n start ready i with
      | some w => ready w = true ∧ w < n ∧ n - i ≤ dist n start w ∧
                  ∀ x, x < n → n - i ≤ dist n start x → dist n start x < dist n start w → ready x = false
      | none => ∀ x, x < n → n - i ≤ dist n start x → ready x = false := by
  intro i
  induction i with
  | zero =>
    intro _
    simp only [scan]
    intro x hx hd
    have := dist_lt n start x hn
    omega
  | succ i ih =>
    intro hi
    simp only [scan]
    have hoff : n - (i+1) < n := by omega
    have hd := dist_of_idx n start (n - (i+1)) hn hoff
    by_cases hr : ready ((start % n + (n - (i + 1))) % n) = true
    · rw [if_pos hr]
      refine ⟨hr, Nat.mod_lt _ hn, by rw [hd]; omega, ?_⟩
      intro x hx h1 h2
      rw [hd] at h2; omega
    · rw [if_neg hr]
      have ih' := ih (by omega)
      cases hsc : scan n start ready i with
      | some w =>
        rw [hsc] at ih'
        obtain ⟨g1, g2, g3, g4⟩ := ih'
        refine ⟨g1, g2, by omega, ?_⟩
        intro x hx h1 h2
        rcases Nat.lt_or_ge (dist n start x) (n - i) with hlt | hge
        · -- x is exactly the offset just examined
          have hxo : dist n start x = n - (i+1) := by omega
          have : x = (start % n + (n - (i + 1))) % n := by
            rw [← hxo, idx_of_dist n start x hn hx]
          rw [this]; simpa using hr
        · exact g4 x hx hge h2
      | none =>
        rw [hsc] at ih'
        intro x hx h1
        rcases Nat.lt_or_ge (dist n start x) (n - i) with hlt | hge
        · have hxo : dist n start x = n - (i+1) := by omega
          have : x = (start % n + (n - (i + 1))) % n := by
            rw [← hxo, idx_of_dist n start x hn hx]
          rw [this]; simpa using hr
        · exact ih' x hx hge

/-- C18 core: the winner is the ready index of minimal rotation distance. -/
theorem select_min (n : Nat) (start : Nat) (ready : Nat → Bool) (hn : 0 < n) (w : Nat)
    (h : selectAll n (some start) ready = some w) :
    ready w = true ∧ w < n ∧ ∀ x, x < n → ready x = true → dist n start w ≤ dist n start x := by
  unfold selectAll at h
  rw [if_neg (by omega)] at h
  have := scan_spec n start ready hn n (Nat.le_refl n)
  simp only [Option.getD] at h
  rw [h] at this
  obtain ⟨g1, g2, _, g4⟩ := this
  refine ⟨g1, g2, ?_⟩
  intro x hx hrx
  rcases Nat.lt_or_ge (dist n start x) (dist n start w) with hlt | hge
  · have := g4 x hx (by omega) hlt
    rw [this] at hrx; exact absurd hrx (by simp)
  · exact hge

/-- After winner `a`, the next scan starts at `a+1`, where `a` itself is at the maximal distance. -/
theorem dist_succ_self (n a : Nat) (hn : 0 < n) (ha : a < n) : dist n (a+1) a = n - 1 := by
  unfold dist
  rcases Nat.lt_or_ge (a+1) n with h | h
  · rw [Nat.mod_eq_of_lt h]
    have : a + n - (a+1) = n - 1 := by omega
    rw [this, Nat.mod_eq_of_lt (by omega)]
  · have : a + 1 = n := by omega
    rw [this, Nat.mod_self]
    have : a + n - 0 = a + n := by omega
    rw [this, Nat.add_mod_right, Nat.mod_eq_of_lt ha]; omega

/-- No double service: if `a` won last time and another index `b` is ready now, `a` does not win. -/
theorem no_double (n a b : Nat) (ready : Nat → Bool) (hn : 0 < n) (ha : a < n) (hb : b < n) (hab : b ≠ a)
    (hrb : ready b = true) : selectAll n (some (a+1)) ready ≠ some a := by
  intro h
  obtain ⟨_, _, hmin⟩ := select_min n (a+1) ready hn a h
  have h1 := hmin b hb hrb
  rw [dist_succ_self n a hn ha] at h1
  have h2 := dist_lt n (a+1) b hn
  have h3 : dist n (a+1) b = n - 1 := by omega
  -- two indices at the same distance are equal
  have e1 := idx_of_dist n (a+1) b hn hb
  have e2 := idx_of_dist n (a+1) a hn ha
  rw [h3] at e1; rw [dist_succ_self n a hn ha] at e2
  exact hab (e1.symm.trans e2)


/-- distinct indices sit at distinct rotation distances -/
theorem dist_inj (n start x y : Nat) (hn : 0 < n) (hx : x < n) (hy : y < n)
    (h : dist n start x = dist n start y) : x = y := by
  have e1 := idx_of_dist n start x hn hx
  have e2 := idx_of_dist n start y hn hy
  rw [h] at e1
  exact e1.symm.trans e2

theorem dist_congr (n s s' x : Nat) (h : s % n = s' % n) : dist n s x = dist n s' x := by
  unfold dist; rw [h]

theorem dist_eq (n s x : Nat) (hn : 0 < n) (hx : x < n) :
    dist n s x = if s % n ≤ x then x - s % n else x + n - s % n := by
  unfold dist
  have hs : s % n < n := Nat.mod_lt _ hn
  generalize s % n = s0 at *
  by_cases h : s0 ≤ x
  · rw [if_pos h]
    have : x + n - s0 = (x - s0) + n := by omega
    rw [this, Nat.add_mod_right]
    exact Nat.mod_eq_of_lt (by omega)
  · rw [if_neg h]
    exact Nat.mod_eq_of_lt (by omega)

theorem succ_mod (n w : Nat) (hw : w < n) : (w + 1) % n = if w + 1 < n then w + 1 else 0 := by
  by_cases h : w + 1 < n
  · rw [if_pos h]; exact Nat.mod_eq_of_lt h
  · rw [if_neg h]
    have : w + 1 = n := by omega
    rw [this]; exact Nat.mod_self n

/-- After a winner `w` the next scan starts at `w + 1`: every index that was *behind* `w` in the
    rotation moves closer by exactly `dist w + 1`. -/
theorem dist_shift (n s w x : Nat) (hn : 0 < n) (hw : w < n) (hx : x < n)
    (hlt : dist n s w < dist n s x) :
    dist n (w + 1) x = dist n s x - dist n s w - 1 := by
  have hdw := dist_eq n s w hn hw
  have hdx := dist_eq n s x hn hx
  have hd1 := dist_eq n (w + 1) x hn hx
  have hw1 : (w + 1) % n = w + 1 ∧ w + 1 < n ∨ (w + 1) % n = 0 ∧ w + 1 = n := by
    rw [succ_mod n w hw]
    by_cases h : w + 1 < n
    · left; rw [if_pos h]; exact ⟨rfl, h⟩
    · right; rw [if_neg h]; exact ⟨rfl, by omega⟩
  have hs : s % n < n := Nat.mod_lt _ hn
  generalize s % n = s0 at *
  generalize (w + 1) % n = w1 at *
  generalize dist n s w = dw at *
  generalize dist n s x = dx at *
  generalize dist n (w + 1) x = d1 at *
  split at hdw <;> split at hdx <;> split at hd1 <;> omega

/-- Right after `a` won, every other index is strictly closer to the new start than `a` itself. -/
theorem after_win (n a b : Nat) (hn : 0 < n) (ha : a < n) (hb : b < n) (hab : b ≠ a) :
    dist n (a + 1) b < dist n (a + 1) a := by
  rw [dist_succ_self n a hn ha]
  have h2 := dist_lt n (a + 1) b hn
  rcases Nat.lt_or_ge (dist n (a + 1) b) (n - 1) with h | h
  · exact h
  · exfalso
    have h3 : dist n (a + 1) b = dist n (a + 1) a := by rw [dist_succ_self n a hn ha]; omega
    exact hab (dist_inj n (a + 1) b a hn hb ha h3)

/-- One scheduling step preserves "`b` is ahead of `a`": if `b` is closer to the start than `a`, `b`
    is ready, and the winner `w` is neither (so it was even closer), then after the winner `b` is still
    closer to the new start than `a`. -/
theorem fair_step (n s a b w : Nat) (ready : Nat → Bool) (hn : 0 < n) (ha : a < n) (hb : b < n)
    (hrb : ready b = true) (hba : dist n s b < dist n s a)
    (hwin : selectAll n (some s) ready = some w) (hwb : w ≠ b) :
    w ≠ a ∧ dist n (w + 1) b < dist n (w + 1) a := by
  obtain ⟨_, hw, hmin⟩ := select_min n s ready hn w hwin
  have h1 := hmin b hb hrb
  have h2 : dist n s w < dist n s b := by
    rcases Nat.lt_or_ge (dist n s w) (dist n s b) with h | h
    · exact h
    · exfalso; exact hwb (dist_inj n s w b hn hw hb (by omega))
  refine ⟨by intro h; subst h; omega, ?_⟩
  rw [dist_shift n s w b hn hw hb h2, dist_shift n s w a hn hw ha (by omega)]
  omega

/-- A sequence of consecutive scans over an unchanged set of `n` futures: each scan starts right
    after the previous winner. `readys` lists the readiness at each scan. -/
def winners (n : Nat) : Nat → List (Nat → Bool) → List (Option Nat)
  | _, [] => []
  | s, r :: rs =>
    match selectAll n (some s) r with
    | some w => some w :: winners n (w + 1) rs
    | none => none :: winners n s rs

/-- **No double service.** Start right after `a` was served (`start = a + 1`), or more generally from any
    start where `b` is ahead of `a`. If `b` is ready at every scan and is never the winner, then `a` is
    never the winner either: `a` cannot be served again while `b` has been waiting the whole time. -/
theorem no_double_service (n a b : Nat) (hn : 0 < n) (ha : a < n) (hb : b < n) :
    ∀ (rs : List (Nat → Bool)) (s : Nat), dist n s b < dist n s a →
      (∀ r ∈ rs, r b = true) → some b ∉ winners n s rs → some a ∉ winners n s rs := by
  intro rs
  induction rs with
  | nil => intro s _ _ _ h; simp [winners] at h
  | cons r rs ih =>
    intro s hba hr hnb
    simp only [winners] at hnb ⊢
    cases hw : selectAll n (some s) r with
    | none =>
      -- impossible: `b` is ready, so some index wins
      exfalso
      unfold selectAll at hw
      rw [if_neg (by omega)] at hw
      have := scan_spec n s r hn n (Nat.le_refl n)
      simp only [Option.getD] at hw
      rw [hw] at this
      have := this b hb (by omega)
      rw [hr r (by simp)] at this
      cases this
    | some w =>
      rw [hw] at hnb
      simp only [List.mem_cons, not_or] at hnb ⊢
      have hwb : w ≠ b := by intro h; apply hnb.1; rw [h]
      obtain ⟨hwa, hnext⟩ := fair_step n s a b w r hn ha hb (hr r (by simp)) hba hw hwb
      refine ⟨by intro h; cases h; exact hwa rfl, ?_⟩
      exact ih (w + 1) hnext (fun r' hr' => hr r' (by simp [hr'])) hnb.2

/-- Bounded waiting: a ready index at rotation distance `d` from the start is served after at most `d`
    other winners (as long as it stays ready and the set is unchanged). -/
theorem bounded_wait (n b : Nat) (hn : 0 < n) (hb : b < n) :
    ∀ (rs : List (Nat → Bool)) (s : Nat), (∀ r ∈ rs, r b = true) → dist n s b < rs.length →
      some b ∈ winners n s rs := by
  intro rs
  induction rs with
  | nil => intro s _ h; simp at h
  | cons r rs ih =>
    intro s hr hd
    simp only [winners]
    cases hw : selectAll n (some s) r with
    | none =>
      exfalso
      unfold selectAll at hw
      rw [if_neg (by omega)] at hw
      have := scan_spec n s r hn n (Nat.le_refl n)
      simp only [Option.getD] at hw
      rw [hw] at this
      have := this b hb (by omega)
      rw [hr r (by simp)] at this
      cases this
    | some w =>
      simp only []
      by_cases hwb : w = b
      · subst hwb; simp
      · obtain ⟨_, hw', hmin⟩ := select_min n s r hn w hw
        have h1 := hmin b hb (hr r (by simp))
        have h2 : dist n s w < dist n s b := by
          rcases Nat.lt_or_ge (dist n s w) (dist n s b) with h | h
          · exact h
          · exfalso; exact hwb (dist_inj n s w b hn hw' hb (by omega))
        have := ih (w + 1) (fun r' hr' => hr r' (by simp [hr'])) (by
          rw [dist_shift n s w b hn hw' hb h2]; simp at hd; omega)
        simp [this]
end Sel
