import Zlink.Model.Notified
/-! Run-level order theorem for the notified state: what a subscriber is handed is a subsequence, in order, of the values
    set after it subscribed. -/
namespace Notified

/-- the values set by a history, in order -/
def sets : List Op → List Nat
  | [] => []
  | .set v :: t => v :: sets t
  | _ :: t => sets t

/-- the values subscriber `k` was handed, in order -/
def itemsOf (k : Nat) : List (Nat × Item) → List Nat
  | [] => []
  | (j, .item v _) :: t => if j = k then v :: itemsOf k t else itemsOf k t
  | _ :: t => itemsOf k t

/-- the values set after the `(n+1)`-th `sub` of a history -/
def setsAfterSub : Nat → List Op → List Nat
  | _, [] => []
  | 0, .sub :: t => sets t
  | n+1, .sub :: t => setsAfterSub n t
  | n, _ :: t => setsAfterSub n t

theorem pollAny_smol (closed : Bool) (c : Chan) (r : Rcv) :
    (if closed then pollClosed pollSmol else pollSmol) c r =
      (if r.cursor = c.seq then ((if closed then Item.ended else Item.pending), r) else (.item c.last true, { cursor := c.seq })) := by
  by_cases h : r.cursor = c.seq <;> cases closed <;> simp [pollClosed, pollSmol, recvSmol, h]

/-- an existing subscriber: what it is handed from now on is a subsequence of the value it has not seen yet (if any)
    followed by the values set from now on -/
theorem items_existing : ∀ (t : List Op) (s : St) (k : Nat) (r : Rcv), s.subs[k]? = some r →
    (itemsOf k (run pollSmol t s)).Sublist ((if r.cursor = s.chan.seq then [] else [s.chan.last]) ++ sets t) := by
  intro t
  induction t with
  | nil => intro s k r _; simp [run, itemsOf]
  | cons op t ih =>
    intro s k r hk
    cases op with
    | set v =>
      simp only [run, sets]
      have := ih { s with chan := s.chan.send v } k r hk
      refine this.trans ?_
      refine List.Sublist.trans ?_ (List.sublist_append_right _ _)
      split
      · simp only [List.nil_append]; exact List.sublist_cons_self v (sets t)
      · exact List.Sublist.refl _
    | sub =>
      simp only [run, sets]
      have hk' : (s.subs ++ [s.chan.subscribe])[k]? = some r := by
        have hlt : k < s.subs.length := (List.getElem?_eq_some_iff.mp hk).1
        rw [List.getElem?_append_left hlt]; exact hk
      exact ih { s with subs := s.subs ++ [s.chan.subscribe] } k r hk'
    | close =>
      simp only [run, sets]
      exact ih { s with closed := true } k r hk
    | poll j =>
      simp only [run, sets]
      cases hj : s.subs[j]? with
      | none => simp only []; exact ih s k r hk
      | some rj =>
        simp only []
        rw [pollAny_smol]
        by_cases hjk : j = k
        · subst hjk
          rw [hk] at hj; cases hj
          have hlt : j < s.subs.length := (List.getElem?_eq_some_iff.mp hk).1
          by_cases hc : r.cursor = s.chan.seq
          · rw [if_pos hc, if_pos hc]
            simp only []
            have hset : (s.subs.set j r)[j]? = some r := List.getElem?_set_self hlt
            have := ih { s with subs := s.subs.set j r } j r hset
            simp only [if_pos hc] at this
            cases hcl : s.closed <;> simp only [hcl, Bool.false_eq_true, if_false, if_true, itemsOf] at this ⊢ <;> exact this
          · rw [if_neg hc, if_neg hc]
            simp only [itemsOf, if_true]
            have hset : (s.subs.set j { cursor := s.chan.seq })[j]? = some { cursor := s.chan.seq } := List.getElem?_set_self hlt
            have := ih { s with subs := s.subs.set j { cursor := s.chan.seq } } j { cursor := s.chan.seq } hset
            simp only [if_true] at this
            simp only [List.singleton_append]
            exact List.Sublist.cons_cons _ (by simpa using this)
        · -- another subscriber is polled: ours is untouched, the outcome is not ours
          have hset : ∀ r', (s.subs.set j r')[k]? = some r := by
            intro r'; rw [List.getElem?_set_ne hjk]; exact hk
          by_cases hc : rj.cursor = s.chan.seq
          · rw [if_pos hc]
            simp only []
            have := ih { s with subs := s.subs.set j rj } k r (hset rj)
            cases hcl : s.closed <;> simp only [hcl, Bool.false_eq_true, if_false, if_true, itemsOf] at this ⊢ <;> exact this
          · rw [if_neg hc]
            simp only [itemsOf, if_neg hjk]
            exact ih { s with subs := s.subs.set j { cursor := s.chan.seq } } k r (hset _)

/-- **Order (run level).** For EVERY history: what the subscriber created by the `(n+1)`-th `sub` beyond the existing ones
    is handed - over the whole history, whatever polls, sets, other subscribers and the end of the state do - is a
    subsequence, in order, of the values set after it subscribed: nothing from before, nothing twice, nothing out of
    order, intermediate values possibly skipped. -/
theorem items_future : ∀ (t : List Op) (s : St) (n : Nat),
    (itemsOf (s.subs.length + n) (run pollSmol t s)).Sublist (setsAfterSub n t) := by
  intro t
  induction t with
  | nil => intro s n; simp [run, itemsOf, setsAfterSub]
  | cons op t ih =>
    intro s n
    cases op with
    | set v => simp only [run, setsAfterSub]; exact ih { s with chan := s.chan.send v } n
    | close => simp only [run, setsAfterSub]; exact ih { s with closed := true } n
    | sub =>
      simp only [run]
      cases n with
      | zero =>
        simp only [setsAfterSub, Nat.add_zero]
        have hk : (s.subs ++ [s.chan.subscribe])[s.subs.length]? = some s.chan.subscribe := by
          rw [List.getElem?_append_right (Nat.le_refl _)]; simp
        have := items_existing t { s with subs := s.subs ++ [s.chan.subscribe] } s.subs.length s.chan.subscribe hk
        simpa [Chan.subscribe] using this
      | succ n =>
        simp only [setsAfterSub]
        have := ih { s with subs := s.subs ++ [s.chan.subscribe] } n
        simp only [List.length_append, List.length_singleton] at this
        have e : s.subs.length + 1 + n = s.subs.length + (n + 1) := by omega
        rw [e] at this
        exact this
    | poll j =>
      simp only [run]
      have hsa : setsAfterSub n (Op.poll j :: t) = setsAfterSub n t := by cases n <;> rfl
      rw [hsa]
      cases hj : s.subs[j]? with
      | none => simp only []; exact ih s n
      | some rj =>
        simp only []
        have hlt : j < s.subs.length := (List.getElem?_eq_some_iff.mp hj).1
        have hne : ¬ j = s.subs.length + n := by omega
        rw [pollAny_smol]
        by_cases hc : rj.cursor = s.chan.seq
        · rw [if_pos hc]
          simp only []
          have := ih { s with subs := s.subs.set j rj } n
          simp only [List.length_set] at this
          cases hcl : s.closed <;> simp only [hcl, Bool.false_eq_true, if_false, if_true, itemsOf] at this ⊢ <;> exact this
        · rw [if_neg hc]
          simp only [itemsOf, if_neg hne]
          have := ih { s with subs := s.subs.set j { cursor := s.chan.seq } } n
          simp only [List.length_set] at this
          exact this

/-- under the invariant "no receiver is ahead of the channel" the tokio adapter computes the same run -/
theorem run_tokio_eq_smol : ∀ (t : List Op) (s : St), (∀ r ∈ s.subs, r.cursor ≤ s.chan.seq) →
    run pollTokio t s = run pollSmol t s := by
  intro t
  induction t with
  | nil => intro s _; rfl
  | cons op t ih =>
    intro s h
    cases op with
    | set v =>
      simp only [run]
      exact ih _ (by intro r hr; have := h r hr; simp only [Chan.send]; omega)
    | close => simp only [run]; exact ih _ h
    | sub =>
      simp only [run]
      apply ih
      intro r hr
      rcases List.mem_append.mp hr with h1 | h1
      · exact h r h1
      · simp at h1; subst h1; simp [Chan.subscribe]
    | poll j =>
      simp only [run]
      cases hj : s.subs[j]? with
      | none => simp only []; exact ih s h
      | some rj =>
        simp only []
        have hle := h rj (List.mem_of_getElem? hj)
        have hagree : pollTokio s.chan rj = pollSmol s.chan rj := by
          unfold pollTokio pollSmol recvSmol
          by_cases h1 : rj.cursor = s.chan.seq
          · simp [recvTokio, h1]
          · by_cases h2 : rj.cursor + 1 < s.chan.seq
            · have h3 : ¬ (s.chan.seq - 1 = s.chan.seq) := by omega
              have h4 : ¬ (s.chan.seq - 1 + 1 < s.chan.seq) := by omega
              have h5 : s.chan.seq - 1 + 1 = s.chan.seq := by omega
              simp [recvTokio, h1, h2, h3, h4, h5]
            · have h5 : rj.cursor + 1 = s.chan.seq := by omega
              simp [recvTokio, h1, h2, h5]
        have hany : (if s.closed then pollClosed pollTokio else pollTokio) s.chan rj =
            (if s.closed then pollClosed pollSmol else pollSmol) s.chan rj := by
          cases s.closed <;> simp [pollClosed, hagree]
        rw [hany]
        have hcur : ((if s.closed then pollClosed pollSmol else pollSmol) s.chan rj).2.cursor ≤ s.chan.seq := by
          rw [pollAny_smol]
          by_cases h1 : rj.cursor = s.chan.seq <;> simp [h1]
        congr 1
        apply ih
        intro r hr
        rcases List.mem_or_eq_of_mem_set hr with h1 | h1
        · exact h r h1
        · rw [h1]; exact hcur
end Notified
