import Zlink.Proofs.IdlTextSound3
import Zlink.Proofs.IdlLayoutIface
/-! Soundness of the IDL parser at the level of the text, part 4: the whole interface.
    `IfaceS a core` is the grammar the parser reads, as a relation between descriptions and texts; whatever
    `parse_interface` accepts is, after `str::trim`, such a text — every byte of it accounted for — and
    the description returned is the one the text denotes. -/
namespace Idl
open SpecIdl

inductive MemberS : Member → In → Prop
  | ty {t s} : TypeS t s → MemberS (.ty t) s
  | me {m s} : MethodS m s → MemberS (.me m) s
  | er {e s} : ErrS e s → MemberS (.er e) s

/-- (white space, member)* -/
inductive MembersS : List Member → In → Prop
  | nil : MembersS [] []
  | cons {w m s ms ss} : wsOnly w = true → MemberS m s → MembersS ms ss → MembersS (m :: ms) (w ++ (s ++ ss))

def memberNE : Member → Bool
  | .ty t => ctNE t
  | .me m => fieldsNE m.ins && fieldsNE m.outs
  | .er e => fieldsNE e.fs

/-- no inline enum without variants anywhere in the description -/
def ifaceNE (a : Iface) : Bool :=
  a.types.all ctNE && a.methods.all (fun m => fieldsNE m.ins && fieldsNE m.outs) && a.errors.all (fun e => fieldsNE e.fs)

theorem ifaceNE_addMember (a : Iface) (m : Member) : ifaceNE (addMember a m) = (ifaceNE a && memberNE m) := by
  cases m <;> simp [addMember, ifaceNE, memberNE, List.all_append, Bool.and_assoc, Bool.and_comm, Bool.and_left_comm]

theorem ifaceNE_foldl (ms : List Member) : ∀ (a : Iface), ifaceNE (ms.foldl addMember a) = true → ifaceNE a = true ∧ ms.all memberNE = true := by
  induction ms with
  | nil => intro a h; exact ⟨h, rfl⟩
  | cons m ms ih =>
    intro a h
    obtain ⟨h1, h2⟩ := ih _ h
    rw [ifaceNE_addMember, Bool.and_eq_true] at h1
    exact ⟨h1.1, by simp [h1.2, h2]⟩

theorem loop_split : ∀ (k : Nat) (i : In) (acc a : Iface) (r : In),
    interfaceDef.loop k i acc = .ok a r → ifaceNE a = true →
    ∃ ms s wt, i = s ++ (wt ++ r) ∧ MembersS ms s ∧ wsOnly wt = true ∧ a = ms.foldl addMember acc := by
  intro k
  induction k with
  | zero =>
    intro i acc a r h _
    simp only [interfaceDef.loop, PR.ok.injEq] at h
    obtain ⟨rfl, rfl⟩ := h
    exact ⟨[], [], [], by simp, .nil, rfl, rfl⟩
  | succ k ih =>
    intro i acc a r h hne
    rw [interfaceDef.loop] at h
    split at h
    · cases h; exact ⟨[], [], [], by simp, .nil, rfl, rfl⟩
    · try simp only [] at h
      obtain ⟨w, hw, hwo⟩ := whitespaceOnly_split i
      split at h
      · rename_i hemp
        cases h
        have : whitespaceOnly i = [] := by simpa using hemp
        exact ⟨[], [], w, by rw [this] at hw ⊢; simpa using hw, .nil, hwo, rfl⟩
      · split at h
        · rename_i t r1 ht
          obtain ⟨ms, s, wt, hi, hM, hwt, ha⟩ := ih _ _ _ _ h hne
          have hall := (ifaceNE_foldl ms _ (ha ▸ hne)).1
          have hct : ctNE t = true := by
            have := ifaceNE_addMember acc (.ty t)
            simp only [addMember] at this
            rw [this, Bool.and_eq_true] at hall
            exact hall.2
          obtain ⟨st, hst, hT⟩ := typeDef_split _ _ _ ht hct
          refine ⟨.ty t :: ms, w ++ (st ++ s), wt, ?_, .cons hwo (.ty hT) hM, hwt, by rw [ha]; rfl⟩
          conv => lhs; rw [hw, hst, hi]
          simp
        · split at h
          · rename_i m r1 hm
            obtain ⟨ms, s, wt, hi, hM, hwt, ha⟩ := ih _ _ _ _ h hne
            have hall := (ifaceNE_foldl ms _ (ha ▸ hne)).1
            have hmn : fieldsNE m.ins = true ∧ fieldsNE m.outs = true := by
              have := ifaceNE_addMember acc (.me m)
              simp only [addMember] at this
              rw [this, Bool.and_eq_true] at hall
              simpa [memberNE] using hall.2
            obtain ⟨st, hst, hT⟩ := methodDef_split _ _ _ hm hmn
            refine ⟨.me m :: ms, w ++ (st ++ s), wt, ?_, .cons hwo (.me hT) hM, hwt, by rw [ha]; rfl⟩
            conv => lhs; rw [hw, hst, hi]
            simp
          · split at h
            · rename_i e r1 he
              obtain ⟨ms, s, wt, hi, hM, hwt, ha⟩ := ih _ _ _ _ h hne
              have hall := (ifaceNE_foldl ms _ (ha ▸ hne)).1
              have hen : fieldsNE e.fs = true := by
                have := ifaceNE_addMember acc (.er e)
                simp only [addMember] at this
                rw [this, Bool.and_eq_true] at hall
                simpa [memberNE] using hall.2
              obtain ⟨st, hst, hT⟩ := errorDef_split _ _ _ he hen
              refine ⟨.er e :: ms, w ++ (st ++ s), wt, ?_, .cons hwo (.er hT) hM, hwt, by rw [ha]; rfl⟩
              conv => lhs; rw [hw, hst, hi]
              simp
            · cases h

/-- the grammar of a whole description as the parser reads it (the text between the outer white space) -/
inductive IfaceS : Iface → In → Prop
  | mk {name cs sc a1 w0 ms ss wt g} : CommentsS cs sc → gap1OK a1 = true → ifaceNameOK name = true → wsOnly w0 = true →
      MembersS ms ss → wsOnly wt = true → GapC g →
      IfaceS (ms.foldl addMember ⟨name, cs, [], [], []⟩)
        (sc ++ (([105, 110, 116, 101, 114, 102, 97, 99, 101] : In) ++ (a1 ++ (name ++ (w0 ++ (ss ++ (wt ++ g)))))))

theorem interfaceDef_split (i : In) (a : Iface) (r : In) (h : interfaceDef i = .ok a r) (hne : ifaceNE a = true) :
    ∃ name cs sc a1 w0 ms ss wt, i = sc ++ (([105, 110, 116, 101, 114, 102, 97, 99, 101] : In) ++ (a1 ++ (name ++ (w0 ++ (ss ++ (wt ++ r)))))) ∧
      CommentsS cs sc ∧ gap1OK a1 = true ∧ ifaceNameOK name = true ∧ wsOnly w0 = true ∧ MembersS ms ss ∧ wsOnly wt = true ∧
      a = ms.foldl addMember ⟨name, cs, [], [], []⟩ := by
  unfold interfaceDef at h
  split at h
  rename_i cs i1 hpc
  have hsplit := pcF_split i
  rw [hpc] at hsplit
  simp only [] at hsplit
  try simp only [] at h
  split at h
  · rename_i r1 hl
    have e1 := litB_split _ _ _ hl
    rcases hsplit with ⟨sc, hsc, hC⟩ | hnil
    · split at h
      · rename_i r2 hws
        obtain ⟨a1, ha1, hA1⟩ := ws1_split _ _ hws
        split at h
        · rename_i name r3 hn
          have hnok := interfaceName_sound _ _ _ hn
          have hne3 := interfaceName_consumes _ _ _ hn
          try simp only [] at h
          obtain ⟨w0, hw0, hw0o⟩ := whitespaceOnly_split r3
          obtain ⟨ms, ss, wt, hi, hM, hwt, ha⟩ := loop_split _ _ _ _ _ h hne
          refine ⟨name, cs, sc, a1, w0, ms, ss, wt, ?_, hC, hA1, hnok, hw0o, hM, hwt, ha⟩
          conv => lhs; rw [hsc, e1, ha1, hne3, hw0, hi]
          try simp
        · cases h
      · cases h
    · subst hnil; simp [litB, List.isPrefixOf] at hl
  · cases h

theorem wsF_nil_gap (r : In) (h : (wsF r).isEmpty = true) : GapC r := by
  obtain ⟨g, hg, hG⟩ := wsF_split r
  have : wsF r = [] := by simpa using h
  rw [this] at hg
  simp at hg
  rw [hg]; exact hG

/-- **C13 (soundness at the level of the text)**: whatever `parse_interface` accepts is, once the outer
    white space is trimmed, a text of the grammar `IfaceS` that denotes exactly the returned description:
    every byte of the accepted text is a token of the description, a comment line attached to an item of
    it, or layout. -/
theorem parseInterface_textSound (s : In) (a : Iface) (h : parseInterface s = .ok a) (hne : ifaceNE a = true) :
    IfaceS a (trim s) := by
  unfold parseInterface at h
  simp only [] at h
  split at h
  · cases h
  · split at h
    · cases h
    · rename_i a' rest hd
      split at h
      · rename_i hgap
        cases h
        obtain ⟨name, cs, sc, a1, w0, ms, ss, wt, hi, hC, hA1, hnok, hw0, hM, hwt, ha⟩ := interfaceDef_split _ _ _ hd hne
        rw [hi, ha]
        exact .mk hC hA1 hnok hw0 hM hwt (wsF_nil_gap rest hgap)
      · cases h

end Idl
