import Zlink.Proofs.IdlNE
import Zlink.Proofs.IdlTextSound4
/-! No inline enum without variants in anything `parse_interface` returns: the member parsers call the type parser
    with `tyFuel`, for which `varlinkType_tyFuel_ne` applies; a custom enum gets at least one variant from the
    member loop of `type_def`. Mirrors the structure of `Proofs/IdlSound.lean`. -/
namespace Idl
open SpecIdl

theorem paramLoop_ne : ∀ (n : Nat) (i : In) (acc fs : List Field) (r : In),
    fieldsNE acc = true → paramList.loop n i acc = .ok fs r → fieldsNE fs = true := by
  intro n
  induction n with
  | zero => intro i acc fs r _ h; simp [paramList.loop] at h
  | succ n ih =>
    intro i acc fs r hacc h
    rw [paramList.loop] at h
    split at h
    rename_i cs i1 hpc
    split at h
    · rename_i nm r1 hn
      try simp only [] at h
      split at h
      · split at h
        · rename_i t r3 ht
          try simp only [] at h
          have hacc' : fieldsNE (acc ++ [(nm, t, cs)]) = true := by
            rw [fieldsNE_append, hacc]
            simp [fieldsNE, varlinkType_tyFuel_ne _ _ _ ht]
          split at h
          · exact ih _ _ _ _ hacc' h
          · split at h
            · cases h; exact hacc'
            · cases h
        · cases h
      · cases h
    · cases h

theorem paramList_ne (i : In) (fs : List Field) (r : In) (h : paramList i = .ok fs r) : fieldsNE fs = true := by
  unfold paramList at h
  split at h
  · try simp only [] at h
    split at h
    · cases h; rfl
    · exact paramLoop_ne _ _ _ _ _ rfl h
  · cases h

theorem methodDef_ne (i : In) (m : Method) (r : In) (h : methodDef i = .ok m r) :
    (fieldsNE m.ins && fieldsNE m.outs) = true := by
  unfold methodDef at h
  split at h
  rename_i cs i1 hpc
  try simp only [] at h
  split at h
  · split at h
    · split at h
      · rename_i n r2 hn
        try simp only [] at h
        split at h
        · rename_i ins r3 hi
          try simp only [] at h
          split at h
          · try simp only [] at h
            split at h
            · rename_i outs r5 ho
              cases h
              simp [paramList_ne _ _ _ hi, paramList_ne _ _ _ ho]
            · cases h
          · cases h
        · cases h
      · cases h
    · cases h
  · cases h

theorem errorDef_ne (i : In) (e : Err) (r : In) (h : errorDef i = .ok e r) : fieldsNE e.fs = true := by
  unfold errorDef at h
  split at h
  rename_i cs i1 hpc
  try simp only [] at h
  split at h
  · split at h
    · split at h
      · rename_i n r2 hn
        try simp only [] at h
        split at h
        · rename_i fs r3 hf
          cases h
          exact paramList_ne _ _ _ hf
        · cases h
      · cases h
    · cases h
  · cases h

theorem tdLoop_ne (cs0 : List In) (nm : In) :
    ∀ (k : Nat) (i : In) (fs : List Field) (vs : List (In × List In)) (t : CT) (r : In),
    fieldsNE fs = true → typeDef.loop cs0 nm k i fs vs = .ok t r → ctNE t = true := by
  intro k
  induction k with
  | zero => intro i fs vs t r _ h; simp [typeDef.loop] at h
  | succ k ih =>
    intro i fs vs t r hfs h
    rw [typeDef.loop] at h
    split at h
    rename_i fcs i1 hpc
    split at h
    · rename_i fname r1 hfn
      try simp only [] at h
      split at h
      · rename_i fs' vs' r3 hstep
        have hboth : fieldsNE fs' = true ∧ (fs'.isEmpty = true → vs'.isEmpty = false) := by
          split at hstep
          · try simp only [] at hstep
            split at hstep
            · rename_i ty r4 hty
              simp only [PR.ok.injEq, Prod.mk.injEq] at hstep
              obtain ⟨⟨rfl, rfl⟩, _⟩ := hstep
              refine ⟨?_, by simp⟩
              rw [fieldsNE_append, hfs]
              simp [fieldsNE, varlinkType_tyFuel_ne _ _ _ hty]
            · cases hstep
          · simp only [PR.ok.injEq, Prod.mk.injEq] at hstep
            obtain ⟨⟨rfl, rfl⟩, _⟩ := hstep
            exact ⟨hfs, by simp⟩
        try simp only [] at h
        split at h
        · exact ih _ _ _ _ _ hboth.1 h
        · split at h
          · split at h
            · cases h
            · split at h
              · cases h; simpa [ctNE] using hboth.1
              · rename_i hne1 hne2
                cases h
                have hfe : fs'.isEmpty = true := by
                  cases hf : fs'.isEmpty with
                  | true => rfl
                  | false => simp [hf] at hne2
                simp [ctNE, hboth.2 hfe]
          · cases h
      · cases h
    · cases h

theorem typeDef_ne (i : In) (t : CT) (r : In) (h : typeDef i = .ok t r) : ctNE t = true := by
  unfold typeDef at h
  split at h
  rename_i cs i1 hpc
  try simp only [] at h
  split at h
  · split at h
    · split at h
      · rename_i n r2 hn
        try simp only [] at h
        split at h
        · try simp only [] at h
          split at h
          · cases h; simp [ctNE, fieldsNE]
          · exact tdLoop_ne cs n _ _ _ _ _ _ rfl h
        · cases h
      · cases h
    · cases h
  · cases h

theorem loop_ne : ∀ (k : Nat) (i : In) (acc a : Iface) (r : In),
    ifaceNE acc = true → interfaceDef.loop k i acc = .ok a r → ifaceNE a = true := by
  intro k
  induction k with
  | zero => intro i acc a r hacc h; simp only [interfaceDef.loop, PR.ok.injEq] at h; rw [← h.1]; exact hacc
  | succ k ih =>
    intro i acc a r hacc h
    rw [interfaceDef.loop] at h
    split at h
    · cases h; exact hacc
    · try simp only [] at h
      split at h
      · cases h; exact hacc
      · split at h
        · rename_i t r1 ht
          apply ih _ _ _ _ _ h
          have := ifaceNE_addMember acc (.ty t)
          simp only [addMember] at this
          rw [this, hacc]; simp [memberNE, typeDef_ne _ _ _ ht]
        · split at h
          · rename_i m r1 hm
            apply ih _ _ _ _ _ h
            have := ifaceNE_addMember acc (.me m)
            simp only [addMember] at this
            rw [this, hacc]; simpa [memberNE] using methodDef_ne _ _ _ hm
          · split at h
            · rename_i e r1 he
              apply ih _ _ _ _ _ h
              have := ifaceNE_addMember acc (.er e)
              simp only [addMember] at this
              rw [this, hacc]; simp [memberNE, errorDef_ne _ _ _ he]
            · cases h

theorem interfaceDef_ne (i : In) (a : Iface) (r : In) (h : interfaceDef i = .ok a r) : ifaceNE a = true := by
  unfold interfaceDef at h
  split at h
  rename_i cs i1 hpc
  try simp only [] at h
  split at h
  · split at h
    · split at h
      · rename_i name r2 hn
        try simp only [] at h
        exact loop_ne _ _ _ _ _ (by simp [ifaceNE]) h
      · cases h
    · cases h
  · cases h

/-- whatever `parse_interface` accepts, the description it returns contains no inline enum without variants
    (and no custom enum without variants) -/
theorem parseInterface_ne (s : In) (a : Iface) (h : parseInterface s = .ok a) : ifaceNE a = true := by
  unfold parseInterface at h
  try simp only [] at h
  split at h
  · cases h
  · split at h
    · cases h
    · rename_i a' rest hd
      split at h
      · cases h; exact interfaceDef_ne _ _ _ hd
      · cases h
end Idl
