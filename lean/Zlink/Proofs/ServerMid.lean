import Zlink.Model.ServerMid
/-! A poll with arrivals in its middle is an ordinary event list: `run 1`, the arrivals that became due, `run 1`, ... -/
namespace Srv

theorem runEvs_append (C : Rx.Consts) (sizes : Nat → Nat) : ∀ (a b : List Ev) (s : S),
    runEvs C sizes (a ++ b) s = runEvs C sizes b (runEvs C sizes a s) := by
  intro a
  induction a with
  | nil => intro b s; rfl
  | cons ev t ih => intro b s; simp only [List.cons_append, runEvs]; exact ih b _

theorem applyDue_is_run (C : Rx.Consts) (sizes : Nat → Nat) : ∀ (due : List Trig) (s : S),
    applyDue C sizes due s = runEvs C sizes (due.map fun t => Ev.arrive t.b t.bytes) s := by
  intro due
  induction due with
  | nil => intro s; rfl
  | cons t r ih => intro s; simp only [applyDue, List.foldl_cons, List.map_cons, runEvs]; exact ih _

/-- the events a list of triggers can contribute -/
def MidEv (trigs : List Trig) (ev : Ev) : Prop :=
  (∃ f, ev = .run f) ∨ (∃ t ∈ trigs, ev = .arrive t.b t.bytes)

theorem pollMid_is_run (C : Rx.Consts) (sizes : Nat → Nat) : ∀ (fuel : Nat) (trigs : List Trig) (s : S),
    ∃ evs, (pollMid C sizes fuel trigs s).1 = runEvs C sizes evs s ∧ ∀ ev ∈ evs, MidEv trigs ev := by
  intro fuel
  induction fuel with
  | zero => intro trigs s; exact ⟨[], rfl, by intro ev h; cases h⟩
  | succ fuel ih =>
    intro trigs s
    simp only [pollMid]
    cases hi : iter C sizes s with
    | none => exact ⟨[], rfl, by intro ev h; cases h⟩
    | some s' =>
      simp only []
      obtain ⟨evs, he, hm⟩ := ih (trigs.filter fun t => !Nat.ble t.k (usedOf s' t.a))
        (applyDue C sizes (trigs.filter fun t => Nat.ble t.k (usedOf s' t.a)) s')
      refine ⟨[.run 1] ++ ((trigs.filter fun t => Nat.ble t.k (usedOf s' t.a)).map fun t => Ev.arrive t.b t.bytes) ++ evs, ?_, ?_⟩
      · rw [he, runEvs_append, runEvs_append, applyDue_is_run]
        congr 2
        simp only [runEvs, step, pollServer, hi]
      · intro ev hev
        rcases List.mem_append.mp hev with h | h
        · rcases List.mem_append.mp h with h | h
          · simp at h; exact Or.inl ⟨1, h⟩
          · obtain ⟨t, ht, rfl⟩ := List.mem_map.mp h
            exact Or.inr ⟨t, (List.mem_filter.mp ht).1, rfl⟩
        · rcases hm ev h with h1 | ⟨t, ht, rfl⟩
          · exact Or.inl h1
          · exact Or.inr ⟨t, (List.mem_filter.mp ht).1, rfl⟩

/-- **A run with arrivals in the middle of polls is a run.** For every event list and every set of pending triggers there
    is an ordinary event list - the given events, with each poll cut into single iterations and the triggered arrivals put
    between them - that `runEvs` takes to the same state. -/
theorem runMid_is_run (C : Rx.Consts) (sizes : Nat → Nat) : ∀ (evs : List Ev) (s : S) (trigs : List Trig),
    ∃ evs', (runMid C sizes evs (s, trigs)).1 = runEvs C sizes evs' s := by
  intro evs
  induction evs with
  | nil => intro s trigs; exact ⟨[], rfl⟩
  | cons ev t ih =>
    intro s trigs
    cases ev with
    | run fuel =>
      simp only [runMid]
      obtain ⟨e1, h1, _⟩ := pollMid_is_run C sizes fuel trigs s
      obtain ⟨e2, h2⟩ := ih (pollMid C sizes fuel trigs s).1 (pollMid C sizes fuel trigs s).2
      exact ⟨e1 ++ e2, by rw [runEvs_append, ← h1]; exact h2⟩
    | connect c =>
      simp only [runMid]
      obtain ⟨e2, h2⟩ := ih (step C sizes s (.connect c)) trigs
      exact ⟨.connect c :: e2, by simp only [runEvs]; exact h2⟩
    | arrive id b =>
      simp only [runMid]
      obtain ⟨e2, h2⟩ := ih (step C sizes s (.arrive id b)) trigs
      exact ⟨.arrive id b :: e2, by simp only [runEvs]; exact h2⟩
    | close id =>
      simp only [runMid]
      obtain ⟨e2, h2⟩ := ih (step C sizes s (.close id)) trigs
      exact ⟨.close id :: e2, by simp only [runEvs]; exact h2⟩
    | produce id n =>
      simp only [runMid]
      obtain ⟨e2, h2⟩ := ih (step C sizes s (.produce id n)) trigs
      exact ⟨.produce id n :: e2, by simp only [runEvs]; exact h2⟩
end Srv
