import Zlink.Proofs.ServerQuiet
/-! Fairness over whole stretches of a server run: consecutive iterations of the loop over an unchanged
    connection list serve exactly the `Sel.winners` sequence, so the rotation theorems about `winners`
    (`no_double_service`, `bounded_wait`) hold of the server loop itself. -/
namespace Srv
open Rx

/-- `t` lists the states the loop goes through from `s`, one iteration each -/
def IsRun (C : Consts) (sizes : Nat → Nat) : S → List S → Prop
  | _, [] => True
  | s, s' :: t => iter C sizes s = some s' ∧ IsRun C sizes s' t

/-- the readiness functions the successive scans of a run see -/
def readys (C : Consts) (sizes : Nat → Nat) (ss : List S) : List (Nat → Bool) :=
  ss.map fun x => readyOf C sizes x.conns

theorem selectAll_some_of_ready (n s b : Nat) (r : Nat → Bool) (hn : 0 < n) (hb : b < n) (hr : r b = true) :
    ∃ w, Sel.selectAll n (some s) r = some w := by
  cases hw : Sel.selectAll n (some s) r with
  | some w => exact ⟨w, rfl⟩
  | none =>
    exfalso
    unfold Sel.selectAll at hw
    rw [if_neg (by omega)] at hw
    have := Sel.scan_spec n s r hn n (Nat.le_refl n)
    simp only [Option.getD] at hw
    rw [hw] at this
    have := this b hb (by omega)
    rw [hr] at this
    cases this

/-- **The server's service order is the `winners` sequence.** Over any stretch of consecutive iterations
    during which nothing is accepted and the connection list keeps its length `n` (so no connection was
    removed, parked as a stream or handed back: positions are connections), and during which some fixed
    connection `b` has a complete call waiting at every scan, the connections served — the successive values of
    `lastCall` — are exactly `Sel.winners n` started right after the previous winner, over the readiness
    functions "this connection's receive would complete now". -/
theorem run_winners (C : Consts) (sizes : Nat → Nat) (n b : Nat) (hn : 0 < n) (hb : b < n) :
    ∀ (t : List S) (s : S), IsRun C sizes s t →
      (∀ x ∈ s :: t, x.listenQ = [] ∧ x.conns.length = n) →
      (∀ x ∈ (s :: t).dropLast, readyOf C sizes x.conns b = true) →
      t.map (fun x => x.lastCall) = Sel.winners n (nextStart s) (readys C sizes (s :: t).dropLast) := by
  intro t
  induction t with
  | nil => intro s _ _ _; simp [readys, Sel.winners]
  | cons s' t ih =>
    intro s hrun hall hready
    obtain ⟨hit, hrun'⟩ := hrun
    have hs := hall s (by simp)
    have hdl : (s :: s' :: t).dropLast = s :: (s' :: t).dropLast := by simp [List.dropLast]
    rw [hdl] at hready ⊢
    have hrb := hready s (by simp)
    have hrot := iter_rotation C sizes s s' hs.1 (by rw [hs.2]; exact hn) hit
    rw [hs.2] at hrot
    obtain ⟨w, hw⟩ := selectAll_some_of_ready n (nextStart s) b _ hn hb hrb
    rw [hw] at hrot
    simp only [] at hrot
    simp only [readys, List.map_cons, Sel.winners, hw]
    have hns : nextStart s' = w + 1 := by simp [nextStart, hrot]
    have := ih s' hrun' (fun x hx => hall x (by simp [hx])) (fun x hx => hready x (by simp [hx]))
    rw [hns] at this
    simp only [readys] at this
    rw [hrot, this]

/-- **C18, first sentence, on the server loop itself.** Connection `a` has just been served
    (`lastCall = some a`). Over any stretch of consecutive iterations with an unchanged connection list in
    which connection `b ≠ a` has a complete call waiting at every scan and is never the one served, `a` is never
    served again either: the loop does not serve two calls from one connection while another connection has had a
    complete call waiting the whole time. -/
theorem server_no_double_service (C : Consts) (sizes : Nat → Nat) (n a b : Nat) (hn : 0 < n) (ha : a < n) (hb : b < n)
    (hab : b ≠ a) (s : S) (t : List S) (hrun : IsRun C sizes s t) (hlast : s.lastCall = some a)
    (hall : ∀ x ∈ s :: t, x.listenQ = [] ∧ x.conns.length = n)
    (hready : ∀ x ∈ (s :: t).dropLast, readyOf C sizes x.conns b = true)
    (hnb : ∀ x ∈ t, x.lastCall ≠ some b) : ∀ x ∈ t, x.lastCall ≠ some a := by
  have hw := run_winners C sizes n b hn hb t s hrun hall hready
  have hns : nextStart s = a + 1 := by simp [nextStart, hlast]
  rw [hns] at hw
  have hnb' : some b ∉ Sel.winners n (a + 1) (readys C sizes (s :: t).dropLast) := by
    rw [← hw]
    intro hm
    obtain ⟨x, hx, hxe⟩ := List.mem_map.mp hm
    exact hnb x hx hxe
  have hr : ∀ r ∈ readys C sizes (s :: t).dropLast, r b = true := by
    intro r hr
    obtain ⟨x, hx, rfl⟩ := List.mem_map.mp hr
    exact hready x hx
  have := Sel.no_double_service n a b hn ha hb _ (a + 1) (Sel.after_win n a b hn ha hb hab) hr hnb'
  rw [← hw] at this
  intro x hx hxa
  exact this (List.mem_map.mpr ⟨x, hx, hxa⟩)

/-- **Bounded waiting on the server loop**: over such a stretch, a connection that has a call waiting at every
    scan and has not been served saw at most `n - 1` iterations go by. -/
theorem server_phase_bound (C : Consts) (sizes : Nat → Nat) (n b : Nat) (hn : 0 < n) (hb : b < n)
    (s : S) (t : List S) (hrun : IsRun C sizes s t)
    (hall : ∀ x ∈ s :: t, x.listenQ = [] ∧ x.conns.length = n)
    (hready : ∀ x ∈ (s :: t).dropLast, readyOf C sizes x.conns b = true)
    (hnb : ∀ x ∈ t, x.lastCall ≠ some b) : t.length ≤ n - 1 := by
  have hw := run_winners C sizes n b hn hb t s hrun hall hready
  have hr : ∀ r ∈ readys C sizes (s :: t).dropLast, r b = true := by
    intro r hr
    obtain ⟨x, hx, rfl⟩ := List.mem_map.mp hr
    exact hready x hx
  have hlen : (readys C sizes (s :: t).dropLast).length = t.length := by simp [readys]
  rcases Nat.lt_or_ge (Sel.dist n (nextStart s) b) t.length with h | h
  · exfalso
    have := Sel.bounded_wait n b hn hb (readys C sizes (s :: t).dropLast) (nextStart s) hr (by rw [hlen]; exact h)
    rw [← hw] at this
    obtain ⟨x, hx, hxe⟩ := List.mem_map.mp this
    exact hnb x hx hxe
  · have := Sel.dist_lt n (nextStart s) b hn; omega

/-! ### positions are connections while the list keeps its length -/

theorem scanCalls_ids (C : Consts) (sizes : Nat → Nat) (n start : Nat) :
    ∀ (i : Nat) (cs : List Conn), ((scanCalls C sizes n start i cs).1.map (·.id)) = cs.map (·.id) := by
  intro i
  induction i with
  | zero => intro cs; rfl
  | succ i ih =>
    intro cs
    simp only [scanCalls]
    generalize (start % n + (n - (i + 1))) % n = idx
    cases hc : cs[idx]? with
    | none => rfl
    | some c =>
      simp only []
      have hset : ((cs.set idx { c with rx := (poll C sizes c.rx c.net).2.1, net := (poll C sizes c.rx c.net).2.2 }).map (·.id)) = cs.map (·.id) := by
        rw [List.map_set]
        apply List.ext_getElem?
        intro j
        by_cases hj : j = idx
        · subst hj
          by_cases hl : j < cs.length
          · rw [List.getElem?_set_self (by simpa using hl)]
            simp [hc]
          · rw [List.getElem?_eq_none (by simpa using hl), List.getElem?_eq_none (by simpa using hl)]
        · rw [List.getElem?_set_ne (Ne.symm hj)]
      cases hp : (poll C sizes c.rx c.net).1 with
      | pending => simp only []; rw [ih]; exact hset
      | frame f => simp only []; exact hset
      | err e => simp only []; exact hset

/-- the winner handed back by the scan is the connection stored at its index -/
theorem scanCalls_get (C : Consts) (sizes : Nat → Nat) (n start : Nat) :
    ∀ (i : Nat) (cs : List Conn),
      match (scanCalls C sizes n start i cs).2 with
      | none => True
      | some (idx, _, cw) => (scanCalls C sizes n start i cs).1[idx]? = some cw := by
  intro i
  induction i with
  | zero => intro cs; simp [scanCalls]
  | succ i ih =>
    intro cs
    simp only [scanCalls]
    generalize (start % n + (n - (i + 1))) % n = idx
    cases hc : cs[idx]? with
    | none => simp
    | some c =>
      simp only []
      have hlt : idx < cs.length := (List.getElem?_eq_some_iff.mp hc).1
      cases hp : (poll C sizes c.rx c.net).1 with
      | pending => simp only []; exact ih _
      | frame f => simp only []; exact List.getElem?_set_self hlt
      | err e => simp only []; exact List.getElem?_set_self hlt
end Srv

namespace Srv
open Rx

theorem length_swapRemove {α} (l : List α) (i : Nat) (hl : l ≠ []) : (swapRemove l i).length + 1 = l.length := by
  unfold swapRemove
  cases h : l.getLast? with
  | none => exact absurd (List.getLast?_eq_none_iff.mp h) hl
  | some last =>
    simp only []
    have : 0 < l.length := List.length_pos_iff.mpr hl
    split <;> simp <;> omega

theorem map_id_set (cs : List Conn) (idx : Nat) (c c' : Conn) (hc : cs[idx]? = some c) (hid : c'.id = c.id) :
    (cs.set idx c').map (·.id) = cs.map (·.id) := by
  rw [List.map_set]
  apply List.ext_getElem?
  intro j
  by_cases hj : j = idx
  · subst hj
    have hl : j < cs.length := (List.getElem?_eq_some_iff.mp hc).1
    rw [List.getElem?_set_self (by simpa using hl)]
    simp [hc, hid]
  · rw [List.getElem?_set_ne (Ne.symm hj)]

theorem writeTo_id (c c' : Conn) (toks : List Tok) (h : writeTo c toks = some c') : c'.id = c.id := by
  rw [writeTo_good c c' toks h]

/-- **Positions are connections while the list keeps its length**: an iteration that accepts nothing and
    leaves the connection list as long as it was has removed, parked and handed back nobody — the same
    connection ids sit at the same positions. (So "index `b` is ready at every scan" in the theorems above
    speaks about one and the same client.) -/
theorem iter_ids_stable (C : Consts) (sizes : Nat → Nat) (s s' : S) (hq : s.listenQ = [])
    (h : iter C sizes s = some s') (hlen : s'.conns.length = s.conns.length) :
    s'.conns.map (·.id) = s.conns.map (·.id) := by
  unfold iter at h
  rw [hq] at h
  simp only [] at h
  have hsc_ids : ((if s.conns.length = 0 then (s.conns, none) else
      scanCalls C sizes s.conns.length (nextStart s) s.conns.length s.conns).1.map (·.id)) = s.conns.map (·.id) := by
    split
    · rfl
    · exact scanCalls_ids C sizes _ _ _ _
  have hsc_get : ∀ idx o c, (if s.conns.length = 0 then (s.conns, none) else
      scanCalls C sizes s.conns.length (nextStart s) s.conns.length s.conns).2 = some (idx, o, c) →
      (if s.conns.length = 0 then (s.conns, none) else
      scanCalls C sizes s.conns.length (nextStart s) s.conns.length s.conns).1[idx]? = some c := by
    intro idx o c hw
    split at hw
    · cases hw
    · rename_i hn
      rw [if_neg hn]
      -- from the scan's specification with a trivially true invariant
      have := scanCalls_get C sizes s.conns.length (nextStart s) s.conns.length s.conns
      rw [hw] at this
      exact this
  generalize (if s.conns.length = 0 then (s.conns, none) else
        scanCalls C sizes s.conns.length (nextStart s) s.conns.length s.conns) = sc at h hsc_ids hsc_get
  obtain ⟨cs, w⟩ := sc
  simp only [] at hsc_ids
  have hcl : cs.length = s.conns.length := by
    have := congrArg List.length hsc_ids
    simpa using this
  cases w with
  | none =>
    simp only [] at h
    split at h
    · cases h
    · split at h
      · cases h
      · split at h
        · cases h
        · rename_i items c0 hp
          cases items with
          | nil =>
            simp only [Option.some.injEq] at h
            rw [← h] at hlen
            simp at hlen
            omega
          | cons it rest =>
            simp only [] at h
            split at h <;> (simp only [Option.some.injEq] at h; rw [← h]; exact hsc_ids)
  | some x =>
    obtain ⟨idx, o, c⟩ := x
    have hget := hsc_get idx o c rfl
    simp only [] at hget
    have hne : cs ≠ [] := by intro e; rw [e] at hget; simp at hget
    have hsr : ∀ (x : S), x.conns = swapRemove cs idx → x.conns.length = s.conns.length → False := by
      intro x hx hl
      have := length_swapRemove cs idx hne
      rw [← hx] at this
      omega
    simp only [] at h
    cases o with
    | pending => simp only [Option.some.injEq] at h; rw [← h] at hlen; exact absurd hlen (fun hl => hsr _ rfl hl)
    | err e => simp only [Option.some.injEq] at h; rw [← h] at hlen; exact absurd hlen (fun hl => hsr _ rfl hl)
    | frame f =>
      simp only [] at h
      cases hc : c.calls with
      | nil => rw [hc] at h; simp only [Option.some.injEq] at h; rw [← h] at hlen; exact absurd hlen (fun hl => hsr _ rfl hl)
      | cons d rest =>
        rw [hc] at h
        simp only [] at h
        cases d with
        | garbage => simp only [Option.some.injEq] at h; rw [← h] at hlen; exact absurd hlen (fun hl => hsr _ rfl hl)
        | sub m pt => simp only [Option.some.injEq] at h; rw [← h] at hlen; exact absurd hlen (fun hl => hsr _ rfl hl)
        | echo v ow =>
          simp only [] at h
          split at h
          · simp only [Option.some.injEq] at h; rw [← h]
            exact (map_id_set cs idx c { c with calls := rest, k := c.k + 1 } hget rfl).trans hsc_ids
          · split at h
            · rename_i c' hwr
              simp only [Option.some.injEq] at h; rw [← h]
              exact (map_id_set cs idx c c' hget (writeTo_id { c with calls := rest, k := c.k + 1 } c' _ hwr)).trans hsc_ids
            · simp only [Option.some.injEq] at h; rw [← h] at hlen; exact absurd hlen (fun hl => hsr _ rfl hl)
        | unser ow =>
          cases ow with
          | false => simp only [Option.some.injEq] at h; rw [← h] at hlen; exact absurd hlen (fun hl => hsr _ rfl hl)
          | true =>
            simp only [] at h
            split at h
            · simp only [Option.some.injEq] at h; rw [← h]
              exact (map_id_set cs idx c { c with calls := rest, k := c.k + 1 } hget rfl).trans hsc_ids
            · split at h
              · rename_i c' hwr
                simp only [Option.some.injEq] at h; rw [← h]
                exact (map_id_set cs idx c c' hget (writeTo_id { c with calls := rest, k := c.k + 1 } c' _ hwr)).trans hsc_ids
              · simp only [Option.some.injEq] at h; rw [← h] at hlen; exact absurd hlen (fun hl => hsr _ rfl hl)
        | fail ow =>
          simp only [] at h
          split at h
          · simp only [Option.some.injEq] at h; rw [← h]
            exact (map_id_set cs idx c { c with calls := rest, k := c.k + 1 } hget rfl).trans hsc_ids
          · split at h
            · rename_i c' hwr
              simp only [Option.some.injEq] at h; rw [← h]
              exact (map_id_set cs idx c c' hget (writeTo_id { c with calls := rest, k := c.k + 1 } c' _ hwr)).trans hsc_ids
            · simp only [Option.some.injEq] at h; rw [← h] at hlen; exact absurd hlen (fun hl => hsr _ rfl hl)
end Srv

namespace Srv
open Rx

/-- a well-behaved connection whose bytes have all arrived and which still has an unconsumed call is ready: its
    receive would complete if polled now (`Rx.poll_complete`) -/
theorem ready_of_unserved (C : Consts) (hstep : 0 < C.step) (sizes : Nat → Nat) (x : S) (g : GInv C x) (b : Nat) (c : Conn)
    (hb : x.conns[b]? = some c) (hg : c.good = true) (hfut : c.fut = []) (hk : c.k < c.frames.length) :
    readyOf C sizes x.conns b = true := by
  have inv := g.conns b c hb hg
  have hsplit : c.frames = c.frames.take c.k ++ c.frames[c.k] :: c.frames.drop (c.k + 1) := by
    rw [List.getElem_cons_drop]; exact (List.take_append_drop c.k c.frames).symm
  have hrx := inv.rx
  rw [hfut] at hrx
  obtain ⟨s', e', hp, _, _⟩ := poll_complete C hstep sizes c.frames inv.st.ok inv.st.small c.rx c.net
    (c.frames.take c.k) (c.frames[c.k]) (c.frames.drop (c.k + 1)) hsplit hrx
  simp only [readyOf, hb, hp]
  rfl

/-- **A waiting call is not overtaken twice by the same client.** Connection `a` has just been served. Over any
    stretch of consecutive iterations with an unchanged connection list, all states satisfying the server invariant
    (every reachable state does: `run_inv`), if the client at position `b ≠ a` is well behaved, has delivered all its
    bytes and still has an unanswered call at every scan, and is never the one served, then `a` is never served again:
    `b`'s *complete call* - not an abstract readiness flag - has been waiting the whole time. -/
theorem waiting_call_not_overtaken (C : Consts) (hstep : 0 < C.step) (sizes : Nat → Nat) (n a b : Nat) (hn : 0 < n)
    (ha : a < n) (hb : b < n) (hab : b ≠ a) (s : S) (t : List S) (hrun : IsRun C sizes s t) (hlast : s.lastCall = some a)
    (hall : ∀ x ∈ s :: t, x.listenQ = [] ∧ x.conns.length = n)
    (hinv : ∀ x ∈ (s :: t).dropLast, GInv C x)
    (hwait : ∀ x ∈ (s :: t).dropLast, ∃ c, x.conns[b]? = some c ∧ c.good = true ∧ c.fut = [] ∧ c.k < c.frames.length)
    (hnb : ∀ x ∈ t, x.lastCall ≠ some b) : ∀ x ∈ t, x.lastCall ≠ some a := by
  apply server_no_double_service C sizes n a b hn ha hb hab s t hrun hlast hall _ hnb
  intro x hx
  obtain ⟨c, h1, h2, h3, h4⟩ := hwait x hx
  exact ready_of_unserved C hstep sizes x (hinv x hx) b c h1 h2 h3 h4
end Srv
