import Zlink.Spec.Tx
/-! Refinement: the buffer-level send path (`Tx`) behaves exactly like the abstract queue (`SpecTx`). -/
namespace Tx

/-- Invariant of the write buffer: capacity is a positive multiple of the growth step that never
    exceeds the limit, and the queued bytes fit. `M` = limit in steps. -/
structure Inv (C : Consts) (M : Nat) (s : St) : Prop where
  step_pos : 0 < C.step
  max_eq : C.max = M * C.step
  cap_eq : ∃ k, s.cap = k * C.step ∧ 1 ≤ k ∧ k ≤ M
  fits : s.queued.length ≤ s.cap

theorem growUntil_spec (C : Consts) (M : Nat) (hs : 0 < C.step) (hm : C.max = M * C.step) (pos n : Nat) :
    ∀ (fuel k : Nat), M - k < fuel → 1 ≤ k → k ≤ M → pos ≤ k * C.step →
      ∃ k', k ≤ k' ∧ k' ≤ M ∧
        growUntil C pos n fuel (k * C.step) =
          (decide (pos + n ≤ C.max), k' * C.step) ∧ (pos + n ≤ C.max → pos + n ≤ k' * C.step) := by
  intro fuel
  induction fuel with
  | zero => intro k h; omega
  | succ fuel ih =>
    intro k hf hk1 hkM hpos
    unfold growUntil
    by_cases hfit : n ≤ k * C.step - pos
    · rw [if_pos hfit]
      have hle : k * C.step ≤ M * C.step := Nat.mul_le_mul_right _ hkM
      refine ⟨k, Nat.le_refl _, hkM, ?_, fun _ => by omega⟩
      have : pos + n ≤ C.max := by rw [hm]; omega
      simp [this]
    · rw [if_neg hfit]
      by_cases hge : k * C.step ≥ C.max
      · rw [if_pos hge]
        refine ⟨k, Nat.le_refl _, hkM, ?_, fun h => by omega⟩
        have : ¬ pos + n ≤ C.max := by omega
        simp [this]
      · rw [if_neg hge]
        have hklt : k < M := by
          rcases Nat.lt_or_ge k M with h | h
          · exact h
          · exfalso; apply hge; rw [hm]; exact Nat.mul_le_mul_right _ h
        have hmul : k * C.step + C.step = (k + 1) * C.step := by rw [Nat.add_mul]; simp
        rw [hmul]
        obtain ⟨k', h1, h2, h3, h4⟩ := ih (k + 1) (by omega) (by omega) (by omega) (by rw [← hmul]; omega)
        exact ⟨k', by omega, h2, h3, h4⟩

theorem enqueue_refines (C : Consts) (M : Nat) (s : St) (inv : Inv C M s) (o : SerOutcome) :
    (enqueue C s o).1 = (SpecTx.enqueue C s.queued o).1 ∧
    (enqueue C s o).2.queued = (SpecTx.enqueue C s.queued o).2 ∧
    Inv C M (enqueue C s o).2 := by
  obtain ⟨hs, hm, ⟨k, hk, hk1, hkM⟩, hfits⟩ := inv
  have hM1 : 1 ≤ M := by omega
  obtain ⟨k', g1, g2, g3, g4⟩ := growUntil_spec C M hs hm s.queued.length o.len (C.max + 2) k
    (by rw [hm]; have : M ≤ M * C.step := Nat.le_mul_of_pos_right _ hs; omega) hk1 hkM (by rw [← hk]; exact hfits)
  rw [← hk] at g3
  have hk'M : k' * C.step ≤ C.max := by rw [hm]; exact Nat.mul_le_mul_right _ g2
  have hkk' : k * C.step ≤ k' * C.step := Nat.mul_le_mul_right _ g1
  have hinv : Inv C M { s with cap := k' * C.step } :=
    ⟨hs, hm, ⟨k', rfl, by omega, g2⟩, by show s.queued.length ≤ k' * C.step; omega⟩
  cases o with
  | keyErr b =>
    simp only [SerOutcome.len] at g3 g4
    by_cases hfit : s.queued.length + b.length ≤ C.max
    · have he : enqueue C s (.keyErr b) = (.json, { s with cap := k' * C.step }) := by
        simp only [enqueue, SerOutcome.len, g3, hfit, decide_true]
      have hq : SpecTx.enqueue C s.queued (.keyErr b) = (.json, s.queued) := by
        simp only [SpecTx.enqueue, hfit, if_true]
      rw [he, hq]; exact ⟨rfl, rfl, hinv⟩
    · have he : enqueue C s (.keyErr b) = (.overflow, { s with cap := k' * C.step }) := by
        simp only [enqueue, SerOutcome.len, g3, hfit, decide_false]
      have hq : SpecTx.enqueue C s.queued (.keyErr b) = (.overflow, s.queued) := by
        simp only [SpecTx.enqueue, hfit, if_false]
      rw [he, hq]; exact ⟨rfl, rfl, hinv⟩
  | ok b =>
    simp only [SerOutcome.len] at g3 g4
    by_cases hfit : s.queued.length + b.length ≤ C.max
    · have g5 := g4 hfit
      by_cases hend : s.queued.length + b.length = k' * C.step
      · by_cases hge : k' * C.step ≥ C.max
        · have he : enqueue C s (.ok b) = (.overflow, { s with cap := k' * C.step }) := by
            simp only [enqueue, SerOutcome.len, g3, hfit, decide_true]
            rw [if_pos hend, if_pos hge]
          have : ¬ s.queued.length + b.length + 1 ≤ C.max := by omega
          have hq : SpecTx.enqueue C s.queued (.ok b) = (.overflow, s.queued) := by
            simp only [SpecTx.enqueue, this, if_false]
          rw [he, hq]; exact ⟨rfl, rfl, hinv⟩
        · have he : enqueue C s (.ok b) = (.ok, { queued := s.queued ++ b ++ [0], cap := k' * C.step + C.step }) := by
            simp only [enqueue, SerOutcome.len, g3, hfit, decide_true]
            rw [if_pos hend, if_neg hge]
          have hk'lt : k' < M := by
            rcases Nat.lt_or_ge k' M with h | h
            · exact h
            · exfalso; apply hge; rw [hm]; exact Nat.mul_le_mul_right _ h
          have hmul : k' * C.step + C.step = (k' + 1) * C.step := by rw [Nat.add_mul]; simp
          have hle : (k' + 1) * C.step ≤ C.max := by rw [hm]; exact Nat.mul_le_mul_right _ (by omega)
          have : s.queued.length + b.length + 1 ≤ C.max := by omega
          have hq : SpecTx.enqueue C s.queued (.ok b) = (.ok, s.queued ++ b ++ [0]) := by
            simp only [SpecTx.enqueue, this, if_true]
          rw [he, hq]
          refine ⟨rfl, rfl, hs, hm, ⟨k' + 1, hmul, by omega, by omega⟩, ?_⟩
          show (s.queued ++ b ++ [0]).length ≤ k' * C.step + C.step
          simp; omega
      · have he : enqueue C s (.ok b) = (.ok, { queued := s.queued ++ b ++ [0], cap := k' * C.step }) := by
          simp only [enqueue, SerOutcome.len, g3, hfit, decide_true]
          rw [if_neg hend]
        have : s.queued.length + b.length + 1 ≤ C.max := by omega
        have hq : SpecTx.enqueue C s.queued (.ok b) = (.ok, s.queued ++ b ++ [0]) := by
          simp only [SpecTx.enqueue, this, if_true]
        rw [he, hq]
        refine ⟨rfl, rfl, hs, hm, ⟨k', rfl, by omega, g2⟩, ?_⟩
        show (s.queued ++ b ++ [0]).length ≤ k' * C.step
        simp; omega
    · have he : enqueue C s (.ok b) = (.overflow, { s with cap := k' * C.step }) := by
        simp only [enqueue, SerOutcome.len, g3, hfit, decide_false]
      have : ¬ s.queued.length + b.length + 1 ≤ C.max := by omega
      have hq : SpecTx.enqueue C s.queued (.ok b) = (.overflow, s.queued) := by
        simp only [SpecTx.enqueue, this, if_false]
      rw [he, hq]; exact ⟨rfl, rfl, hinv⟩

theorem flush_refines (C : Consts) (M : Nat) (s : St) (inv : Inv C M s) (w : Bool) :
    (flush s w).1 = (SpecTx.flush s.queued w).1 ∧ (flush s w).2.1 = (SpecTx.flush s.queued w).2.1 ∧
    (flush s w).2.2.queued = (SpecTx.flush s.queued w).2.2 ∧ Inv C M (flush s w).2.2 := by
  unfold flush SpecTx.flush
  by_cases h : s.queued = []
  · simp [h, inv]
  · simp only [h, if_false]
    cases w with
    | true =>
      refine ⟨by simp, by simp, by simp, inv.step_pos, inv.max_eq, ?_, by simp⟩
      simpa using inv.cap_eq
    | false => simp [inv]

theorem step_refines (C : Consts) (M : Nat) (s : St) (inv : Inv C M s) (op : Op) :
    (step C s op).1 = (SpecTx.step C s.queued op).1 ∧ (step C s op).2.1 = (SpecTx.step C s.queued op).2.1 ∧
    (step C s op).2.2.queued = (SpecTx.step C s.queued op).2.2 ∧ Inv C M (step C s op).2.2 := by
  cases op with
  | enqueue o =>
    obtain ⟨h1, h2, h3⟩ := enqueue_refines C M s inv o
    simp only [step, SpecTx.step]
    exact ⟨h1, trivial, h2, h3⟩
  | flush w => exact flush_refines C M s inv w
  | send o w =>
    obtain ⟨h1, h2, h3⟩ := enqueue_refines C M s inv o
    simp only [step, SpecTx.step]
    rcases he : enqueue C s o with ⟨r, s'⟩
    rcases hq : SpecTx.enqueue C s.queued o with ⟨r', q'⟩
    rw [he, hq] at h1 h2
    rw [he] at h3
    simp only [] at h1 h2 h3
    subst h1
    cases r with
    | ok =>
      simp only []
      have := flush_refines C M s' h3 w
      rw [h2] at this
      exact this
    | json => exact ⟨rfl, rfl, h2, h3⟩
    | overflow => exact ⟨rfl, rfl, h2, h3⟩
    | io => exact ⟨rfl, rfl, h2, h3⟩

/-- Every history: per-operation results and transport writes of the buffer-level model equal
    those of the abstract queue. -/
theorem run_refines (C : Consts) (M : Nat) (ops : List Op) :
    ∀ (s : St), Inv C M s → run C ops s = SpecTx.run C ops s.queued := by
  induction ops with
  | nil => intro s _; rfl
  | cons op ops ih =>
    intro s inv
    obtain ⟨h1, h2, h3, h4⟩ := step_refines C M s inv op
    simp only [run, SpecTx.run]
    rcases hst : step C s op with ⟨r, w, s'⟩
    rcases hsp : SpecTx.step C s.queued op with ⟨r', w', q'⟩
    rw [hst, hsp] at h1 h2 h3
    rw [hst] at h4
    simp only [] at h1 h2 h3 h4
    subst h1; subst h2; subst h3
    simp only []
    rw [ih s' h4]
    cases w <;> rfl

theorem inv_init (C : Consts) (M : Nat) (hs : 0 < C.step) (hm : C.max = M * C.step) (hM : 1 ≤ M) :
    Inv C M (init C) :=
  ⟨hs, hm, ⟨1, by simp [init], Nat.le_refl _, hM⟩, by simp [init]⟩
end Tx
