import Zlink.Proofs.IdlMemberRT
/-! Round trip of a whole interface description: the interface-name lexer is complete for the grammar's
    regular expression, `str::trim` leaves a rendered text alone, the member loop reads the members
    back in order, and `parse_interface` returns exactly the tree that was rendered. -/
namespace Idl
open SpecIdl

/-! ### interface names -/

def joinDots : List In → In
  | [] => []
  | [s] => s
  | s :: r => s ++ 46 :: joinDots r

theorem splitOn_ne_nil (n : In) : splitOn 46 n ≠ [] := by
  induction n with
  | nil => simp [splitOn]
  | cons c t ih =>
    unfold splitOn
    split
    · simp
    · split <;> simp

theorem joinDots_cons (s : In) (r : List In) (h : r ≠ []) : joinDots (s :: r) = s ++ 46 :: joinDots r := by
  cases r with
  | nil => exact absurd rfl h
  | cons a b => rfl

/-- the oracle's segment split is inverted by joining with dots -/
theorem joinDots_splitOn (n : In) : joinDots (splitOn 46 n) = n := by
  induction n with
  | nil => rfl
  | cons c t ih =>
    unfold splitOn
    by_cases hc : (c == 46) = true
    · rw [if_pos hc, joinDots_cons _ _ (splitOn_ne_nil t), ih]
      simp only [beq_iff_eq] at hc
      simp [hc]
    · rw [if_neg hc]
      cases hs : splitOn 46 t with
      | nil => exact absurd hs (splitOn_ne_nil t)
      | cons h r =>
        simp only []
        rw [hs] at ih
        cases r with
        | nil => simp only [joinDots] at ih ⊢; rw [ih]
        | cons a b =>
          rw [joinDots_cons _ _ (by simp)] at ih ⊢
          simp [ih]

def dotted (segs : List In) : In := segs.flatMap fun s => 46 :: s

theorem joinDots_dotted (s : In) (segs : List In) : joinDots (s :: segs) = s ++ dotted segs := by
  induction segs generalizing s with
  | nil => simp [joinDots, dotted]
  | cons a b ih => rw [joinDots_cons _ _ (by simp), ih a]; simp [dotted, List.flatMap_cons]

/-- what may follow an interface name: the end of the text or a byte that cannot continue it -/
def nameStop : In → Bool
  | [] => true
  | c :: _ => !isAlnum c && c != 45 && c != 46

def isSegByte (c : Byte) : Bool := isAlnum c || c == 45

theorem takeWhile_seg (t z : In) (ht : t.all isSegByte = true) (hz : ∀ c, z.head? = some c → isSegByte c = false) :
    (t ++ z).takeWhile isSegByte = t := by
  rw [List.takeWhile_append_of_pos (by simpa [List.all_eq_true] using ht)]
  cases z with
  | nil => simp
  | cons c r => simp [List.takeWhile_cons, hz c rfl]

theorem segTail_ok (c : Byte) (t z : In) (ht : t.all isSegByte = true)
    (hl : (c :: t).getLast? ≠ some 45) (hz : ∀ d, z.head? = some d → isSegByte d = false) :
    segTail (t ++ z) = some (t, z) := by
  unfold segTail
  have htw : (t ++ z).takeWhile (fun c => isAlnum c || c == 45) = t := takeWhile_seg t z ht hz
  simp only [htw]
  have hl' : t.getLast? ≠ some 45 := by
    cases t with
    | nil => simp
    | cons a b => simpa [List.getLast?_cons_cons] using hl
  rw [if_neg (by simpa using hl')]
  simp

theorem segOK_parts {first : Byte → Bool} {s : In} (h : segOK first s = true) :
    ∃ c t, s = c :: t ∧ first c = true ∧ t.all isSegByte = true ∧ (c :: t).getLast? ≠ some 45 := by
  cases s with
  | nil => simp [segOK] at h
  | cons c t =>
    simp only [segOK, Bool.and_eq_true, bne_iff_ne, ne_eq] at h
    exact ⟨c, t, rfl, h.1.1, h.1.2, h.2⟩

theorem dotted_head (segs : List In) (z : In) (hz : nameStop z = true) :
    ∀ d, (dotted segs ++ z).head? = some d → isSegByte d = false := by
  intro d hd
  cases segs with
  | nil =>
    simp only [dotted, List.flatMap_nil, List.nil_append] at hd
    cases z with
    | nil => simp at hd
    | cons c r =>
      simp at hd; subst hd
      simp only [nameStop, Bool.and_eq_true, Bool.not_eq_true', bne_iff_ne, ne_eq] at hz
      simp only [isSegByte, Bool.or_eq_false_iff, beq_eq_false_iff_ne, ne_eq]
      exact ⟨hz.1.1, hz.1.2⟩
  | cons s r =>
    simp [dotted, List.flatMap_cons] at hd
    subst hd
    decide

theorem nameSegs_ok (segs : List In) : ∀ (k : Nat) (acc z : In) (dot : Bool),
    segs.all (segOK isAlnum) = true → segs.length < k → nameStop z = true →
    nameSegs k acc (dotted segs ++ z) dot = some (acc ++ dotted segs, z, dot || !segs.isEmpty) := by
  induction segs with
  | nil =>
    intro k acc z dot _ hk hz
    obtain ⟨k, rfl⟩ : ∃ k', k = k' + 1 := ⟨k - 1, by omega⟩
    simp only [dotted, List.flatMap_nil, List.nil_append, List.append_nil, List.isEmpty_nil, Bool.not_true, Bool.or_false]
    cases z with
    | nil => simp [nameSegs]
    | cons c r =>
      simp only [nameStop, Bool.and_eq_true, bne_iff_ne, ne_eq] at hz
      have h46 : c ≠ 46 := hz.2
      unfold nameSegs
      split
      · rename_i heq; cases heq; exact absurd rfl h46
      · rename_i heq; cases heq; exact absurd rfl h46
      · rfl
  | cons s segs ih =>
    intro k acc z dot hok hk hz
    obtain ⟨k, rfl⟩ : ∃ k', k = k' + 1 := ⟨k - 1, by omega⟩
    rw [List.all_cons] at hok
    simp only [Bool.and_eq_true] at hok
    obtain ⟨c, t, rfl, hc, ht, hl⟩ := segOK_parts hok.1
    have e : dotted ((c :: t) :: segs) ++ z = 46 :: c :: (t ++ (dotted segs ++ z)) := by
      simp [dotted, List.flatMap_cons]
    rw [e, nameSegs]
    simp only [hc, if_true]
    rw [segTail_ok c t _ ht hl (dotted_head segs z hz)]
    simp only []
    rw [ih k _ z true hok.2 (by simp at hk; omega) hz]
    simp [dotted, List.flatMap_cons]

/-- **the interface-name lexer accepts every word of the grammar's regular expression** (longest match) -/
theorem interfaceName_complete (n z : In) (hn : ifaceNameOK n = true) (hz : nameStop z = true) :
    interfaceName (n ++ z) = .ok n z := by
  unfold ifaceNameOK at hn
  have hj := joinDots_splitOn n
  cases hs : splitOn 46 n with
  | nil => rw [hs] at hn; simp at hn
  | cons s0 r =>
    cases r with
    | nil => rw [hs] at hn; simp at hn
    | cons s1 rest =>
      rw [hs] at hn hj
      simp only [Bool.and_eq_true] at hn
      obtain ⟨c, t, rfl, hc, ht, hl⟩ := segOK_parts hn.1
      rw [joinDots_dotted] at hj
      rw [← hj]
      have e : (c :: t) ++ dotted (s1 :: rest) ++ z = c :: (t ++ (dotted (s1 :: rest) ++ z)) := by simp
      rw [e]
      unfold interfaceName
      simp only [hc, Bool.not_true, Bool.false_eq_true, if_false]
      rw [segTail_ok c t _ ht hl (dotted_head (s1 :: rest) z hz)]
      simp only []
      have hlen : (s1 :: rest).length < (dotted (s1 :: rest) ++ z).length + 1 := by
        have : ∀ (l : List In), l.length ≤ (dotted l).length := by
          intro l
          induction l with
          | nil => simp [dotted]
          | cons a b ih => simp only [dotted, List.flatMap_cons, List.length_append, List.length_cons] at *; omega
        have := this (s1 :: rest)
        simp only [List.length_append]; omega
      rw [nameSegs_ok (s1 :: rest) _ (c :: t) z false hn.2 hlen hz]
      simp

/-! ### `str::trim` leaves a rendered text alone -/

/-- an ASCII byte that is not white space -/
def plainAscii (c : Byte) : Bool := decide (c.toNat < 128) && !isAsciiWs c && c != 11

theorem wsSeqs_heads : wsSeqs.all (fun p => match p with | h :: _ => !plainAscii h | [] => false) = true := by decide
theorem wsSeqs_lasts : wsSeqs.all (fun p => match p.reverse with | h :: _ => !plainAscii h | [] => false) = true := by decide

theorem isPrefixOf_head (p : In) (c : Byte) (t : In) (h : p.isPrefixOf (c :: t) = true) :
    p = [] ∨ ∃ tl, p = c :: tl := by
  cases p with
  | nil => left; rfl
  | cons a b =>
    right
    simp only [List.isPrefixOf, Bool.and_eq_true, beq_iff_eq] at h
    exact ⟨b, by rw [h.1]⟩

theorem trimStartN_id (n : Nat) (c : Byte) (t : In) (hc : plainAscii c = true) : trimStartN n (c :: t) = c :: t := by
  cases n with
  | zero => rfl
  | succ n =>
    unfold trimStartN
    have : wsSeqs.find? (fun p => p.isPrefixOf (c :: t)) = none := by
      rw [List.find?_eq_none]
      intro p hp
      have hh := List.all_eq_true.mp wsSeqs_heads p hp
      intro hpre
      rcases isPrefixOf_head p c t (by simpa using hpre) with rfl | ⟨tl, rfl⟩
      · simp at hh
      · simp [hc] at hh
    rw [this]

theorem trimEndRevN_id (n : Nat) (c : Byte) (t : In) (hc : plainAscii c = true) : trimEndRevN n (c :: t) = c :: t := by
  cases n with
  | zero => rfl
  | succ n =>
    unfold trimEndRevN
    have : wsSeqs.find? (fun p => p.reverse.isPrefixOf (c :: t)) = none := by
      rw [List.find?_eq_none]
      intro p hp
      have hh := List.all_eq_true.mp wsSeqs_lasts p hp
      intro hpre
      rcases isPrefixOf_head p.reverse c t (by simpa using hpre) with h | ⟨tl, h⟩
      · rw [h] at hh; simp at hh
      · rw [h] at hh; simp [hc] at hh
    rw [this]

/-- a text that starts and ends with a non-blank ASCII byte is its own trimmed form -/
theorem trim_id (c d : Byte) (mid : In) (hc : plainAscii c = true) (hd : plainAscii d = true) :
    trim (c :: (mid ++ [d])) = c :: (mid ++ [d]) := by
  unfold trim
  simp only [trimStartN_id _ c _ hc]
  have : (c :: (mid ++ [d])).reverse = d :: (mid.reverse ++ [c]) := by simp
  rw [this, trimEndRevN_id _ d _ hd]
  simp

theorem trim_single (c : Byte) (hc : plainAscii c = true) : trim [c] = [c] := by
  unfold trim
  simp only [trimStartN_id _ c _ hc]
  show (trimEndRevN _ [c]).reverse = [c]
  rw [trimEndRevN_id _ c _ hc]
  rfl

/-- general form: non-empty, plain first and last byte -/
theorem trim_id' (i : In) (hne : i ≠ []) (hh : ∀ c, i.head? = some c → plainAscii c = true)
    (hl : ∀ d, i.getLast? = some d → plainAscii d = true) : trim i = i := by
  cases i with
  | nil => exact absurd rfl hne
  | cons c t =>
    have hc := hh c rfl
    rcases List.eq_nil_or_concat t with rfl | ⟨mid, d, rfl⟩
    · exact trim_single c hc
    · have hd : plainAscii d = true := hl d (by rw [List.concat_eq_append, ← List.cons_append, List.getLast?_append]; simp)
      simpa using trim_id c d mid hc hd

/-! ### the member loop of `interface_def` -/

def typesText (ts : List CT) : In := ts.flatMap fun t => ([10, 10] : In) ++ refCT t
def methodsText (ms : List Method) : In := ms.flatMap fun m => ([10, 10] : In) ++ renderMethod m
def errorsText (es : List Err) : In := es.flatMap fun e => ([10, 10] : In) ++ renderErr e

theorem typeDef_other_kw (cs : List In) (K : In) (hcs : cs.all commentOK = true) (ha : alphaHead K = true)
    (hk : K.head? ≠ some 116) : ∃ e, typeDef (renderComments cs ++ K) = .err e := by
  unfold typeDef
  rw [pcF_comments cs K hcs (alphaHead_plain ha) (alphaHead_ne_nil ha)]
  simp only []
  rw [litB_head_ne 116 _ K hk]
  exact ⟨_, rfl⟩

theorem methodDef_other_kw (cs : List In) (K : In) (hcs : cs.all commentOK = true) (ha : alphaHead K = true)
    (hk : K.head? ≠ some 109) : ∃ e, methodDef (renderComments cs ++ K) = .err e := by
  unfold methodDef
  rw [pcF_comments cs K hcs (alphaHead_plain ha) (alphaHead_ne_nil ha)]
  simp only []
  rw [litB_head_ne 109 _ K hk]
  exact ⟨_, rfl⟩

theorem whitespaceOnly_member (cs : List In) (K : In) (ha : alphaHead K = true) :
    whitespaceOnly (10 :: 10 :: (renderComments cs ++ K)) = renderComments cs ++ K := by
  show multispace0 _ = _
  rw [multispace0_cons_ws 10 _ (by decide), multispace0_cons_ws 10 _ (by decide)]
  exact whitespaceOnly_comments cs (alphaHead_plain ha)

theorem comments_kw_ne_nil (cs : List In) (K : In) (ha : alphaHead K = true) : (renderComments cs ++ K).isEmpty = false := by
  cases K with
  | nil => simp [alphaHead] at ha
  | cons c t => simp

theorem alphaHead_kw (kw rest : In) (h : alphaHead kw = true) : alphaHead (kw ++ rest) = true := alphaHead_append rest h

theorem renderErr_split (e : Err) (rest : In) : ∃ K, renderErr e ++ rest = renderComments e.cs ++ K ∧
    alphaHead K = true ∧ K.head? = some 101 :=
  ⟨([101, 114, 114, 111, 114, 32] : In) ++ (e.name ++ ([32, 40] : In) ++ renderFields e.fs ++ [41] ++ rest),
    by simp [renderErr], alphaHead_kw _ _ (by decide), rfl⟩

theorem renderMethod_split (m : Method) (rest : In) : ∃ K, renderMethod m ++ rest = renderComments m.cs ++ K ∧
    alphaHead K = true ∧ K.head? = some 109 :=
  ⟨([109, 101, 116, 104, 111, 100, 32] : In) ++
      (m.name ++ [40] ++ renderFields m.ins ++ ([41, 32, 45, 62, 32, 40] : In) ++ renderFields m.outs ++ [41] ++ rest),
    by simp [renderMethod], alphaHead_kw _ _ (by decide), rfl⟩

theorem loop_errors (es : List Err) : ∀ (k : Nat) (acc : Iface),
    es.all errOK = true → es.all noVCErr = true → es.length < k →
    interfaceDef.loop k (errorsText es) acc
      = .ok ⟨acc.name, acc.cs, acc.types, acc.methods, acc.errors ++ es⟩ [] := by
  induction es with
  | nil =>
    intro k acc _ _ hk
    obtain ⟨k, rfl⟩ : ∃ k', k = k' + 1 := ⟨k - 1, by omega⟩
    simp [errorsText, interfaceDef.loop]
  | cons e es ih =>
    intro k acc hok hvc hk
    obtain ⟨k, rfl⟩ : ∃ k', k = k' + 1 := ⟨k - 1, by omega⟩
    rw [List.all_cons] at hok hvc
    simp only [Bool.and_eq_true] at hok hvc
    have hcs : e.cs.all commentOK = true := by
      have := hok.1; simp only [errOK, Bool.and_eq_true] at this; exact this.2
    have e0 : errorsText (e :: es) = 10 :: 10 :: (renderErr e ++ errorsText es) := by
      simp [errorsText, List.flatMap_cons]
    rw [e0, interfaceDef.loop, if_neg (by simp)]
    simp only []
    obtain ⟨K, hK, ha, hh⟩ := renderErr_split e (errorsText es)
    rw [hK, whitespaceOnly_member _ _ ha, if_neg (by simp [comments_kw_ne_nil _ _ ha])]
    obtain ⟨e1, h1⟩ := typeDef_other_kw e.cs K hcs ha (by rw [hh]; decide)
    obtain ⟨e2, h2⟩ := methodDef_other_kw e.cs K hcs ha (by rw [hh]; decide)
    rw [h1]
    simp only []
    rw [h2]
    simp only []
    rw [← hK, errorDef_ok e _ hok.1 hvc.1]
    simp only []
    rw [ih k _ hok.2 hvc.2 (by simp at hk; omega)]
    simp

theorem loop_methods (ms : List Method) (es : List Err) : ∀ (k : Nat) (acc : Iface),
    ms.all methodOK = true → ms.all noVCMethod = true →
    es.all errOK = true → es.all noVCErr = true → ms.length + es.length < k →
    interfaceDef.loop k (methodsText ms ++ errorsText es) acc
      = .ok ⟨acc.name, acc.cs, acc.types, acc.methods ++ ms, acc.errors ++ es⟩ [] := by
  induction ms with
  | nil =>
    intro k acc _ _ heo hev hk
    have := loop_errors es k acc heo hev (by simpa using hk)
    simpa [methodsText] using this
  | cons m ms ih =>
    intro k acc hok hvc heo hev hk
    obtain ⟨k, rfl⟩ : ∃ k', k = k' + 1 := ⟨k - 1, by omega⟩
    rw [List.all_cons] at hok hvc
    simp only [Bool.and_eq_true] at hok hvc
    have hcs : m.cs.all commentOK = true := by
      have := hok.1; simp only [methodOK, Bool.and_eq_true] at this; exact this.2
    have e0 : methodsText (m :: ms) ++ errorsText es = 10 :: 10 :: (renderMethod m ++ (methodsText ms ++ errorsText es)) := by
      simp [methodsText, List.flatMap_cons]
    rw [e0, interfaceDef.loop, if_neg (by simp)]
    simp only []
    obtain ⟨K, hK, ha, hh⟩ := renderMethod_split m (methodsText ms ++ errorsText es)
    rw [hK, whitespaceOnly_member _ _ ha, if_neg (by simp [comments_kw_ne_nil _ _ ha])]
    obtain ⟨e1, h1⟩ := typeDef_other_kw m.cs K hcs ha (by rw [hh]; decide)
    rw [h1]
    simp only []
    rw [← hK, methodDef_ok m _ hok.1 hvc.1]
    simp only []
    rw [ih k _ hok.2 hvc.2 heo hev (by simp at hk; omega)]
    simp

theorem refCT_split (t : CT) (rest : In) : ∃ cs K, refCT t ++ rest = renderComments cs ++ K ∧ alphaHead K = true ∧
    (ctOK t = true → cs.all commentOK = true) := by
  cases t with
  | obj n fs cs =>
    exact ⟨cs, ([116, 121, 112, 101, 32] : In) ++ (n ++ ([32, 40] : In) ++ renderFields fs ++ [41] ++ rest),
      by simp [refCT, renderCT], alphaHead_kw _ _ (by decide), fun h => by simp only [ctOK, Bool.and_eq_true] at h; exact h.2⟩
  | enm n vs cs =>
    exact ⟨cs, ([116, 121, 112, 101, 32] : In) ++ (n ++ ([32, 40] : In) ++
        joinWith ([44, 32] : In) (vs.map fun v => renderComments v.2 ++ v.1) ++ [41] ++ rest),
      by simp [refCT], alphaHead_kw _ _ (by decide), fun h => by simp only [ctOK, Bool.and_eq_true] at h; exact h.2⟩

theorem loop_types (ts : List CT) (ms : List Method) (es : List Err) : ∀ (k : Nat) (acc : Iface),
    ts.all ctOK = true → ts.all noVCCT = true →
    ms.all methodOK = true → ms.all noVCMethod = true →
    es.all errOK = true → es.all noVCErr = true → ts.length + ms.length + es.length < k →
    interfaceDef.loop k (typesText ts ++ (methodsText ms ++ errorsText es)) acc
      = .ok ⟨acc.name, acc.cs, acc.types ++ ts, acc.methods ++ ms, acc.errors ++ es⟩ [] := by
  induction ts with
  | nil =>
    intro k acc _ _ hmo hmv heo hev hk
    have := loop_methods ms es k acc hmo hmv heo hev (by simpa using hk)
    simpa [typesText] using this
  | cons t ts ih =>
    intro k acc hok hvc hmo hmv heo hev hk
    obtain ⟨k, rfl⟩ : ∃ k', k = k' + 1 := ⟨k - 1, by omega⟩
    rw [List.all_cons] at hok hvc
    simp only [Bool.and_eq_true] at hok hvc
    have e0 : typesText (t :: ts) ++ (methodsText ms ++ errorsText es)
        = 10 :: 10 :: (refCT t ++ (typesText ts ++ (methodsText ms ++ errorsText es))) := by
      simp [typesText, List.flatMap_cons]
    rw [e0, interfaceDef.loop, if_neg (by simp)]
    simp only []
    obtain ⟨cs, K, hK, ha, _⟩ := refCT_split t (typesText ts ++ (methodsText ms ++ errorsText es))
    rw [hK, whitespaceOnly_member _ _ ha, if_neg (by simp [comments_kw_ne_nil _ _ ha])]
    rw [← hK, typeDef_ok t _ hok.1 hvc.1]
    simp only []
    rw [ih k _ hok.2 hvc.2 hmo hmv heo hev (by simp at hk; omega)]
    simp

/-! ### the whole interface -/

/-- side condition shared by C13 and C14: no *inline* enum carries variant comments -/
def noVCI (a : Iface) : Bool :=
  a.types.all noVCCT && a.methods.all noVCMethod && a.errors.all noVCErr

theorem ifaceOK_parts {a : Iface} (h : ifaceOK a = true) :
    ifaceNameOK a.name = true ∧ a.cs.all commentOK = true ∧ a.types.all ctOK = true ∧
    a.methods.all methodOK = true ∧ a.errors.all errOK = true := by
  simp only [ifaceOK, Bool.and_eq_true] at h
  obtain ⟨⟨⟨⟨h1, h2⟩, h3⟩, h4⟩, h5⟩ := h
  refine ⟨h1, h2, ?_, ?_, ?_⟩
  · rw [List.all_eq_true] at h3 ⊢
    intro t ht
    have := h3 t ht
    cases t <;> simpa [ctOK] using this
  · rw [List.all_eq_true] at h4 ⊢
    intro m hm
    simpa [methodOK] using h4 m hm
  · rw [List.all_eq_true] at h5 ⊢
    intro e he
    simpa [errOK] using h5 e he

theorem dropWhile_idem (p : Byte → Bool) (l : In) : (l.dropWhile p).dropWhile p = l.dropWhile p := by
  induction l with
  | nil => rfl
  | cons a t ih =>
    by_cases h : p a = true
    · simp [List.dropWhile_cons, h, ih]
    · simp [List.dropWhile_cons, h]

/-- the loop skips leading layout itself, so skipping it beforehand changes nothing -/
theorem loop_whitespaceOnly (k : Nat) (i : In) (acc : Iface) (hne : i ≠ []) :
    interfaceDef.loop (k + 1) (whitespaceOnly i) acc = interfaceDef.loop (k + 1) i acc := by
  have hidem : whitespaceOnly (whitespaceOnly i) = whitespaceOnly i := dropWhile_idem _ i
  have h2 : ¬ (i.isEmpty = true) := by cases i <;> simp_all
  by_cases h1 : (whitespaceOnly i).isEmpty = true
  · conv => lhs; rw [interfaceDef.loop, if_pos h1]
    conv => rhs; rw [interfaceDef.loop, if_neg h2]; simp only []; rw [if_pos h1]
  · conv => lhs; rw [interfaceDef.loop, if_neg h1]; simp only [hidem]; rw [if_neg h1]
    conv => rhs; rw [interfaceDef.loop, if_neg h2]; simp only []; rw [if_neg h1]

/-- number of bytes that are not layout -/
def nws (l : In) : Nat := (l.filter (fun c => !isMultispace c)).length

theorem nws_append (a b : In) : nws (a ++ b) = nws a + nws b := by simp [nws, List.filter_append]

theorem nws_le_multispace0 (l : In) : nws l ≤ (multispace0 l).length := by
  have : l.filter (fun c => !isMultispace c) = (l.dropWhile isMultispace).filter (fun c => !isMultispace c) := by
    induction l with
    | nil => rfl
    | cons a t ih =>
      by_cases h : isMultispace a = true
      · simp [List.dropWhile_cons, List.filter_cons, h, ih]
      · simp [List.dropWhile_cons, h]
  unfold nws multispace0
  rw [this]
  exact List.length_filter_le _ _

theorem nws_flatMap {α : Type} (l : List α) (f : α → In) (h : ∀ x ∈ l, 1 ≤ nws (f x)) : l.length ≤ nws (l.flatMap f) := by
  induction l with
  | nil => simp [nws]
  | cons x r ih =>
    rw [List.flatMap_cons, nws_append]
    have := h x (by simp)
    have := ih (fun y hy => h y (by simp [hy]))
    simp only [List.length_cons]; omega

theorem nws_ends41 (pre : In) : 1 ≤ nws (pre ++ [41]) := by
  rw [nws_append]; simp [nws, isMultispace]

theorem refCT_ends (t : CT) : ∃ pre, refCT t = pre ++ [41] := by
  cases t with
  | obj n fs cs => exact ⟨_, rfl⟩
  | enm n vs cs => exact ⟨_, rfl⟩
theorem renderMethod_ends (m : Method) : ∃ pre, renderMethod m = pre ++ [41] := ⟨_, rfl⟩
theorem renderErr_ends (e : Err) : ∃ pre, renderErr e = pre ++ [41] := ⟨_, rfl⟩

theorem members_count (ts : List CT) (ms : List Method) (es : List Err) :
    ts.length + ms.length + es.length ≤ nws (typesText ts ++ (methodsText ms ++ errorsText es)) := by
  rw [nws_append, nws_append]
  have h1 := nws_flatMap ts (fun t => ([10, 10] : In) ++ refCT t) (by
    intro t _; obtain ⟨pre, h⟩ := refCT_ends t; rw [h, ← List.append_assoc]; exact nws_ends41 _)
  have h2 := nws_flatMap ms (fun m => ([10, 10] : In) ++ renderMethod m) (by
    intro m _; obtain ⟨pre, h⟩ := renderMethod_ends m; rw [h, ← List.append_assoc]; exact nws_ends41 _)
  have h3 := nws_flatMap es (fun e => ([10, 10] : In) ++ renderErr e) (by
    intro e _; obtain ⟨pre, h⟩ := renderErr_ends e; rw [h, ← List.append_assoc]; exact nws_ends41 _)
  simp only [typesText, methodsText, errorsText]
  omega

theorem refText_eq (a : Iface) : refText a = renderComments a.cs ++ (([105, 110, 116, 101, 114, 102, 97, 99, 101] : In) ++
    32 :: (a.name ++ (typesText a.types ++ (methodsText a.methods ++ errorsText a.errors)))) := by
  simp [refText, typesText, methodsText, errorsText]

theorem members_head (ts : List CT) (ms : List Method) (es : List Err) :
    nameStop (typesText ts ++ (methodsText ms ++ errorsText es)) = true := by
  cases ts with
  | cons t r => simp [typesText, List.flatMap_cons, nameStop, isAlnum, isAlpha, isDigit]
  | nil =>
    cases ms with
    | cons m r => simp [typesText, methodsText, List.flatMap_cons, nameStop, isAlnum, isAlpha, isDigit]
    | nil =>
      cases es with
      | cons e r => simp [typesText, methodsText, errorsText, List.flatMap_cons, nameStop, isAlnum, isAlpha, isDigit]
      | nil => simp [typesText, methodsText, errorsText, nameStop]

theorem ifaceName_head {n : In} (h : ifaceNameOK n = true) : ∃ c t, n = c :: t ∧ isAlpha c = true := by
  unfold ifaceNameOK at h
  have hj := joinDots_splitOn n
  cases hs : splitOn 46 n with
  | nil => rw [hs] at h; simp at h
  | cons s0 r =>
    cases r with
    | nil => rw [hs] at h; simp at h
    | cons s1 rest =>
      rw [hs] at h hj
      simp only [Bool.and_eq_true] at h
      obtain ⟨c, t, rfl, hc, _, _⟩ := segOK_parts h.1
      rw [joinDots_dotted] at hj
      exact ⟨c, t ++ dotted (s1 :: rest), by rw [← hj]; simp, hc⟩

/-- **`interface_def` reads the reference text of a well-formed description back** -/
theorem interfaceDef_ref (a : Iface) (hok : ifaceOK a = true) (hvc : noVCI a = true) :
    interfaceDef (refText a) = .ok a [] := by
  obtain ⟨hn, hcs, hts, hms, hes⟩ := ifaceOK_parts hok
  simp only [noVCI, Bool.and_eq_true] at hvc
  obtain ⟨⟨vt, vm⟩, ve⟩ := hvc
  obtain ⟨name, cs, ts, ms, es⟩ := a
  simp only [] at hn hcs hts hms hes vt vm ve
  rw [refText_eq]
  simp only []
  generalize hZ : typesText ts ++ (methodsText ms ++ errorsText es) = Z
  unfold interfaceDef
  rw [pcF_comments cs _ hcs (plainHead_append _ (by simp) (by decide)) (by simp)]
  simp only []
  rw [litB_append [105, 110, 116, 101, 114, 102, 97, 99, 101] _]
  simp only []
  obtain ⟨c, t, hnm, hc⟩ := ifaceName_head hn
  have hws : ∀ d, (name ++ Z).head? = some d → isAsciiWs d = false := by
    intro d hd
    rw [hnm] at hd; simp at hd; subst hd
    bytes
  rw [ws1_space _ hws]
  simp only []
  have hstop : nameStop Z = true := by rw [← hZ]; exact members_head ts ms es
  rw [interfaceName_complete name Z hn hstop]
  simp only []
  have hcount : ts.length + ms.length + es.length < (whitespaceOnly Z).length + 1 := by
    have h1 := members_count ts ms es
    rw [hZ] at h1
    have h2 := nws_le_multispace0 Z
    show _ < (multispace0 Z).length + 1
    omega
  by_cases hne : Z = []
  · subst hne
    have hnil : ts = [] ∧ ms = [] ∧ es = [] := by
      have h0 : (whitespaceOnly ([] : In)).length = 0 := rfl
      rw [h0] at hcount
      exact ⟨List.eq_nil_of_length_eq_zero (by omega), List.eq_nil_of_length_eq_zero (by omega), List.eq_nil_of_length_eq_zero (by omega)⟩
    obtain ⟨rfl, rfl, rfl⟩ := hnil
    simp [whitespaceOnly, multispace0, interfaceDef.loop]
  · rw [loop_whitespaceOnly _ Z _ hne, ← hZ]
    have := loop_types ts ms es ((whitespaceOnly Z).length + 1) ⟨name, cs, [], [], []⟩ hts vt hms vm hes ve hcount
    rw [hZ] at this ⊢
    simpa using this

/-! ### `parse_interface` -/

theorem getLast?_flatMap_41 {α : Type} (l : List α) (f : α → In) (h : ∀ x ∈ l, ∃ pre, f x = pre ++ [41]) :
    ∀ d, (l.flatMap f).getLast? = some d → d = 41 := by
  induction l with
  | nil => intro d hd; simp at hd
  | cons x r ih =>
    intro d hd
    rw [List.flatMap_cons, List.getLast?_append] at hd
    cases hr : (r.flatMap f).getLast? with
    | some e =>
      rw [hr] at hd
      simp at hd
      subst hd
      exact ih (fun y hy => h y (by simp [hy])) _ hr
    | none =>
      rw [hr] at hd
      obtain ⟨pre, hp⟩ := h x (by simp)
      rw [hp] at hd
      simp at hd
      exact hd.symm

theorem getLast?_append_41 (a b : In) (ha : ∀ d, a.getLast? = some d → d = 41) (hb : ∀ d, b.getLast? = some d → d = 41) :
    ∀ d, (a ++ b).getLast? = some d → d = 41 := by
  intro d hd
  rw [List.getLast?_append] at hd
  cases hr : b.getLast? with
  | some e => rw [hr] at hd; simp at hd; subst hd; exact hb _ hr
  | none => rw [hr] at hd; simp at hd; exact ha _ hd

theorem members_last (ts : List CT) (ms : List Method) (es : List Err) :
    ∀ d, (typesText ts ++ (methodsText ms ++ errorsText es)).getLast? = some d → d = 41 := by
  apply getLast?_append_41
  · exact getLast?_flatMap_41 ts _ (by
      intro t _; obtain ⟨pre, h⟩ := refCT_ends t; exact ⟨([10, 10] : In) ++ pre, by rw [h]; simp⟩)
  · apply getLast?_append_41
    · exact getLast?_flatMap_41 ms _ (by
        intro m _; obtain ⟨pre, h⟩ := renderMethod_ends m; exact ⟨([10, 10] : In) ++ pre, by rw [h]; simp⟩)
    · exact getLast?_flatMap_41 es _ (by
        intro e _; obtain ⟨pre, h⟩ := renderErr_ends e; exact ⟨([10, 10] : In) ++ pre, by rw [h]; simp⟩)

theorem segByte_plain (c : Byte) (h : isSegByte c = true ∨ c = 46) : plainAscii c = true := by
  rcases h with h | h
  · simp only [isSegByte, Bool.or_eq_true, beq_iff_eq] at h
    simp only [plainAscii, Bool.and_eq_true, decide_eq_true_eq, Bool.not_eq_true', bne_iff_ne, ne_eq]
    rcases h with h | h
    · refine ⟨⟨by bytes, by bytes⟩, by bytes⟩
    · subst h; decide
  · subst h; decide

/-- every byte of a legal interface name is a letter, a digit, a dash or a dot -/
theorem ifaceName_bytes {n : In} (h : ifaceNameOK n = true) : ∀ b ∈ n, isSegByte b = true ∨ b = 46 := by
  unfold ifaceNameOK at h
  have hj := joinDots_splitOn n
  cases hs : splitOn 46 n with
  | nil => rw [hs] at h; simp at h
  | cons s0 r =>
    cases r with
    | nil => rw [hs] at h; simp at h
    | cons s1 rest =>
      rw [hs] at h hj
      simp only [Bool.and_eq_true] at h
      have hseg : ∀ (first : Byte → Bool) (s : In), (∀ c, first c = true → isAlnum c = true) → segOK first s = true →
          ∀ b ∈ s, isSegByte b = true := by
        intro first s hf hso b hb
        obtain ⟨c, t, rfl, hc, ht, _⟩ := segOK_parts hso
        simp only [List.mem_cons] at hb
        rcases hb with rfl | hb
        · simp [isSegByte, hf _ hc]
        · exact List.all_eq_true.mp ht b hb
      have hdot : ∀ (l : List In), l.all (segOK isAlnum) = true → ∀ b ∈ dotted l, isSegByte b = true ∨ b = 46 := by
        intro l
        induction l with
        | nil => intro _ b hb; simp [dotted] at hb
        | cons s l ih =>
          intro hl b hb
          rw [List.all_cons] at hl
          simp only [Bool.and_eq_true] at hl
          simp only [dotted, List.flatMap_cons, List.mem_append, List.mem_cons] at hb
          rcases hb with (rfl | hb) | hb
          · right; rfl
          · left; exact hseg isAlnum s (fun _ h => h) hl.1 b hb
          · exact ih hl.2 b hb
      rw [joinDots_dotted] at hj
      intro b hb
      rw [← hj, List.mem_append] at hb
      rcases hb with hb | hb
      · left; exact hseg isAlpha s0 (fun c hc => by bytes) h.1 b hb
      · exact hdot _ h.2 b hb

/-- **C13 (completeness, canonical layout)**: every well-formed description is recovered from its
    reference text -/
theorem parseInterface_ref (a : Iface) (hok : ifaceOK a = true) (hvc : noVCI a = true) :
    parseInterface (refText a) = .ok a := by
  obtain ⟨hn, hcs, _, _, _⟩ := ifaceOK_parts hok
  obtain ⟨c, t, hnm, hc⟩ := ifaceName_head hn
  have htrim : trim (refText a) = refText a := by
    apply trim_id'
    · rw [refText_eq]; simp
    · intro d hd
      rw [refText_eq] at hd
      cases hcs' : a.cs with
      | nil => rw [hcs'] at hd; simp [renderComments] at hd; subst hd; decide
      | cons x y => rw [hcs'] at hd; simp [renderComments_cons, renderComment] at hd; subst hd; decide
    · intro d hd
      rw [refText_eq] at hd
      have e : renderComments a.cs ++ (([105, 110, 116, 101, 114, 102, 97, 99, 101] : In) ++ 32 :: (a.name ++
          (typesText a.types ++ (methodsText a.methods ++ errorsText a.errors))))
          = (renderComments a.cs ++ ([105, 110, 116, 101, 114, 102, 97, 99, 101, 32] : In) ++ a.name) ++
            (typesText a.types ++ (methodsText a.methods ++ errorsText a.errors)) := by simp
      rw [e, List.getLast?_append] at hd
      cases hr : (typesText a.types ++ (methodsText a.methods ++ errorsText a.errors)).getLast? with
      | some x =>
        rw [hr] at hd; simp at hd; subst hd
        rw [members_last _ _ _ _ hr]; decide
      | none =>
        rw [hr] at hd
        simp only [Option.none_or] at hd
        rw [List.getLast?_append] at hd
        have hne : a.name.getLast? = some (a.name.getLast (by rw [hnm]; simp)) := List.getLast?_eq_some_getLast _
        rw [hne] at hd
        simp at hd
        subst hd
        exact segByte_plain _ (ifaceName_bytes hn _ (List.getLast_mem _))
  unfold parseInterface
  simp only [htrim]
  rw [if_neg (by rw [refText_eq]; simp), interfaceDef_ref a hok hvc]
  simp [wsF, ws, multispace0, optComment]

end Idl
