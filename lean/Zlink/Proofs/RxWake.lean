import Zlink.Model.Rx
/-! A parked receive: polling it again without anything having arrived changes nothing.

A receive whose poll ended `pending` has taken everything the transport held (the transport is empty and not closed). A second
poll in that state reads nothing, stays pending and leaves buffer, cursors and transport exactly as they were: an executor that
does *not* poll a task whose waker has not fired loses nothing compared with one that polls it all the time. -/
namespace Rx

theorem readLoop_pending_spec (C : Consts) (sizes : Nat → Nat) : ∀ (fuel : Nat) (s : St) (e : Net),
    e.avail.length < fuel → (readLoop C sizes fuel s e).1 = .pending →
    (readLoop C sizes fuel s e).2.2.avail = [] ∧ (readLoop C sizes fuel s e).2.2.closed = false ∧
    (readLoop C sizes fuel s e).2.1.msgPos = s.msgPos := by
  intro fuel
  induction fuel with
  | zero => intro s e h; omega
  | succ fuel ih =>
    intro s e hlen hp
    simp only [readLoop] at hp ⊢
    by_cases hn : min (min (sizes e.k + 1) (s.cap - s.data.length)) e.avail.length = 0
    · rw [if_pos hn] at hp ⊢
      simp only [] at hp ⊢
      by_cases hc : e.avail = [] ∧ (!e.closed) = true
      · refine ⟨hc.1, ?_, by first | rfl | trivial⟩
        have := hc.2
        cases hcl : e.closed <;> simp_all
      · rw [if_neg hc] at hp; cases hp
    · rw [if_neg hn] at hp ⊢
      split at hp
      · cases hp
      · split at hp
        · cases hp
        · rename_i h1 h2
          rw [if_neg h1, if_neg h2]
          have hlt : (e.avail.drop (min (min (sizes e.k + 1) (s.cap - s.data.length)) e.avail.length)).length < fuel := by
            rw [List.length_drop]; omega
          exact ih _ _ hlt hp

/-- **A pending poll is a fixpoint**: polling a parked receive again, with nothing new on the transport, is pending again
    and changes neither the connection's buffer and cursors nor the transport. -/
theorem poll_pending_fix (C : Consts) (sizes : Nat → Nat) (s : St) (e : Net)
    (h : (poll C sizes s e).1 = .pending) :
    poll C sizes (poll C sizes s e).2.1 (poll C sizes s e).2.2 = (.pending, (poll C sizes s e).2.1, (poll C sizes s e).2.2) := by
  unfold poll at h
  by_cases hm : s.msgPos > 0
  · rw [if_pos hm] at h; simp only [] at h; cases h
  · have hspec := readLoop_pending_spec C sizes (e.avail.length + 1) s e (Nat.lt_succ_self _)
    have hpoll : poll C sizes s e = (match (readLoop C sizes (e.avail.length + 1) s e).1 with
        | .pending => (.pending, (readLoop C sizes (e.avail.length + 1) s e).2.1, (readLoop C sizes (e.avail.length + 1) s e).2.2)
        | .err err => (.err err, (readLoop C sizes (e.avail.length + 1) s e).2.1, (readLoop C sizes (e.avail.length + 1) s e).2.2)
        | .done => (poll C sizes s e)) := by
      unfold poll
      rw [if_neg hm]
      generalize readLoop C sizes (e.avail.length + 1) s e = r
      obtain ⟨r1, r2, r3⟩ := r
      cases r1 <;> rfl
    rw [if_neg hm] at h
    generalize hr : readLoop C sizes (e.avail.length + 1) s e = r at h hspec hpoll
    obtain ⟨r1, s', e'⟩ := r
    simp only [] at h hspec hpoll
    cases r1 with
    | done => simp only [] at h; cases h
    | err x => simp only [] at h; cases h
    | pending =>
      obtain ⟨hav, hcl, hmp⟩ := hspec rfl
      simp only [] at hpoll
      rw [hpoll]
      simp only []
      have hm' : ¬ s'.msgPos > 0 := by rw [hmp]; exact hm
      unfold poll
      rw [if_neg hm', hav]
      simp only [List.length_nil, Nat.zero_add, readLoop, Nat.min_zero, if_true, hav, hcl]
      simp
end Rx
