import Zlink.Proofs.IdlLayoutWs
/-! Arbitrary inter-token layout, part 2: type expressions. `TyL t s` says that `s` is a text of the
    type `t`: the grammar of Varlink types with a gap allowed wherever two tokens meet inside
    parentheses, and comment lines (with arbitrary blanks) in front of the fields of an inline struct.
    `varlink_type` reads every such text back as exactly `t`. -/
namespace Idl
open SpecIdl

/-- the variants after the first, then the closing parenthesis: (gap `,` gap `v`)* gap `)` -/
inductive VarsL : List (In × List In) → In → Prop
  | done {g} : wsOnly g = true → VarsL [] (g ++ [41])
  | more {v vs g1 g2 s} : wsOnly g1 = true → wsOnly g2 = true → fieldNameOK v = true → VarsL vs s →
      VarsL ((v, []) :: vs) (g1 ++ 44 :: (g2 ++ (v ++ s)))

mutual
/-- `s` is a text of the type `t` -/
inductive TyL : Ty → In → Prop
  | bool : TyL .bool [98, 111, 111, 108]
  | int : TyL .int [105, 110, 116]
  | float : TyL .float [102, 108, 111, 97, 116]
  | string : TyL .string [115, 116, 114, 105, 110, 103]
  | object : TyL .object [111, 98, 106, 101, 99, 116]
  | optional {t s} : isOpt t = false → TyL t s → TyL (.optional t) (63 :: s)
  | array {t s} : TyL t s → TyL (.array t) (91 :: 93 :: s)
  | map {t s} : TyL t s → TyL (.map t) (([91, 115, 116, 114, 105, 110, 103, 93] : In) ++ s)
  | custom {n} : typeNameOK n = true → TyL (.custom n) n
  /-- `(` gap `v` … -/
  | enum {v vs s g0} : fieldNameOK v = true → wsOnly g0 = true → VarsL vs s →
      TyL (.enum ((v, []) :: vs)) (40 :: (g0 ++ (v ++ s)))
  /-- `(` gap `)` -/
  | struct0 {g} : wsOnly g = true → TyL (.struct []) (40 :: (g ++ [41]))
  /-- `(` gap field … -/
  | struct {f fs s1 s2 g0} : wsOnly g0 = true → FieldL f s1 → FieldsMoreL fs s2 →
      TyL (.struct (f :: fs)) (40 :: (g0 ++ (s1 ++ s2)))
/-- comment lines, `name` gap `:` gap type -/
inductive FieldL : Field → In → Prop
  | mk {n t cs sc st g1 g2} : CommentsL cs sc → fieldNameOK n = true → wsOnly g1 = true → wsOnly g2 = true →
      TyL t st → FieldL (n, t, cs) (sc ++ (n ++ (g1 ++ 58 :: (g2 ++ st))))
/-- the fields after the first, then the closing parenthesis: (gap `,` gap field)* gap `)` -/
inductive FieldsMoreL : List Field → In → Prop
  | done {g} : wsOnly g = true → FieldsMoreL [] (g ++ [41])
  | more {f fs g1 g2 s1 s2} : wsOnly g1 = true → wsOnly g2 = true → FieldL f s1 → FieldsMoreL fs s2 →
      FieldsMoreL (f :: fs) (g1 ++ 44 :: (g2 ++ (s1 ++ s2)))
end

/-! ### first byte, fuel -/

theorem TyL.head {t : Ty} {s : In} (h : TyL t s) :
    ∃ c tl, s = c :: tl ∧ (isAlpha c = true ∨ c = 63 ∨ c = 91 ∨ c = 40) ∧ (isOpt t = false → c ≠ 63) := by
  cases h with
  | bool => exact ⟨98, _, rfl, Or.inl (by decide), fun _ => by decide⟩
  | int => exact ⟨105, _, rfl, Or.inl (by decide), fun _ => by decide⟩
  | float => exact ⟨102, _, rfl, Or.inl (by decide), fun _ => by decide⟩
  | string => exact ⟨115, _, rfl, Or.inl (by decide), fun _ => by decide⟩
  | object => exact ⟨111, _, rfl, Or.inl (by decide), fun _ => by decide⟩
  | optional _ _ => exact ⟨63, _, rfl, Or.inr (Or.inl rfl), fun h => by simp [isOpt] at h⟩
  | array _ => exact ⟨91, _, rfl, Or.inr (Or.inr (Or.inl rfl)), fun _ => by decide⟩
  | map _ => exact ⟨91, _, rfl, Or.inr (Or.inr (Or.inl rfl)), fun _ => by decide⟩
  | custom hn =>
    obtain ⟨c, tl, e, hc⟩ := typeNameOK_head hn
    exact ⟨c, tl, e, Or.inl (by bytes), fun _ => by bytes⟩
  | enum _ _ _ => exact ⟨40, _, rfl, Or.inr (Or.inr (Or.inr rfl)), fun _ => by decide⟩
  | struct0 _ => exact ⟨40, _, rfl, Or.inr (Or.inr (Or.inr rfl)), fun _ => by decide⟩
  | struct _ _ _ => exact ⟨40, _, rfl, Or.inr (Or.inr (Or.inr rfl)), fun _ => by decide⟩

theorem TyL.plain {t : Ty} {s : In} (h : TyL t s) (z : In) : plainHead (s ++ z) = true := by
  obtain ⟨c, tl, e, hc, _⟩ := h.head
  rw [e]
  apply plainHead_cons
  rcases hc with hc | hc | hc | hc
  · simp only [Bool.and_eq_true, Bool.not_eq_true', bne_iff_ne, ne_eq]; exact ⟨by bytes, by bytes⟩
  · subst hc; decide
  · subst hc; decide
  · subst hc; decide

mutual
theorem M_leL : ∀ {t : Ty} {s : In}, TyL t s → M t ≤ 8 * s.length + 1
  | _, _, .bool => by simp [M]
  | _, _, .int => by simp [M]
  | _, _, .float => by simp [M]
  | _, _, .string => by simp [M]
  | _, _, .object => by simp [M]
  | _, _, .custom _ => by simp [M]
  | _, _, .optional _ h => by have := M_leL h; simp [M]; omega
  | _, _, .array h => by have := M_leL h; simp [M]; omega
  | _, _, .map h => by have := M_leL h; simp [M]; omega
  | _, _, .enum _ _ _ => by simp [M]; omega
  | _, _, .struct0 _ => by simp [M, MF]; omega
  | _, _, .struct _ (.mk _ _ _ _ ht) hm => by
      have h1 := M_leL ht; have h2 := MF_leM hm
      simp only [M, MF, List.length_cons, List.length_append] at *; omega
theorem MF_leM : ∀ {fs : List Field} {s : In}, FieldsMoreL fs s → MF fs ≤ 8 * s.length + 1
  | _, _, .done _ => by simp [MF]
  | _, _, .more _ _ (.mk _ _ _ _ ht) hm => by
      have h1 := M_leL ht; have h2 := MF_leM hm
      simp only [MF, List.length_cons, List.length_append] at *; omega
end

theorem tyFuel_okL {t : Ty} {s : In} (h : TyL t s) (z : In) : M t < tyFuel (s ++ z) := by
  have := M_leL h
  simp only [tyFuel, List.length_append]
  omega

theorem stopTy_VarsL {vs : List (In × List In)} {s : In} (h : VarsL vs s) (z : In) : ∃ g r, s ++ z = g ++ r ∧ wsOnly g = true ∧ stopTy r = true := by
  cases h with
  | done hg => exact ⟨_, 41 :: z, by simp, hg, rfl⟩
  | @more v vs g1 g2 s' h1 _ _ _ => exact ⟨g1, 44 :: (g2 ++ (v ++ (s' ++ z))), by simp, h1, rfl⟩

theorem stopTy_FieldsMoreL {fs : List Field} {s : In} (h : FieldsMoreL fs s) (z : In) :
    ∃ g r, s ++ z = g ++ r ∧ wsOnly g = true ∧ stopTy r = true := by
  cases h with
  | done hg => exact ⟨_, 41 :: z, by simp, hg, rfl⟩
  | @more f fs g1 g2 s1 s2 h1 _ _ _ => exact ⟨g1, 44 :: (g2 ++ (s1 ++ (s2 ++ z))), by simp, h1, rfl⟩

/-! ### what may follow a name or a type: a gap, then `,` `)` or `:` -/

def punctHead : In → Bool
  | [] => true
  | c :: _ => isMultispace c || c == 44 || c == 41 || c == 58

theorem punctHead_stopsName {r : In} (h : punctHead r = true) : stopsName r = true := by
  cases r with
  | nil => rfl
  | cons c t =>
    simp only [punctHead, Bool.or_eq_true, beq_iff_eq] at h
    have h1 : isAlnum c = false := by
      rcases h with ((h | h) | h) | h
      · bytes
      · subst h; decide
      · subst h; decide
      · subst h; decide
    have h2 : (c == 95) = false := by
      rcases h with ((h | h) | h) | h
      · simp only [beq_eq_false_iff_ne, ne_eq]; bytes
      · subst h; decide
      · subst h; decide
      · subst h; decide
    simp [stopsName, h1, h2]

theorem punctHead_notAlnum {r : In} (h : punctHead r = true) : ∀ c, r.head? = some c → isAlnum c = false := by
  cases r with
  | nil => simp
  | cons c t =>
    intro d hd
    simp at hd; subst hd
    simp only [punctHead, Bool.or_eq_true, beq_iff_eq] at h
    rcases h with ((h | h) | h) | h
    · bytes
    · subst h; decide
    · subst h; decide
    · subst h; decide

/-- a gap, then `,` or `)` -/
def stopTyG (rest : In) : Prop := ∃ g r, rest = g ++ r ∧ wsOnly g = true ∧ stopTy r = true

theorem stopTyG.punct {rest : In} (h : stopTyG rest) : punctHead rest = true := by
  obtain ⟨g, r, rfl, hg, hr⟩ := h
  cases g with
  | nil =>
    cases r with
    | nil => simp [stopTy] at hr
    | cons c t =>
      simp only [stopTy, Bool.or_eq_true, beq_iff_eq] at hr
      simp only [List.nil_append, punctHead, Bool.or_eq_true, beq_iff_eq]
      rcases hr with h | h
      · left; left; right; exact h
      · left; right; exact h
  | cons a t =>
    simp only [wsOnly, List.all_cons, Bool.and_eq_true] at hg
    simp [punctHead, hg.1]

theorem stopTyG.wsF {rest : In} (h : stopTyG rest) : ∃ r, wsF rest = r ∧ stopTy r = true ∧ whitespaceOnly rest = r := by
  obtain ⟨g, r, rfl, hg, hr⟩ := h
  exact ⟨r, wsF_gap g r hg (stopTy_plain hr), hr, whitespaceOnly_gap g r hg (plainHead_nonWs (stopTy_plain hr))⟩

theorem stopTy.toG {r : In} (h : stopTy r = true) : stopTyG r := ⟨[], r, rfl, rfl, h⟩

theorem gap_punct (g : In) (c : Byte) (t : In) (hg : wsOnly g = true) (hc : (c == 44 || c == 41 || c == 58) = true) :
    punctHead (g ++ c :: t) = true := by
  cases g with
  | nil =>
    simp only [List.nil_append, punctHead, Bool.or_eq_true, beq_iff_eq] at hc ⊢
    rcases hc with (h | h) | h
    · left; left; right; exact h
    · left; right; exact h
    · right; exact h
  | cons a t' =>
    simp only [wsOnly, List.all_cons, Bool.and_eq_true] at hg
    simp [punctHead, hg.1]

/-! ### inline enums -/

theorem enum_moreL {vs : List (In × List In)} {s : In} (h : VarsL vs s) : ∀ (k : Nat) (rest : In) (acc : List In),
    vs.length < k →
    ∃ g, wsOnly g = true ∧ enumType.more k (s ++ rest) acc = (acc ++ vs.map (·.1), g ++ 41 :: rest) := by
  induction h with
  | @done g hg =>
    intro k rest acc hk
    obtain ⟨k, rfl⟩ : ∃ k', k = k' + 1 := ⟨k - 1, by omega⟩
    refine ⟨g, hg, ?_⟩
    have e : g ++ [41] ++ rest = g ++ 41 :: rest := by simp
    rw [e, enumType.more, wsF_gap g _ hg (plainHead_cons 41 rest (by decide)), litB_cons_ne 44 41 [] rest (by decide)]
    simp
  | @more v vs g1 g2 s h1 h2 hv _ ih =>
    intro k rest acc hk
    obtain ⟨k, rfl⟩ : ∃ k', k = k' + 1 := ⟨k - 1, by omega⟩
    obtain ⟨g, hg, hrec⟩ := ih k rest (acc ++ [v]) (by simp at hk; omega)
    refine ⟨g, hg, ?_⟩
    have e : g1 ++ 44 :: (g2 ++ (v ++ s)) ++ rest = g1 ++ 44 :: (g2 ++ (v ++ (s ++ rest))) := by simp
    rw [e, enumType.more, wsF_gap g1 _ h1 (plainHead_cons 44 _ (by decide)), litB1 44 _]
    simp only []
    rw [wsF_gap g2 _ h2 (alphaHead_plain (alphaHead_append _ (fieldNameOK_alphaHead hv)))]
    have hp : punctHead (s ++ rest) = true := by
      rename_i hvs
      cases hvs with
      | done hg' => rw [List.append_assoc]; exact gap_punct _ 41 _ hg' (by decide)
      | more h1' _ _ _ => rw [List.append_assoc]; exact gap_punct _ 44 _ h1' (by decide)
    rw [fieldName_complete v _ hv (punctHead_stopsName hp)]
    simp only []
    rw [hrec]
    simp

theorem VarsL.punct {vs : List (In × List In)} {s : In} (h : VarsL vs s) (rest : In) : punctHead (s ++ rest) = true := by
  cases h with
  | done hg' => rw [List.append_assoc]; exact gap_punct _ 41 _ hg' (by decide)
  | more h1' _ _ _ => rw [List.append_assoc]; exact gap_punct _ 44 _ h1' (by decide)

theorem VarsL.length_le {vs : List (In × List In)} {s : In} (h : VarsL vs s) : vs.length ≤ s.length := by
  induction h with
  | done _ => simp
  | more _ _ _ _ ih => simp only [List.length_cons, List.length_append]; omega

theorem VarsL.noComments {vs : List (In × List In)} {s : In} (h : VarsL vs s) :
    (vs.map (·.1)).map (fun x => (x, ([] : List In))) = vs := by
  induction h with
  | done _ => rfl
  | more _ _ _ _ ih => simp only [List.map_cons, ih]

/-- what follows the first variant: after the optional gap comes `,` or `)`, never `:` -/
theorem VarsL.wsF_no_colon {vs : List (In × List In)} {s : In} (h : VarsL vs s) (rest : In) :
    litB [58] (wsF (s ++ rest)) = .err (wsF (s ++ rest)) := by
  cases h with
  | @done g hg =>
    have e : g ++ [41] ++ rest = g ++ 41 :: rest := by simp
    rw [e, wsF_gap g _ hg (plainHead_cons 41 rest (by decide))]
    exact litB_cons_ne 58 41 [] rest (by decide)
  | @more v vs g1 g2 s' h1 _ _ _ =>
    have e : g1 ++ 44 :: (g2 ++ (v ++ s')) ++ rest = g1 ++ 44 :: (g2 ++ (v ++ (s' ++ rest))) := by simp
    rw [e, wsF_gap g1 _ h1 (plainHead_cons 44 _ (by decide))]
    exact litB_cons_ne 58 44 [] _ (by decide)

theorem enumTypeL_ok {v : In} {vs : List (In × List In)} {s g0 : In} (hv : fieldNameOK v = true)
    (hg0 : wsOnly g0 = true) (hvs : VarsL vs s) (f : Nat) (rest : In) :
    enumType (f + 1) (40 :: (g0 ++ (v ++ s)) ++ rest) = .ok (.enum ((v, []) :: vs)) rest := by
  have e : 40 :: (g0 ++ (v ++ s)) ++ rest = 40 :: (g0 ++ (v ++ (s ++ rest))) := by simp
  rw [e, enumType, litB1 40 _]
  simp only []
  rw [wsF_gap g0 _ hg0 (alphaHead_plain (alphaHead_append _ (fieldNameOK_alphaHead hv)))]
  rw [fieldName_complete v _ hv (punctHead_stopsName (hvs.punct rest))]
  simp only []
  obtain ⟨g, hg, hm⟩ := enum_moreL hvs ((s ++ rest).length + 1) rest [v]
    (by have := hvs.length_le; simp only [List.length_append]; omega)
  rw [hm]
  simp only []
  rw [wsF_gap g _ hg (plainHead_cons 41 rest (by decide)), litB1 41 rest]
  simp only [List.singleton_append, List.map_cons, hvs.noComments]

theorem structType_enum_errL {v : In} {vs : List (In × List In)} {s g0 : In} (hv : fieldNameOK v = true)
    (hg0 : wsOnly g0 = true) (hvs : VarsL vs s) (f : Nat) (rest : In) :
    ∃ e, structType (f + 3) (40 :: (g0 ++ (v ++ s)) ++ rest) = .err e := by
  have e : 40 :: (g0 ++ (v ++ s)) ++ rest = 40 :: (g0 ++ (v ++ (s ++ rest))) := by simp
  have hp : plainHead (v ++ (s ++ rest)) = true := alphaHead_plain (alphaHead_append _ (fieldNameOK_alphaHead hv))
  rw [e, structType, litB1 40 _]
  simp only []
  rw [whitespaceOnly_gap g0 _ hg0 (plainHead_nonWs hp), fieldsSep, field, pcF_plain hp]
  simp only []
  rw [fieldName_complete v _ hv (punctHead_stopsName (hvs.punct rest))]
  simp only []
  rw [hvs.wsF_no_colon rest]
  simp only []
  rw [wsF_plain hp]
  have hl4 : litB [41] (v ++ (s ++ rest)) = .err (v ++ (s ++ rest)) := by
    apply litB_head_ne
    cases v with
    | nil => simp [fieldNameOK] at hv
    | cons c t =>
      simp only [fieldNameOK, Bool.and_eq_true] at hv
      have hc := hv.1
      simp only [List.cons_append, List.head?_cons, ne_eq, Option.some.injEq]
      bytes
  rw [hl4]
  exact ⟨_, rfl⟩

/-! ### fields of an inline struct -/

/-- the induction hypothesis on types, for all fuels below `F` -/
def TyIHL (F : Nat) : Prop :=
  ∀ m, m < F → ∀ (t : Ty) (s rest : In), TyL t s → M t ≤ m → stopTyG rest →
    varlinkType (m + 1) (s ++ rest) = .ok t rest

theorem FieldL.nonWs {f : Field} {s : In} (h : FieldL f s) (z : In) : nonWs (s ++ z) = true := by
  cases h with
  | @mk n t cs sc st g1 g2 hc hn _ _ _ =>
    have e : sc ++ (n ++ (g1 ++ 58 :: (g2 ++ st))) ++ z = sc ++ (n ++ (g1 ++ 58 :: (g2 ++ (st ++ z)))) := by simp
    rw [e]
    exact hc.nonWs_append _ (plainHead_nonWs (alphaHead_plain (alphaHead_append _ (fieldNameOK_alphaHead hn))))

theorem FieldsMoreL.stop {fs : List Field} {s : In} (h : FieldsMoreL fs s) (z : In) : stopTyG (s ++ z) :=
  stopTy_FieldsMoreL h z

theorem field_okL {F : Nat} (ih : TyIHL F) {f : Field} {s : In} (h : FieldL f s) (m : Nat) (z : In)
    (hm : M f.2.1 ≤ m) (hF : m < F) (hz : stopTyG z) :
    field (m + 2) (s ++ z) = .ok f z := by
  cases h with
  | @mk n t cs sc st g1 g2 hc hn h1 h2 ht =>
    have e : sc ++ (n ++ (g1 ++ 58 :: (g2 ++ st))) ++ z = sc ++ (n ++ (g1 ++ 58 :: (g2 ++ (st ++ z)))) := by simp
    have ha : alphaHead (n ++ (g1 ++ 58 :: (g2 ++ (st ++ z)))) = true := alphaHead_append _ (fieldNameOK_alphaHead hn)
    rw [e, field, pcF_commentsL hc _ (alphaHead_plain ha) (alphaHead_ne_nil ha)]
    simp only []
    rw [fieldName_complete n _ hn (punctHead_stopsName (gap_punct g1 58 _ h1 (by decide)))]
    simp only []
    rw [wsF_gap g1 _ h1 (plainHead_cons 58 _ (by decide)), litB1 58 _]
    simp only []
    rw [wsF_gap g2 _ h2 (ht.plain z), ih m hF t st z ht hm hz]

theorem fieldsMoreL_ok {F : Nat} (ih : TyIHL F) : ∀ (fs : List Field) (s : In), FieldsMoreL fs s →
    ∀ (k : Nat) (rest : In) (acc : List Field), MF fs ≤ k → k ≤ F + 1 →
    ∃ g, wsOnly g = true ∧ fieldsMore k (s ++ rest) acc = .ok (acc ++ fs) (g ++ 41 :: rest) := by
  intro fs
  induction fs with
  | nil =>
    intro s h k rest acc hk _
    cases h with
    | @done g hg =>
      obtain ⟨k, rfl⟩ : ∃ k', k = k' + 1 := ⟨k - 1, by simp [MF] at hk; omega⟩
      refine ⟨g, hg, ?_⟩
      have e : g ++ [41] ++ rest = g ++ 41 :: rest := by simp
      rw [e, fieldsMore]
      simp only []
      rw [wsF_gap g _ hg (plainHead_cons 41 rest (by decide)), litB_cons_ne 44 41 [] rest (by decide)]
      simp
  | cons f fs ihl =>
    intro s h k rest acc hk hkF
    cases h with
    | @more _ _ g1 g2 s1 s2 h1 h2 hf hm =>
      obtain ⟨n, t, cs⟩ := f
      simp only [MF] at hk
      have hMF : 1 ≤ MF fs := by cases fs <;> simp [MF] <;> omega
      obtain ⟨m, rfl⟩ : ∃ m, k = m + 3 := ⟨k - 3, by omega⟩
      obtain ⟨g, hg, hrec⟩ := ihl s2 hm (m + 2) rest (acc ++ [(n, t, cs)]) (by omega) (by omega)
      refine ⟨g, hg, ?_⟩
      have e : g1 ++ 44 :: (g2 ++ (s1 ++ s2)) ++ rest = g1 ++ 44 :: (g2 ++ (s1 ++ (s2 ++ rest))) := by simp
      rw [e, fieldsMore]
      simp only []
      rw [wsF_gap g1 _ h1 (plainHead_cons 44 _ (by decide)), litB1 44 _]
      simp only []
      rw [whitespaceOnly_gap g2 _ h2 (hf.nonWs _)]
      rw [field_okL ih hf m _ (by simp only []; omega) (by omega) (hm.stop rest)]
      simp only []
      rw [hrec]
      simp

theorem structTypeL_ok {F : Nat} (ih : TyIHL F) {f : Field} {fs : List Field} {s1 s2 g0 : In}
    (hg0 : wsOnly g0 = true) (hf : FieldL f s1) (hm : FieldsMoreL fs s2) (k : Nat) (rest : In)
    (hk : MF (f :: fs) + 2 ≤ k) (hkF : k ≤ F + 1) :
    structType (k + 1) (40 :: (g0 ++ (s1 ++ s2)) ++ rest) = .ok (.struct (f :: fs)) rest := by
  obtain ⟨n, t, cs⟩ := f
  simp only [MF] at hk
  have hMF : 1 ≤ MF fs := by cases fs <;> simp [MF] <;> omega
  obtain ⟨m, rfl⟩ : ∃ m, k = m + 4 := ⟨k - 4, by omega⟩
  have e : 40 :: (g0 ++ (s1 ++ s2)) ++ rest = 40 :: (g0 ++ (s1 ++ (s2 ++ rest))) := by simp
  rw [e, structType, litB1 40 _]
  simp only []
  rw [whitespaceOnly_gap g0 _ hg0 (hf.nonWs _), fieldsSep]
  rw [field_okL ih hf (m + 1) _ (by simp only []; omega) (by omega) (hm.stop rest)]
  simp only []
  obtain ⟨g, hg, hrec⟩ := fieldsMoreL_ok ih fs s2 hm (m + 3) rest [(n, t, cs)] (by omega) (by omega)
  rw [hrec]
  simp only []
  rw [wsF_gap g _ hg (plainHead_cons 41 rest (by decide)), litB1 41 rest]
  simp

theorem structType0L_ok {g : In} (hg : wsOnly g = true) (k : Nat) (rest : In) :
    structType (k + 3) (40 :: (g ++ [41]) ++ rest) = .ok (.struct []) rest := by
  have e : 40 :: (g ++ [41]) ++ rest = 40 :: (g ++ 41 :: rest) := by simp
  have hp := plainHead_cons 41 rest (by decide)
  rw [e, structType, litB1 40 _]
  simp only []
  rw [whitespaceOnly_gap g _ hg (plainHead_nonWs hp), fieldsSep, field, pcF_plain hp]
  simp only []
  have hfn : fieldName (41 :: rest) = .err (41 :: rest) := by simp [fieldName, isAlpha]
  rw [hfn]
  simp only []
  rw [wsF_plain hp, litB1 41 rest]

/-! ### the induction -/

theorem tyIHL_step (F : Nat) (ih : TyIHL F) (t : Ty) (s rest : In) (ht : TyL t s)
    (hm : M t ≤ F) (hs : stopTyG rest) : varlinkType (F + 1) (s ++ rest) = .ok t rest := by
  have prim : ∀ (p : In) (ty : Ty), alphaHead p = true → primitive (p ++ rest) = .ok ty rest → 1 ≤ F →
      varlinkType (F + 1) (p ++ rest) = .ok ty rest := by
    intro p ty hp hprim h1
    obtain ⟨f, rfl⟩ : ∃ f, F = f + 1 := ⟨F - 1, by omega⟩
    have ha := alphaHead_append rest hp
    have h63 : (p ++ rest).head? ≠ some 63 := by
      cases p with
      | nil => simp [alphaHead] at hp
      | cons c tl => simp only [alphaHead] at hp; simp only [List.cons_append, List.head?_cons, ne_eq, Option.some.injEq]; bytes
    rw [varlinkType_not_opt _ _ h63, nonOptional_alpha _ _ ha, elementType_prim f _ _ _ hprim]
  cases ht with
  | bool => exact prim _ _ (by decide) (primitive_ok_bool rest) (by simpa [M] using hm)
  | int => exact prim _ _ (by decide) (primitive_ok_int rest) (by simpa [M] using hm)
  | float => exact prim _ _ (by decide) (primitive_ok_float rest) (by simpa [M] using hm)
  | string => exact prim _ _ (by decide) (primitive_ok_string rest) (by simpa [M] using hm)
  | object => exact prim _ _ (by decide) (primitive_ok_object rest) (by simpa [M] using hm)
  | custom hn =>
    obtain ⟨c, tl, e, hc⟩ := typeNameOK_head hn
    obtain ⟨f, rfl⟩ : ∃ f, F = f + 1 := ⟨F - 1, by simp [M] at hm; omega⟩
    have ha : alphaHead (s ++ rest) = true := by rw [e]; simp only [List.cons_append, alphaHead]; bytes
    have h63 : (s ++ rest).head? ≠ some 63 := by
      rw [e]; simp only [List.cons_append, List.head?_cons, ne_eq, Option.some.injEq]; bytes
    rw [varlinkType_not_opt _ _ h63, nonOptional_alpha _ _ ha, elementType]
    have hp : primitive (s ++ rest) = .err (s ++ rest) := by
      rw [e]; exact primitive_not_lower c _ ⟨by bytes, by bytes, by bytes, by bytes, by bytes⟩
    rw [hp]
    simp only []
    rw [typeName_complete s rest hn (punctHead_notAlnum hs.punct)]
  | @optional t' s' hno ht' =>
    obtain ⟨f, rfl⟩ : ∃ f, F = f + 1 := ⟨F - 1, by simp [M] at hm; omega⟩
    have hm' : M t' ≤ f := by simp [M] at hm; omega
    obtain ⟨c, tl, e, _, h63⟩ := ht'.head
    have h63' : (s' ++ rest).head? ≠ some 63 := by
      rw [e]; simpa using h63 hno
    have := ih f (by omega) t' s' rest ht' hm' hs
    rw [varlinkType_not_opt _ _ h63'] at this
    exact varlinkType_opt f _ _ _ this
  | @array t' s' ht' =>
    obtain ⟨f, rfl⟩ : ∃ f, F = f + 2 := ⟨F - 2, by simp [M] at hm; omega⟩
    have hm' : M t' ≤ f := by simp [M] at hm; omega
    have e : 91 :: 93 :: s' ++ rest = ([91, 93] : In) ++ (s' ++ rest) := by simp
    rw [e, varlinkType_not_opt _ _ (by simp)]
    unfold nonOptional
    rw [arrayType, litB_append [91, 93] _]
    simp only []
    rw [ih f (by omega) t' s' rest ht' hm' hs]
  | @map t' s' ht' =>
    obtain ⟨f, rfl⟩ : ∃ f, F = f + 2 := ⟨F - 2, by simp [M] at hm; omega⟩
    have hm' : M t' ≤ f := by simp [M] at hm; omega
    have e : ([91, 115, 116, 114, 105, 110, 103, 93] : In) ++ s' ++ rest
        = ([91, 115, 116, 114, 105, 110, 103, 93] : In) ++ (s' ++ rest) := by simp
    rw [e, varlinkType_not_opt _ _ (by simp)]
    unfold nonOptional
    have ha : arrayType (f + 2) (([91, 115, 116, 114, 105, 110, 103, 93] : In) ++ (s' ++ rest))
        = .err (([91, 115, 116, 114, 105, 110, 103, 93] : In) ++ (s' ++ rest)) := by
      rw [arrayType]
      have : litB [91, 93] (([91, 115, 116, 114, 105, 110, 103, 93] : In) ++ (s' ++ rest))
          = .err (([91, 115, 116, 114, 105, 110, 103, 93] : In) ++ (s' ++ rest)) := by
        simp [litB, List.isPrefixOf]
      rw [this]
    rw [ha]
    simp only []
    rw [mapType, litB_append [91, 115, 116, 114, 105, 110, 103, 93] _]
    simp only []
    rw [ih f (by omega) t' s' rest ht' hm' hs]
  | @enum v vs s' g0 hv hg0 hvs =>
    obtain ⟨f, rfl⟩ : ∃ f, F = f + 5 := ⟨F - 5, by simp [M] at hm; omega⟩
    have e : 40 :: (g0 ++ (v ++ s')) ++ rest = 40 :: ((g0 ++ (v ++ s')) ++ rest) := by simp
    rw [e, varlinkType_not_opt _ _ (by simp), nonOptional_paren, elementType_paren, inlineType]
    obtain ⟨er, her⟩ := structType_enum_errL hv hg0 hvs f rest
    rw [← e, her]
    simp only []
    rw [enumTypeL_ok hv hg0 hvs (f + 2) rest]
  | @struct0 g hg =>
    obtain ⟨f, rfl⟩ : ∃ f, F = f + 5 := ⟨F - 5, by simp [M] at hm; omega⟩
    have e : 40 :: (g ++ [41]) ++ rest = 40 :: ((g ++ [41]) ++ rest) := by simp
    rw [e, varlinkType_not_opt _ _ (by simp), nonOptional_paren, elementType_paren, inlineType]
    rw [← e, structType0L_ok hg f rest]
  | @struct f' fs s1 s2 g0 hg0 hf hmr =>
    obtain ⟨f, rfl⟩ : ∃ f, F = f + 5 := ⟨F - 5, by simp [M] at hm; omega⟩
    have hm' : MF (f' :: fs) ≤ f := by simp [M] at hm; omega
    have e : 40 :: (g0 ++ (s1 ++ s2)) ++ rest = 40 :: ((g0 ++ (s1 ++ s2)) ++ rest) := by simp
    rw [e, varlinkType_not_opt _ _ (by simp), nonOptional_paren, elementType_paren, inlineType]
    rw [← e, structTypeL_ok ih hg0 hf hmr (f + 2) rest (by omega) (by omega)]

/-- **Types are read back from every layout**, for every fuel that covers the type -/
theorem tyIHL_all : ∀ F, TyIHL F := by
  intro F
  induction F with
  | zero => intro m hm; omega
  | succ F ih =>
    intro m hm t s rest ht hM hs
    by_cases h : m < F
    · exact ih m h t s rest ht hM hs
    · have : m = F := by omega
      subst this
      exact tyIHL_step m ih t s rest ht hM hs

theorem varlinkType_tyFuelL {t : Ty} {s : In} (ht : TyL t s) (z : In) (hz : stopTyG z) :
    varlinkType (tyFuel (s ++ z)) (s ++ z) = .ok t z := by
  have hf := tyFuel_okL ht z
  obtain ⟨m, hm⟩ : ∃ m, tyFuel (s ++ z) = m + 1 := ⟨tyFuel (s ++ z) - 1, by omega⟩
  rw [hm]
  exact tyIHL_all (m + 1) m (by omega) t s z ht (by omega) hz

end Idl
