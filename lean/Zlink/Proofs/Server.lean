import Zlink.Model.Server
import Zlink.Proofs.Rx
namespace Srv
open Rx

/-! ### list lemmas -/

theorem mem_dropLast {α} (l : List α) (x : α) (h : x ∈ l.dropLast) :
    ∃ j, j + 1 < l.length ∧ l[j]? = some x := by
  obtain ⟨j, hj, hx⟩ := List.mem_iff_getElem.mp h
  simp at hj
  refine ⟨j, by omega, ?_⟩
  rw [List.getElem_dropLast] at hx
  rw [List.getElem?_eq_getElem (by omega), hx]

/-- every element that survives `swap_remove i` sat at a position other than `i` -/
theorem mem_swapRemove {α} (l : List α) (i : Nat) (x : α) (h : x ∈ swapRemove l i) :
    ∃ j, j ≠ i ∧ l[j]? = some x := by
  unfold swapRemove at h
  cases hl : l.getLast? with
  | none =>
    rw [hl] at h
    have : l = [] := List.getLast?_eq_none_iff.mp hl
    subst this; simp at h
  | some last =>
    rw [hl] at h
    simp only [] at h
    by_cases hi : i + 1 = l.length
    · rw [if_pos hi] at h
      obtain ⟨j, hj, hx⟩ := mem_dropLast l x h
      exact ⟨j, by omega, hx⟩
    · rw [if_neg hi] at h
      obtain ⟨j, hj, hx⟩ := mem_dropLast _ x h
      simp at hj
      by_cases hji : j = i
      · -- position i now holds the former last element
        subst hji
        rw [List.getElem?_set_self (by omega)] at hx
        have hx' : last = x := by simpa using hx
        subst hx'
        refine ⟨l.length - 1, by omega, ?_⟩
        rw [List.getLast?_eq_getElem?] at hl
        exact hl
      · rw [List.getElem?_set_ne (by omega)] at hx
        exact ⟨j, hji, hx⟩

end Srv

namespace Srv
open Rx

/-! ### invariants -/

/-- static facts about a well-behaved connection's ghost script -/
structure Static (C : Consts) (c : Conn) : Prop where
  ok : ∀ f ∈ c.frames, FrameOK f
  small : (enc c.frames).length < C.max
  len : c.descs.length = c.frames.length
  nofail : c.wfail = none

/-- bookkeeping between delivered frames, remaining calls and output; `pend` = items of an open
    reply stream that have not been written yet -/
structure Book (c : Conn) (pend : List (Nat × Option Bool)) : Prop where
  k_le : c.k ≤ c.frames.length
  calls : c.calls = c.descs.drop c.k
  out : c.out ++ pend.map tokOf = expectedOut (c.descs.take c.k)

/-- a live, well-behaved connection -/
structure CInv (C : Consts) (c : Conn) (pend : List (Nat × Option Bool)) : Prop where
  st : Static C c
  bk : Book c pend
  rx : Inv C c.frames c.rx c.net c.fut (c.frames.take c.k)
  cl : c.net.closed = true → c.fut = []

/-- the well-behaved connection that just won `get_next_call`, before the loop has consumed its outcome -/
structure WInv (C : Consts) (o : Out) (c : Conn) : Prop where
  st : Static C c
  bk : Book c []
  frame : ∀ f, o = .frame f → ∃ R', c.frames = c.frames.take c.k ++ f :: R' ∧
            Inv C c.frames c.rx c.net c.fut (c.frames.take c.k ++ [f]) ∧ (c.net.closed = true → c.fut = [])

/-- Obligations exist for well-behaved (`good`) connections only: nothing is assumed, and nothing
    needs to be shown, about a connection whose client misbehaves or whose transport fails. -/
def CInvG (C : Consts) (c : Conn) (pend : List (Nat × Option Bool)) : Prop := c.good = true → CInv C c pend
def DeadG (C : Consts) (c : Conn) : Prop := c.good = true → Static C c ∧ Book c []

structure GInv (C : Consts) (s : S) : Prop where
  conns : ∀ (j : Nat) c, s.conns[j]? = some c → CInvG C c []
  listen : ∀ c ∈ s.listenQ, CInvG C c []
  streams : ∀ (j : Nat) p, s.streams[j]? = some p → CInvG C p.2 p.1
  dead : ∀ c ∈ s.dead, DeadG C c

theorem Static.transfer {C : Consts} {c c' : Conn} (h : Static C c) (hf : c'.frames = c.frames)
    (hd : c'.descs = c.descs) (hw : c'.wfail = c.wfail) : Static C c' :=
  ⟨by rw [hf]; exact h.ok, by rw [hf]; exact h.small, by rw [hf, hd]; exact h.len, by rw [hw]; exact h.nofail⟩

theorem Book.transfer {c c' : Conn} {p : List (Nat × Option Bool)} (h : Book c p) (hk : c'.k = c.k)
    (hf : c'.frames = c.frames) (hd : c'.descs = c.descs) (hc : c'.calls = c.calls) (ho : c'.out = c.out) :
    Book c' p :=
  ⟨by rw [hk, hf]; exact h.k_le, by rw [hc, hd, hk]; exact h.calls, by rw [ho, hd, hk]; exact h.out⟩

theorem take_succ_of_split {α} (l : List α) (k : Nat) (f : α) (R : List α) (h : l = l.take k ++ f :: R) (hk : k ≤ l.length) :
    l.take (k+1) = l.take k ++ [f] := by
  have hlen : (l.take k).length = k := by simp; omega
  have h1 : l.take (k+1) = (l.take k ++ f :: R).take (k+1) := by rw [← h]
  rw [h1, List.take_append, hlen]
  have : k + 1 - k = 1 := by omega
  rw [this, List.take_of_length_le (by omega)]
  simp

/-- `scanCalls` preserves every polled-but-pending connection's invariant and hands back a winner
    that (if well-behaved) satisfies `WInv`. -/
theorem scan_spec (C : Consts) (hstep : 0 < C.step) (sizes : Nat → Nat) (n start : Nat) :
    ∀ (i : Nat) (cs : List Conn), (∀ (j : Nat) c, cs[j]? = some c → CInvG C c []) →
      match (scanCalls C sizes n start i cs).2 with
      | none => ∀ (j : Nat) c, (scanCalls C sizes n start i cs).1[j]? = some c → CInvG C c []
      | some (idx, o, cw) =>
          (scanCalls C sizes n start i cs).1[idx]? = some cw ∧
          (∀ (j : Nat) c, (scanCalls C sizes n start i cs).1[j]? = some c → j ≠ idx → CInvG C c []) ∧
          o ≠ .pending ∧ (cw.good = true → WInv C o cw) := by
  intro i
  induction i with
  | zero => intro cs h; simpa [scanCalls] using h
  | succ i ih =>
    intro cs h
    simp only [scanCalls]
    generalize hidx : (start % n + (n - (i + 1))) % n = idx
    cases hc : cs[idx]? with
    | none => simpa using h
    | some c =>
      simp only []
      have hlt : idx < cs.length := by
        rcases Nat.lt_or_ge idx cs.length with h1 | h1
        · exact h1
        · rw [List.getElem?_eq_none h1] at hc; cases hc
      have hothers : ∀ (c' : Conn) (j : Nat) (x : Conn), (cs.set idx c')[j]? = some x → j ≠ idx → CInvG C x [] := by
        intro c' j x hx hj
        rw [List.getElem?_set_ne (Ne.symm hj)] at hx
        exact h j x hx
      by_cases hgood : c.good = true
      · have hinv := h idx c hc hgood
        rcases poll_spec C hstep sizes c.frames hinv.st.ok hinv.st.small c.rx c.net c.fut (c.frames.take c.k) hinv.rx with
          ⟨s', e', h1, h2, h3, h4, _, _⟩ | ⟨s', e', f, R', h1, h2, h3, h4⟩ | ⟨s', e', h1, h2, _⟩
        · -- pending: the polled connection keeps its invariant; continue scanning
          rw [h1]
          simp only []
          apply ih
          intro j x hx
          by_cases hj : j = idx
          · subst hj
            rw [List.getElem?_set_self hlt] at hx
            cases hx
            intro _
            exact ⟨hinv.st.transfer rfl rfl rfl, hinv.bk.transfer rfl rfl rfl rfl rfl, h2, by intro hc'; exact hinv.cl (h3 ▸ hc')⟩
          · exact hothers _ j x hx hj
        · -- a frame: winner
          rw [h1]
          simp only []
          refine ⟨List.getElem?_set_self hlt, hothers _, by simp, ?_⟩
          intro _
          refine ⟨hinv.st.transfer rfl rfl rfl, hinv.bk.transfer rfl rfl rfl rfl rfl, ?_⟩
          intro g hg
          cases hg
          exact ⟨R', h2, h3, by intro hc'; exact hinv.cl (h4 ▸ hc')⟩
        · -- end of stream / error: winner that will be dropped
          rw [h1]
          simp only []
          refine ⟨List.getElem?_set_self hlt, hothers _, by simp, ?_⟩
          intro _
          exact ⟨hinv.st.transfer rfl rfl rfl, hinv.bk.transfer rfl rfl rfl rfl rfl, by intro g hg; cases hg⟩
      · -- a misbehaving connection: whatever its poll returns, nobody else is touched
        cases hr : (poll C sizes c.rx c.net).1 with
        | pending =>
          simp only []
          apply ih
          intro j x hx
          by_cases hj : j = idx
          · subst hj
            rw [List.getElem?_set_self hlt] at hx
            cases hx
            intro hg; exact absurd hg hgood
          · exact hothers _ j x hx hj
        | frame f =>
          simp only []
          exact ⟨List.getElem?_set_self hlt, hothers _, by simp, fun hg => absurd hg hgood⟩
        | err e =>
          simp only []
          exact ⟨List.getElem?_set_self hlt, hothers _, by simp, fun hg => absurd hg hgood⟩

theorem forall_pos_iff_mem {α} (l : List α) (P : α → Prop) :
    (∀ (j : Nat) c, l[j]? = some c → P c) ↔ ∀ c ∈ l, P c := by
  constructor
  · intro h c hc
    obtain ⟨j, hj⟩ := List.mem_iff_getElem?.mp hc
    exact h j c hj
  · intro h j c hj
    exact h c (List.mem_of_getElem? hj)

theorem expectedOut_take_succ (ds : List Desc) (k : Nat) (d : Desc) (rest : List Desc)
    (h : ds.drop k = d :: rest) :
    expectedOut (ds.take (k+1)) = expectedOut (ds.take k) ++ answer d ∧ ds.drop (k+1) = rest := by
  have hk : k < ds.length := by
    rcases Nat.lt_or_ge k ds.length with h1 | h1
    · exact h1
    · rw [List.drop_eq_nil_of_le h1] at h; cases h
  have hd : ds[k] = d := by
    have h0 : (ds.drop k)[0]? = some d := by rw [h]; rfl
    rw [List.getElem?_drop] at h0
    simp at h0
    rw [List.getElem?_eq_getElem hk] at h0
    exact Option.some.inj h0
  constructor
  · rw [List.take_succ_eq_append_getElem hk, hd]
    simp [expectedOut, List.flatMap_append]
  · have : ds.drop (k+1) = (ds.drop k).drop 1 := by rw [List.drop_drop]
    rw [this, h]; rfl

/-- frames.length ≥ k+1 when a further frame exists -/
theorem k_succ_le {α} (l : List α) (k : Nat) (f : α) (R : List α) (h : l = l.take k ++ f :: R) (hk : k ≤ l.length) :
    k + 1 ≤ l.length := by
  have := congrArg List.length h
  simp at this
  omega


theorem writeTo_good (c c' : Conn) (toks : List Tok) (h : writeTo c toks = some c') :
    c' = { c with out := c.out ++ toks, nwrites := c.nwrites + 1 } := by
  unfold writeTo at h
  split at h
  · split at h
    · cases h
    · cases h; rfl
  · cases h; rfl

theorem writeTo_nofail (c : Conn) (toks : List Tok) (h : c.wfail = none) :
    writeTo c toks = some { c with out := c.out ++ toks, nwrites := c.nwrites + 1 } := by
  simp [writeTo, h]

/-- One iteration of the server loop preserves the global invariant: every well-behaved connection,
    wherever it lives, has received exactly a prefix of its frames, in order, each handled once, and its
    output is the sequential reference's output for exactly those calls — whatever any other
    connection does. -/
theorem iter_inv (C : Consts) (hstep : 0 < C.step) (sizes : Nat → Nat) (s s' : S)
    (g : GInv C s) (h : iter C sizes s = some s') : GInv C s' := by
  unfold iter at h
  cases hq : s.listenQ with
  | cons c q =>
    rw [hq] at h
    simp only [] at h
    cases h
    refine ⟨?_, ?_, g.streams, g.dead⟩
    · rw [forall_pos_iff_mem]
      intro x hx
      rcases List.mem_append.mp hx with h1 | h1
      · exact (forall_pos_iff_mem _ _).mp g.conns x h1
      · simp at h1; subst h1; exact g.listen x (by rw [hq]; simp)
    · intro x hx; exact g.listen x (by rw [hq]; simp [hx])
  | nil =>
    rw [hq] at h
    simp only [] at h
    -- the scan
    have hscan : match (if s.conns.length = 0 then (s.conns, none) else
          scanCalls C sizes s.conns.length (nextStart s) s.conns.length s.conns).2 with
        | none => ∀ (j : Nat) c, (if s.conns.length = 0 then (s.conns, none) else
            scanCalls C sizes s.conns.length (nextStart s) s.conns.length s.conns).1[j]? = some c → CInvG C c []
        | some (idx, o, cw) =>
          (if s.conns.length = 0 then (s.conns, none) else
            scanCalls C sizes s.conns.length (nextStart s) s.conns.length s.conns).1[idx]? = some cw ∧
          (∀ (j : Nat) c, (if s.conns.length = 0 then (s.conns, none) else
            scanCalls C sizes s.conns.length (nextStart s) s.conns.length s.conns).1[j]? = some c → j ≠ idx → CInvG C c []) ∧
          o ≠ .pending ∧ (cw.good = true → WInv C o cw) := by
      by_cases hn : s.conns.length = 0
      · simp only [hn, if_true]; exact g.conns
      · simp only [hn, if_false]
        exact scan_spec C hstep sizes _ _ _ _ g.conns
    generalize (if s.conns.length = 0 then (s.conns, none) else
          scanCalls C sizes s.conns.length (nextStart s) s.conns.length s.conns) = sc at h hscan
    obtain ⟨conns', w⟩ := sc
    simp only [] at h hscan
    cases w with
    | none =>
      simp only [] at h hscan
      by_cases hm : s.streams.length = 0
      · rw [if_pos hm] at h; cases h
      · rw [if_neg hm] at h
        generalize hsel : Sel.scan s.streams.length (streamStart s.lastStream)
            (streamReady s.streams) s.streams.length = sel at h
        cases sel with
        | none => cases h
        | some idx =>
        simp only [] at h
        cases hst : s.streams[idx]? with
        | none => rw [hst] at h; cases h
        | some p =>
          rw [hst] at h
          obtain ⟨items, c0⟩ := p
          simp only [] at h
          have hc0 := g.streams idx (items, c0) hst
          -- consuming one unit of readiness touches nothing the invariant speaks about
          have hc : CInvG C { c0 with credit := c0.credit - 1, used := c0.used + 1 } items := by
            intro hg
            have := hc0 hg
            exact ⟨this.st.transfer rfl rfl rfl, this.bk.transfer rfl rfl rfl rfl rfl, this.rx, this.cl⟩
          generalize hcdef : ({ c0 with credit := c0.credit - 1, used := c0.used + 1 } : Conn) = c at h hc
          have hlt : idx < s.streams.length := by
            rcases Nat.lt_or_ge idx s.streams.length with h1 | h1
            · exact h1
            · rw [List.getElem?_eq_none h1] at hst; cases hst
          have hstreams_sr : ∀ (j : Nat) x, (swapRemove s.streams idx)[j]? = some x → CInvG C x.2 x.1 := by
            intro j x hx
            obtain ⟨j', _, hj'⟩ := mem_swapRemove _ _ _ (List.mem_of_getElem? hx)
            exact g.streams j' x hj' 
          cases items with
          | nil =>
            simp only [] at h
            cases h
            refine ⟨?_, by simp, hstreams_sr, g.dead⟩
            rw [forall_pos_iff_mem]
            intro x hx
            rcases List.mem_append.mp hx with h1 | h1
            · exact (forall_pos_iff_mem _ _).mp hscan x h1
            · simp at h1; subst h1; exact hc
          | cons p rest =>
            simp only [] at h
            cases hwr : writeTo c [tokOf p] with
            | none =>
              rw [hwr] at h
              simp only [] at h
              cases h
              refine ⟨hscan, by simp, hstreams_sr, ?_⟩
              intro x hx
              rcases List.mem_cons.mp hx with h1 | h1
              · subst h1
                intro hg
                -- a well-behaved connection's writes never fail
                have := writeTo_nofail x [tokOf p] (hc hg).st.nofail
                rw [this] at hwr; cases hwr
              · exact g.dead x h1
            | some c' =>
              rw [hwr] at h
              simp only [] at h
              cases h
              have hc' := writeTo_good c c' _ hwr
              refine ⟨hscan, by simp, ?_, g.dead⟩
              intro j x hx
              by_cases hj : j = idx
              · subst hj
                rw [List.getElem?_set_self hlt] at hx
                cases hx
                intro hg
                subst hc'
                have hc0 := hc hg
                refine ⟨hc0.st.transfer rfl rfl rfl, ⟨hc0.bk.k_le, hc0.bk.calls, ?_⟩, hc0.rx, hc0.cl⟩
                have := hc0.bk.out
                simp only [List.map_cons] at this
                show (c.out ++ [tokOf p]) ++ rest.map tokOf = _
                rw [← this]; simp
              · rw [List.getElem?_set_ne (Ne.symm hj)] at hx
                exact g.streams j x hx
    | some w =>
      obtain ⟨idx, o, c⟩ := w
      simp only [] at h hscan
      obtain ⟨hget, hothers, hnp, hwf⟩ := hscan
      have hothers_sr : ∀ x ∈ swapRemove conns' idx, CInvG C x [] := by
        intro x hx
        obtain ⟨j, hj, hjx⟩ := mem_swapRemove _ _ _ hx
        exact hothers j x hjx hj
      have hdead : ∀ x ∈ c :: s.dead, DeadG C x := by
        intro x hx
        rcases List.mem_cons.mp hx with h1 | h1
        · subst h1; intro hg; exact ⟨(hwf hg).st, (hwf hg).bk⟩
        · exact g.dead x h1
      have hlt : idx < conns'.length := by
        rcases Nat.lt_or_ge idx conns'.length with h1 | h1
        · exact h1
        · rw [List.getElem?_eq_none h1] at hget; cases hget
      have hset : ∀ (c' : Conn), CInvG C c' [] → ∀ (j : Nat) x, (conns'.set idx c')[j]? = some x → CInvG C x [] := by
        intro c' hc' j x hx
        by_cases hj : j = idx
        · subst hj
          rw [List.getElem?_set_self hlt] at hx
          cases hx; exact hc'
        · rw [List.getElem?_set_ne (Ne.symm hj)] at hx
          exact hothers j x hx hj
      cases o with
      | pending => exact absurd rfl hnp
      | err e =>
        simp only [] at h
        cases h
        exact ⟨(forall_pos_iff_mem _ _).mpr hothers_sr, by simp, g.streams, hdead⟩
      | frame f =>
        simp only [] at h
        cases hcalls : c.calls with
        | nil =>
          rw [hcalls] at h
          simp only [] at h
          cases h
          exact ⟨(forall_pos_iff_mem _ _).mpr hothers_sr, by simp, g.streams, hdead⟩
        | cons d rest =>
          rw [hcalls] at h
          simp only [] at h
          -- the well-behaved connection after the loop has consumed the frame, with pending stream
          -- items `pend` and extra output `extra` such that extra ++ pend = answer d
          have hmk : c.good = true → ∀ (extra : List Tok) (pend : List (Nat × Option Bool)) (nw : Nat),
              extra ++ pend.map tokOf = answer d →
              CInv C { c with calls := rest, k := c.k + 1, out := c.out ++ extra, nwrites := nw } pend := by
            intro hg extra pend nw hans
            have hw := hwf hg
            obtain ⟨R', hsplit, hrx, hcl⟩ := hw.frame f rfl
            have hdrop : c.descs.drop c.k = d :: rest := by rw [← hw.bk.calls, hcalls]
            obtain ⟨hexp, hrest⟩ := expectedOut_take_succ c.descs c.k d rest hdrop
            have hk1 := k_succ_le c.frames c.k f R' hsplit hw.bk.k_le
            have htake := take_succ_of_split c.frames c.k f R' hsplit hw.bk.k_le
            refine ⟨hw.st.transfer rfl rfl rfl, ⟨hk1, hrest.symm, ?_⟩, ?_, hcl⟩
            · show (c.out ++ extra) ++ pend.map tokOf = expectedOut (c.descs.take (c.k + 1))
              rw [hexp, ← hans, List.append_assoc]
              have := hw.bk.out
              simp at this
              rw [this]
            · show Inv C c.frames c.rx c.net c.fut (c.frames.take (c.k + 1))
              rw [htake]; exact hrx
          have hechofail : ∀ (d : Desc), (∀ m p, d ≠ .sub m p) → d ≠ .garbage →
              (let s1 : S := { s with conns := conns', lastCall := some idx, served := s.served ++ [(c.id, d)], listenQ := [] }
               let c1 : Conn := { c with calls := rest, k := c.k + 1 }
               (if answer d = [] then some { s1 with conns := s1.conns.set idx c1 }
                else match writeTo c1 (answer d) with
                  | some c' => some { s1 with conns := s1.conns.set idx c', wlog := s1.wlog ++ [c1.id] }
                  | none => some { s1 with conns := swapRemove s1.conns idx, dead := c1 :: s1.dead }) = some s') →
              c.calls = d :: rest → (c.good = true → ∀ (extra : List Tok) (pend : List (Nat × Option Bool)) (nw : Nat),
                extra ++ pend.map tokOf = answer d →
                CInv C { c with calls := rest, k := c.k + 1, out := c.out ++ extra, nwrites := nw } pend) →
              GInv C s' := by
            intro d _ _ h _ hmk
            simp only [] at h
            by_cases ha : answer d = []
            · rw [if_pos ha] at h
              cases h
              refine ⟨hset _ ?_, (by intro x hx; cases hx), g.streams, g.dead⟩
              intro hg
              have := hmk hg [] [] c.nwrites (by simp [ha])
              exact ⟨this.st.transfer rfl rfl rfl, this.bk.transfer rfl rfl rfl rfl (by simp), this.rx, this.cl⟩
            · rw [if_neg ha] at h
              cases hwr : writeTo { c with calls := rest, k := c.k + 1 } (answer d) with
              | none =>
                rw [hwr] at h
                simp only [] at h
                cases h
                refine ⟨(forall_pos_iff_mem _ _).mpr hothers_sr, (by intro x hx; cases hx), g.streams, ?_⟩
                intro x hx
                rcases List.mem_cons.mp hx with h1 | h1
                · subst h1
                  intro hg
                  have := writeTo_nofail { c with calls := rest, k := c.k + 1 } (answer d) (hwf hg).st.nofail
                  rw [this] at hwr; cases hwr
                · exact g.dead x h1
              | some c' =>
                rw [hwr] at h
                simp only [] at h
                cases h
                have hc' := writeTo_good _ c' _ hwr
                subst hc'
                refine ⟨hset _ ?_, (by intro x hx; cases hx), g.streams, g.dead⟩
                intro hg
                exact hmk hg (answer d) [] (c.nwrites + 1) (by simp)
          cases d with
          | garbage =>
            simp only [] at h
            cases h
            refine ⟨(forall_pos_iff_mem _ _).mpr hothers_sr, by simp, g.streams, ?_⟩
            intro x hx
            rcases List.mem_cons.mp hx with h1 | h1
            · subst h1
              intro hg
              have := hmk hg [] [] c.nwrites (by simp [answer])
              exact ⟨this.st.transfer rfl rfl rfl, this.bk.transfer rfl rfl rfl rfl (by simp)⟩
            · exact g.dead x h1
          | sub m p =>
            simp only [] at h
            cases h
            refine ⟨(forall_pos_iff_mem _ _).mpr hothers_sr, by simp, ?_, g.dead⟩
            intro j x hx
            rcases List.mem_append.mp (List.mem_of_getElem? hx) with h1 | h1
            · obtain ⟨j', hj'⟩ := List.mem_iff_getElem?.mp h1
              exact g.streams j' x hj'
            · simp at h1; subst h1
              intro hg
              have := hmk hg [] (itemsOf m p) c.nwrites (by simp [answer])
              exact ⟨this.st.transfer rfl rfl rfl, this.bk.transfer rfl rfl rfl rfl (by simp), this.rx, this.cl⟩
          | unser ow =>
            cases ow with
            | false =>
              simp only [] at h
              cases h
              refine ⟨(forall_pos_iff_mem _ _).mpr hothers_sr, by simp, g.streams, ?_⟩
              intro x hx
              rcases List.mem_cons.mp hx with h1 | h1
              · subst h1
                intro hg
                have := hmk hg [] [] c.nwrites (by simp [answer])
                exact ⟨this.st.transfer rfl rfl rfl, this.bk.transfer rfl rfl rfl rfl (by simp)⟩
              · exact g.dead x h1
            | true => exact hechofail (.unser true) (by intro m p hm; cases hm) (by intro hm; cases hm) (by simp only [] at h; exact h) hcalls hmk
          | echo v ow => exact hechofail (.echo v ow) (by intro m p hm; cases hm) (by intro hm; cases hm) (by simp only [] at h; exact h) hcalls hmk
          | fail ow => exact hechofail (.fail ow) (by intro m p hm; cases hm) (by intro hm; cases hm) (by simp only [] at h; exact h) hcalls hmk

/-- a poll of the server future (any number of iterations) preserves the invariant -/
theorem pollServer_inv (C : Consts) (hstep : 0 < C.step) (sizes : Nat → Nat) :
    ∀ fuel s, GInv C s → GInv C (pollServer C sizes fuel s) := by
  intro fuel
  induction fuel with
  | zero => intro s g; exact g
  | succ fuel ih =>
    intro s g
    simp only [pollServer]
    cases h : iter C sizes s with
    | none => exact g
    | some s' => exact ih s' (iter_inv C hstep sizes s s' g h)

/-! ### environment events -/

/-- a fresh well-behaved connection as the listener hands it over -/
def FreshOK (C : Consts) (c : Conn) : Prop :=
  Static C c ∧ c.rx = Rx.init C ∧ c.net = net0 ∧ c.calls = c.descs ∧ c.out = [] ∧ c.k = 0 ∧ c.fut = enc c.frames

/-- Well-behaved clients are well behaved: their arrivals are the next bytes of their stream, and
    they close only after having sent everything. **Nothing is assumed about the other connections**:
    they may receive arbitrary bytes, be closed at any point, have arbitrary initial state. -/
def EvOK (C : Consts) (s : S) : Ev → Prop
  | .connect c => c.good = true → FreshOK C c
  | .arrive id b => ∀ c ∈ s.all, c.id = id → c.good = true → b = c.fut.take b.length
  | .close id => ∀ c ∈ s.all, c.id = id → c.good = true → c.fut = []
  | .produce _ _ => True
  | .run _ => True

theorem cinv_arrive (C : Consts) (c : Conn) (pend) (b : List Byte) (h : CInv C c pend)
    (hb : b = c.fut.take b.length) : CInv C (arriveC b c) pend := by
  have hfut : c.fut = b ++ c.fut.drop b.length := by
    conv => lhs; rw [← List.take_append_drop b.length c.fut]
    rw [← hb]
  refine ⟨h.st.transfer rfl rfl rfl, h.bk.transfer rfl rfl rfl rfl rfl, ?_, ?_⟩
  · obtain ⟨hcap, hbound, htail, R0, hfr0, hshape⟩ := h.rx
    refine ⟨hcap, ?_, htail, R0, hfr0, ?_⟩
    · show c.rx.data.length + (c.net.avail ++ b).length + (c.fut.drop b.length).length ≤ (enc c.frames).length
      have hl : c.fut.length = b.length + (c.fut.drop b.length).length := by
        conv => lhs; rw [hfut]
        simp
      have hb' : c.rx.data.length + c.net.avail.length + c.fut.length ≤ (enc c.frames).length := hbound
      rw [List.length_append]
      omega
    · rcases hshape with ⟨h0, h1⟩ | ⟨h0, F1, F2, h1, h2, h3, h4⟩
      · left; refine ⟨h0, ?_⟩
        show c.rx.data ++ (c.net.avail ++ b) ++ c.fut.drop b.length = enc R0
        rw [← h1]; conv => rhs; rw [hfut]
        simp
      · right; refine ⟨h0, F1, F2, h1, h2, h3, ?_⟩
        show (c.net.avail ++ b) ++ c.fut.drop b.length = enc F2
        rw [← h4]; conv => rhs; rw [hfut]
        simp
  · intro hcl
    have := h.cl hcl
    show c.fut.drop b.length = []
    rw [this]; simp

theorem cinv_close (C : Consts) (c : Conn) (pend) (h : CInv C c pend) (hf : c.fut = []) :
    CInv C (closeC c) pend := by
  refine ⟨h.st.transfer rfl rfl rfl, h.bk.transfer rfl rfl rfl rfl rfl, ?_, fun _ => hf⟩
  obtain ⟨hcap, hbound, htail, hshape⟩ := h.rx
  exact ⟨hcap, hbound, htail, hshape⟩

theorem cinv_fresh (C : Consts) (hstep : 0 < C.step) (c : Conn) (h : FreshOK C c) : CInv C c [] := by
  obtain ⟨hst, hrx, hnet, hcalls, hout, hk, hfut⟩ := h
  refine ⟨hst, ⟨by omega, by rw [hcalls, hk]; simp, by rw [hout, hk]; simp [expectedOut]⟩, ?_, ?_⟩
  · rw [hrx, hnet, hfut, hk]; simpa using inv_init C hstep c.frames
  · intro hc; rw [hnet] at hc; simp [net0] at hc

theorem mem_all_of (s : S) (c : Conn) :
    (c ∈ s.conns ∨ c ∈ s.listenQ ∨ (∃ p ∈ s.streams, p.2 = c) ∨ c ∈ s.dead) → c ∈ s.all := by
  intro h
  simp only [S.all, List.mem_append, List.mem_map]
  rcases h with h | h | ⟨p, hp, rfl⟩ | h
  · exact Or.inl (Or.inl (Or.inl h))
  · exact Or.inl (Or.inl (Or.inr h))
  · exact Or.inl (Or.inr ⟨p, hp, rfl⟩)
  · exact Or.inr h

theorem good_arriveC (b : List Byte) (c : Conn) : (arriveC b c).good = c.good := rfl
theorem good_closeC (c : Conn) : (closeC c).good = c.good := rfl
theorem good_produceC (n : Nat) (c : Conn) : (produceC n c).good = c.good := rfl

/-- every event preserves the global invariant -/
theorem step_inv (C : Consts) (hstep : 0 < C.step) (sizes : Nat → Nat) (s : S) (ev : Ev)
    (g : GInv C s) (hev : EvOK C s ev) : GInv C (step C sizes s ev) := by
  cases ev with
  | run fuel => exact pollServer_inv C hstep sizes fuel s g
  | connect c =>
    refine ⟨g.conns, ?_, g.streams, g.dead⟩
    intro x hx
    rcases List.mem_append.mp hx with h | h
    · exact g.listen x h
    · simp at h; subst h; intro hg; exact cinv_fresh C hstep x (hev hg)
  | arrive id b =>
    have key : ∀ c pend, c ∈ s.all → CInvG C c pend → CInvG C (if c.id = id then arriveC b c else c) pend := by
      intro c pend hm hc
      by_cases hid : c.id = id
      · rw [if_pos hid]; intro hg; exact cinv_arrive C c pend b (hc hg) (hev c hm hid hg)
      · rw [if_neg hid]; exact hc
    refine ⟨?_, ?_, ?_, ?_⟩
    · rw [forall_pos_iff_mem]
      intro x hx
      obtain ⟨c, hc, rfl⟩ := List.mem_map.mp hx
      exact key c [] (mem_all_of s c (Or.inl hc)) ((forall_pos_iff_mem _ _).mp g.conns c hc)
    · intro x hx
      obtain ⟨c, hc, rfl⟩ := List.mem_map.mp hx
      exact key c [] (mem_all_of s c (Or.inr (Or.inl hc))) (g.listen c hc)
    · intro j x hx
      obtain ⟨p, hp, rfl⟩ := List.mem_map.mp (List.mem_of_getElem? hx)
      obtain ⟨j', hj'⟩ := List.mem_iff_getElem?.mp hp
      exact key p.2 p.1 (mem_all_of s p.2 (Or.inr (Or.inr (Or.inl ⟨p, hp, rfl⟩)))) (g.streams j' p hj')
    · intro x hx
      obtain ⟨c, hc, rfl⟩ := List.mem_map.mp hx
      have := g.dead c hc
      by_cases hid : c.id = id
      · rw [if_pos hid]; intro hg; exact ⟨(this hg).1.transfer rfl rfl rfl, (this hg).2.transfer rfl rfl rfl rfl rfl⟩
      · rw [if_neg hid]; exact this
  | close id =>
    have key : ∀ c pend, c ∈ s.all → CInvG C c pend → CInvG C (if c.id = id then closeC c else c) pend := by
      intro c pend hm hc
      by_cases hid : c.id = id
      · rw [if_pos hid]; intro hg; exact cinv_close C c pend (hc hg) (hev c hm hid hg)
      · rw [if_neg hid]; exact hc
    refine ⟨?_, ?_, ?_, ?_⟩
    · rw [forall_pos_iff_mem]
      intro x hx
      obtain ⟨c, hc, rfl⟩ := List.mem_map.mp hx
      exact key c [] (mem_all_of s c (Or.inl hc)) ((forall_pos_iff_mem _ _).mp g.conns c hc)
    · intro x hx
      obtain ⟨c, hc, rfl⟩ := List.mem_map.mp hx
      exact key c [] (mem_all_of s c (Or.inr (Or.inl hc))) (g.listen c hc)
    · intro j x hx
      obtain ⟨p, hp, rfl⟩ := List.mem_map.mp (List.mem_of_getElem? hx)
      obtain ⟨j', hj'⟩ := List.mem_iff_getElem?.mp hp
      exact key p.2 p.1 (mem_all_of s p.2 (Or.inr (Or.inr (Or.inl ⟨p, hp, rfl⟩)))) (g.streams j' p hj')
    · intro x hx
      obtain ⟨c, hc, rfl⟩ := List.mem_map.mp hx
      have := g.dead c hc
      by_cases hid : c.id = id
      · rw [if_pos hid]; intro hg; exact ⟨(this hg).1.transfer rfl rfl rfl, (this hg).2.transfer rfl rfl rfl rfl rfl⟩
      · rw [if_neg hid]; exact this

  | produce id n =>
    have key : ∀ c pend, c ∈ s.all → CInvG C c pend → CInvG C (if c.id = id then produceC n c else c) pend := by
      intro c pend hm hc
      by_cases hid : c.id = id
      · rw [if_pos hid]; intro hg; have := hc hg; exact ⟨this.st.transfer rfl rfl rfl, this.bk.transfer rfl rfl rfl rfl rfl, this.rx, this.cl⟩
      · rw [if_neg hid]; exact hc
    refine ⟨?_, ?_, ?_, ?_⟩
    · rw [forall_pos_iff_mem]
      intro x hx
      obtain ⟨c, hc, rfl⟩ := List.mem_map.mp hx
      exact key c [] (mem_all_of s c (Or.inl hc)) ((forall_pos_iff_mem _ _).mp g.conns c hc)
    · intro x hx
      obtain ⟨c, hc, rfl⟩ := List.mem_map.mp hx
      exact key c [] (mem_all_of s c (Or.inr (Or.inl hc))) (g.listen c hc)
    · intro j x hx
      obtain ⟨p, hp, rfl⟩ := List.mem_map.mp (List.mem_of_getElem? hx)
      obtain ⟨j', hj'⟩ := List.mem_iff_getElem?.mp hp
      exact key p.2 p.1 (mem_all_of s p.2 (Or.inr (Or.inr (Or.inl ⟨p, hp, rfl⟩)))) (g.streams j' p hj')
    · intro x hx
      obtain ⟨c, hc, rfl⟩ := List.mem_map.mp hx
      have := g.dead c hc
      by_cases hid : c.id = id
      · rw [if_pos hid]; intro hg; exact ⟨(this hg).1.transfer rfl rfl rfl, (this hg).2.transfer rfl rfl rfl rfl rfl⟩
      · rw [if_neg hid]; exact this

def EvsOK (C : Consts) (sizes : Nat → Nat) : List Ev → S → Prop
  | [], _ => True
  | ev :: t, s => EvOK C s ev ∧ EvsOK C sizes t (step C sizes s ev)

theorem ginv_init (C : Consts) : GInv C init :=
  ⟨by intro j c h; simp [init] at h, by intro c h; simp [init] at h,
   by intro j p h; simp [init] at h, by intro c h; simp [init] at h⟩

theorem run_inv (C : Consts) (hstep : 0 < C.step) (sizes : Nat → Nat) :
    ∀ evs s, GInv C s → EvsOK C sizes evs s → GInv C (runEvs C sizes evs s) := by
  intro evs
  induction evs with
  | nil => intro s g _; exact g
  | cons ev t ih =>
    intro s g h
    exact ih _ (step_inv C hstep sizes s ev g h.1) h.2

end Srv
