import Zlink.Proofs.IdlTextSound4
/-! A description produced by the parser, if it contains no variant-less inline enum, is well-formed in
    the sense of the oracle (`ifaceOK`) and carries no comments on inline-enum variants (`noVCI`): the
    hypotheses of the round-trip theorems hold for everything the parser returns. -/
namespace Idl
open SpecIdl

mutual
theorem tyW_tyOK : ∀ (t : Ty), tyW t = true → tyNE t = true → tyOK t = true ∧ noVC t = true
  | .bool, _, _ => ⟨rfl, rfl⟩
  | .int, _, _ => ⟨rfl, rfl⟩
  | .float, _, _ => ⟨rfl, rfl⟩
  | .string, _, _ => ⟨rfl, rfl⟩
  | .object, _, _ => ⟨rfl, rfl⟩
  | .custom n, h, _ => ⟨by simpa [tyW, tyOK] using h, rfl⟩
  | .array t, h, hn => by
    obtain ⟨a, b⟩ := tyW_tyOK t (by simpa [tyW] using h) (by simpa [tyNE] using hn)
    exact ⟨by simpa [tyOK] using a, by simpa [noVC] using b⟩
  | .map t, h, hn => by
    obtain ⟨a, b⟩ := tyW_tyOK t (by simpa [tyW] using h) (by simpa [tyNE] using hn)
    exact ⟨by simpa [tyOK] using a, by simpa [noVC] using b⟩
  | .optional t, h, hn => by
    cases t with
    | optional t' => simp [tyW] at h
    | bool => exact ⟨rfl, rfl⟩
    | int => exact ⟨rfl, rfl⟩
    | float => exact ⟨rfl, rfl⟩
    | string => exact ⟨rfl, rfl⟩
    | object => exact ⟨rfl, rfl⟩
    | custom n => exact ⟨by simpa [tyW, tyOK] using h, rfl⟩
    | array t' =>
      obtain ⟨a, b⟩ := tyW_tyOK (.array t') (by simpa [tyW] using h) (by simpa [tyNE] using hn)
      exact ⟨by simpa [tyOK] using a, by simpa [noVC] using b⟩
    | map t' =>
      obtain ⟨a, b⟩ := tyW_tyOK (.map t') (by simpa [tyW] using h) (by simpa [tyNE] using hn)
      exact ⟨by simpa [tyOK] using a, by simpa [noVC] using b⟩
    | enum vs =>
      obtain ⟨a, b⟩ := tyW_tyOK (.enum vs) (by simpa [tyW] using h) (by simpa [tyNE] using hn)
      exact ⟨by simpa [tyOK] using a, by simpa [noVC] using b⟩
    | struct fs =>
      obtain ⟨a, b⟩ := tyW_tyOK (.struct fs) (by simpa [tyW] using h) (by simpa [tyNE] using hn)
      exact ⟨by simpa [tyOK] using a, by simpa [noVC] using b⟩
  | .enum vs, h, hn => by
    simp only [tyW, List.all_eq_true, Bool.and_eq_true, List.isEmpty_iff] at h
    simp only [tyNE] at hn
    constructor
    · simp only [tyOK, Bool.and_eq_true, hn, true_and, List.all_eq_true]
      intro v hv
      obtain ⟨h1, h2⟩ := h v hv
      simp [h1, h2]
    · simp only [noVC, List.all_eq_true, List.isEmpty_iff]
      intro v hv
      exact (h v hv).2
  | .struct fs, h, hn => by
    obtain ⟨a, b⟩ := fieldsW_OK fs (by simpa [tyW] using h) (by simpa [tyNE] using hn)
    exact ⟨by simpa [tyOK] using a, by simpa [noVC] using b⟩
theorem fieldsW_OK : ∀ (fs : List (In × Ty × List In)), fieldsW fs = true → fieldsNE fs = true →
    fieldsTyOK fs = true ∧ noVCF fs = true
  | [], _, _ => ⟨rfl, rfl⟩
  | (n, t, cs) :: r, h, hn => by
    simp only [fieldsW, Bool.and_eq_true] at h
    simp only [fieldsNE, Bool.and_eq_true] at hn
    obtain ⟨a, b⟩ := tyW_tyOK t h.1.1.2 hn.1
    obtain ⟨c, d⟩ := fieldsW_OK r h.2 hn.2
    exact ⟨by simp [fieldsTyOK, h.1.1.1, a, h.1.2, c], by simp [noVCF, b, d]⟩
end

/-- every description the parser returns (without a variant-less inline enum) satisfies the hypotheses of
    the completeness and round-trip theorems -/
theorem ifaceW_OK (a : Iface) (hw : ifaceW a = true) (hn : ifaceNE a = true) : ifaceOK a = true ∧ noVCI a = true := by
  simp only [ifaceW, Bool.and_eq_true, List.all_eq_true] at hw
  obtain ⟨⟨⟨⟨h1, h2⟩, h3⟩, h4⟩, h5⟩ := hw
  simp only [ifaceNE, Bool.and_eq_true, List.all_eq_true] at hn
  obtain ⟨⟨n1, n2⟩, n3⟩ := hn
  constructor
  · simp only [ifaceOK, Bool.and_eq_true, List.all_eq_true]
    refine ⟨⟨⟨⟨h1, h2⟩, ?_⟩, ?_⟩, ?_⟩
    · intro t ht
      have hw := h3 t ht
      have hn := n1 t ht
      cases t with
      | obj n fs cs =>
        simp only [ctW, Bool.and_eq_true] at hw
        simp only [ctNE] at hn
        simp [hw.1.1, (fieldsW_OK fs hw.1.2 hn).1, hw.2, fieldsOK]
      | enm n vs cs =>
        simp only [ctW, Bool.and_eq_true, List.all_eq_true] at hw
        simp only [Bool.and_eq_true, List.all_eq_true, Bool.not_eq_true', List.isEmpty_eq_false_iff]
        refine ⟨⟨⟨hw.1.1, ?_⟩, ?_⟩, hw.2⟩
        · simpa [ctNE] using hn
        · intro v hv
          have := hw.1.2 v hv
          simpa [variantW] using this
    · intro m hm
      have hw := h4 m hm
      have hn := n2 m hm
      simp only [methodW, Bool.and_eq_true] at hw
      exact ⟨⟨⟨hw.1.1.1, by simpa [fieldsOK] using (fieldsW_OK _ hw.1.1.2 hn.1).1⟩,
        by simpa [fieldsOK] using (fieldsW_OK _ hw.1.2 hn.2).1⟩, List.all_eq_true.mp hw.2⟩
    · intro e he
      have hw := h5 e he
      have hn := n3 e he
      simp only [errW, Bool.and_eq_true] at hw
      exact ⟨⟨hw.1.1, by simpa [fieldsOK] using (fieldsW_OK _ hw.1.2 hn).1⟩, List.all_eq_true.mp hw.2⟩
  · simp only [noVCI, Bool.and_eq_true, List.all_eq_true]
    refine ⟨⟨?_, ?_⟩, ?_⟩
    · intro t ht
      have hw := h3 t ht
      have hn := n1 t ht
      cases t with
      | obj n fs cs =>
        simp only [ctW, Bool.and_eq_true] at hw
        simp only [ctNE] at hn
        simpa [noVCCT] using (fieldsW_OK fs hw.1.2 hn).2
      | enm n vs cs => rfl
    · intro m hm
      have hw := h4 m hm
      have hn := n2 m hm
      simp only [methodW, Bool.and_eq_true] at hw
      simp [noVCMethod, (fieldsW_OK _ hw.1.1.2 hn.1).2, (fieldsW_OK _ hw.1.2 hn.2).2]
    · intro e he
      have hw := h5 e he
      have hn := n3 e he
      simp only [errW, Bool.and_eq_true] at hw
      simpa [noVCErr] using (fieldsW_OK _ hw.1.2 hn).2

end Idl
