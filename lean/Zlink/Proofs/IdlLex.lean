import Zlink.Spec.Idl
/-! The three lexers of the IDL parser accept exactly (prefixes that are) words of the grammar's
    regular expressions. -/
namespace Idl
open SpecIdl

theorem takeWhile_append_drop (p : UInt8 → Bool) (l : In) : l.takeWhile p ++ l.drop (l.takeWhile p).length = l := by
  induction l with
  | nil => rfl
  | cons a t ih =>
    by_cases h : p a = true
    · simp [List.takeWhile_cons, h, ih]
    · simp [List.takeWhile_cons, h]

theorem all_takeWhile (p : UInt8 → Bool) : ∀ (l : In), (l.takeWhile p).all p = true
  | [] => rfl
  | a :: t => by
    by_cases h : p a = true
    · simp [List.takeWhile_cons, h, all_takeWhile p t]
    · simp [List.takeWhile_cons, h]

/-! ### type names: `[A-Z][A-Za-z0-9]*` -/

/-- soundness: whatever `typeName` accepts is a word of the regular expression and a prefix of the input -/
theorem typeName_sound (i n r : In) (h : typeName i = .ok n r) : typeNameOK n = true ∧ i = n ++ r := by
  unfold typeName at h
  cases i with
  | nil => cases h
  | cons b t =>
    simp only [] at h
    by_cases hb : isUpper b = true
    · rw [if_pos hb] at h
      cases h
      refine ⟨?_, ?_⟩
      · simp only [typeNameOK, hb, Bool.true_and]
        exact all_takeWhile isAlnum t
      · simp [takeWhile_append_drop]
    · rw [if_neg hb] at h; cases h

/-- completeness (longest match): a word of the regular expression followed by something that cannot
    continue it is accepted, with exactly that rest -/
theorem typeName_complete (n r : In) (hn : typeNameOK n = true)
    (hr : ∀ c, r.head? = some c → isAlnum c = false) : typeName (n ++ r) = .ok n r := by
  cases n with
  | nil => simp [typeNameOK] at hn
  | cons b t =>
    simp only [typeNameOK, Bool.and_eq_true] at hn
    obtain ⟨hb, ht⟩ := hn
    have htw : (t ++ r).takeWhile isAlnum = t := by
      rw [List.takeWhile_append_of_pos (by simpa [List.all_eq_true] using ht)]
      cases r with
      | nil => simp
      | cons c r' => simp [List.takeWhile_cons, hr c rfl]
    simp only [typeName, List.cons_append, hb, if_true, htw]
    first | rfl | simp

/-! ### field / variant names: `[A-Za-z](_?[A-Za-z0-9])*` -/

theorem nameTail_sound : ∀ (t : In), tailOK (nameTail t) = true ∧ nameTail t ++ t.drop (nameTail t).length = t
  | [] => by simp [nameTail, tailOK]
  | c :: t => by
    unfold nameTail
    by_cases hc : isAlnum c = true
    · rw [if_pos hc]
      obtain ⟨h1, h2⟩ := nameTail_sound t
      exact ⟨by unfold tailOK; simp [hc, h1], by simpa using h2⟩
    · rw [if_neg hc]
      by_cases hu : (c == 95) = true
      · rw [if_pos hu]
        cases t with
        | nil => simp [tailOK]
        | cons d t' =>
          simp only []
          by_cases hd : isAlnum d = true
          · rw [if_pos hd]
            obtain ⟨h1, h2⟩ := nameTail_sound t'
            refine ⟨by unfold tailOK; simp [hc, hu, hd, h1], ?_⟩
            simpa using h2
          · rw [if_neg hd]; simp [tailOK]
      · rw [if_neg hu]; simp [tailOK]

theorem fieldName_sound (i n r : In) (h : fieldName i = .ok n r) : fieldNameOK n = true ∧ i = n ++ r := by
  unfold fieldName at h
  cases i with
  | nil => cases h
  | cons b t =>
    simp only [] at h
    by_cases hb : isAlpha b = true
    · rw [if_pos hb] at h
      cases h
      obtain ⟨h1, h2⟩ := nameTail_sound t
      exact ⟨by simp [fieldNameOK, hb, h1], by simpa using h2.symm⟩
    · rw [if_neg hb] at h; cases h

/-- what may follow a field name without being absorbed into it -/
def stopsName (r : In) : Bool :=
  match r with
  | [] => true
  | c :: t => !isAlnum c && !(c == 95 && (match t with | d :: _ => isAlnum d | [] => false))

theorem nameTail_complete : ∀ (n r : In), tailOK n = true → stopsName r = true → nameTail (n ++ r) = n
  | [], r, _, hr => by
    cases r with
    | nil => rfl
    | cons c t =>
      simp only [stopsName, Bool.and_eq_true, Bool.not_eq_true'] at hr
      obtain ⟨h1, h2⟩ := hr
      simp only [List.nil_append]
      unfold nameTail
      rw [if_neg (by simp [h1])]
      by_cases hu : (c == 95) = true
      · rw [if_pos hu]
        cases t with
        | nil => rfl
        | cons d t' =>
          simp only [hu, Bool.true_and] at h2
          simp [h2]
      · rw [if_neg hu]
  | c :: t, r, hn, hr => by
    unfold tailOK at hn
    simp only [List.cons_append]
    unfold nameTail
    by_cases hc : isAlnum c = true
    · rw [if_pos hc] at hn
      rw [if_pos hc, nameTail_complete t r hn hr]
    · rw [if_neg hc] at hn
      rw [if_neg hc]
      by_cases hu : (c == 95) = true
      · rw [if_pos hu] at hn
        rw [if_pos hu]
        cases t with
        | nil => simp at hn
        | cons d t' =>
          simp only [Bool.and_eq_true] at hn
          simp only [List.cons_append, hn.1, if_true]
          rw [nameTail_complete t' r hn.2 hr]
      · rw [if_neg hu] at hn; cases hn

theorem fieldName_complete (n r : In) (hn : fieldNameOK n = true) (hr : stopsName r = true) :
    fieldName (n ++ r) = .ok n r := by
  cases n with
  | nil => simp [fieldNameOK] at hn
  | cons b t =>
    simp only [fieldNameOK, Bool.and_eq_true] at hn
    simp only [fieldName, List.cons_append, hn.1, if_true, nameTail_complete t r hn.2 hr]
    first | rfl | simp

end Idl
