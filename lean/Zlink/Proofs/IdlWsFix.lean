import Zlink.Proofs.IdlTextSound1
/-! The layout skipper `ws` as a fixpoint: one step is `optComment ∘ multispace0`; `wsF` iterates it until nothing
    moves. Consequences used to relate the two ways the parser skips layout (`ws` between tokens, and
    `parse_preceding_comments` in front of items): `wsF` is idempotent, absorbs white space, and absorbs the comment
    lines `parse_preceding_comments` consumes. -/
namespace Idl
open SpecIdl

def wsStep (x : In) : In := optComment (multispace0 x)

theorem multispace0_length (x : In) : (multispace0 x).length ≤ x.length := by
  obtain ⟨w, hw, _⟩ := multispace0_split x
  have := congrArg List.length hw
  simp at this; omega

theorem optComment_length (x : In) : (optComment x).length ≤ x.length := by
  unfold optComment
  split
  · rename_i t; have := skipComment_length t; simp; omega
  · exact Nat.le_refl _

theorem wsStep_length (x : In) : (wsStep x).length ≤ x.length :=
  Nat.le_trans (optComment_length _) (multispace0_length x)

theorem multispace0_eq_self_of_length {x : In} (h : (multispace0 x).length = x.length) : multispace0 x = x := by
  obtain ⟨w, hw, _⟩ := multispace0_split x
  have hl := congrArg List.length hw
  simp at hl
  have : w = [] := List.eq_nil_of_length_eq_zero (by omega)
  rw [this] at hw; simpa using hw.symm

theorem optComment_eq_self_of_length {x : In} (h : (optComment x).length = x.length) : optComment x = x := by
  unfold optComment at h ⊢
  split
  · rename_i t
    simp only [] at h
    have := skipComment_length t; simp at h; omega
  · rfl

theorem wsStep_fix {x : In} (h : (wsStep x).length = x.length) : wsStep x = x := by
  have h1 := optComment_length (multispace0 x)
  have h2 := multispace0_length x
  unfold wsStep at h ⊢
  have e2 : multispace0 x = x := multispace0_eq_self_of_length (by omega)
  rw [e2] at h ⊢
  exact optComment_eq_self_of_length h

theorem ws_unfold (n : Nat) (x : In) : ws (n + 1) x = if (wsStep x).length = x.length then wsStep x else ws n (wsStep x) := rfl

/-- the fuel does not matter once it exceeds the length -/
theorem ws_fuel : ∀ (n m : Nat) (x : In), x.length < n → x.length < m → ws n x = ws m x := by
  intro n
  induction n with
  | zero => intro m x h; omega
  | succ n ih =>
    intro m x hn hm
    obtain ⟨m, rfl⟩ : ∃ m', m = m' + 1 := ⟨m - 1, by omega⟩
    rw [ws_unfold, ws_unfold]
    by_cases h : (wsStep x).length = x.length
    · rw [if_pos h, if_pos h]
    · rw [if_neg h, if_neg h]
      have := wsStep_length x
      exact ih m _ (by omega) (by omega)

theorem wsF_unfold (x : In) : wsF x = if (wsStep x).length = x.length then x else wsF (wsStep x) := by
  unfold wsF
  rw [ws_unfold]
  by_cases h : (wsStep x).length = x.length
  · rw [if_pos h, if_pos h]; exact wsStep_fix h
  · rw [if_neg h, if_neg h]
    have := wsStep_length x
    exact ws_fuel _ _ _ (by omega) (by omega)

theorem multispace0_idem (x : In) : multispace0 (multispace0 x) = multispace0 x := by
  unfold multispace0
  induction x with
  | nil => rfl
  | cons c t ih =>
    by_cases hc : isMultispace c = true
    · simp only [List.dropWhile_cons, hc, if_true]; exact ih
    · simp only [List.dropWhile_cons, hc]
      simp [List.dropWhile_cons, hc]

/-- `wsF` absorbs leading white space -/
theorem wsF_multispace0 : ∀ (n : Nat) (x : In), x.length ≤ n → wsF (multispace0 x) = wsF x := by
  intro n
  induction n with
  | zero =>
    intro x hx
    have : x = [] := List.eq_nil_of_length_eq_zero (by omega)
    subst this; rfl
  | succ n ih =>
    intro x hx
    have hstep : wsStep (multispace0 x) = wsStep x := by simp [wsStep, multispace0_idem]
    rw [wsF_unfold x, wsF_unfold (multispace0 x), hstep]
    have h1 := wsStep_length x
    have h2 := multispace0_length x
    have h3 : (wsStep x).length ≤ (multispace0 x).length := optComment_length _
    by_cases hx1 : (wsStep x).length = x.length
    · rw [if_pos hx1]
      have : multispace0 x = x := multispace0_eq_self_of_length (by omega)
      rw [this, if_pos hx1]
    · rw [if_neg hx1]
      by_cases hx2 : (wsStep x).length = (multispace0 x).length
      · rw [if_pos hx2]
        -- the step did nothing beyond the white space: `wsStep x = multispace0 x`, a fixpoint
        have hfix : wsStep (multispace0 x) = multispace0 x := wsStep_fix (by rw [hstep]; exact hx2)
        rw [hstep] at hfix
        rw [hfix, wsF_unfold (multispace0 x), hstep, hfix, if_pos rfl]
      · rw [if_neg hx2]

theorem wsF_whitespaceOnly (x : In) : wsF (whitespaceOnly x) = wsF x := wsF_multispace0 x.length x (Nat.le_refl _)

theorem wsF_cons_ws (c : Byte) (t : In) (hc : isMultispace c = true) : wsF (c :: t) = wsF t := by
  rw [← wsF_whitespaceOnly (c :: t), ← wsF_whitespaceOnly t]
  show wsF (multispace0 (c :: t)) = wsF (multispace0 t)
  rw [multispace0_cons_ws c t hc]

/-- `wsF` is idempotent -/
theorem wsF_idem : ∀ (n : Nat) (x : In), x.length ≤ n → wsF (wsF x) = wsF x := by
  intro n
  induction n with
  | zero =>
    intro x hx
    have : x = [] := List.eq_nil_of_length_eq_zero (by omega)
    subst this; rfl
  | succ n ih =>
    intro x hx
    by_cases h : (wsStep x).length = x.length
    · have e : wsF x = x := by rw [wsF_unfold, if_pos h]
      rw [e, e]
    · have e : wsF x = wsF (wsStep x) := by rw [wsF_unfold, if_neg h]
      rw [e]
      have := wsStep_length x
      exact ih _ (by omega)

/-- a `#` comment: `wsF` continues behind its line end -/
theorem wsF_hash (t : In) : wsF (35 :: t) = wsF (skipComment t) := by
  rw [wsF_unfold]
  have hs : wsStep (35 :: t) = skipComment t := by
    simp [wsStep, multispace0, optComment, isMultispace, List.dropWhile_cons]
  rw [hs]
  have := skipComment_length t
  rw [if_neg (by simp; omega)]

theorem skipComment_append (b r : In) (hb : ∀ x ∈ b, x ≠ 10 ∧ x ≠ 13) : skipComment (b ++ r) = skipComment r := by
  induction b with
  | nil => rfl
  | cons c t ih =>
    have hc := hb c (by simp)
    rw [List.cons_append, skipComment_cons_other c _ hc.1 hc.2]
    exact ih (fun x hx => hb x (by simp [hx]))

/-- after an attached comment line the token-level skipper is where it would have been anyway -/
theorem wsF_commentDef (i c r : In) (h : commentDef i = .ok c r) : wsF i = wsF r := by
  obtain ⟨b, e, hb, hc, hr⟩ := commentDef_split i c r h
  rw [e, wsF_hash]
  have hbc : ∀ x ∈ b ++ c, x ≠ 10 ∧ x ≠ 13 := by
    intro x hx
    rcases List.mem_append.mp hx with h1 | h1
    · simp only [blanksOnly, List.all_eq_true] at hb
      have := hb x h1
      simp only [Bool.or_eq_true, beq_iff_eq] at this
      rcases this with rfl | rfl <;> decide
    · simp only [commentOK, Bool.and_eq_true, Bool.not_eq_true'] at hc
      obtain ⟨⟨h10, h13⟩, _⟩ := hc
      constructor
      · intro e; subst e
        have : c.contains 10 = true := by simpa using h1
        rw [h10] at this; cases this
      · intro e; subst e
        have : c.contains 13 = true := by simpa using h1
        rw [h13] at this; cases this
  rw [← List.append_assoc, skipComment_append _ _ hbc]
  rcases hr with hr | hr | hr
  · subst hr; rfl
  · cases r with
    | nil => simp at hr
    | cons r0 rt =>
      simp at hr; subst hr
      rw [wsF_cons_ws 10 rt (by decide)]
      rfl
  · cases r with
    | nil => simp at hr
    | cons r0 rt =>
      simp at hr; subst hr
      rw [wsF_cons_ws 13 rt (by decide)]
      cases rt with
      | nil => rfl
      | cons r1 rt' =>
        by_cases h10 : r1 = 10
        · subst h10
          rw [wsF_cons_ws 10 rt' (by decide)]
          rfl
        · have : skipComment (13 :: r1 :: rt') = r1 :: rt' := by
            unfold skipComment
            split <;> simp_all
          rw [this]

/-- **the two layout skippers agree**: behind whatever `parse_preceding_comments` consumed, `ws` stops where it
    would have stopped from the start -/
theorem wsF_pc : ∀ (k : Nat) (i : In) (acc : List In), wsF (precedingComments k i acc).2 = wsF i := by
  intro k
  induction k with
  | zero => intro i acc; rfl
  | succ k ih =>
    intro i acc
    unfold precedingComments
    split
    · rfl
    · simp only []
      split
      · rename_i he
        have he' : whitespaceOnly i = [] := by simpa using he
        show wsF (whitespaceOnly i) = wsF i
        exact wsF_whitespaceOnly i
      · split
        · rename_i c r hc
          rw [ih, wsF_whitespaceOnly, ← wsF_commentDef _ c r hc, wsF_whitespaceOnly]
        · rfl

theorem wsF_pcF (i : In) : wsF (pcF i).2 = wsF i := wsF_pc _ i []
end Idl
