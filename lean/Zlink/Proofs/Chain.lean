import Zlink.Proofs.Rx
import Zlink.Spec.Chain
/-! The reply stream consumes exactly the owed frames, whatever the interleaving. -/
namespace Chain
open Rx SpecChain

theorem advance_spec (kind : List Byte → Kind) (count : Nat) (ss : SS) (f : List Byte) (R : List (List Byte))
    (hc : ss.count = count) (hd : ss.done = false) (hw : owedWalk kind count ss.idx (f :: R) = true) :
    (advance kind ss f).count = count ∧ owedWalk kind count (advance kind ss f).idx R = true ∧
    (advance kind ss f).done = R.isEmpty := by
  simp only [owedWalk, Bool.and_eq_true, decide_eq_true_eq] at hw
  obtain ⟨hlt, hw⟩ := hw
  have hempty : ∀ i, owedWalk kind count i R = true → (R.isEmpty = true ↔ i = count) := by
    intro i h
    cases R with
    | nil => simp [owedWalk] at h ⊢; exact h
    | cons a b =>
      simp only [owedWalk, Bool.and_eq_true, decide_eq_true_eq] at h
      simp; omega
  unfold advance
  cases hk : kind f with
  | cont =>
    rw [hk] at hw
    simp only [hc]
    have := hempty _ hw
    rw [if_neg (by omega)]
    refine ⟨hc, hw, ?_⟩
    rw [hd]
    cases hR : R.isEmpty
    · rfl
    · have := this.mp hR; omega
  | final =>
    rw [hk] at hw
    simp only [hc]
    have := hempty _ hw
    by_cases hge : ss.idx + 1 ≥ count
    · rw [if_pos hge]
      refine ⟨rfl, hw, ?_⟩
      have h1 : ss.idx + 1 = count := by omega
      exact (this.mpr h1).symm
    · rw [if_neg hge]
      refine ⟨rfl, hw, ?_⟩
      show ss.done = R.isEmpty
      rw [hd]
      cases hR : R.isEmpty
      · rfl
      · have := this.mp hR; omega
  | merr =>
    rw [hk] at hw
    simp only [hc]
    have := hempty _ hw
    by_cases hge : ss.idx + 1 ≥ count
    · rw [if_pos hge]
      refine ⟨rfl, hw, ?_⟩
      have h1 : ss.idx + 1 = count := by omega
      exact (this.mpr h1).symm
    · rw [if_neg hge]
      refine ⟨rfl, hw, ?_⟩
      show ss.done = R.isEmpty
      rw [hd]
      cases hR : R.isEmpty
      · rfl
      · have := this.mp hR; omega
  | bad => rw [hk] at hw; cases hw

theorem srun_conforms (kind : List Byte → Kind) (C : Consts) (hstep : 0 < C.step) (sizes : Nat → Nat)
    (F T : List (List Byte)) (hF : ∀ f ∈ F ++ T, FrameOK f) (hmax : (enc (F ++ T)).length < C.max) (count : Nat) :
    ∀ (evs : List Ev) (ss : SS) (s : St) (e : Net) (fut : List Byte) (done R : List (List Byte)),
      F = done ++ R → Inv C (F ++ T) s e fut done → EvsOK evs fut → (e.closed = true → fut = []) →
      ss.count = count → owedWalk kind count ss.idx R = true → ss.done = R.isEmpty →
      conforms (srun kind C sizes evs ss s e).1 R = true ∧
      ∃ done' R' fut', F = done' ++ R' ∧
        Inv C (F ++ T) (srun kind C sizes evs ss s e).2.2.1 (srun kind C sizes evs ss s e).2.2.2 fut' done' ∧
        (srun kind C sizes evs ss s e).2.1.done = R'.isEmpty := by
  intro evs
  induction evs with
  | nil =>
    intro ss s e fut done R hfr inv _ _ _ _ hd
    exact ⟨by simp [srun, conforms], done, R, fut, hfr, inv, hd⟩
  | cons ev evs ih =>
    intro ss s e fut done R hfr inv hok hcl hcnt hw hd
    cases ev with
    | arrive b =>
      obtain ⟨fut', hfut, hok'⟩ := hok
      simp only [srun]
      apply ih ss s { e with avail := e.avail ++ b } fut' done R hfr ?_ hok' ?_ hcnt hw hd
      · obtain ⟨hcap, hbound, htail, R0, hfr0, hshape⟩ := inv
        refine ⟨hcap, by simp; rw [hfut] at hbound; simp at hbound; omega, htail, R0, hfr0, ?_⟩
        rcases hshape with ⟨h0, h1⟩ | ⟨h0, F1, F2, h1, h2, h3, h4⟩
        · left; refine ⟨h0, ?_⟩
          show s.data ++ (e.avail ++ b) ++ fut' = enc R0
          rw [← h1, hfut]; simp
        · right; refine ⟨h0, F1, F2, h1, h2, h3, ?_⟩
          show (e.avail ++ b) ++ fut' = enc F2
          rw [← h4, hfut]; simp
      · intro h; have := hcl h; subst this
        have : b = [] ∧ fut' = [] := by
          have := hfut.symm; exact List.append_eq_nil_iff.mp this
        exact this.2
    | close =>
      obtain ⟨hfut, hok'⟩ := hok
      simp only [srun]
      apply ih ss s { e with closed := true } fut done R hfr ?_ hok' (fun _ => hfut) hcnt hw hd
      obtain ⟨hcap, hbound, htail, hshape⟩ := inv
      exact ⟨hcap, hbound, htail, hshape⟩
    | poll =>
      have hok' : EvsOK evs fut := hok
      simp only [srun]
      by_cases hdone : ss.done = true
      · -- stream already ended: no transport access
        have hR : R = [] := by
          rw [hdone] at hd
          exact List.isEmpty_iff.mp hd.symm
        subst hR
        have hsp : spoll kind C sizes ss s e = (.ended, ss, s, e) := by simp [spoll, hdone]
        rw [hsp]
        obtain ⟨h1, h2⟩ := ih ss s e fut done [] hfr inv hok' hcl hcnt hw hd
        exact ⟨by simp [conforms, h1], h2⟩
      · have hdf : ss.done = false := by simpa using hdone
        obtain ⟨f, R', hRe⟩ : ∃ f R', R = f :: R' := by
          cases R with
          | nil => rw [hdf] at hd; simp at hd
          | cons a b => exact ⟨a, b, rfl⟩
        subst hRe
        have hframes : F ++ T = done ++ f :: (R' ++ T) := by rw [hfr]; simp
        rcases poll_spec C hstep sizes (F ++ T) hF hmax s e fut done inv with
          ⟨s', e', h1, h2, h3, h4, h5, h6⟩ | ⟨s', e', g, R'', h1, h2, h3, h4⟩ | ⟨s', e', h1, h2, h5⟩
        · have hsp : spoll kind C sizes ss s e = (.pending, ss, s', e') := by simp [spoll, hdf, h1]
          rw [hsp]
          obtain ⟨g1, g2⟩ := ih ss s' e' fut done (f :: R') hfr h2 hok' (by rw [h3]; exact hcl) hcnt hw hd
          exact ⟨by simp [conforms, g1], g2⟩
        · have hg : g = f := by
            have := h2.symm.trans hframes
            have := List.append_cancel_left this
            simp at this; exact this.1
          subst hg
          have hsp : spoll kind C sizes ss s e = (.item g, advance kind ss g, s', e') := by simp [spoll, hdf, h1]
          rw [hsp]
          obtain ⟨a1, a2, a3⟩ := advance_spec kind count ss g R' hcnt hdf hw
          obtain ⟨g1, g2⟩ := ih (advance kind ss g) s' e' fut (done ++ [g]) R' (by rw [hfr]; simp) h3 hok'
            (by rw [h4]; exact hcl) a1 a2 a3
          exact ⟨by simp [conforms, g1], g2⟩
        · -- end-of-stream is impossible while a frame is owed
          exfalso
          have hfut := hcl h2
          subst hfut
          obtain ⟨hR0, _, _⟩ := h5 rfl
          have : done ++ [] = done ++ f :: (R' ++ T) := by simpa using hR0.symm.trans hframes
          have := List.append_cancel_left this
          simp at this

/-- **The stream does not sit on a reply that is there** (the completeness oracle `SpecChain.complete`, on the model): for
    every interleaving, once every byte of the peer's stream has arrived, no poll of the stream is pending while a reply is
    still owed. -/
theorem srun_complete (kind : List Byte → Kind) (C : Consts) (hstep : 0 < C.step) (sizes : Nat → Nat)
    (F T : List (List Byte)) (hF : ∀ f ∈ F ++ T, FrameOK f) (hmax : (enc (F ++ T)).length < C.max) (count : Nat) :
    ∀ (evs : List Ev) (ss : SS) (s : St) (e : Net) (fut : List Byte) (done R : List (List Byte)),
      F = done ++ R → Inv C (F ++ T) s e fut done → EvsOK evs fut → (e.closed = true → fut = []) →
      ss.count = count → owedWalk kind count ss.idx R = true → ss.done = R.isEmpty →
      complete evs (srun kind C sizes evs ss s e).1 fut.length R.length = true := by
  intro evs
  induction evs with
  | nil => intro ss s e fut done R _ _ _ _ _ _ _; simp [srun, complete]
  | cons ev evs ih =>
    intro ss s e fut done R hfr inv hok hcl hcnt hw hd
    cases ev with
    | arrive b =>
      obtain ⟨fut', hfut, hok'⟩ := hok
      simp only [srun, complete]
      have hlen : fut.length - b.length = fut'.length := by rw [hfut]; simp
      rw [hlen]
      apply ih ss s { e with avail := e.avail ++ b } fut' done R hfr ?_ hok' ?_ hcnt hw hd
      · obtain ⟨hcap, hbound, htail, R0, hfr0, hshape⟩ := inv
        refine ⟨hcap, by simp; rw [hfut] at hbound; simp at hbound; omega, htail, R0, hfr0, ?_⟩
        rcases hshape with ⟨h0, h1⟩ | ⟨h0, F1, F2, h1, h2, h3, h4⟩
        · left; refine ⟨h0, ?_⟩
          show s.data ++ (e.avail ++ b) ++ fut' = enc R0
          rw [← h1, hfut]; simp
        · right; refine ⟨h0, F1, F2, h1, h2, h3, ?_⟩
          show (e.avail ++ b) ++ fut' = enc F2
          rw [← h4, hfut]; simp
      · intro h; have := hcl h; subst this
        have : b = [] ∧ fut' = [] := by
          have := hfut.symm; exact List.append_eq_nil_iff.mp this
        exact this.2
    | close =>
      obtain ⟨hfut, hok'⟩ := hok
      simp only [srun, complete]
      apply ih ss s { e with closed := true } fut done R hfr ?_ hok' (fun _ => hfut) hcnt hw hd
      obtain ⟨hcap, hbound, htail, hshape⟩ := inv
      exact ⟨hcap, hbound, htail, hshape⟩
    | poll =>
      have hok' : EvsOK evs fut := hok
      simp only [srun]
      by_cases hdone : ss.done = true
      · have hR : R = [] := by
          rw [hdone] at hd
          exact List.isEmpty_iff.mp hd.symm
        subst hR
        have hsp : spoll kind C sizes ss s e = (.ended, ss, s, e) := by simp [spoll, hdone]
        rw [hsp]
        simp only [complete, Bool.true_and]
        exact ih ss s e fut done [] hfr inv hok' hcl hcnt hw hd
      · have hdf : ss.done = false := by simpa using hdone
        obtain ⟨f, R', hRe⟩ : ∃ f R', R = f :: R' := by
          cases R with
          | nil => rw [hdf] at hd; simp at hd
          | cons a b => exact ⟨a, b, rfl⟩
        subst hRe
        have hframes : F ++ T = done ++ f :: (R' ++ T) := by rw [hfr]; simp
        rcases poll_spec C hstep sizes (F ++ T) hF hmax s e fut done inv with
          ⟨s', e', h1, h2, h3, h4, h5, h6⟩ | ⟨s', e', g, R'', h1, h2, h3, h4⟩ | ⟨s', e', h1, h2, h5⟩
        · have hsp : spoll kind C sizes ss s e = (.pending, ss, s', e') := by simp [spoll, hdf, h1]
          rw [hsp]
          simp only [complete, Bool.and_eq_true]
          refine ⟨?_, ih ss s' e' fut done (f :: R') hfr h2 hok' (by rw [h3]; exact hcl) hcnt hw hd⟩
          -- pending although everything has arrived and `f` is owed: impossible
          cases hfut : fut with
          | cons a t => simp
          | nil =>
            exfalso
            subst hfut
            obtain ⟨s2, e2, hp, _, _⟩ := poll_complete C hstep sizes (F ++ T) hF hmax s e done f (R' ++ T) hframes inv
            rw [hp] at h1
            cases h1
        · have hg : g = f := by
            have := h2.symm.trans hframes
            have := List.append_cancel_left this
            simp at this; exact this.1
          subst hg
          have hsp : spoll kind C sizes ss s e = (.item g, advance kind ss g, s', e') := by simp [spoll, hdf, h1]
          rw [hsp]
          obtain ⟨a1, a2, a3⟩ := advance_spec kind count ss g R' hcnt hdf hw
          simp only [complete, Bool.true_and, List.length_cons, Nat.add_sub_cancel]
          exact ih (advance kind ss g) s' e' fut (done ++ [g]) R' (by rw [hfr]; simp) h3 hok'
            (by rw [h4]; exact hcl) a1 a2 a3
        · exfalso
          have hfut := hcl h2
          subst hfut
          obtain ⟨hR0, _, _⟩ := h5 rfl
          have : done ++ [] = done ++ f :: (R' ++ T) := by simpa using hR0.symm.trans hframes
          have := List.append_cancel_left this
          simp at this

end Chain
