import Zlink.Model.Rx
namespace Rx

def FrameOK (f : List Byte) : Prop := f ≠ [] ∧ (0:Byte) ∉ f

theorem enc_nil : enc [] = [] := rfl
theorem enc_cons (f : List Byte) (fs) : enc (f :: fs) = f ++ 0 :: enc fs := by
  simp [enc, List.flatMap_cons]
theorem enc_append (a b) : enc (a ++ b) = enc a ++ enc b := by
  simp [enc, List.flatMap_append]

theorem split_at_nul (f t p q : List Byte) (hf : (0:Byte) ∉ f)
    (h : p ++ 0 :: q = f ++ 0 :: t) :
    (p = f ∧ q = t) ∨ (∃ r, p = f ++ 0 :: r ∧ r ++ 0 :: q = t) := by
  rcases List.append_eq_append_iff.mp h with ⟨a, ha1, ha2⟩ | ⟨c, hc1, hc2⟩
  · cases a with
    | nil => left; simp at ha1 ha2; exact ⟨ha1.symm, ha2⟩
    | cons z a' =>
      exfalso; simp at ha2
      apply hf; rw [ha1, ← ha2.1]; simp
  · cases c with
    | nil => left; simp at hc1 hc2; exact ⟨hc1, hc2.symm⟩
    | cons z c' =>
      right; simp at hc2
      exact ⟨c', by rw [hc1, ← hc2.1], hc2.2.symm⟩

theorem prefix_enc (F : List (List Byte)) (hF : ∀ f ∈ F, FrameOK f) :
    ∀ (p q : List Byte), (p ++ [0]) ++ q = enc F →
    ∃ F1 F2, F = F1 ++ F2 ∧ F1 ≠ [] ∧ p ++ [0] = enc F1 ∧ q = enc F2 := by
  induction F with
  | nil => intro p q h; simp [enc] at h
  | cons f F ih =>
    intro p q h
    have hf : FrameOK f := hF f (by simp)
    rw [enc_cons] at h
    have h' : p ++ 0 :: q = f ++ 0 :: enc F := by simpa using h
    rcases split_at_nul f (enc F) p q hf.2 h' with ⟨h1, h2⟩ | ⟨r, h1, h2⟩
    · exact ⟨[f], F, rfl, by simp, by simp [h1, enc_cons, enc_nil], h2⟩
    · obtain ⟨F1, F2, e1, _, e3, e4⟩ := ih (fun g hg => hF g (by simp [hg])) r q (by simpa using h2)
      refine ⟨f :: F1, F2, by simp [e1], by simp, ?_, e4⟩
      rw [enc_cons, ← e3, h1]; simp

theorem getLast?_zero_iff (l : List Byte) : l.getLast? = some 0 ↔ ∃ p, l = p ++ [0] := by
  constructor
  · intro h
    rcases List.getLast?_eq_some_iff.mp h with ⟨p, hp⟩
    exact ⟨p, hp⟩
  · rintro ⟨p, rfl⟩; simp

theorem enc_ne_nil_last (F : List (List Byte)) (hne : F ≠ []) : ∃ p, enc F = p ++ [0] := by
  induction F with
  | nil => exact absurd rfl hne
  | cons f F ih =>
    by_cases h : F = []
    · subst h; exact ⟨f, by simp [enc_cons, enc_nil]⟩
    · obtain ⟨p, hp⟩ := ih h
      exact ⟨f ++ 0 :: p, by simp [enc_cons, hp]⟩

/-- Specification of the read loop. `fut` = bytes of the peer's stream that have not arrived yet. -/
theorem readLoop_spec (C : Consts) (hstep : 0 < C.step) (sizes : Nat → Nat)
    (R : List (List Byte)) (hR : ∀ f ∈ R, FrameOK f) (fut : List Byte) (bound : Nat) (hb : bound < C.max) :
    ∀ (fuel : Nat) (s : St) (e : Net), e.avail.length < fuel →
      s.data ++ e.avail ++ fut = enc R → s.data.length < s.cap →
      s.data.length + e.avail.length ≤ bound → s.data.getLast? ≠ some 0 →
      (∃ s' e' F1 F2, readLoop C sizes fuel s e = (.done, s', e') ∧ R = F1 ++ F2 ∧ F1 ≠ [] ∧
          s'.data = enc F1 ∧ e'.avail ++ fut = enc F2 ∧ s'.data.length < s'.cap ∧
          s'.msgPos = s.msgPos ∧ e'.closed = e.closed ∧ s'.data.length + e'.avail.length ≤ bound) ∨
      (∃ s' e', readLoop C sizes fuel s e = (.pending, s', e') ∧ s'.data ++ e'.avail ++ fut = enc R ∧
          e'.avail = [] ∧ e.closed = false ∧ s'.data.length < s'.cap ∧ s'.msgPos = s.msgPos ∧
          e'.closed = e.closed ∧ s'.data.length + e'.avail.length ≤ bound ∧ s'.data.getLast? ≠ some 0) ∨
      (∃ s' e', readLoop C sizes fuel s e = (.err .eof, s', e') ∧ e.closed = true ∧
          (fut = [] → R = [] ∧ s'.data = [] ∧ e'.avail = [] ∧ s'.data.length < s'.cap ∧
             s'.msgPos = s.msgPos ∧ e'.closed = e.closed)) := by
  intro fuel
  induction fuel with
  | zero => intro s e h; omega
  | succ fuel ih =>
    intro s e hfuel hsplit hcap hbound hl0
    unfold readLoop
    simp only []
    by_cases hn : min (min (sizes e.k + 1) (s.cap - s.data.length)) e.avail.length = 0
    · rw [if_pos hn]
      have hav : e.avail = [] := by
        have : e.avail.length = 0 := by omega
        exact List.length_eq_zero_iff.mp this
      by_cases hc : e.closed = true
      · right; right
        refine ⟨s, e, by simp [hav, hc], hc, ?_⟩
        intro hfut
        have hd : s.data = enc R := by rw [← hsplit, hav, hfut]; simp
        have hR0 : R = [] := by
          by_cases h : R = []
          · exact h
          · exfalso; apply hl0
            obtain ⟨p, hp⟩ := enc_ne_nil_last R h
            rw [hd, hp]; simp
        subst hR0
        exact ⟨rfl, by rw [hd]; rfl, hav, hcap, rfl, rfl⟩
      · have hc' : e.closed = false := by simpa using hc
        right; left
        exact ⟨s, e, by simp [hav, hc'], hsplit, hav, hc', hcap, rfl, rfl, hbound, hl0⟩
    · rw [if_neg hn]
      generalize hnd : min (min (sizes e.k + 1) (s.cap - s.data.length)) e.avail.length = n at *
      have hn1 : 1 ≤ n := by omega
      have hn2 : n ≤ e.avail.length := by omega
      have hn3 : n ≤ s.cap - s.data.length := by omega
      have hlen : (s.data ++ List.take n e.avail).length = s.data.length + n := by
        simp; omega
      have hno : ¬ ((s.data ++ List.take n e.avail).length = s.cap ∧ (s.data ++ List.take n e.avail).length ≥ C.max) := by
        omega
      rw [if_neg hno]
      have hsplit' : (s.data ++ List.take n e.avail) ++ List.drop n e.avail ++ fut = enc R := by
        rw [List.append_assoc s.data, List.take_append_drop, hsplit]
      have hcap' : (s.data ++ List.take n e.avail).length <
          (if (s.data ++ List.take n e.avail).length = s.cap then s.cap + C.step else s.cap) := by
        split <;> omega
      have hbound' : (s.data ++ List.take n e.avail).length + (List.drop n e.avail).length ≤ bound := by
        rw [hlen]; simp; omega
      by_cases hlast : (s.data ++ List.take n e.avail).getLast? = some 0
      · rw [if_pos hlast]
        left
        obtain ⟨p, hp⟩ := (getLast?_zero_iff _).mp hlast
        obtain ⟨F1, F2, e1, e2, e3, e4⟩ := prefix_enc R hR p (List.drop n e.avail ++ fut)
          (by rw [← hp, ← List.append_assoc]; exact hsplit')
        exact ⟨_, _, F1, F2, rfl, e1, e2, by simp only []; rw [hp, e3], by simp only []; exact e4,
          hcap', rfl, rfl, hbound'⟩
      · rw [if_neg hlast]
        have := ih (St.mk (s.data ++ List.take n e.avail)
                    (if (s.data ++ List.take n e.avail).length = s.cap then s.cap + C.step else s.cap) s.msgPos)
           (Net.mk (List.drop n e.avail) e.closed (e.k + 1))
           (by simp; omega) hsplit' hcap' hbound' hlast
        rcases this with ⟨s', e', F1, F2, h1, h2, h3, h4, h5, h6, h7, h8, h9⟩ | ⟨s', e', h1, h2, h3, h4, h5, h6, h7, h8, h9⟩ | ⟨s', e', h1, h2, h3⟩
        · left; exact ⟨s', e', F1, F2, h1, h2, h3, h4, h5, h6, h7, h8, h9⟩
        · right; left; exact ⟨s', e', h1, h2, h3, h4, h5, h6, h7, h8, h9⟩
        · right; right; exact ⟨s', e', h1, h2, h3⟩
end Rx

namespace Rx

theorem takeWhile_frame (f t : List Byte) (hf : (0:Byte) ∉ f) :
    (f ++ 0 :: t).takeWhile (· != 0) = f := by
  induction f with
  | nil => simp
  | cons a f ih =>
    have ha : a ≠ 0 := by intro h; apply hf; simp [h]
    have : (0:Byte) ∉ f := by intro h; apply hf; simp [h]
    simp [ha, ih this]

/-- Invariant between events. `fut` = bytes of the peer's stream not yet arrived (ghost),
    `done` = frames already returned (ghost). -/
structure Inv (C : Consts) (frames : List (List Byte)) (s : St) (e : Net) (fut : List Byte)
    (done : List (List Byte)) : Prop where
  cap : s.data.length < s.cap
  bound : s.data.length + e.avail.length + fut.length ≤ (enc frames).length
  tail : s.msgPos = 0 → s.data.getLast? ≠ some 0
  shape : ∃ R, frames = done ++ R ∧
    ((s.msgPos = 0 ∧ s.data ++ e.avail ++ fut = enc R) ∨
     (0 < s.msgPos ∧ ∃ F1 F2, R = F1 ++ F2 ∧ F1 ≠ [] ∧ s.data.drop s.msgPos = enc F1 ∧
        e.avail ++ fut = enc F2))

/-- Extraction of the first buffered frame (the synchronous tail of `read_message`). -/
theorem extract_step (C : Consts) (frames : List (List Byte)) (hF : ∀ f ∈ frames, FrameOK f)
    (s1 : St) (e1 : Net) (fut : List Byte) (done : List (List Byte)) (f : List Byte)
    (G1' G2 : List (List Byte))
    (hfr : frames = done ++ (f :: G1' ++ G2))
    (k4 : s1.data.drop s1.msgPos = enc (f :: G1')) (k5 : e1.avail ++ fut = enc G2)
    (k6 : s1.data.length < s1.cap)
    (kb : s1.data.length + e1.avail.length + fut.length ≤ (enc frames).length) :
    let rest := s1.data.drop s1.msgPos
    let frame := rest.takeWhile (· != 0)
    let nullIdx := s1.msgPos + frame.length
    let next := s1.data.getD (nullIdx + 1) 0
    let s' : St := if next = 0 then { s1 with data := [], msgPos := 0 } else { s1 with msgPos := nullIdx + 1 }
    frame = f ∧ Inv C frames s' e1 fut (done ++ [f]) := by
  have hfok : FrameOK f := hF f (by rw [hfr]; simp)
  simp only []
  rw [k4, enc_cons, takeWhile_frame f _ hfok.2]
  refine ⟨rfl, ?_⟩
  have hdata : s1.data = s1.data.take s1.msgPos ++ (f ++ 0 :: enc G1') := by
    rw [← enc_cons, ← k4, List.take_append_drop]
  have hmp : s1.msgPos ≤ s1.data.length := by
    rcases Nat.lt_or_ge s1.data.length s1.msgPos with hc | hc
    · exfalso
      have : s1.data.drop s1.msgPos = [] := List.drop_eq_nil_of_le (by omega)
      rw [this, enc_cons] at k4; simp at k4
    · exact hc
  have hlen_take : (s1.data.take s1.msgPos).length = s1.msgPos := by simp; omega
  have hget : s1.data.getD (s1.msgPos + f.length + 1) 0 = (enc G1').getD 0 0 := by
    rw [hdata]
    rw [List.getD_eq_getElem?_getD, List.getD_eq_getElem?_getD]
    rw [List.getElem?_append_right (by rw [hlen_take]; omega)]
    rw [hlen_take]
    rw [List.getElem?_append_right (by omega)]
    have : s1.msgPos + f.length + 1 - s1.msgPos - f.length = 1 := by omega
    rw [this]; simp
  rw [hget]
  cases G1' with
  | nil =>
    simp only [enc_nil, List.getD_nil, if_true]
    refine ⟨by show ([] : List Byte).length < s1.cap; simp; omega, ?_, ?_, ?_⟩
    · show ([] : List Byte).length + e1.avail.length + fut.length ≤ _
      simp; omega
    · intro _; show ([] : List Byte).getLast? ≠ some 0; simp
    · refine ⟨G2, by rw [hfr]; simp, Or.inl ⟨rfl, ?_⟩⟩
      show [] ++ e1.avail ++ fut = enc G2
      simpa using k5
  | cons g G1'' =>
    have hg : FrameOK g := hF g (by rw [hfr]; simp)
    obtain ⟨g0, gt, hgg⟩ : ∃ g0 gt, g = g0 :: gt := by
      cases g with
      | nil => exact absurd rfl hg.1
      | cons a b => exact ⟨a, b, rfl⟩
    have hg0 : g0 ≠ 0 := by intro h; apply hg.2; simp [hgg, h]
    have hnz : ¬ ((enc (g :: G1'')).getD 0 0 = 0) := by
      rw [enc_cons, hgg]; simpa using hg0
    rw [if_neg hnz]
    refine ⟨k6, kb, (by intro h; exfalso; have : s1.msgPos + f.length + 1 = 0 := h; omega), g :: G1'' ++ G2, by rw [hfr]; simp, Or.inr ⟨by show 0 < s1.msgPos + f.length + 1; omega,
      g :: G1'', G2, rfl, by simp, ?_, k5⟩⟩
    show List.drop (s1.msgPos + f.length + 1) s1.data = enc (g :: G1'')
    have hd := congrArg (List.drop (s1.msgPos + f.length + 1)) hdata
    rw [hd]
    have e1' : s1.msgPos + f.length + 1 = (List.take s1.msgPos s1.data).length + (f.length + 1) := by
      rw [hlen_take]; omega
    rw [e1', List.drop_length_add_append, List.drop_length_add_append]; simp

end Rx

namespace Rx

theorem enc_eq_nil (F : List (List Byte)) (h : enc F = []) : F = [] := by
  cases F with
  | nil => rfl
  | cons a b => simp [enc_cons] at h

/-- What one poll can do, given the invariant. -/
theorem poll_spec (C : Consts) (hstep : 0 < C.step) (sizes : Nat → Nat)
    (frames : List (List Byte)) (hF : ∀ f ∈ frames, FrameOK f) (hmax : (enc frames).length < C.max)
    (s : St) (e : Net) (fut : List Byte) (done : List (List Byte))
    (inv : Inv C frames s e fut done) :
    (∃ s' e', poll C sizes s e = (.pending, s', e') ∧ Inv C frames s' e' fut done ∧
        e'.closed = e.closed ∧ e.closed = false ∧ e'.avail = [] ∧ s'.msgPos = 0) ∨
    (∃ s' e' f R', poll C sizes s e = (.frame f, s', e') ∧ frames = done ++ f :: R' ∧
        Inv C frames s' e' fut (done ++ [f]) ∧ e'.closed = e.closed) ∨
    (∃ s' e', poll C sizes s e = (.err .eof, s', e') ∧ e.closed = true ∧
        (fut = [] → frames = done ∧ Inv C frames s' e' fut done ∧ e'.closed = e.closed)) := by
  obtain ⟨hcap, hbound, htail, R, hfr, hshape⟩ := inv
  have hFR : ∀ g ∈ R, FrameOK g := by intro g hg; apply hF; rw [hfr]; simp [hg]
  rcases hshape with ⟨hm0, hsplit⟩ | ⟨hmpos, F1, F2, hR, hF1, hd, ha⟩
  · -- must read from the transport
    have hloop := readLoop_spec C hstep sizes R hFR fut ((enc frames).length - fut.length) (by omega)
      (e.avail.length + 1) s e (by omega) hsplit hcap (by omega) (htail hm0)
    unfold poll
    have hnm : ¬ (s.msgPos > 0) := by omega
    simp only [hnm, if_false]
    rcases hloop with ⟨s', e', G1, G2, h1, h2, h3, h4, h5, h6, h7, h8, h9⟩ | ⟨s', e', h1, h2, h3, h4, h5, h6, h7, h8, h10⟩ | ⟨s', e', h1, h2, h11⟩
    · right; left
      rw [h1]
      simp only []
      obtain ⟨f, G1', hG1⟩ : ∃ f G1', G1 = f :: G1' := by
        cases G1 with
        | nil => exact absurd rfl h3
        | cons a b => exact ⟨a, b, rfl⟩
      subst hG1
      have hm' : s'.msgPos = 0 := by rw [h7, hm0]
      have hlen59 : e'.avail.length + fut.length = (enc G2).length := by rw [← h5]; simp
      have hx := extract_step C frames hF s' e' fut done f G1' G2 (by rw [hfr, h2])
        (by rw [hm']; simpa using h4) h5 h6 (by
          have : (enc frames).length = (enc done).length + (enc (f :: G1')).length + (enc G2).length := by
            rw [hfr, h2, enc_append, enc_append]; simp; omega
          rw [h4]; omega)
      simp only [] at hx
      obtain ⟨hx1, hx2⟩ := hx
      refine ⟨_, e', f, G1' ++ G2, ?_, by rw [hfr, h2]; simp, hx2, h8⟩
      rw [hx1]
    · left
      rw [h1]
      refine ⟨s', e', rfl, ⟨h5, by omega, fun _ => h10, R, hfr, Or.inl ⟨by rw [h6, hm0], h2⟩⟩, h7, h4, h3, by rw [h6, hm0]⟩
    · right; right
      rw [h1]
      refine ⟨s', e', rfl, h2, ?_⟩
      intro hfut
      obtain ⟨g1, g2, g3, g4, g5, g6⟩ := h11 hfut
      subst g1
      refine ⟨by simpa using hfr, ⟨g4, by rw [g2, g3, hfut]; simp, fun _ => by rw [g2]; simp, [], by simpa using hfr,
        Or.inl ⟨by rw [g5, hm0], by rw [g2, g3, hfut]; rfl⟩⟩, g6⟩
  · -- a frame is already buffered: no read
    right; left
    unfold poll
    simp only [hmpos, if_true]
    obtain ⟨f, G1', hG1⟩ : ∃ f G1', F1 = f :: G1' := by
      cases F1 with
      | nil => exact absurd rfl hF1
      | cons a b => exact ⟨a, b, rfl⟩
    subst hG1
    have hx := extract_step C frames hF s e fut done f G1' F2 (by rw [hfr, hR]) hd ha hcap hbound
    simp only [] at hx
    obtain ⟨hx1, hx2⟩ := hx
    refine ⟨_, e, f, G1' ++ F2, ?_, by rw [hfr, hR]; simp, hx2, rfl⟩
    rw [hx1]

end Rx

namespace Rx

/-- Arrival events hand over successive pieces of the ghost stream `fut`; the peer closes only
    after it has sent everything. Polls may be interleaved arbitrarily. -/
def EvsOK : List Ev → List Byte → Prop
  | [], _ => True
  | .arrive b :: t, fut => ∃ fut', fut = b ++ fut' ∧ EvsOK t fut'
  | .close :: t, fut => fut = [] ∧ EvsOK t fut
  | .poll :: t, fut => EvsOK t fut

/-- A list of poll outcomes conforms to the frames still owed: every non-pending outcome is the
    next owed frame; end-of-stream only once nothing is owed. -/
inductive Good : List Out → List (List Byte) → Prop
  | nil (R) : Good [] R
  | pend {t R} : Good t R → Good (.pending :: t) R
  | frame {t R} (f) : Good t R → Good (.frame f :: t) (f :: R)
  | eof {t} : Good t [] → Good (.err .eof :: t) []

/-- C07/C01 safety at poll level: for EVERY interleaving of arrivals, polls (each poll is a fresh
    future that is dropped afterwards — i.e. every cancellation pattern) and close, nothing is
    fabricated, dropped, duplicated or reordered. -/
theorem run_good (C : Consts) (hstep : 0 < C.step) (sizes : Nat → Nat)
    (frames : List (List Byte)) (hF : ∀ f ∈ frames, FrameOK f) (hmax : (enc frames).length < C.max) :
    ∀ (evs : List Ev) (s : St) (e : Net) (fut : List Byte) (done R : List (List Byte)),
      frames = done ++ R → Inv C frames s e fut done → EvsOK evs fut →
      (e.closed = true → fut = []) →
      Good (run C sizes evs s e) R := by
  intro evs
  induction evs with
  | nil => intro s e fut done R _ _ _ _; exact Good.nil R
  | cons ev evs ih =>
    intro s e fut done R hfr inv hok hcl
    cases ev with
    | arrive b =>
      obtain ⟨fut', hfut, hok'⟩ := hok
      simp only [run, step]
      apply ih s { e with avail := e.avail ++ b } fut' done R hfr ?_ hok'
      · intro h; have := hcl h; subst this
        have : b = [] ∧ fut' = [] := by
          have := hfut.symm; exact List.append_eq_nil_iff.mp this
        exact this.2
      · obtain ⟨hcap, hbound, htail, R0, hfr0, hshape⟩ := inv
        refine ⟨hcap, by simp; rw [hfut] at hbound; simp at hbound; omega, htail, R0, hfr0, ?_⟩
        rcases hshape with ⟨h0, h1⟩ | ⟨h0, F1, F2, h1, h2, h3, h4⟩
        · left; refine ⟨h0, ?_⟩
          show s.data ++ (e.avail ++ b) ++ fut' = enc R0
          rw [← h1, hfut]; simp
        · right; refine ⟨h0, F1, F2, h1, h2, h3, ?_⟩
          show (e.avail ++ b) ++ fut' = enc F2
          rw [← h4, hfut]; simp
    | close =>
      obtain ⟨hfut, hok'⟩ := hok
      simp only [run, step]
      apply ih s { e with closed := true } fut done R hfr ?_ hok' (fun _ => hfut)
      obtain ⟨hcap, hbound, htail, hshape⟩ := inv
      exact ⟨hcap, hbound, htail, hshape⟩
    | poll =>
      have hok' : EvsOK evs fut := hok
      simp only [run, step]
      rcases poll_spec C hstep sizes frames hF hmax s e fut done inv with
        ⟨s', e', h1, h2, h3, _, _, _⟩ | ⟨s', e', f, R', h1, h2, h3, h4⟩ | ⟨s', e', h1, h2, h5⟩
      · rw [h1]
        exact Good.pend (ih s' e' fut done R hfr h2 hok' (by rw [h3]; exact hcl))
      · rw [h1]
        have hR : R = f :: R' := by
          have := hfr.symm.trans h2; exact List.append_cancel_left this
        subst hR
        exact Good.frame f (ih s' e' fut (done ++ [f]) R' (by rw [h2]; simp) h3 hok' (by rw [h4]; exact hcl))
      · -- end of stream: only possible once nothing is owed
        rw [h1]
        have hfut := hcl h2
        subst hfut
        obtain ⟨hR0, hinv', hcl'⟩ := h5 rfl
        have hR : R = [] := by
          have := hfr.symm.trans hR0; simpa using this
        subst hR
        exact Good.eof (ih s' e' [] done [] hfr hinv' hok' (fun _ => rfl))

end Rx

namespace Rx

theorem inv_init (C : Consts) (hstep : 0 < C.step) (frames : List (List Byte)) :
    Inv C frames (init C) net0 (enc frames) [] := by
  refine ⟨by simp [init]; exact hstep, by simp [init, net0], fun _ => by simp [init], frames, by simp, Or.inl ⟨rfl, ?_⟩⟩
  simp [init, net0]

/-- C07 / C01 (safety, poll level): whatever the interleaving of byte arrivals, polls of freshly
    created receive futures (dropped after each poll: every cancellation pattern), read sizes and
    the final close, the non-pending outcomes are exactly the frames, in order, then end-of-stream. -/
theorem C07_safe (C : Consts) (hstep : 0 < C.step) (sizes : Nat → Nat)
    (frames : List (List Byte)) (hF : ∀ f ∈ frames, FrameOK f) (hmax : (enc frames).length < C.max)
    (evs : List Ev) (hev : EvsOK evs (enc frames)) :
    Good (run C sizes evs (init C) net0) frames :=
  run_good C hstep sizes frames hF hmax evs (init C) net0 (enc frames) [] frames (by simp)
    (inv_init C hstep frames) hev (by simp [net0])

/-- Liveness: once everything has arrived, a poll never stays pending while a frame is owed. -/
theorem poll_complete (C : Consts) (hstep : 0 < C.step) (sizes : Nat → Nat)
    (frames : List (List Byte)) (hF : ∀ f ∈ frames, FrameOK f) (hmax : (enc frames).length < C.max)
    (s : St) (e : Net) (done : List (List Byte)) (f : List Byte) (R' : List (List Byte))
    (hfr : frames = done ++ f :: R') (inv : Inv C frames s e [] done) :
    ∃ s' e', poll C sizes s e = (.frame f, s', e') ∧ Inv C frames s' e' [] (done ++ [f]) ∧
      e'.closed = e.closed := by
  rcases poll_spec C hstep sizes frames hF hmax s e [] done inv with
    ⟨s', e', h1, h2, h3, h4, h5, h6⟩ | ⟨s', e', g, R'', h1, h2, h3, h4⟩ | ⟨s', e', h1, h2, h3⟩
  · exfalso
    obtain ⟨_, _, htail, R, hfrR, hshape⟩ := h2
    have hR : R = f :: R' := by
      have := hfrR.symm.trans hfr; exact List.append_cancel_left this
    rcases hshape with ⟨_, hs⟩ | ⟨hpos, _⟩
    · rw [h5] at hs
      simp at hs
      obtain ⟨p, hp⟩ := enc_ne_nil_last R (by rw [hR]; simp)
      apply htail h6
      rw [hs, hp]; simp
    · omega
  · have : g :: R'' = f :: R' := by
      have := h2.symm.trans hfr; exact List.append_cancel_left this
    simp at this
    obtain ⟨hg, _⟩ := this
    subst hg
    exact ⟨s', e', h1, h3, h4⟩
  · exfalso
    obtain ⟨hd, _, _⟩ := h3 rfl
    have : done ++ [] = done ++ f :: R' := by simpa using hd.symm.trans hfr
    have := List.append_cancel_left this
    simp at this

end Rx
