import Zlink.Proofs.IdlLex
/-! Layout layer of the IDL parser model: how `multispace0`, `ws`, `parse_preceding_comments`, `literal`
    and `str::trim` behave on the texts the renderer produces. Used by the round-trip proof
    (`Proofs/IdlRoundTrip.lean`). -/
namespace Idl
open SpecIdl

/-- decides facts about byte classes by going to `Nat` -/
macro "bytes" : tactic => `(tactic| (
  simp only [isAlpha, isUpper, isDigit, isAlnum, isMultispace, isAsciiWs, Bool.or_eq_true, Bool.and_eq_true, decide_eq_true_eq,
    Bool.or_eq_false_iff, Bool.and_eq_false_iff, beq_iff_eq, bne_iff_ne, ne_eq, beq_eq_false_iff_ne,
    UInt8.le_iff_toNat_le, ← UInt8.toNat_inj, UInt8.toNat_ofNat, decide_eq_false_iff_not, Nat.not_le, UInt8.reduceToNat] at *
  <;> omega))

/-- the input is empty or starts with a byte that is neither layout nor the start of a comment -/
def plainHead : In → Bool
  | [] => true
  | c :: _ => !isMultispace c && c != 35

/-- the input starts with a letter (a name or a keyword follows) -/
def alphaHead : In → Bool
  | [] => false
  | c :: _ => isAlpha c

theorem alphaHead_plain {i : In} (h : alphaHead i = true) : plainHead i = true := by
  cases i with
  | nil => rfl
  | cons c t =>
    simp only [alphaHead] at h
    simp only [plainHead, Bool.and_eq_true, Bool.not_eq_true', bne_iff_ne, ne_eq]
    exact ⟨by bytes, by bytes⟩

theorem alphaHead_ne_nil {i : In} (h : alphaHead i = true) : i ≠ [] := by
  cases i with
  | nil => simp [alphaHead] at h
  | cons c t => simp

theorem alphaHead_append {a : In} (b : In) (h : alphaHead a = true) : alphaHead (a ++ b) = true := by
  cases a with
  | nil => simp [alphaHead] at h
  | cons c t => simpa [alphaHead] using h

theorem plainHead_append {a : In} (b : In) (hne : a ≠ []) (h : plainHead a = true) : plainHead (a ++ b) = true := by
  cases a with
  | nil => exact absurd rfl hne
  | cons c t => simpa [plainHead] using h

theorem multispace0_plain {i : In} (h : plainHead i = true) : multispace0 i = i := by
  cases i with
  | nil => rfl
  | cons c t =>
    simp only [plainHead, Bool.and_eq_true, Bool.not_eq_true'] at h
    simp [multispace0, h.1]

theorem whitespaceOnly_plain {i : In} (h : plainHead i = true) : whitespaceOnly i = i := multispace0_plain h

theorem multispace0_cons_ws (c : Byte) (i : In) (hc : isMultispace c = true) : multispace0 (c :: i) = multispace0 i := by
  simp [multispace0, hc]

theorem whitespaceOnly_space {i : In} (h : plainHead i = true) : whitespaceOnly (32 :: i) = i := by
  show multispace0 (32 :: i) = i
  rw [multispace0_cons_ws 32 i (by decide), multispace0_plain h]

theorem whitespaceOnly_nl {i : In} (h : plainHead i = true) : whitespaceOnly (10 :: i) = i := by
  show multispace0 (10 :: i) = i
  rw [multispace0_cons_ws 10 i (by decide), multispace0_plain h]

theorem whitespaceOnly_nlnl {i : In} (h : plainHead i = true) : whitespaceOnly (10 :: 10 :: i) = i := by
  show multispace0 (10 :: 10 :: i) = i
  rw [multispace0_cons_ws 10 _ (by decide), multispace0_cons_ws 10 i (by decide), multispace0_plain h]

theorem optComment_plain {i : In} (h : i.head? ≠ some 35) : optComment i = i := by
  unfold optComment
  split
  · simp at h
  · rfl

theorem ws_plain (n : Nat) {i : In} (h : plainHead i = true) (h35 : i.head? ≠ some 35) : ws n i = i := by
  cases n with
  | zero => rfl
  | succ n =>
    unfold ws
    simp only [multispace0_plain h, optComment_plain h35]
    simp

theorem plainHead_not35 {i : In} (h : plainHead i = true) : i.head? ≠ some 35 := by
  cases i with
  | nil => simp
  | cons c t =>
    simp only [plainHead, Bool.and_eq_true, bne_iff_ne, ne_eq] at h
    simpa using h.2

theorem wsF_plain {i : In} (h : plainHead i = true) : wsF i = i := ws_plain _ h (plainHead_not35 h)

theorem wsF_space {i : In} (h : plainHead i = true) : wsF (32 :: i) = i := by
  unfold wsF
  show ws ((32 :: i).length + 1) (32 :: i) = i
  unfold ws
  have h1 : multispace0 (32 :: i) = i := by rw [multispace0_cons_ws 32 i (by decide), multispace0_plain h]
  simp only [h1]
  rw [optComment_plain (plainHead_not35 h)]
  rw [if_neg (by simp)]
  exact ws_plain _ h (plainHead_not35 h)

/-! ### `literal` -/

theorem litB_append (p r : In) : litB p (p ++ r) = .ok () r := by
  unfold litB
  have : p.isPrefixOf (p ++ r) = true := by simp [List.isPrefixOf_iff_prefix]
  rw [if_pos this]; simp

theorem litB_cons_ne (a c : Byte) (p t : In) (h : c ≠ a) : litB (a :: p) (c :: t) = .err (c :: t) := by
  unfold litB
  have : (a :: p).isPrefixOf (c :: t) = false := by
    simp only [List.isPrefixOf, Bool.and_eq_false_iff, beq_eq_false_iff_ne, ne_eq]
    left; exact fun e => h e.symm
  rw [if_neg (by simp [this])]

theorem litB_nil (a : Byte) (p : In) : litB (a :: p) [] = .err [] := by
  simp [litB, List.isPrefixOf]

/-! ### comments -/

/-- a comment text (no line break of either kind) followed by a line-end byte `e` (LF or CR): the comment reader
    takes exactly the text -/
theorem takeWhile_ne_nl' (c rest : In) (e : Byte) (he : e = 10 ∨ e = 13) (hc : c.contains 10 = false ∧ c.contains 13 = false) :
    (c ++ e :: rest).takeWhile (fun x => x != 10 && x != 13) = c := by
  induction c with
  | nil => rcases he with rfl | rfl <;> simp
  | cons a t ih =>
    obtain ⟨h10, h13⟩ := hc
    simp only [List.contains_cons, Bool.or_eq_false_iff] at h10 h13
    have ha : (a != 10 && a != 13) = true := by
      have h1 := h10.1
      have h2 := h13.1
      simp only [beq_eq_false_iff_ne, ne_eq] at h1 h2
      simp only [Bool.and_eq_true, bne_iff_ne, ne_eq]
      exact ⟨fun e => h1 e.symm, fun e => h2 e.symm⟩
    simp only [List.cons_append, List.takeWhile_cons, ha, if_true]
    rw [ih ⟨h10.2, h13.2⟩]

/-- a rendered comment line is read back as exactly its content; the parser stops at the line end -/
theorem commentDef_render (c rest : In) (hok : commentOK c = true) :
    commentDef (renderComment c ++ 10 :: rest) = .ok c (10 :: rest) := by
  simp only [commentOK, Bool.and_eq_true, Bool.not_eq_true'] at hok
  obtain ⟨hnl, hlead⟩ := hok
  have hdrop : (c ++ 10 :: rest).dropWhile (fun x => x == 32 || x == 9) = c ++ 10 :: rest := by
    cases c with
    | nil => simp [List.dropWhile_cons]
    | cons a t =>
      have : (a == 32 || a == 9) = false := by
        by_cases h1 : a = 32
        · subst h1; simp at hlead
        · by_cases h2 : a = 9
          · subst h2; simp at hlead
          · simp [h1, h2]
      simp [List.dropWhile_cons, this]
  simp only [renderComment, commentDef, List.cons_append, List.nil_append, List.dropWhile_cons, beq_self_eq_true,
    Bool.true_or, if_true]
  rw [hdrop, takeWhile_ne_nl' c rest 10 (Or.inl rfl) hnl]
  simp

theorem commentDef_plain {i : In} (h : plainHead i = true) : commentDef i = .err i := by
  cases i with
  | nil => rfl
  | cons c t =>
    have : c ≠ 35 := by simpa using plainHead_not35 h
    unfold commentDef
    split
    · rename_i heq; cases heq; exact absurd rfl this
    · rfl

/-- `parse_preceding_comments` on an input that does not start with layout or a comment -/
theorem pc_plain (k : Nat) {i : In} (acc : List In) (h : plainHead i = true) :
    precedingComments k i acc = (acc, i) := by
  cases k with
  | zero => rfl
  | succ k =>
    unfold precedingComments
    by_cases he : i.isEmpty = true
    · rw [if_pos he]
    · rw [if_neg he]
      simp only [whitespaceOnly_plain h]
      rw [if_neg he, commentDef_plain h]

theorem pcF_plain {i : In} (h : plainHead i = true) : pcF i = ([], i) := pc_plain _ [] h

theorem renderComments_cons (c : In) (cs : List In) :
    renderComments (c :: cs) = renderComment c ++ 10 :: renderComments cs := by
  simp [renderComments, List.flatMap_cons]

/-- for `whitespaceOnly` only the first condition matters -/
theorem whitespaceOnly_comments (cs : List In) {rest : In} (h : plainHead rest = true) :
    whitespaceOnly (renderComments cs ++ rest) = renderComments cs ++ rest := by
  cases cs with
  | nil => simpa [renderComments] using whitespaceOnly_plain h
  | cons c cs =>
    simp [renderComments_cons, renderComment, whitespaceOnly, multispace0, List.dropWhile_cons, isMultispace]

/-- the comments in front of a member, field, parameter or variant are read back exactly -/
theorem pc_comments (cs : List In) : ∀ (k : Nat) (rest : In) (acc : List In), cs.all commentOK = true →
    plainHead rest = true → rest ≠ [] → cs.length < k →
    precedingComments k (renderComments cs ++ rest) acc = (acc ++ cs, rest) := by
  induction cs with
  | nil =>
    intro k rest acc _ hp _ _
    simpa [renderComments] using pc_plain k acc hp
  | cons c cs ih =>
    intro k rest acc hok hp hne hk
    cases k with
    | zero => simp at hk
    | succ k =>
      simp only [List.all_cons, Bool.and_eq_true] at hok
      rw [renderComments_cons]
      unfold precedingComments
      have e1 : ((renderComment c ++ 10 :: renderComments cs) ++ rest).isEmpty = false := by
        simp [renderComment]
      have e2 : whitespaceOnly ((renderComment c ++ 10 :: renderComments cs) ++ rest)
          = (renderComment c ++ 10 :: renderComments cs) ++ rest := by
        simp [renderComment, whitespaceOnly, multispace0, List.dropWhile_cons, isMultispace]
      rw [if_neg (by simp [e1])]
      simp only [e2]
      rw [if_neg (by simp [e1])]
      have e3 : (renderComment c ++ 10 :: renderComments cs) ++ rest
          = renderComment c ++ 10 :: (renderComments cs ++ rest) := by simp
      rw [e3, commentDef_render c _ hok.1]
      simp only []
      have e4 : whitespaceOnly (10 :: (renderComments cs ++ rest)) = renderComments cs ++ rest := by
        show multispace0 (10 :: (renderComments cs ++ rest)) = _
        rw [multispace0_cons_ws 10 _ (by decide)]
        exact whitespaceOnly_comments cs hp
      rw [e4, ih k rest (acc ++ [c]) hok.2 hp hne (by simp at hk; omega)]
      simp

theorem renderComments_length_ge (cs : List In) : cs.length ≤ (renderComments cs).length := by
  induction cs with
  | nil => simp [renderComments]
  | cons c cs ih => rw [renderComments_cons]; simp [renderComment]; omega

theorem pcF_comments (cs : List In) (rest : In) (hok : cs.all commentOK = true)
    (hp : plainHead rest = true) (hne : rest ≠ []) :
    pcF (renderComments cs ++ rest) = (cs, rest) := by
  unfold pcF
  have := pc_comments cs ((renderComments cs ++ rest).length + 1) rest [] hok hp hne
    (by have := renderComments_length_ge cs; simp; omega)
  simpa using this

end Idl
