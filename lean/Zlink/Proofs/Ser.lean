import Zlink.Model.Ser
/-! Capacity algebra for the slice serializer: every serializer action is *capacity-respecting* with a
    trace that is the reference rendering; hence the result of `to_slice` depends on the buffer length
    only through "does the rendering fit". -/
namespace Ser

/-- An action is capacity-respecting with trace `t` and verdict `keyErr`: on a writer within
    capacity it appends `t` if it fits (then succeeds, or reports the key error), and reports
    `tooSmall` otherwise. -/
def Resp (a : Act) (t : List Byte) (keyErr : Bool) : Prop :=
  ∀ w, w.out.length ≤ w.cap →
    a w = if w.out.length + t.length ≤ w.cap
          then (if keyErr then .error .keyMustBeString else .ok { w with out := w.out ++ t })
          else .error .tooSmall

theorem resp_write (b : List Byte) : Resp (writeAll b) b false := by
  intro w _; unfold writeAll
  by_cases h : w.out.length + b.length > w.cap
  · rw [if_pos h, if_neg (by omega)]
  · rw [if_neg h, if_pos (by omega)]; rfl

theorem resp_skip : Resp skip [] false := by
  intro w hw; simp [skip, hw]

theorem resp_fail : Resp (fail .keyMustBeString) [] true := by
  intro w hw; simp [fail, hw]

theorem resp_seq (a b : Act) (ta tb : List Byte) (kb : Bool)
    (ha : Resp a ta false) (hb : Resp b tb kb) : Resp (a ⨾ b) (ta ++ tb) kb := by
  intro w hw
  unfold seqA
  rw [ha w hw]
  by_cases h1 : w.out.length + ta.length ≤ w.cap
  · rw [if_pos h1]
    simp only [Bool.false_eq_true, if_false]
    rw [hb _ (by simp; omega)]
    dsimp only
    simp only [List.length_append]
    by_cases h2 : w.out.length + ta.length + tb.length ≤ w.cap
    · rw [if_pos h2, if_pos (show w.out.length + (ta.length + tb.length) ≤ w.cap by omega), List.append_assoc]
    · rw [if_neg h2, if_neg (show ¬ w.out.length + (ta.length + tb.length) ≤ w.cap by omega)]
  · rw [if_neg h1]
    simp only [List.length_append]
    rw [if_neg (by omega)]

theorem resp_seq_err (a b : Act) (ta : List Byte) (ha : Resp a ta true) : Resp (a ⨾ b) ta true := by
  intro w hw
  unfold seqA
  rw [ha w hw]
  by_cases h1 : w.out.length + ta.length ≤ w.cap
  · rw [if_pos h1]; simp
  · rw [if_neg h1]

theorem resp_congr {a : Act} {t t' : List Byte} {k k' : Bool} (h : Resp a t k) (ht : t = t') (hk : k = k') :
    Resp a t' k' := by subst ht; subst hk; exact h

/-- sequencing where the first action may end in a key error -/
theorem resp_seq' (a b : Act) (ta tb : List Byte) (ka kb : Bool)
    (ha : Resp a ta ka) (hb : Resp b tb kb) :
    Resp (a ⨾ b) (if ka then ta else ta ++ tb) (if ka then true else kb) := by
  cases ka with
  | true => simpa using resp_seq_err a b ta ha
  | false => simpa using resp_seq a b ta tb kb ha hb

theorem resp_sep (first : Bool) :
    Resp (if first then skip else writeAll [44]) (if first then [] else [44]) false := by
  cases first
  · simpa using resp_write [44]
  · simpa using resp_skip

theorem resp_flush (run : List Byte) : Resp (if run = [] then skip else writeAll run) run false := by
  by_cases h : run = []
  · subst h; simpa using resp_skip
  · simpa [h] using resp_write run

theorem fmtContents_resp (t : Tbl) : ∀ (bs run : List Byte),
    Resp (fmtContents t run bs) (run ++ escape t bs) false := by
  intro bs
  induction bs with
  | nil => intro run; simpa [fmtContents, escape] using resp_flush run
  | cons b rest ih =>
    intro run
    unfold fmtContents
    by_cases he : t.esc b = 0
    · rw [if_pos he]
      have := ih (run ++ [b])
      refine resp_congr this ?_ rfl
      simp [escape, escByte, he]
    · rw [if_neg he]
      have h1 := resp_seq _ _ _ _ _ (resp_seq _ _ _ _ _ (resp_flush run) (resp_write (escapeSeq t b))) (ih [])
      refine resp_congr h1 ?_ rfl
      simp [escape, escByte, he]

theorem fmtStr_resp (t : Tbl) (s : List Byte) : Resp (fmtStr t s) (quoted t s) false := by
  have := resp_seq _ _ _ _ _ (resp_seq _ _ _ _ _ (resp_write [34]) (fmtContents_resp t s [])) (resp_write [34])
  refine resp_congr this ?_ rfl
  simp [quoted]

theorem serBytes_resp : ∀ (bs : List Byte) (first : Bool),
    Resp (serBytes first bs) (renderBytes first bs) false := by
  intro bs
  induction bs with
  | nil => intro first; simpa [serBytes, renderBytes] using resp_skip
  | cons b rest ih =>
    intro first
    have := resp_seq _ _ _ _ _ (resp_seq _ _ _ _ _ (resp_sep first) (resp_write (dec3 b))) (ih false)
    simpa [serBytes, renderBytes] using this

theorem serKey_resp (t : Tbl) : ∀ k, Resp (serKey t k) (renderKey t k).1 (renderKey t k).2
  | .str s => by simpa [serKey, renderKey] using fmtStr_resp t s
  | .int x => by
      have := resp_seq _ _ _ _ _ (resp_seq _ _ _ _ _ (resp_write [34]) (resp_write x)) (resp_write [34])
      simpa [serKey, renderKey] using this
  | .newtype v => by simpa [serKey, renderKey] using serKey_resp t v
  | .bool _ => by simpa [serKey, renderKey] using resp_fail
  | .float _ => by simpa [serKey, renderKey] using resp_fail
  | .fnull => by simpa [serKey, renderKey] using resp_fail
  | .bytes _ => by simpa [serKey, renderKey] using resp_fail
  | .unit => by simpa [serKey, renderKey] using resp_fail
  | .some _ => by simpa [serKey, renderKey] using resp_fail
  | .variant _ _ => by simpa [serKey, renderKey] using resp_fail
  | .seq _ _ => by simpa [serKey, renderKey] using resp_fail
  | .map _ _ => by simpa [serKey, renderKey] using resp_fail

/-- rendering of the rest of a compound plus its closing bracket (absent after a key error) -/
def closed (r : List Byte × Bool) (c : Byte) : List Byte := if r.2 then r.1 else r.1 ++ [c]

def firstOf : CState → Bool | .first => true | _ => false

mutual
theorem ser_resp (t : Tbl) : ∀ v, WF v = true → Resp (ser t v) (render t v).1 (render t v).2
  | .bool true, _ => by simpa [ser, render] using resp_write _
  | .bool false, _ => by simpa [ser, render] using resp_write _
  | .int x, _ => by simpa [ser, render] using resp_write x
  | .float x, _ => by simpa [ser, render] using resp_write x
  | .fnull, _ => by simpa [ser, render] using resp_write _
  | .unit, _ => by simpa [ser, render] using resp_write _
  | .str s, _ => by simpa [ser, render] using fmtStr_resp t s
  | .bytes bs, _ => by
      have := resp_seq _ _ _ _ _ (resp_seq _ _ _ _ _ (resp_write [91]) (serBytes_resp bs true)) (resp_write [93])
      simpa [ser, render] using this
  | .some v, h => by
      have := ser_resp t v (by simpa [WF] using h)
      simpa [ser, render] using this
  | .newtype v, h => by
      have := ser_resp t v (by simpa [WF] using h)
      simpa [ser, render] using this
  | .variant name v, h => by
      have hv := ser_resp t v (by simpa [WF] using h)
      have h0 := resp_seq _ _ _ _ _ (resp_seq _ _ _ _ _ (resp_write [123]) (fmtStr_resp t name)) (resp_write [58])
      have h1 := resp_seq' _ _ _ _ _ _ (resp_seq _ _ _ _ _ h0 hv) (resp_write [125])
      simp only [ser, render]
      cases hk : (render t v).2
      · simp only [hk, Bool.false_eq_true, if_false] at h1 ⊢
        refine resp_congr h1 ?_ rfl
        simp
      · simp only [hk, if_true] at h1 ⊢
        refine resp_congr h1 ?_ rfl
        simp
  | .seq hint items, h => by
      simp only [WF, Bool.and_eq_true, Bool.or_eq_true, bne_iff_ne, ne_eq] at h
      obtain ⟨hh, hw⟩ := h
      simp only [ser, render]
      by_cases h0 : hint = some 0
      · -- announced empty: `[` `]`, state Empty, and (WF) no items
        have hnil : items = .nil := by
          rcases hh with hh | hh
          · exact absurd h0 hh
          · cases items with
            | nil => rfl
            | cons a b => simp at hh
        subst hnil
        have := resp_seq _ _ _ _ _ (resp_seq _ _ _ _ _ (resp_write [91]) (resp_write [93])) resp_skip
        simp only [h0, if_true, startState, serItems, renderItems]
        refine resp_congr this ?_ rfl
        simp
      · have hi := items_resp t .first (by decide) items hw
        have := resp_seq _ _ _ _ _ (resp_seq _ _ _ _ _ (resp_write [91]) resp_skip) hi
        simp only [h0, if_false, startState]
        refine resp_congr this ?_ ?_
        · simp only [closed, firstOf]
          by_cases hk : (renderItems t true items).2 = true <;> simp [hk]
        · simp only [firstOf]
          by_cases hk : (renderItems t true items).2 = true <;> simp [hk]
  | .map hint entries, h => by
      simp only [WF, Bool.and_eq_true, Bool.or_eq_true, bne_iff_ne, ne_eq] at h
      obtain ⟨hh, hw⟩ := h
      simp only [ser, render]
      by_cases h0 : hint = some 0
      · have hnil : entries = .nil := by
          rcases hh with hh | hh
          · exact absurd h0 hh
          · cases entries with
            | nil => rfl
            | cons a b c => simp at hh
        subst hnil
        have := resp_seq _ _ _ _ _ (resp_seq _ _ _ _ _ (resp_write [123]) (resp_write [125])) resp_skip
        simp only [h0, if_true, startState, serEntries, renderEntries]
        refine resp_congr this ?_ rfl
        simp
      · have hi := entries_resp t .first (by decide) entries hw
        have := resp_seq _ _ _ _ _ (resp_seq _ _ _ _ _ (resp_write [123]) resp_skip) hi
        simp only [h0, if_false, startState]
        refine resp_congr this ?_ ?_
        · simp only [closed, firstOf]
          by_cases hk : (renderEntries t true entries).2 = true <;> simp [hk]
        · simp only [firstOf]
          by_cases hk : (renderEntries t true entries).2 = true <;> simp [hk]
theorem items_resp (t : Tbl) : ∀ (st : CState), st ≠ .empty → ∀ items, WFItems items = true →
    Resp (serItems t st items) (closed (renderItems t (firstOf st) items) 93) (renderItems t (firstOf st) items).2
  | st, hst, .nil, _ => by
      simp only [serItems, hst, if_false, renderItems, closed]
      simpa using resp_write [93]
  | st, hst, .cons v r, h => by
      simp only [WFItems, Bool.and_eq_true] at h
      have hv := ser_resp t v h.1
      have hr := items_resp t .rest (by decide) r h.2
      have hsep : Resp (if st = .first then skip else writeAll [44]) (if firstOf st then [] else [44]) false := by
        cases st <;> simp [firstOf] <;> first | exact resp_skip | exact resp_write _
      have h1 := resp_seq' _ _ _ _ _ _ (resp_seq _ _ _ _ _ hsep hv) hr
      simp only [serItems, renderItems]
      cases hk : (render t v).2
      · simp only [hk, Bool.false_eq_true, if_false, firstOf] at h1 ⊢
        refine resp_congr h1 ?_ rfl
        simp only [closed]
        cases hk2 : (renderItems t false r).2 <;> simp
      · simp only [hk, if_true] at h1 ⊢
        refine resp_congr h1 ?_ rfl
        simp [closed]
theorem entries_resp (t : Tbl) : ∀ (st : CState), st ≠ .empty → ∀ es, WFEntries es = true →
    Resp (serEntries t st es) (closed (renderEntries t (firstOf st) es) 125) (renderEntries t (firstOf st) es).2
  | st, hst, .nil, _ => by
      simp only [serEntries, hst, if_false, renderEntries, closed]
      simpa using resp_write [125]
  | st, hst, .cons k v r, h => by
      simp only [WFEntries, Bool.and_eq_true] at h
      have hkey := serKey_resp t k
      have hv := ser_resp t v h.1.2
      have hr := entries_resp t .rest (by decide) r h.2
      have hsep : Resp (if st = .first then skip else writeAll [44]) (if firstOf st then [] else [44]) false := by
        cases st <;> simp [firstOf] <;> first | exact resp_skip | exact resp_write _
      simp only [serEntries, renderEntries]
      cases hkk : (renderKey t k).2
      · -- key accepted
        rw [hkk] at hkey
        have h0 := resp_seq _ _ _ _ _ (resp_seq _ _ _ _ _ hsep hkey) (resp_write [58])
        have h1 := resp_seq' _ _ _ _ _ _ (resp_seq _ _ _ _ _ h0 hv) hr
        cases hk : (render t v).2
        · simp only [hk, Bool.false_eq_true, if_false, firstOf] at h1 ⊢
          refine resp_congr h1 ?_ rfl
          simp only [closed]
          cases hk2 : (renderEntries t false r).2 <;> simp
        · simp only [hk, if_true, Bool.false_eq_true, if_false] at h1 ⊢
          refine resp_congr h1 ?_ rfl
          simp [closed]
      · -- key refused: masks everything after it
        rw [hkk] at hkey
        have h1 := resp_seq_err _ (serEntries t .rest r) _ (resp_seq_err _ (ser t v) _
          (resp_seq_err _ (writeAll [58]) _ (resp_seq _ _ _ _ _ hsep hkey)))
        simp only [if_true]
        refine resp_congr h1 ?_ rfl
        simp [closed]
end

end Ser
