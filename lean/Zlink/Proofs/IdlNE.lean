import Zlink.Proofs.IdlWsFix
import Zlink.Proofs.IdlTextSound2
/-! The parser never returns an inline enum without variants (given the fuel the member parsers pass):
    `( gap )` in a type position is read by `struct_type` first, which succeeds with the empty struct, because
    the two layout skippers agree (`wsF_pcF`) - so `enum_type` is never asked about it. This discharges the side
    condition `ifaceNE` of the text-level soundness theorem. -/
namespace Idl
open SpecIdl

/-- `fieldName` succeeds only on an input that starts with a letter -/
theorem fieldName_alphaHead (i n r : In) (h : fieldName i = .ok n r) : alphaHead i = true := by
  unfold fieldName at h
  cases i with
  | nil => cases h
  | cons b t =>
    simp only [] at h
    by_cases hb : isAlpha b = true
    · simpa [alphaHead] using hb
    · rw [if_neg hb] at h; cases h

/-- the result of the `more` loop of `enum_type` extends its accumulator -/
theorem enum_more_acc : ∀ (n : Nat) (i : In) (acc : List In), ∃ vs, (enumType.more n i acc).1 = acc ++ vs := by
  intro n i acc
  obtain ⟨vs, _, h, _, _⟩ := enum_more_split n i acc
  exact ⟨vs.map (·.1), h⟩

/-- **Key step.** With three units of fuel or more, `struct_type` accepts every text on which `enum_type` would
    return an enum without variants. -/
theorem struct_of_empty_enum (f : Nat) (i r : In) (h : enumType (f + 1) i = .ok (.enum []) r) :
    ∃ r', structType (f + 3) i = .ok (.struct []) r' := by
  rw [enumType] at h
  split at h
  · rename_i r0 hl
    simp only [] at h
    cases hfn : fieldName (wsF r0) with
    | ok v r1 =>
      exfalso
      rw [hfn] at h
      simp only [] at h
      obtain ⟨vs, hvs⟩ := enum_more_acc (r1.length + 1) r1 [v]
      split at h
      · simp only [PR.ok.injEq, Ty.enum.injEq] at h
        rw [hvs] at h
        simp at h
      · cases h
    | err e =>
      rw [hfn] at h
      simp only [] at h
      split at h
      · rename_i r2 hl2
        -- `wsF r0` starts with `)`
        have hidem : wsF (wsF r0) = wsF r0 := wsF_idem _ _ (Nat.le_refl _)
        rw [hidem] at hl2
        rw [structType, hl]
        simp only []
        -- the first field fails: its name would have to start where `wsF` stops, at the `)`
        have hfield : field (f + 1) (whitespaceOnly r0) = .err (pcF (whitespaceOnly r0)).2 := by
          rw [field]
          simp only []
          cases hfn2 : fieldName (pcF (whitespaceOnly r0)).2 with
          | err e2 => rfl
          | ok n rn =>
            exfalso
            have ha := fieldName_alphaHead _ _ _ hfn2
            have hp : wsF (pcF (whitespaceOnly r0)).2 = (pcF (whitespaceOnly r0)).2 := wsF_plain (alphaHead_plain ha)
            rw [wsF_pcF, wsF_whitespaceOnly] at hp
            rw [← hp] at hfn2
            rw [hfn] at hfn2
            cases hfn2
        have hsep : fieldsSep (f + 2) (whitespaceOnly r0) = .ok [] (whitespaceOnly r0) := by
          rw [fieldsSep, hfield]
        rw [hsep]
        simp only []
        rw [wsF_whitespaceOnly, hl2]
        exact ⟨_, rfl⟩
      · cases h
  · cases h

/-- length facts read off the text-level soundness lemmas (which need `tyNE` of the result) -/
theorem varlinkType_length (f : Nat) (i : In) (t : Ty) (r : In) (h : varlinkType f i = .ok t r) (hne : tyNE t = true) :
    r.length ≤ i.length := by
  obtain ⟨s, hs, _⟩ := (qs_all f).v i t r h hne
  have := congrArg List.length hs
  simp at this; omega

theorem field_length (f : Nat) (i : In) (fld : Field) (r : In) (h : field f i = .ok fld r) (hne : tyNE fld.2.1 = true) :
    r.length ≤ i.length := by
  obtain ⟨s, hs, _⟩ := (qs_all f).fd i fld r h hne
  have := congrArg List.length hs
  simp at this; omega

theorem litB_length (p i r : In) (h : litB p i = .ok () r) : r.length + p.length = i.length := by
  have := congrArg List.length (litB_split p i r h)
  simp at this; omega

theorem wsF_length (i : In) : (wsF i).length ≤ i.length := by
  obtain ⟨g, hg, _⟩ := wsF_split i
  have := congrArg List.length hg
  simp at this; omega

theorem whitespaceOnly_length (i : In) : (whitespaceOnly i).length ≤ i.length := multispace0_length i

theorem pcF_length (i : In) : (pcF i).2.length ≤ i.length := by
  rcases pcF_split i with ⟨s, hs, _⟩ | h
  · have := congrArg List.length hs
    simp at this; omega
  · rw [h]; simp

theorem fieldName_length (i n r : In) (h : fieldName i = .ok n r) : r.length + 1 ≤ i.length := by
  obtain ⟨hn, he⟩ := fieldName_sound i n r h
  have := congrArg List.length he
  have hne : n ≠ [] := by intro e; subst e; simp [fieldNameOK] at hn
  have : 0 < n.length := List.length_pos_iff.mpr hne
  simp at *; omega

/-- results carry no inline enum without variants, provided the fuel is at least eight per input byte plus a
    constant (the member parsers pass `tyFuel i = 8·|i| + 64`) -/
structure QN (f : Nat) : Prop where
  v : ∀ i t r, 8 * i.length + 16 ≤ f → varlinkType f i = .ok t r → tyNE t = true
  o : ∀ i t r, 8 * i.length + 15 ≤ f → optionalType f i = .ok t r → tyNE t = true
  a : ∀ i t r, 8 * i.length + 15 ≤ f → arrayType f i = .ok t r → tyNE t = true
  m : ∀ i t r, 8 * i.length + 15 ≤ f → mapType f i = .ok t r → tyNE t = true
  e : ∀ i t r, 8 * i.length + 15 ≤ f → elementType f i = .ok t r → tyNE t = true
  il : ∀ i t r, 8 * i.length + 14 ≤ f → inlineType f i = .ok t r → tyNE t = true
  s : ∀ i t r, 8 * i.length + 13 ≤ f → structType f i = .ok t r → tyNE t = true
  fs : ∀ i fl r, 8 * i.length + 12 ≤ f → fieldsSep f i = .ok fl r → fieldsNE fl = true
  fm : ∀ i acc fl r, 8 * i.length + 11 ≤ f → fieldsNE acc = true → fieldsMore f i acc = .ok fl r → fieldsNE fl = true
  fd : ∀ i fld r, 8 * i.length + 11 ≤ f → field f i = .ok fld r → tyNE fld.2.1 = true

theorem qn_zero : QN 0 := by
  constructor <;> intros <;> omega

theorem primitive_ne (i : In) (t : Ty) (r : In) (h : primitive i = .ok t r) : tyNE t = true := by
  unfold primitive at h
  repeat' (split at h)
  all_goals first | (cases h; rfl) | cases h

theorem qn_succ (f : Nat) (q : QN f) : QN (f + 1) := by
  refine ⟨?v, ?o, ?a, ?m, ?e, ?il, ?s, ?fs, ?fm, ?fd⟩
  case v =>
    intro i t r hf h
    rw [varlinkType] at h
    split at h
    · rename_i t1 r1 h1; cases h; exact q.o i _ _ (by omega) h1
    · split at h
      · rename_i t1 r1 h1; cases h; exact q.a i _ _ (by omega) h1
      · split at h
        · rename_i t1 r1 h1; cases h; exact q.m i _ _ (by omega) h1
        · exact q.e i _ _ (by omega) h
  case o =>
    intro i t r hf h
    rw [optionalType] at h
    split at h
    · rename_i r0 hl
      have hlen := litB_length _ _ _ hl
      simp at hlen
      split at h
      · rename_i t1 r1 h1; cases h; simpa [tyNE] using q.a r0 _ _ (by omega) h1
      · split at h
        · rename_i t1 r1 h1; cases h; simpa [tyNE] using q.m r0 _ _ (by omega) h1
        · split at h
          · rename_i t1 r1 h1; cases h; simpa [tyNE] using q.e r0 _ _ (by omega) h1
          · cases h
    · cases h
  case a =>
    intro i t r hf h
    rw [arrayType] at h
    split at h
    · rename_i r0 hl
      have hlen := litB_length _ _ _ hl
      simp at hlen
      split at h
      · rename_i t1 r1 h1; cases h; simpa [tyNE] using q.v r0 _ _ (by omega) h1
      · cases h
    · cases h
  case m =>
    intro i t r hf h
    rw [mapType] at h
    split at h
    · rename_i r0 hl
      have hlen := litB_length _ _ _ hl
      simp at hlen
      split at h
      · rename_i t1 r1 h1; cases h; simpa [tyNE] using q.v r0 _ _ (by omega) h1
      · cases h
    · cases h
  case e =>
    intro i t r hf h
    rw [elementType] at h
    split at h
    · rename_i t1 r1 h1; cases h; exact primitive_ne _ _ _ h1
    · split at h
      · cases h; rfl
      · exact q.il i _ _ (by omega) h
  case il =>
    intro i t r hf h
    rw [inlineType] at h
    split at h
    · rename_i t1 r1 h1; cases h; exact q.s i _ _ (by omega) h1
    · rename_i e0 hs
      -- `enum_type` answered: its enum has a variant, or `struct_type` would have taken the text
      obtain ⟨f2, rfl⟩ : ∃ f2, f = f2 + 3 := ⟨f - 3, by omega⟩
      cases t with
      | enum vs =>
        cases vs with
        | nil =>
          exfalso
          -- the enum parser does not look at its fuel beyond "non-zero"
          have h' : enumType (f2 + 1) i = .ok (.enum []) r := by
            rw [enumType] at h ⊢; exact h
          obtain ⟨r', hr'⟩ := struct_of_empty_enum f2 i r h'
          rw [hr'] at hs; cases hs
        | cons v vs => simp [tyNE]
      | _ =>
        -- `enum_type` only returns enums
        exfalso
        rw [enumType] at h
        split at h
        · simp only [] at h
          split at h <;> cases h
        · cases h
  case s =>
    intro i t r hf h
    rw [structType] at h
    split at h
    · rename_i r0 hl
      have hlen := litB_length _ _ _ hl
      simp at hlen
      simp only [] at h
      have hw := whitespaceOnly_length r0
      split at h
      · rename_i fl r1 h1
        split at h
        · cases h
          simpa [tyNE] using q.fs _ _ _ (by omega) h1
        · cases h
      · cases h
    · cases h
  case fs =>
    intro i fl r hf h
    rw [fieldsSep] at h
    split at h
    · cases h; rfl
    · rename_i fd r1 h1
      have hne := q.fd i fd r1 (by omega) h1
      have hlen := field_length f i fd r1 h1 hne
      exact q.fm r1 [fd] fl r (by omega) (by obtain ⟨n, t, cs⟩ := fd; simpa [fieldsNE] using hne) h
  case fm =>
    intro i acc fl r hf hacc h
    rw [fieldsMore] at h
    simp only [] at h
    split at h
    · rename_i i2 hl
      have hlen := litB_length _ _ _ hl
      simp at hlen
      have h1 := wsF_length i
      have h2 := whitespaceOnly_length i2
      split at h
      · cases h; exact hacc
      · rename_i fd r1 hfd
        have hne := q.fd _ fd r1 (by omega) hfd
        have hlen2 := field_length f _ fd r1 hfd hne
        exact q.fm r1 (acc ++ [fd]) fl r (by omega)
          (by rw [fieldsNE_append, hacc]; obtain ⟨n, t, cs⟩ := fd; simpa [fieldsNE] using hne) h
    · cases h; exact hacc
  case fd =>
    intro i fld r hf h
    rw [field] at h
    simp only [] at h
    have hp := pcF_length i
    split at h
    · rename_i n r0 hn
      have hnl := fieldName_length _ _ _ hn
      have hw1 := wsF_length r0
      split at h
      · rename_i r2 hl
        have hlen := litB_length _ _ _ hl
        simp at hlen
        have hw2 := wsF_length r2
        split at h
        · rename_i t r3 ht
          cases h
          exact q.v _ _ _ (by omega) ht
        · cases h
      · cases h
    · cases h

theorem qn_all : ∀ f, QN f := by
  intro f
  induction f with
  | zero => exact qn_zero
  | succ f ih => exact qn_succ f ih

/-- a type parsed with the fuel the member parsers pass has no variant-less inline enum -/
theorem varlinkType_tyFuel_ne (i : In) (t : Ty) (r : In) (h : varlinkType (tyFuel i) i = .ok t r) : tyNE t = true :=
  (qn_all _).v i t r (by unfold tyFuel; omega) h
end Idl
