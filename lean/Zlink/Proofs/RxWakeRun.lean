import Zlink.Model.DriverRx
import Zlink.Proofs.RxWake
/-! The receive path under a wake-driven executor: the polls such an executor skips are polls of a parked receive, which
    are no-ops (`Rx.poll_pending_fix`). Hence the outcomes of the run `DriverRx.resolveW` computes (what the harness's `W`
    polls observe) are those of the eager run without the pending ones that were skipped. -/
namespace DriverRx
open Rx

/-- bookkeeping invariant of `resolveW`: a retained receive has its waker with the transport or already fired, and a
    retained receive whose waker has not fired sits at a fixpoint of `poll` -/
def WInv (C : Consts) (sizes : Nat → Nat) (s : St) (e : Net) (flag armed retained : Bool) : Prop :=
  (retained = true → armed = true ∨ flag = true) ∧
  (retained = true → flag = false → poll C sizes s e = (.pending, s, e))

theorem run_poll_cons (C : Consts) (sizes : Nat → Nat) (evs : List Ev) (s : St) (e : Net) :
    run C sizes (.poll :: evs) s e = (poll C sizes s e).1 :: run C sizes evs (poll C sizes s e).2.1 (poll C sizes s e).2.2 := by
  simp only [run, step]

theorem winv_after_poll (C : Consts) (sizes : Nat → Nat) (s : St) (e : Net) (armed keep : Bool) :
    WInv C sizes (poll C sizes s e).2.1 (poll C sizes s e).2.2 false
      (armed || ((poll C sizes s e).1 == Out.pending)) (keep && ((poll C sizes s e).1 == Out.pending)) := by
  constructor
  · intro h
    simp only [Bool.and_eq_true] at h
    left; simp [h.2]
  · intro h _
    simp only [Bool.and_eq_true, beq_iff_eq] at h
    exact poll_pending_fix C sizes s e h.2

/-- **Wake-driven = eager, minus the polls of a parked receive.** For every token list: the outcomes that are not
    `pending` are the same, in the same order, whether the receive is polled whenever the list says so or only when its
    waker has fired. -/
theorem resolveW_spec (C : Consts) (sizes : Nat → Nat) : ∀ (ts : List RTok) (s : St) (e : Net) (flag armed retained : Bool),
    WInv C sizes s e flag armed retained →
    (run C sizes (resolveW C sizes ts s e flag armed retained) s e).filter (· != Out.pending) =
    (run C sizes (eagerW ts) s e).filter (· != Out.pending) := by
  intro ts
  induction ts with
  | nil => intro s e f a r _; rfl
  | cons t ts ih =>
    intro s e flag armed retained hinv
    have hpoll : ∀ keep : Bool,
        (run C sizes (.poll :: resolveW C sizes ts (poll C sizes s e).2.1 (poll C sizes s e).2.2 false
            (armed || ((poll C sizes s e).1 == Out.pending)) (keep && ((poll C sizes s e).1 == Out.pending))) s e).filter (· != Out.pending) =
        (run C sizes (.poll :: eagerW ts) s e).filter (· != Out.pending) := by
      intro keep
      rw [run_poll_cons, run_poll_cons]
      simp only [List.filter_cons]
      rw [ih _ _ _ _ _ (winv_after_poll C sizes s e armed keep)]
    cases t with
    | close =>
      simp only [resolveW, eagerW, run, step]
      apply ih
      constructor
      · intro h; right
        rcases hinv.1 h with h1 | h1 <;> simp [h1]
      · intro h hf
        exfalso
        rcases hinv.1 h with h1 | h1 <;> simp [h1] at hf
    | arrive b =>
      simp only [resolveW, eagerW, run, step]
      apply ih
      constructor
      · intro h; right
        rcases hinv.1 h with h1 | h1 <;> simp [h1]
      · intro h hf
        exfalso
        rcases hinv.1 h with h1 | h1 <;> simp [h1] at hf
    | p => simp only [resolveW, eagerW]; exact hpoll false
    | q => simp only [resolveW, eagerW]; exact hpoll true
    | other => simp only [resolveW, eagerW]; exact ih s e flag armed retained hinv
    | w =>
      simp only [resolveW, eagerW]
      by_cases hc : (!retained || flag) = true
      · rw [if_pos hc]; exact hpoll true
      · rw [if_neg hc]
        have hr : retained = true := by cases retained <;> simp_all
        have hf : flag = false := by cases flag <;> simp_all
        have hfix := hinv.2 hr hf
        rw [run_poll_cons, hfix]
        simp only [List.filter_cons]
        exact ih s e flag armed retained hinv

/-- the run starts with no receive in progress: the invariant holds -/
theorem winv_init (C : Consts) (sizes : Nat → Nat) (s : St) (e : Net) : WInv C sizes s e true false false := by
  constructor
  · intro h; cases h
  · intro h; cases h
end DriverRx
