import Zlink.Proofs.ServerCredit
import Zlink.Spec.Server
/-! The server model satisfies the oracle the driver evaluates on the implementation: at an idle server every
    well-behaved client has been sent exactly `SpecSrv.refOutCredit granted descs` - the sequential reference for its
    calls, cut where its reply streams ran dry. -/
namespace Srv
open Rx SpecSrv

theorem refOutCredit_nil (cr : Nat) : refOutCredit cr [] = [] := by simp [refOutCredit]

theorem refOutCredit_prefix : ∀ (ds rest : List Desc) (cr : Nat), noGarb ds = true → need ds ≤ cr →
    refOutCredit cr (ds ++ rest) = expectedOut ds ++ refOutCredit (cr - need ds) rest := by
  intro ds
  induction ds with
  | nil => intro rest cr _ _; simp [expectedOut, need]
  | cons d t ih =>
    intro rest cr hng hn
    have hngt : noGarb t = true := by
      simp only [noGarb, List.all_cons, Bool.and_eq_true] at hng ⊢; exact hng.2
    cases d with
    | garbage => simp [noGarb] at hng
    | sub n p =>
      have e1 : need (.sub n p :: t) = n + 1 + need t := by simp [need, need1]
      have e2 : cr - need (.sub n p :: t) = cr - (n + 1) - need t := by rw [e1]; omega
      rw [e1] at hn
      have h1 : n + 1 ≤ cr := by omega
      have := ih rest (cr - (n + 1)) hngt (by omega)
      rw [e2]
      simp only [List.cons_append, refOutCredit, ge_iff_le, h1, if_true, this, expectedOut, List.flatMap_cons, List.append_assoc]
    | echo v ow =>
      have e1 : need (.echo v ow :: t) = need t := by simp [need, need1]
      rw [e1] at hn ⊢
      have := ih rest cr hngt (by omega)
      simp only [List.cons_append, refOutCredit, this, expectedOut, List.flatMap_cons, List.append_assoc]
    | fail ow =>
      have e1 : need (.fail ow :: t) = need t := by simp [need, need1]
      rw [e1] at hn ⊢
      have := ih rest cr hngt (by omega)
      simp only [List.cons_append, refOutCredit, this, expectedOut, List.flatMap_cons, List.append_assoc]
    | unser ow =>
      cases ow with
      | false => simp [noGarb] at hng
      | true =>
        have e1 : need (.unser true :: t) = need t := by simp [need, need1]
        rw [e1] at hn ⊢
        have := ih rest cr hngt (by omega)
        simp only [List.cons_append, refOutCredit, this, expectedOut, List.flatMap_cons, List.append_assoc]

theorem refOutCredit_dry (cr n p : Nat) (tail : List Desc) (h : cr < n + 1) :
    refOutCredit cr (.sub n p :: tail) = ((itemsOf n p).take cr).map tokOf := by
  simp only [refOutCredit, ge_iff_le]
  rw [if_neg (by omega)]

/-- a connection being read whose script is consumed entirely: its output is the reference for its allowance -/
theorem out_is_reference_conn (c : Conn) (hg : c.good = true) (ai : AInv c none)
    (hk : c.k = c.descs.length) (hout : c.out = expectedOut (c.descs.take c.k)) :
    c.out = refOutCredit c.granted c.descs := by
  have htake : c.descs.take c.k = c.descs := by rw [hk]; simp
  have hpos := ai.pos hg
  dsimp only at hpos
  rw [htake] at hpos
  have hng := ai.ng hg
  rw [htake] at hng
  have hle : need c.descs ≤ c.granted := by have := ai.bal; omega
  have := refOutCredit_prefix c.descs [] c.granted hng hle
  rw [List.append_nil, refOutCredit_nil, List.append_nil] at this
  rw [this, hout, htake]

/-- a connection parked with an open stream whose service has nothing more to hand over: its output is the
    reference cut where the allowance ran out -/
theorem out_is_reference_stream (c : Conn) (items : List (Nat × Option Bool)) (hg : c.good = true)
    (ai : AInv c (some items)) (hcredit : c.credit = 0)
    (hout : c.out ++ items.map tokOf = expectedOut (c.descs.take c.k)) :
    c.out = refOutCredit c.granted c.descs := by
  obtain ⟨n, pat, j, hkpos, hd, hjn, hit⟩ := ai.shape hg items rfl
  have hpos := ai.pos hg
  dsimp only at hpos
  have hbal := ai.bal
  -- the script around the open streaming call
  obtain ⟨k1, hk1⟩ : ∃ k1, c.k = k1 + 1 := ⟨c.k - 1, by omega⟩
  rw [hk1] at hd hpos hout
  simp only [Nat.add_sub_cancel] at hd
  have hlt : k1 < c.descs.length := (List.getElem?_eq_some_iff.mp hd).1
  have hdk : c.descs[k1] = .sub n pat := by
    have := List.getElem?_eq_getElem hlt
    rw [this] at hd; exact Option.some.inj hd
  have htake : c.descs.take (k1 + 1) = c.descs.take k1 ++ [.sub n pat] := by
    rw [List.take_succ_eq_append_getElem hlt, hdk]
  have hsplit : c.descs = c.descs.take k1 ++ .sub n pat :: c.descs.drop (k1 + 1) := by
    conv => lhs; rw [← List.take_append_drop k1 c.descs]
    congr 1
    rw [← hdk]; exact (List.getElem_cons_drop hlt).symm
  have hneed : need (c.descs.take (k1 + 1)) = need (c.descs.take k1) + (n + 1) := by
    rw [htake, need_append]; simp [need, need1]
  have hlen : items.length = n - j := by rw [hit]; simp [itemsOf_length]
  -- everything made available has been taken; `j` items of the open stream have been forwarded
  have hused : c.granted = need (c.descs.take k1) + j := by omega
  have hng := ai.ng hg
  rw [hk1, htake, noGarb_append, Bool.and_eq_true] at hng
  -- the output: answers to the earlier calls, then the first `j` items
  have hexp : expectedOut (c.descs.take (k1 + 1)) = expectedOut (c.descs.take k1) ++ (itemsOf n pat).map tokOf := by
    rw [htake]; simp [expectedOut, List.flatMap_append, answer]
  have hout' : c.out = expectedOut (c.descs.take k1) ++ ((itemsOf n pat).take j).map tokOf := by
    rw [hexp, hit] at hout
    have e : (itemsOf n pat).map tokOf = ((itemsOf n pat).take j).map tokOf ++ ((itemsOf n pat).drop j).map tokOf := by
      rw [← List.map_append, List.take_append_drop]
    rw [e, ← List.append_assoc] at hout
    exact List.append_cancel_right hout
  rw [hout']
  conv => rhs; rw [hsplit]
  rw [refOutCredit_prefix _ _ c.granted hng.1 (by omega)]
  have hcr : c.granted - need (c.descs.take k1) = j := by omega
  rw [hcr, refOutCredit_dry j n pat _ (by omega)]

/-- **The model satisfies the oracle.** In every reachable idle state, every well-behaved client - whether it is being
    read (all its bytes arrived) or parked with an open reply stream - has been sent exactly
    `SpecSrv.refOutCredit granted descs`: the sequential reference for its calls given the number of results its reply
    streams were allowed to hand over. This is the function the driver evaluates on the real server's output. -/
theorem idle_output_is_reference (C : Consts) (hstep : 0 < C.step) (sizes : Nat → Nat)
    (evs : List Ev) (hev : EvsOK C sizes evs init) (hacct : EvsAcct evs)
    (hidle : iter C sizes (runEvs C sizes evs init) = none) :
    let s := runEvs C sizes evs init
    (∀ c ∈ s.conns, c.good = true → c.fut = [] → c.out = refOutCredit c.granted c.descs) ∧
    (∀ p ∈ s.streams, p.2.good = true → p.2.out = refOutCredit p.2.granted p.2.descs) := by
  intro s
  have g := run_inv C hstep sizes evs init (ginv_init C) hev
  have a := run_ag C hstep sizes evs init (ginv_init C) ag_init hev hacct
  obtain ⟨_, hstreams, hconns⟩ := iter_none C hstep sizes s g hidle
  constructor
  · intro c hc hg hfut
    obtain ⟨j, hj⟩ := List.mem_iff_getElem?.mp hc
    have inv := g.conns j c hj hg
    have hk := hconns c hc hg hfut
    have hk' : c.k = c.descs.length := by rw [hk, inv.st.len]
    have hout : c.out = expectedOut (c.descs.take c.k) := by simpa using inv.bk.out
    exact out_is_reference_conn c hg (a.conns c hc) hk' hout
  · intro p hp hg
    obtain ⟨j, hj⟩ := List.mem_iff_getElem?.mp hp
    have inv := g.streams j p hj hg
    exact out_is_reference_stream p.2 p.1 hg (a.streams p hp) (hstreams p hp) inv.bk.out
end Srv
