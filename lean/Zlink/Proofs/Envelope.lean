import Zlink.Spec.Envelope
/-! Lemmas about the envelope model. -/
namespace Env

theorem findVariant_some {vs : List Variant} {n : String} {i : Nat} {v : Variant}
    (h : findVariant vs n = some (i, v)) : vs[i]? = some v ∧ v.name = n := by
  unfold findVariant at h
  cases hf : vs.zipIdx.find? (fun p => p.1.name = n) with
  | none => rw [hf] at h; cases h
  | some p =>
    rw [hf] at h
    simp only [Option.map_some, Option.some.injEq, Prod.mk.injEq] at h
    obtain ⟨h1, h2⟩ := h
    have hmem := List.mem_of_find?_eq_some hf
    have hpred := List.find?_some hf
    obtain ⟨a, b⟩ := p
    simp only at h1 h2 hpred
    subst h1; subst h2
    have := List.mem_zipIdx hmem
    simp at this
    refine ⟨?_, by simpa using hpred⟩
    obtain ⟨h3, h4⟩ := this
    rw [List.getElem?_eq_getElem h3, h4]

/-- whatever an adjacently tagged decoder reports, it is the variant that the tag member names -/
theorem decodeAdjM_named {tag content : String} {vs : List Variant} {ms : Members} {i : Nat} {xs : List V}
    (h : decodeAdjM tag content vs ms = some (i, xs)) :
    ∃ n esc v, lookup tag ms = some (.str n esc) ∧ vs[i]? = some v ∧ v.name = n := by
  unfold decodeAdjM at h
  split at h
  · cases h
  · cases ht : lookup tag ms with
    | none => rw [ht] at h; cases h
    | some tj =>
      rw [ht] at h
      cases tj with
      | str n esc =>
        simp only [] at h
        cases hf : findVariant vs n with
        | none => rw [hf] at h; cases h
        | some p =>
          obtain ⟨i', v⟩ := p
          rw [hf] at h
          simp only [] at h
          obtain ⟨h1, h2⟩ := findVariant_some hf
          have hi : i' = i := by
            split at h <;> first
              | (cases h; rfl)
              | (cases h)
              | (split at h <;> first | (cases h; rfl) | cases h)
              | (simp only [Option.map_eq_some_iff] at h; obtain ⟨_, _, h⟩ := h; cases h; rfl)
          subst hi
          exact ⟨n, esc, v, rfl, h1, h2⟩
      | null => cases h
      | bool _ => cases h
      | int _ => cases h
      | num _ => cases h
      | arr _ => cases h
      | obj _ => cases h

theorem hasKey_of_lookup {k : String} {ms : Members} {j : J} (h : lookup k ms = some j) : hasKey k ms = true := by
  induction ms with
  | nil => cases h
  | cons p r ih =>
    obtain ⟨k', v⟩ := p
    simp only [lookup] at h
    simp only [hasKey, List.any_cons]
    by_cases hk : k' = k
    · simp [hk]
    · rw [if_neg hk] at h
      have := ih h
      simp only [hasKey] at this
      simp [this]

/-! ### round trips -/

/-- a value inhabits a field type (and, under an `Option`, is not itself encoded as `null`) -/
def Typed : FT → V → Prop
  | .str, .str _ => True
  | .bstr, .str _ => True
  | .int lo hi, .int i => lo ≤ i ∧ i ≤ hi
  | .bool, .bool _ => True
  | .any, .any _ => True
  | .opt _, .none => True
  | .opt t, .some v => Typed t v ∧ encodeV v ≠ .null ∧ (∀ t', t ≠ .opt t')
  | _, _ => False

theorem decodeF_encodeV : ∀ (t : FT) (v : V), Typed t v → decodeF t (encodeV v) = some v
  | .str, .str s, _ => rfl
  | .bstr, .str s, _ => rfl
  | .int lo hi, .int i, h => by
      obtain ⟨h1, h2⟩ := h
      simp [decodeF, encodeV, h1, h2]
  | .bool, .bool b, _ => rfl
  | .any, .any j, _ => rfl
  | .opt t, .none, _ => by cases t <;> rfl
  | .opt t, .some v, h => by
      obtain ⟨h1, h2, h3⟩ := h
      have ih := decodeF_encodeV t v h1
      simp only [encodeV]
      -- the encoded inner value is not `null`, so the option arm for values applies
      cases hj : encodeV v with
      | null => exact absurd hj h2
      | bool b => rw [hj] at ih; cases t <;> simp_all [decodeF]
      | int i => rw [hj] at ih; cases t <;> simp_all [decodeF]
      | num x => rw [hj] at ih; cases t <;> simp_all [decodeF]
      | str x e => rw [hj] at ih; cases t <;> simp_all [decodeF]
      | arr x => rw [hj] at ih; cases t <;> simp_all [decodeF]
      | obj x => rw [hj] at ih; cases t <;> simp_all [decodeF]
  | .str, .int _, h | .str, .bool _, h | .str, .any _, h | .str, .none, h | .str, .some _, h => by cases h
  | .bstr, .int _, h | .bstr, .bool _, h | .bstr, .any _, h | .bstr, .none, h | .bstr, .some _, h => by cases h
  | .int _ _, .str _, h | .int _ _, .bool _, h | .int _ _, .any _, h | .int _ _, .none, h | .int _ _, .some _, h => by cases h
  | .bool, .str _, h | .bool, .int _, h | .bool, .any _, h | .bool, .none, h | .bool, .some _, h => by cases h
  | .any, .str _, h | .any, .int _, h | .any, .bool _, h | .any, .none, h | .any, .some _, h => by cases h
  | .opt _, .str _, h | .opt _, .int _, h | .opt _, .bool _, h | .opt _, .any _, h => by cases h

def keys (ms : Members) : List String := ms.map (·.1)

theorem lookup_not_mem {k : String} {ms : Members} (h : k ∉ keys ms) : lookup k ms = none := by
  induction ms with
  | nil => rfl
  | cons p r ih =>
    obtain ⟨k', v⟩ := p
    simp only [keys, List.map_cons, List.mem_cons, not_or] at h
    simp only [lookup]
    rw [if_neg (fun e => h.1 e.symm)]
    exact ih h.2

theorem count_not_mem {k : String} {ms : Members} (h : k ∉ keys ms) : count k ms = 0 := by
  induction ms with
  | nil => rfl
  | cons p r ih =>
    obtain ⟨k', v⟩ := p
    simp only [keys, List.map_cons, List.mem_cons, not_or] at h
    have := ih h.2
    simp only [count] at this ⊢
    rw [List.filter_cons_of_neg (by simpa using fun e => h.1 e.symm)]
    exact this

theorem count_cons (k k' : String) (v : J) (ms : Members) :
    count k ((k', v) :: ms) = (if k' = k then 1 else 0) + count k ms := by
  simp only [count]
  by_cases h : k' = k
  · rw [List.filter_cons_of_pos (by simpa using h)]; simp [h]; omega
  · rw [List.filter_cons_of_neg (by simpa using h)]; simp [h]

theorem keys_encodeFields : ∀ (fs : List Field) (as : List V), fs.length = as.length →
    keys (encodeFields fs as) = fs.map (·.name)
  | [], [], _ => rfl
  | f :: fs, a :: as, h => by
      simp only [encodeFields, keys, List.map_cons]
      have := keys_encodeFields fs as (by simpa using h)
      simp only [keys] at this
      rw [this]
  | [], _ :: _, h => by cases h
  | _ :: _, [], h => by cases h

/-- decoding each field from a member list that starts with an unrelated, non-colliding key -/
theorem decodeEach_skip (k : String) (x : J) (rest : Members) :
    ∀ (fs : List Field), k ∉ fs.map (·.name) → decodeEach ((k, x) :: rest) fs = decodeEach rest fs
  | [], _ => rfl
  | f :: fs, h => by
      simp only [List.map_cons, List.mem_cons, not_or] at h
      simp only [decodeEach, lookup]
      rw [if_neg h.1, decodeEach_skip k x rest fs h.2]

/-- argument list well-typed for a field list (same length, pointwise `Typed`) -/
def AllTyped : List Field → List V → Prop
  | [], [] => True
  | f :: fs, a :: as => Typed f.ty a ∧ AllTyped fs as
  | _, _ => False

theorem AllTyped.length_eq : ∀ {fs : List Field} {as : List V}, AllTyped fs as → fs.length = as.length
  | [], [], _ => rfl
  | _ :: fs, _ :: as, h => by simp [AllTyped.length_eq h.2]
  | [], _ :: _, h => by cases h
  | _ :: _, [], h => by cases h

/-- **struct round trip**: fields with distinct names, well-typed values -/
theorem decodeFields_encodeFields : ∀ (fs : List Field) (as : List V),
    (fs.map (·.name)).Nodup → AllTyped fs as →
    decodeEach (encodeFields fs as) fs = some as ∧
    ∀ f ∈ fs, count f.name (encodeFields fs as) = 1
  | [], [], _, _ => ⟨rfl, by intro f hf; cases hf⟩
  | f :: fs, a :: as, hn, ht => by
      obtain ⟨h1, h2⟩ := ht
      have hn' := hn
      clear hn'
      · simp only [List.map_cons, List.nodup_cons] at hn
        obtain ⟨ih1, ih2⟩ := decodeFields_encodeFields fs as hn.2 h2
        have hlen : fs.length = as.length := AllTyped.length_eq h2
        have hk : f.name ∉ keys (encodeFields fs as) := by rw [keys_encodeFields fs as hlen]; exact hn.1
        constructor
        · simp only [encodeFields, decodeEach, lookup, if_true]
          rw [decodeF_encodeV f.ty a h1, decodeEach_skip f.name _ _ fs hn.1, ih1]
        · intro g hg
          simp only [encodeFields]
          rw [count_cons]
          rcases List.mem_cons.mp hg with h | h
          · subst h; simp [count_not_mem hk]
          · have hne : f.name ≠ g.name := by
              intro e; apply hn.1; rw [e]; exact List.mem_map_of_mem h
            rw [if_neg hne, ih2 g h]
  | [], _ :: _, _, h => by cases h
  | _ :: _, [], _, h => by cases h

theorem decodeFields_roundtrip (fs : List Field) (as : List V)
    (hn : (fs.map (·.name)).Nodup) (ht : AllTyped fs as) :
    decodeFields fs (encodeFields fs as) = some as := by
  obtain ⟨h1, h2⟩ := decodeFields_encodeFields fs as hn ht
  unfold decodeFields
  have : (fs.any fun f => decide (count f.name (encodeFields fs as) > 1)) = false := by
    rw [List.any_eq_false]
    intro f hf
    rw [h2 f hf]; simp
  rw [this]
  simpa using h1

end Env
