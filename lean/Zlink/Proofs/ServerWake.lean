import Zlink.Model.ServerWake
import Zlink.Proofs.ServerQuiet
/-! No lost wake-up in the server loop.

`Idle s`: nobody to accept, every connection's `receive_call` would be pending, no reply stream has a result ready.
`iter s = none` (the `select_biased!` finds every branch pending, `Server::run` returns `Pending`) is exactly `Idle s`.
An environment event that does not wake the parked task (`wakes s ev = false`) leaves the state idle, so a parked server
never has anything to do: polling only when woken (`runW`) computes the same states as polling after every event
(`runEvs`). -/
namespace Srv
open Rx

def Idle (C : Consts) (sizes : Nat → Nat) (s : S) : Prop :=
  s.listenQ = [] ∧
  (∀ (j : Nat) c, s.conns[j]? = some c → (poll C sizes c.rx c.net).1 = .pending) ∧
  (∀ p ∈ s.streams, p.2.credit = 0)

theorem scan_none_of_all_pending (C : Consts) (sizes : Nat → Nat) (n start : Nat) (hn : 0 < n) (cs : List Conn)
    (hlen : cs.length = n) (h : ∀ (j : Nat) c, cs[j]? = some c → (poll C sizes c.rx c.net).1 = .pending) :
    (scanCalls C sizes n start n cs).2 = none := by
  have hw := scanCalls_winner C sizes n start hn cs n (Nat.le_refl _) cs hlen (fun _ _ _ => rfl)
  have hs := Sel.scan_spec n start (readyOf C sizes cs) hn n (Nat.le_refl _)
  cases hsc : Sel.scan n start (readyOf C sizes cs) n with
  | none =>
    rw [hsc] at hw
    cases h2 : (scanCalls C sizes n start n cs).2 with
    | none => rfl
    | some x => rw [h2] at hw; simp at hw
  | some w =>
    exfalso
    rw [hsc] at hs
    obtain ⟨hr, _, _, _⟩ := hs
    simp only [readyOf] at hr
    cases hc : cs[w]? with
    | none => rw [hc] at hr; simp at hr
    | some c =>
      rw [hc] at hr
      have := h w c hc
      simp [this] at hr

theorem streamScan_none_of_dry (ss : List (List (Nat × Option Bool) × Conn)) (start : Nat) (hm : 0 < ss.length)
    (h : ∀ p ∈ ss, p.2.credit = 0) : Sel.scan ss.length start (streamReady ss) ss.length = none := by
  have hs := Sel.scan_spec ss.length start (streamReady ss) hm ss.length (Nat.le_refl _)
  cases hsc : Sel.scan ss.length start (streamReady ss) ss.length with
  | none => rfl
  | some w =>
    exfalso
    rw [hsc] at hs
    obtain ⟨hr, _, _, _⟩ := hs
    simp only [streamReady] at hr
    cases hc : ss[w]? with
    | none => rw [hc] at hr; simp at hr
    | some p =>
      rw [hc] at hr
      have := h p (List.mem_of_getElem? hc)
      simp [this] at hr

/-- `Server::run` returns `Pending` exactly in the idle states. -/
theorem iter_none_of_idle (C : Consts) (sizes : Nat → Nat) (s : S) (h : Idle C sizes s) : iter C sizes s = none := by
  obtain ⟨hq, hc, hs⟩ := h
  unfold iter
  rw [hq]
  simp only []
  have hsc : (if s.conns.length = 0 then (s.conns, none) else
      scanCalls C sizes s.conns.length (nextStart s) s.conns.length s.conns).2 = none := by
    by_cases hn : s.conns.length = 0
    · rw [if_pos hn]
    · rw [if_neg hn]
      exact scan_none_of_all_pending C sizes _ _ (by omega) s.conns rfl hc
  split
  · rename_i idx o c heq
    rw [hsc] at heq
    cases heq
  · by_cases hm : s.streams.length = 0
    · rw [if_pos hm]
    · rw [if_neg hm]
      rw [streamScan_none_of_dry s.streams _ (by omega) hs]

theorem idle_of_iter_none (C : Consts) (sizes : Nat → Nat) (s : S) (h : iter C sizes s = none) : Idle C sizes s := by
  unfold iter at h
  cases hq : s.listenQ with
  | cons c q => rw [hq] at h; simp at h
  | nil =>
    rw [hq] at h
    simp only [] at h
    refine ⟨hq, ?_⟩
    split at h
    · exfalso
      rename_i idx o c hsc
      cases o with
      | pending => simp at h
      | err e => simp at h
      | frame f =>
        simp only [] at h
        cases hc : c.calls with
        | nil => rw [hc] at h; simp at h
        | cons d rest =>
          rw [hc] at h
          simp only [] at h
          cases d with
          | garbage => simp at h
          | sub m p => simp at h
          | echo v ow =>
            simp only [] at h
            split at h
            · simp at h
            · split at h <;> simp at h
          | unser ow =>
            cases ow with
            | false => simp at h
            | true =>
              simp only [] at h
              split at h
              · simp at h
              · split at h <;> simp at h
          | fail ow =>
            simp only [] at h
            split at h
            · simp at h
            · split at h <;> simp at h
    · rename_i hscan
      constructor
      · intro j c hj
        by_cases hn : s.conns.length = 0
        · have := List.eq_nil_of_length_eq_zero hn
          rw [this] at hj; simp at hj
        · rw [if_neg hn] at hscan
          exact scan_none_all_pending C sizes s.conns.length _ (by omega) s.conns rfl hscan j c hj
      · by_cases hm : s.streams.length = 0
        · intro p hp
          rw [List.eq_nil_of_length_eq_zero hm] at hp; cases hp
        · rw [if_neg (by simpa using hm)] at h
          have hspec := Sel.scan_spec s.streams.length (streamStart s.lastStream) (streamReady s.streams)
            (by omega) s.streams.length (Nat.le_refl _)
          generalize hsel : Sel.scan s.streams.length (streamStart s.lastStream)
              (streamReady s.streams) s.streams.length = sel at h hspec
          cases sel with
          | none =>
            simp only [] at hspec
            intro p hp
            obtain ⟨j, hj⟩ := List.mem_iff_getElem?.mp hp
            have hjn : j < s.streams.length := (List.getElem?_eq_some_iff.mp hj).1
            have := hspec j hjn (by omega)
            simp only [streamReady, hj, decide_eq_false_iff_not] at this
            omega
          | some idx =>
            exfalso
            simp only [] at h hspec
            obtain ⟨hr, hlt, _, _⟩ := hspec
            cases hst : s.streams[idx]? with
            | none => simp [streamReady, hst] at hr
            | some p =>
              rw [hst] at h
              obtain ⟨items, c0⟩ := p
              simp only [] at h
              cases items with
              | nil => simp at h
              | cons it rest =>
                simp only [] at h
                split at h <;> simp at h

theorem iter_none_iff_idle (C : Consts) (sizes : Nat → Nat) (s : S) : iter C sizes s = none ↔ Idle C sizes s :=
  ⟨idle_of_iter_none C sizes s, iter_none_of_idle C sizes s⟩

theorem pollServer_idle (C : Consts) (sizes : Nat → Nat) (fuel : Nat) (s : S) (h : Idle C sizes s) :
    pollServer C sizes fuel s = s := by
  cases fuel with
  | zero => rfl
  | succ f => simp only [pollServer, iter_none_of_idle C sizes s h]

/-- a poll of `a + b` iterations is a poll of `a` iterations followed by one of `b`: a poll during which something
    arrives is, for the model, two `run` events with the arrival between them -/
theorem pollServer_add (C : Consts) (sizes : Nat → Nat) : ∀ (a b : Nat) (s : S),
    pollServer C sizes (a + b) s = pollServer C sizes b (pollServer C sizes a s) := by
  intro a
  induction a with
  | zero => intro b s; simp [pollServer]
  | succ a ih =>
    intro b s
    rw [Nat.add_right_comm]
    simp only [pollServer]
    cases h : iter C sizes s with
    | none =>
      simp only []
      exact (pollServer_idle C sizes b s (idle_of_iter_none C sizes s h)).symm
    | some s' => simp only []; exact ih b s'

/-! ### an event that wakes nobody leaves the server with nothing to do -/

theorem any_id_false {cs : List Conn} {id : Nat} (h : cs.any (·.id == id) = false) (c : Conn) (hc : c ∈ cs) : c.id ≠ id := by
  intro e
  have : cs.any (·.id == id) = true := List.any_eq_true.mpr ⟨c, hc, by simp [e]⟩
  rw [h] at this; cases this

theorem idle_mapConns (C : Consts) (sizes : Nat → Nat) (s : S) (f : Conn → Conn) (h : Idle C sizes s)
    (hconn : ∀ c ∈ s.conns, (f c).rx = c.rx ∧ (f c).net = c.net)
    (hstr : ∀ p ∈ s.streams, (f p.2).credit = p.2.credit) : Idle C sizes (mapConns f s) := by
  obtain ⟨hq, hc, hs⟩ := h
  refine ⟨by simp [mapConns, hq], ?_, ?_⟩
  · intro j c' hj
    simp only [mapConns, List.getElem?_map] at hj
    cases hc0 : s.conns[j]? with
    | none => rw [hc0] at hj; simp at hj
    | some c =>
      rw [hc0] at hj
      simp only [Option.map_some, Option.some.injEq] at hj
      subst hj
      obtain ⟨h1, h2⟩ := hconn c (List.mem_of_getElem? hc0)
      rw [h1, h2]
      exact hc j c hc0
  · intro p hp
    simp only [mapConns, List.mem_map] at hp
    obtain ⟨q, hq', rfl⟩ := hp
    simp only []
    rw [hstr q hq']
    exact hs q hq'

theorem idle_step_of_not_wakes (C : Consts) (sizes : Nat → Nat) (s : S) (ev : Ev) (hi : Idle C sizes s)
    (hw : wakes s ev = false) : Idle C sizes (step C sizes s ev) := by
  cases ev with
  | connect c => simp [wakes] at hw
  | run fuel => simp only [step]; rw [pollServer_idle C sizes fuel s hi]; exact hi
  | arrive id b =>
    simp only [wakes] at hw
    simp only [step]
    apply idle_mapConns C sizes s _ hi
    · intro c hc
      rw [if_neg (any_id_false hw c hc)]
      exact ⟨rfl, rfl⟩
    · intro p _
      by_cases e : p.2.id = id
      · rw [if_pos e]; rfl
      · rw [if_neg e]
  | close id =>
    simp only [wakes] at hw
    simp only [step]
    apply idle_mapConns C sizes s _ hi
    · intro c hc
      rw [if_neg (any_id_false hw c hc)]
      exact ⟨rfl, rfl⟩
    · intro p _
      by_cases e : p.2.id = id
      · rw [if_pos e]; rfl
      · rw [if_neg e]
  | produce id n =>
    simp only [wakes, Bool.and_eq_false_iff, decide_eq_false_iff_not] at hw
    simp only [step]
    apply idle_mapConns C sizes s _ hi
    · intro c _
      by_cases e : c.id = id
      · rw [if_pos e]; exact ⟨rfl, rfl⟩
      · rw [if_neg e]; exact ⟨rfl, rfl⟩
    · intro p hp
      rcases hw with hn | hany
      · have hn0 : n = 0 := by omega
        subst hn0
        by_cases e : p.2.id = id
        · rw [if_pos e]; rfl
        · rw [if_neg e]
      · have : p.2.id ≠ id := by
          intro e
          have : s.streams.any (·.2.id == id) = true := List.any_eq_true.mpr ⟨p, hp, by simp [e]⟩
          rw [hany] at this; cases this
        rw [if_neg this]

/-! ### the parked server is idle; wake-driven polling = polling after every event -/

/-- the invariant of the wake-driven run: while no executed poll has stalled, a task that is not scheduled has nothing to do -/
def Parked (C : Consts) (sizes : Nat → Nat) (w : W) : Prop :=
  w.stalled = false → w.woken = false → Idle C sizes w.s

theorem stepW_stalled_mono (C : Consts) (sizes : Nat → Nat) (w : W) (ev : Ev)
    (h : (stepW C sizes w ev).stalled = false) : w.stalled = false := by
  cases ev with
  | run fuel =>
    simp only [stepW] at h
    by_cases hw : w.woken = true
    · rw [if_pos hw] at h
      simp only [Bool.or_eq_false_iff] at h
      exact h.1
    · rw [if_neg hw] at h; exact h
  | connect c => exact h
  | arrive id b => exact h
  | close id => exact h
  | produce id n => exact h

theorem runW_stalled_mono (C : Consts) (sizes : Nat → Nat) : ∀ (evs : List Ev) (w : W),
    (runW C sizes evs w).stalled = false → w.stalled = false := by
  intro evs
  induction evs with
  | nil => intro w h; exact h
  | cons ev t ih => intro w h; exact stepW_stalled_mono C sizes w ev (ih _ h)

theorem stepW_parked (C : Consts) (sizes : Nat → Nat) (w : W) (ev : Ev) (h : Parked C sizes w) :
    Parked C sizes (stepW C sizes w ev) := by
  intro hst hwk
  have hst0 := stepW_stalled_mono C sizes w ev hst
  cases ev with
  | run fuel =>
    simp only [stepW] at hst hwk ⊢
    by_cases hw : w.woken = true
    · rw [if_pos hw] at hst ⊢
      simp only [Bool.or_eq_false_iff] at hst
      apply idle_of_iter_none
      cases hi : iter C sizes (pollServer C sizes fuel w.s) with
      | none => rfl
      | some x => rw [hi] at hst; simp at hst
    · rw [if_neg hw] at hwk ⊢
      exact h hst0 hwk
  | connect c => simp [stepW, wakes] at hwk
  | arrive id b =>
    simp only [stepW, Bool.or_eq_false_iff] at hwk ⊢
    exact idle_step_of_not_wakes C sizes w.s _ (h hst0 hwk.1) hwk.2
  | close id =>
    simp only [stepW, Bool.or_eq_false_iff] at hwk ⊢
    exact idle_step_of_not_wakes C sizes w.s _ (h hst0 hwk.1) hwk.2
  | produce id n =>
    simp only [stepW, Bool.or_eq_false_iff] at hwk ⊢
    exact idle_step_of_not_wakes C sizes w.s _ (h hst0 hwk.1) hwk.2

theorem stepW_state (C : Consts) (sizes : Nat → Nat) (w : W) (ev : Ev) (h : Parked C sizes w)
    (hst : w.stalled = false) : (stepW C sizes w ev).s = step C sizes w.s ev := by
  cases ev with
  | run fuel =>
    simp only [stepW, step]
    by_cases hw : w.woken = true
    · rw [if_pos hw]
    · rw [if_neg hw]
      exact (pollServer_idle C sizes fuel w.s (h hst (by simpa using hw))).symm
  | connect c => rfl
  | arrive id b => rfl
  | close id => rfl
  | produce id n => rfl

theorem runW_spec (C : Consts) (sizes : Nat → Nat) : ∀ (evs : List Ev) (w : W), Parked C sizes w →
    (runW C sizes evs w).stalled = false →
    (runW C sizes evs w).s = runEvs C sizes evs w.s ∧ Parked C sizes (runW C sizes evs w) := by
  intro evs
  induction evs with
  | nil => intro w h _; exact ⟨rfl, h⟩
  | cons ev t ih =>
    intro w h hst
    simp only [runW, runEvs] at hst ⊢
    have h' := stepW_parked C sizes w ev h
    have hst1 := runW_stalled_mono C sizes t _ hst
    have hst0 := stepW_stalled_mono C sizes w ev hst1
    obtain ⟨e, p⟩ := ih _ h' hst
    rw [stepW_state C sizes w ev h hst0] at e
    exact ⟨e, p⟩

theorem parked_initW (C : Consts) (sizes : Nat → Nat) : Parked C sizes initW := by
  intro _ h; simp [initW] at h
end Srv
