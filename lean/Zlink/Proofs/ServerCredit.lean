import Zlink.Proofs.ServerFairRun
/-! Accounting of reply-stream results: every result (item, or end of stream) the server takes from a service's
    stream was made available before (`credit + used = granted`), and for a well-behaved client the number taken is
    determined by its position: the results of all completed streaming calls plus the items already forwarded of the
    open one. At an idle server every result ever made available has been forwarded. -/
namespace Srv
open Rx

/-- results a call's answer takes from the service's stream: `n` items and the end of the stream -/
def need1 : Desc → Nat
  | .sub n _ => n + 1
  | _ => 0
def need (ds : List Desc) : Nat := (ds.map need1).sum

theorem need_append (a b : List Desc) : need (a ++ b) = need a + need b := by simp [need, List.map_append, List.sum_append]

/-- no call among these ends the connection: neither an undecodable one nor one whose reply cannot be serialized -/
def noGarb (ds : List Desc) : Bool := ds.all fun d => match d with | .garbage => false | .unser false => false | _ => true

theorem noGarb_append (a b : List Desc) : noGarb (a ++ b) = (noGarb a && noGarb b) := by simp [noGarb, List.all_append]

/-- accounting invariant of one connection; `pend = some items` for a connection parked with an open stream -/
structure AInv (c : Conn) (pend : Option (List (Nat × Option Bool))) : Prop where
  bal : c.credit + c.used = c.granted
  pos : c.good = true →
    match pend with
    | none => c.used = need (c.descs.take c.k)
    | some items => c.used + items.length + 1 = need (c.descs.take c.k)
  /-- a connection that is still being served has not sent an undecodable call among those consumed -/
  ng : c.good = true → noGarb (c.descs.take c.k) = true
  /-- the items still to come of an open stream are a tail of the items of the streaming call consumed last -/
  shape : c.good = true → ∀ items, pend = some items →
    ∃ n pat j, 0 < c.k ∧ c.descs[c.k - 1]? = some (.sub n pat) ∧ j ≤ n ∧ items = (itemsOf n pat).drop j

structure AG (s : S) : Prop where
  conns : ∀ c ∈ s.conns, AInv c none
  listen : ∀ c ∈ s.listenQ, AInv c none
  streams : ∀ p ∈ s.streams, AInv p.2 (some p.1)
  dead : ∀ c ∈ s.dead, c.credit + c.used = c.granted

/-- the fields the accounting (and the bookkeeping of calls) speaks about -/
def sameAcct (c c' : Conn) : Prop :=
  c'.credit = c.credit ∧ c'.used = c.used ∧ c'.granted = c.granted ∧ c'.good = c.good ∧ c'.descs = c.descs ∧
  c'.k = c.k ∧ c'.calls = c.calls

theorem AInv.transfer {c c' : Conn} {pend} (h : AInv c pend) (s : sameAcct c c') : AInv c' pend := by
  obtain ⟨h1, h2, h3, h4, h5, h6, h7⟩ := s
  refine ⟨by rw [h1, h2, h3]; exact h.bal, ?_, ?_, ?_⟩
  · intro hg
    rw [h2, h5, h6]
    exact h.pos (by rw [← h4]; exact hg)
  · intro hg
    rw [h5, h6]
    exact h.ng (by rw [← h4]; exact hg)
  · intro hg items hi
    rw [h5, h6]
    exact h.shape (by rw [← h4]; exact hg) items hi

/-- polling receive futures touches only `rx` and `net` -/
theorem scanCalls_same (C : Consts) (sizes : Nat → Nat) (n start : Nat) :
    ∀ (i : Nat) (cs : List Conn) (j : Nat) (c' : Conn), (scanCalls C sizes n start i cs).1[j]? = some c' →
      ∃ c, cs[j]? = some c ∧ sameAcct c c' := by
  intro i
  induction i with
  | zero => intro cs j c' h; exact ⟨c', h, rfl, rfl, rfl, rfl, rfl, rfl, rfl⟩
  | succ i ih =>
    intro cs j c' h
    simp only [scanCalls] at h
    generalize (start % n + (n - (i + 1))) % n = idx at h
    cases hc : cs[idx]? with
    | none => rw [hc] at h; exact ⟨c', h, rfl, rfl, rfl, rfl, rfl, rfl, rfl⟩
    | some c =>
      rw [hc] at h
      simp only [] at h
      have hset : ∀ (x : Conn), (cs.set idx { c with rx := (poll C sizes c.rx c.net).2.1, net := (poll C sizes c.rx c.net).2.2 })[j]? = some x →
          ∃ c0, cs[j]? = some c0 ∧ sameAcct c0 x := by
        intro x hx
        by_cases hj : j = idx
        · subst hj
          have hlt : j < cs.length := (List.getElem?_eq_some_iff.mp hc).1
          rw [List.getElem?_set_self hlt] at hx
          cases hx
          exact ⟨c, hc, rfl, rfl, rfl, rfl, rfl, rfl, rfl⟩
        · rw [List.getElem?_set_ne (Ne.symm hj)] at hx
          exact ⟨x, hx, rfl, rfl, rfl, rfl, rfl, rfl, rfl⟩
      cases hp : (poll C sizes c.rx c.net).1 with
      | pending =>
        rw [hp] at h
        simp only [] at h
        obtain ⟨c1, h1, s1⟩ := ih _ j c' h
        obtain ⟨c0, h0, s0⟩ := hset c1 h1
        refine ⟨c0, h0, ?_⟩
        obtain ⟨a1, a2, a3, a4, a5, a6, a7⟩ := s0
        obtain ⟨b1, b2, b3, b4, b5, b6, b7⟩ := s1
        exact ⟨b1.trans a1, b2.trans a2, b3.trans a3, b4.trans a4, b5.trans a5, b6.trans a6, b7.trans a7⟩
      | frame f => rw [hp] at h; simp only [] at h; exact hset c' h
      | err e => rw [hp] at h; simp only [] at h; exact hset c' h

theorem need_take_succ (ds : List Desc) (k : Nat) (d : Desc) (rest : List Desc) (h : ds.drop k = d :: rest) :
    need (ds.take (k + 1)) = need (ds.take k) + need1 d := by
  have hk : k < ds.length := by
    rcases Nat.lt_or_ge k ds.length with h1 | h1
    · exact h1
    · rw [List.drop_eq_nil_of_le h1] at h; cases h
  have hd : ds[k] = d := by
    have h0 : (ds.drop k)[0]? = some d := by rw [h]; rfl
    rw [List.getElem?_drop] at h0
    simp at h0
    rw [List.getElem?_eq_getElem hk] at h0
    exact Option.some.inj h0
  rw [List.take_succ_eq_append_getElem hk, hd, need_append]
  simp [need]

theorem itemsOf_length (n pat : Nat) : (itemsOf n pat).length = n := by simp [itemsOf]

/-- one iteration of the server loop preserves the accounting -/
theorem iter_ag (C : Consts) (hstep : 0 < C.step) (sizes : Nat → Nat) (s s' : S) (g : GInv C s) (a : AG s)
    (h : iter C sizes s = some s') : AG s' := by
  unfold iter at h
  cases hq : s.listenQ with
  | cons c q =>
    rw [hq] at h
    simp only [Option.some.injEq] at h
    rw [← h]
    refine ⟨?_, fun x hx => a.listen x (by rw [hq]; simp [hx]), a.streams, a.dead⟩
    intro x hx
    rcases List.mem_append.mp hx with h1 | h1
    · exact a.conns x h1
    · simp at h1; subst h1; exact a.listen x (by rw [hq]; simp)
  | nil =>
    rw [hq] at h
    simp only [] at h
    -- the scan: every connection keeps its accounting fields; the winner sits at its index
    have hsame : ∀ (j : Nat) (c' : Conn), (if s.conns.length = 0 then (s.conns, none) else
        scanCalls C sizes s.conns.length (nextStart s) s.conns.length s.conns).1[j]? = some c' →
        ∃ c, s.conns[j]? = some c ∧ sameAcct c c' := by
      intro j c' hj
      split at hj
      · exact ⟨c', hj, rfl, rfl, rfl, rfl, rfl, rfl, rfl⟩
      · exact scanCalls_same C sizes _ _ _ _ j c' hj
    have hget : ∀ idx o c, (if s.conns.length = 0 then (s.conns, none) else
        scanCalls C sizes s.conns.length (nextStart s) s.conns.length s.conns).2 = some (idx, o, c) →
        (if s.conns.length = 0 then (s.conns, none) else
        scanCalls C sizes s.conns.length (nextStart s) s.conns.length s.conns).1[idx]? = some c := by
      intro idx o c hw
      split at hw
      · cases hw
      · rename_i hn
        rw [if_neg hn]
        have := scanCalls_get C sizes s.conns.length (nextStart s) s.conns.length s.conns
        rw [hw] at this
        exact this
    generalize (if s.conns.length = 0 then (s.conns, none) else
          scanCalls C sizes s.conns.length (nextStart s) s.conns.length s.conns) = sc at h hsame hget
    obtain ⟨cs, w⟩ := sc
    simp only [] at hsame
    have hcs : ∀ x ∈ cs, AInv x none := by
      intro x hx
      obtain ⟨j, hj⟩ := List.mem_iff_getElem?.mp hx
      obtain ⟨c0, h0, hs⟩ := hsame j x hj
      exact (a.conns c0 (List.mem_of_getElem? h0)).transfer hs
    cases w with
    | none =>
      simp only [] at h
      by_cases hm : s.streams.length = 0
      · rw [if_pos hm] at h; cases h
      · rw [if_neg hm] at h
        have hspec := Sel.scan_spec s.streams.length (streamStart s.lastStream) (streamReady s.streams)
          (by omega) s.streams.length (Nat.le_refl _)
        generalize Sel.scan s.streams.length (streamStart s.lastStream) (streamReady s.streams) s.streams.length = sel at h hspec
        cases sel with
        | none => cases h
        | some idx =>
          simp only [] at h hspec
          obtain ⟨hr, hlt, _, _⟩ := hspec
          cases hst : s.streams[idx]? with
          | none => rw [hst] at h; cases h
          | some p =>
            rw [hst] at h
            obtain ⟨items, c0⟩ := p
            simp only [] at h
            have hmem : (items, c0) ∈ s.streams := List.mem_of_getElem? hst
            have ha0 := a.streams _ hmem
            have hcredit : 0 < c0.credit := by simpa [streamReady, hst] using hr
            have hothers : ∀ x ∈ swapRemove s.streams idx, AInv x.2 (some x.1) := by
              intro x hx
              obtain ⟨j, _, hj⟩ := mem_swapRemove _ _ _ hx
              exact a.streams x (List.mem_of_getElem? hj)
            have hbal : (c0.credit - 1) + (c0.used + 1) = c0.granted := by have := ha0.bal; dsimp only at this; omega
            cases items with
            | nil =>
              simp only [Option.some.injEq] at h
              rw [← h]
              refine ⟨?_, by simp, hothers, a.dead⟩
              intro x hx
              rcases List.mem_append.mp hx with h1 | h1
              · exact hcs x h1
              · simp at h1; subst h1
                refine ⟨hbal, ?_, ha0.ng, ?_⟩
                · intro hg
                  have := ha0.pos hg
                  dsimp only at this
                  simp only [List.length_nil] at this
                  show c0.used + 1 = need (c0.descs.take c0.k)
                  omega
                · intro _ items hi; cases hi
            | cons it rest =>
              simp only [] at h
              split at h
              · rename_i c' hwr
                simp only [Option.some.injEq] at h
                rw [← h]
                have hc' := writeTo_good _ c' _ hwr
                refine ⟨hcs, by simp, ?_, a.dead⟩
                intro x hx
                obtain ⟨j, hj⟩ := List.mem_iff_getElem?.mp hx
                by_cases hji : j = idx
                · subst hji
                  rw [List.getElem?_set_self hlt] at hj
                  cases hj
                  subst hc'
                  refine ⟨hbal, ?_, ha0.ng, ?_⟩
                  · intro hg
                    have := ha0.pos hg
                    dsimp only at this
                    simp only [List.length_cons] at this
                    show c0.used + 1 + rest.length + 1 = need (c0.descs.take c0.k)
                    omega
                  · intro hg items hi
                    cases hi
                    obtain ⟨n, pat, j, hk, hd, hjn, hit⟩ := ha0.shape hg (it :: rest) rfl
                    refine ⟨n, pat, j + 1, hk, hd, ?_, ?_⟩
                    · -- the tail is not empty, so `j < n`
                      have hl : (it :: rest).length = n - j := by rw [hit]; simp [itemsOf_length]
                      simp at hl; omega
                    · have : rest = (it :: rest).drop 1 := rfl
                      rw [this, hit, List.drop_drop]
                · rw [List.getElem?_set_ne (Ne.symm hji)] at hj
                  exact a.streams x (List.mem_of_getElem? hj)
              · simp only [Option.some.injEq] at h
                rw [← h]
                refine ⟨hcs, by simp, hothers, ?_⟩
                intro x hx
                rcases List.mem_cons.mp hx with h1 | h1
                · subst h1; exact hbal
                · exact a.dead x h1
    | some x =>
      obtain ⟨idx, o, c⟩ := x
      have hgetc := hget idx o c rfl
      simp only [] at hgetc
      obtain ⟨c0, h0, hs0⟩ := hsame idx c hgetc
      have hac : AInv c none := (a.conns c0 (List.mem_of_getElem? h0)).transfer hs0
      have hsr : ∀ x ∈ swapRemove cs idx, AInv x none := by
        intro x hx
        obtain ⟨j, _, hj⟩ := mem_swapRemove _ _ _ hx
        exact hcs x (List.mem_of_getElem? hj)
      have hlt : idx < cs.length := (List.getElem?_eq_some_iff.mp hgetc).1
      have hset : ∀ (c' : Conn), AInv c' none → ∀ x ∈ cs.set idx c', AInv x none := by
        intro c' hc' x hx
        obtain ⟨j, hj⟩ := List.mem_iff_getElem?.mp hx
        by_cases hji : j = idx
        · subst hji
          rw [List.getElem?_set_self hlt] at hj
          cases hj; exact hc'
        · rw [List.getElem?_set_ne (Ne.symm hji)] at hj
          exact hcs x (List.mem_of_getElem? hj)
      have hdead : ∀ (c' : Conn), c'.credit + c'.used = c'.granted → ∀ x ∈ c' :: s.dead, x.credit + x.used = x.granted := by
        intro c' hc' x hx
        rcases List.mem_cons.mp hx with h1 | h1
        · subst h1; exact hc'
        · exact a.dead x h1
      -- the consumed call of a well-behaved winner is the next one of its script
      have hcalls : c.good = true → c.calls = c.descs.drop c.k := by
        intro hg
        obtain ⟨_, _, _, e4, e5, e6, e7⟩ := hs0
        have := (g.conns idx c0 h0 (by rw [← e4]; exact hg)).bk.calls
        rw [e7, e5, e6]; exact this
      simp only [] at h
      cases o with
      | pending => simp only [Option.some.injEq] at h; rw [← h]; exact ⟨hsr, by simp, a.streams, hdead c hac.bal⟩
      | err e => simp only [Option.some.injEq] at h; rw [← h]; exact ⟨hsr, by simp, a.streams, hdead c hac.bal⟩
      | frame f =>
        simp only [] at h
        cases hc : c.calls with
        | nil => rw [hc] at h; simp only [Option.some.injEq] at h; rw [← h]; exact ⟨hsr, by simp, a.streams, hdead c hac.bal⟩
        | cons d rest =>
          rw [hc] at h
          simp only [] at h
          -- the winner after its call has been consumed
          have hnext : ∀ (extra : Nat), (need1 d = extra) →
              c.good = true → c.used = need (c.descs.take (c.k + 1)) - extra ∧ extra ≤ need (c.descs.take (c.k + 1)) := by
            intro extra he hg
            have hd : c.descs.drop c.k = d :: rest := by rw [← hcalls hg, hc]
            have := need_take_succ c.descs c.k d rest hd
            have hp := hac.pos hg
            simp only [] at hp
            omega
          have hstepk : c.good = true → c.descs.take (c.k + 1) = c.descs.take c.k ++ [d] ∧ c.descs[c.k]? = some d := by
            intro hg
            have hd : c.descs.drop c.k = d :: rest := by rw [← hcalls hg, hc]
            have hk : c.k < c.descs.length := by
              rcases Nat.lt_or_ge c.k c.descs.length with h1 | h1
              · exact h1
              · rw [List.drop_eq_nil_of_le h1] at hd; cases hd
            have hdk : c.descs[c.k] = d := by
              have h0 : (c.descs.drop c.k)[0]? = some d := by rw [hd]; rfl
              rw [List.getElem?_drop] at h0
              simp at h0
              rw [List.getElem?_eq_getElem hk] at h0
              exact Option.some.inj h0
            exact ⟨by rw [List.take_succ_eq_append_getElem hk, hdk], by rw [List.getElem?_eq_getElem hk, hdk]⟩
          have hng : c.good = true → (match d with | .garbage => false | .unser false => false | _ => true) = true →
              noGarb (c.descs.take (c.k + 1)) = true := by
            intro hg hd
            rw [(hstepk hg).1, noGarb_append, hac.ng hg]
            cases d with
            | unser ow => cases ow <;> simp_all [noGarb]
            | _ => simp_all [noGarb]
          cases d with
          | garbage =>
            simp only [Option.some.injEq] at h; rw [← h]
            exact ⟨hsr, by simp, a.streams, hdead _ hac.bal⟩
          | sub m pt =>
            simp only [Option.some.injEq] at h; rw [← h]
            refine ⟨hsr, by simp, ?_, a.dead⟩
            intro x hx
            rcases List.mem_append.mp hx with h1 | h1
            · exact a.streams x h1
            · simp at h1; subst h1
              refine ⟨hac.bal, ?_, fun hg => hng hg rfl, ?_⟩
              · intro hg
                have := hnext (m + 1) rfl hg
                show c.used + (itemsOf m pt).length + 1 = need (c.descs.take (c.k + 1))
                rw [itemsOf_length]; omega
              · intro hg items hi
                cases hi
                exact ⟨m, pt, 0, Nat.succ_pos _, by simpa using (hstepk hg).2, Nat.zero_le _, by simp⟩
          | echo v ow =>
            have hk : AInv { c with calls := rest, k := c.k + 1 } none := by
              refine ⟨hac.bal, ?_, fun hg => hng hg rfl, fun _ items hi => by cases hi⟩
              intro hg
              have := hnext 0 rfl hg
              show c.used = need (c.descs.take (c.k + 1))
              omega
            simp only [] at h
            split at h
            · simp only [Option.some.injEq] at h; rw [← h]
              exact ⟨hset _ hk, by simp, a.streams, a.dead⟩
            · split at h
              · rename_i c' hwr
                simp only [Option.some.injEq] at h; rw [← h]
                have hc' := writeTo_good _ c' _ hwr
                subst hc'
                exact ⟨hset _ ⟨hk.bal, hk.pos, hk.ng, hk.shape⟩, by simp, a.streams, a.dead⟩
              · simp only [Option.some.injEq] at h; rw [← h]
                exact ⟨hsr, by simp, a.streams, hdead _ hk.bal⟩
          | unser ow =>
            cases ow with
            | false =>
              simp only [Option.some.injEq] at h; rw [← h]
              exact ⟨hsr, by simp, a.streams, hdead _ hac.bal⟩
            | true =>
              have hk : AInv { c with calls := rest, k := c.k + 1 } none := by
                refine ⟨hac.bal, ?_, fun hg => hng hg rfl, fun _ items hi => by cases hi⟩
                intro hg
                have := hnext 0 rfl hg
                show c.used = need (c.descs.take (c.k + 1))
                omega
              simp only [] at h
              split at h
              · simp only [Option.some.injEq] at h; rw [← h]
                exact ⟨hset _ hk, by simp, a.streams, a.dead⟩
              · split at h
                · rename_i c' hwr
                  simp only [Option.some.injEq] at h; rw [← h]
                  have hc' := writeTo_good _ c' _ hwr
                  subst hc'
                  exact ⟨hset _ ⟨hk.bal, hk.pos, hk.ng, hk.shape⟩, by simp, a.streams, a.dead⟩
                · simp only [Option.some.injEq] at h; rw [← h]
                  exact ⟨hsr, by simp, a.streams, hdead _ hk.bal⟩
          | fail ow =>
            have hk : AInv { c with calls := rest, k := c.k + 1 } none := by
              refine ⟨hac.bal, ?_, fun hg => hng hg rfl, fun _ items hi => by cases hi⟩
              intro hg
              have := hnext 0 rfl hg
              show c.used = need (c.descs.take (c.k + 1))
              omega
            simp only [] at h
            split at h
            · simp only [Option.some.injEq] at h; rw [← h]
              exact ⟨hset _ hk, by simp, a.streams, a.dead⟩
            · split at h
              · rename_i c' hwr
                simp only [Option.some.injEq] at h; rw [← h]
                have hc' := writeTo_good _ c' _ hwr
                subst hc'
                exact ⟨hset _ ⟨hk.bal, hk.pos, hk.ng, hk.shape⟩, by simp, a.streams, a.dead⟩
              · simp only [Option.some.injEq] at h; rw [← h]
                exact ⟨hsr, by simp, a.streams, hdead _ hk.bal⟩
end Srv

namespace Srv
open Rx

theorem pollServer_ag (C : Consts) (hstep : 0 < C.step) (sizes : Nat → Nat) :
    ∀ fuel s, GInv C s → AG s → AG (pollServer C sizes fuel s) := by
  intro fuel
  induction fuel with
  | zero => intro s _ a; exact a
  | succ fuel ih =>
    intro s g a
    simp only [pollServer]
    cases h : iter C sizes s with
    | none => exact a
    | some s' => exact ih s' (iter_inv C hstep sizes s s' g h) (iter_ag C hstep sizes s s' g a h)

/-- what the accounting asks of a connection handed to the listener: nothing taken yet, and what its streams may
    hand over from the start is on the books -/
def EvAcct : Ev → Prop
  | .connect c => c.used = 0 ∧ c.granted = c.credit
  | _ => True

theorem ag_map (s : S) (f : Conn → Conn) (hf : ∀ c, sameAcct c (f c)) (a : AG s) : AG (mapConns f s) := by
  refine ⟨?_, ?_, ?_, ?_⟩
  · intro x hx
    obtain ⟨c, hc, rfl⟩ := List.mem_map.mp hx
    exact (a.conns c hc).transfer (hf c)
  · intro x hx
    obtain ⟨c, hc, rfl⟩ := List.mem_map.mp hx
    exact (a.listen c hc).transfer (hf c)
  · intro x hx
    obtain ⟨p, hp, rfl⟩ := List.mem_map.mp hx
    exact (a.streams p hp).transfer (hf p.2)
  · intro x hx
    obtain ⟨c, hc, rfl⟩ := List.mem_map.mp hx
    obtain ⟨h1, h2, h3, _⟩ := hf c
    rw [h1, h2, h3]; exact a.dead c hc

theorem step_ag (C : Consts) (hstep : 0 < C.step) (sizes : Nat → Nat) (s : S) (ev : Ev)
    (g : GInv C s) (a : AG s) (hev : EvOK C s ev) (hacct : EvAcct ev) : AG (step C sizes s ev) := by
  cases ev with
  | run fuel => exact pollServer_ag C hstep sizes fuel s g a
  | connect c =>
    refine ⟨a.conns, ?_, a.streams, a.dead⟩
    intro x hx
    rcases List.mem_append.mp hx with h | h
    · exact a.listen x h
    · simp at h; subst h
      obtain ⟨hu, hgr⟩ := hacct
      refine ⟨by rw [hu, hgr]; simp, ?_, ?_, fun _ items hi => by cases hi⟩
      · intro hg
        obtain ⟨_, _, _, _, _, hk, _⟩ := hev hg
        show x.used = need (x.descs.take x.k)
        rw [hu, hk]; simp [need]
      · intro hg
        obtain ⟨_, _, _, _, _, hk, _⟩ := hev hg
        rw [hk]; simp [noGarb]
  | arrive id b =>
    apply ag_map s _ _ a
    intro c
    by_cases h : c.id = id
    · rw [if_pos h]; exact ⟨rfl, rfl, rfl, rfl, rfl, rfl, rfl⟩
    · rw [if_neg h]; exact ⟨rfl, rfl, rfl, rfl, rfl, rfl, rfl⟩
  | close id =>
    apply ag_map s _ _ a
    intro c
    by_cases h : c.id = id
    · rw [if_pos h]; exact ⟨rfl, rfl, rfl, rfl, rfl, rfl, rfl⟩
    · rw [if_neg h]; exact ⟨rfl, rfl, rfl, rfl, rfl, rfl, rfl⟩
  | produce id n =>
    -- more may be handed over, and the books say so
    have key : ∀ (c : Conn) pend, AInv c pend → AInv (if c.id = id then produceC n c else c) pend := by
      intro c pend h
      by_cases hid : c.id = id
      · rw [if_pos hid]
        refine ⟨?_, h.pos, h.ng, h.shape⟩
        show c.credit + n + c.used = c.granted + n
        have := h.bal; omega
      · rw [if_neg hid]; exact h
    refine ⟨?_, ?_, ?_, ?_⟩
    · intro x hx
      obtain ⟨c, hc, rfl⟩ := List.mem_map.mp hx
      exact key c none (a.conns c hc)
    · intro x hx
      obtain ⟨c, hc, rfl⟩ := List.mem_map.mp hx
      exact key c none (a.listen c hc)
    · intro x hx
      obtain ⟨p, hp, rfl⟩ := List.mem_map.mp hx
      exact key p.2 (some p.1) (a.streams p hp)
    · intro x hx
      obtain ⟨c, hc, rfl⟩ := List.mem_map.mp hx
      by_cases hid : c.id = id
      · rw [if_pos hid]
        show c.credit + n + c.used = c.granted + n
        have := a.dead c hc; omega
      · rw [if_neg hid]; exact a.dead c hc

def EvsAcct : List Ev → Prop
  | [] => True
  | ev :: t => EvAcct ev ∧ EvsAcct t

theorem ag_init : AG init :=
  ⟨by intro c h; simp [init] at h, by intro c h; simp [init] at h, by intro p h; simp [init] at h, by intro c h; simp [init] at h⟩

theorem run_ag (C : Consts) (hstep : 0 < C.step) (sizes : Nat → Nat) :
    ∀ evs s, GInv C s → AG s → EvsOK C sizes evs s → EvsAcct evs → AG (runEvs C sizes evs s) := by
  intro evs
  induction evs with
  | nil => intro s _ a _ _; exact a
  | cons ev t ih =>
    intro s g a h ha
    exact ih _ (step_inv C hstep sizes s ev g h.1) (step_ag C hstep sizes s ev g a h.1 ha.1) h.2 ha.2
end Srv
