import Zlink.Model.Server
import Zlink.Proofs.Select
/-! `get_next_call` is `SelectAll` over the connections' readiness: the index that wins the server's scan
    is the one `Sel.scan` picks for the readiness function "a poll of this connection's receive future
    is not pending". -/
namespace Srv
open Rx

/-- readiness of connection `j` of list `cs`: its receive future would complete if polled now -/
def readyOf (C : Consts) (sizes : Nat → Nat) (cs : List Conn) (j : Nat) : Bool :=
  match cs[j]? with
  | some c => (poll C sizes c.rx c.net).1 != .pending
  | none => false

theorem rot_inj (n s o1 o2 : Nat) (hn : 0 < n) (h1 : o1 < n) (h2 : o2 < n)
    (h : (s % n + o1) % n = (s % n + o2) % n) : o1 = o2 := by
  have e1 := Sel.dist_of_idx n s o1 hn h1
  have e2 := Sel.dist_of_idx n s o2 hn h2
  rw [h] at e1
  omega

theorem scanCalls_winner (C : Consts) (sizes : Nat → Nat) (n start : Nat) (hn : 0 < n) (cs0 : List Conn) :
    ∀ (i : Nat), i ≤ n → ∀ (cs : List Conn), cs.length = n →
      (∀ off, n - i ≤ off → off < n → cs[(start % n + off) % n]? = cs0[(start % n + off) % n]?) →
      (scanCalls C sizes n start i cs).2.map (·.1) = Sel.scan n start (readyOf C sizes cs0) i := by
  intro i
  induction i with
  | zero => intro _ cs _ _; rfl
  | succ i ih =>
    intro hi cs hlen hsame
    simp only [scanCalls, Sel.scan]
    have hoff : n - (i + 1) < n := by omega
    generalize hidx : (start % n + (n - (i + 1))) % n = idx
    have hidxlt : idx < n := by rw [← hidx]; exact Nat.mod_lt _ hn
    have hget := hsame (n - (i + 1)) (Nat.le_refl _) hoff
    rw [hidx] at hget
    cases hc : cs[idx]? with
    | none =>
      exfalso
      rw [List.getElem?_eq_none_iff] at hc
      omega
    | some c =>
      simp only []
      have hready : readyOf C sizes cs0 idx = ((poll C sizes c.rx c.net).1 != .pending) := by
        simp only [readyOf, ← hget, hc]
      cases hp : (poll C sizes c.rx c.net).1 with
      | pending =>
        simp only []
        rw [hready, hp]
        simp only [bne_self_eq_false, Bool.false_eq_true, if_false]
        apply ih (by omega) _ (by simp [hlen])
        intro off h1 h2
        have hne : (start % n + off) % n ≠ idx := by
          intro h
          rw [← hidx] at h
          have := rot_inj n start off (n - (i + 1)) hn h2 hoff h
          omega
        rw [List.getElem?_set_ne (Ne.symm hne)]
        exact hsame off (by omega) h2
      | frame f =>
        simp only []
        rw [hready, hp]
        simp
      | err e =>
        simp only []
        rw [hready, hp]
        simp
end Srv
