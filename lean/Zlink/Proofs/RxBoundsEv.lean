import Zlink.Proofs.RxPhases
import Zlink.Spec.Rx
/-! C17 inbound, at the level of events: oversized or unterminated input that arrives **piece by piece**,
    with polls in between. Every poll before `max` bytes have arrived stays pending (nothing is lost,
    nothing is reported), the first poll after that reports `overflow` — from a fresh connection or from
    any idle state a history left behind. This is the executable oracle `SpecRx.boundsConforms` that the
    harness evaluates on the implementation's observations, proved of the model for every event sequence. -/
namespace Rx
open SpecRx

/-- Input without a terminator that fits below the limit is swallowed whole and the poll stays pending. -/
theorem readLoop_pending (C : Consts) (M : Nat) (hs : 0 < C.step) (hm : C.max = M * C.step) (sizes : Nat → Nat) :
    ∀ (fuel : Nat) (s : St) (e : Net), e.avail.length < fuel → CapInv C M s → s.data.length < s.cap →
      s.data.length + e.avail.length < C.max → (0 : Byte) ∉ e.avail → e.closed = false →
      ∃ s' e', readLoop C sizes fuel s e = (.pending, s', e') ∧ s'.data = s.data ++ e.avail ∧ e'.avail = [] ∧
        e'.closed = false ∧ CapInv C M s' ∧ s'.data.length < s'.cap ∧ s'.msgPos = s.msgPos := by
  intro fuel
  induction fuel with
  | zero => intro s e h; omega
  | succ fuel ih =>
    intro s e hfuel hc hlt hsum hnz hcl
    obtain ⟨k, hk, hk1, hkM⟩ := hc
    unfold readLoop
    simp only []
    generalize hnd : min (min (sizes e.k + 1) (s.cap - s.data.length)) e.avail.length = n at *
    by_cases hn0 : n = 0
    · have hav : e.avail = [] := by
        have : e.avail.length = 0 := by omega
        exact List.length_eq_zero_iff.mp this
      rw [if_pos hn0, if_pos ⟨hav, by simp [hcl]⟩]
      exact ⟨s, e, rfl, by rw [hav]; simp, hav, hcl, ⟨k, hk, hk1, hkM⟩, hlt, rfl⟩
    · rw [if_neg hn0]
      have hn1 : 1 ≤ n := by omega
      have hn2 : n ≤ e.avail.length := by omega
      have hlen : (s.data ++ List.take n e.avail).length = s.data.length + n := by simp; omega
      have hov : ¬ ((s.data ++ List.take n e.avail).length = s.cap ∧ (s.data ++ List.take n e.avail).length ≥ C.max) := by
        intro h; omega
      rw [if_neg hov]
      have hchunk : (0 : Byte) ∉ List.take n e.avail := fun h => hnz (List.mem_of_mem_take h)
      have hlast : (s.data ++ List.take n e.avail).getLast? ≠ some 0 := by
        intro h
        have hne : List.take n e.avail ≠ [] := by
          intro h0
          have h1 : (List.take n e.avail).length = n := by rw [List.length_take]; omega
          rw [h0] at h1; simp at h1; omega
        rw [List.getLast?_append] at h
        cases hg : (List.take n e.avail).getLast? with
        | none => exact hne (List.getLast?_eq_none_iff.mp hg)
        | some x =>
          rw [hg] at h
          simp at h
          subst h
          exact hchunk (List.mem_of_getLast? hg)
      rw [if_neg hlast]
      have hc' : CapInv C M
          { s with data := s.data ++ List.take n e.avail,
                   cap := if (s.data ++ List.take n e.avail).length = s.cap then s.cap + C.step else s.cap } := by
        by_cases hfull : (s.data ++ List.take n e.avail).length = s.cap
        · have hklt : k < M := by
            rcases Nat.lt_or_ge k M with h | h
            · exact h
            · exfalso
              have : C.max ≤ s.cap := by rw [hk, hm]; exact Nat.mul_le_mul_right _ h
              omega
          refine ⟨k + 1, ?_, by omega, by omega⟩
          show (if _ then s.cap + C.step else s.cap) = _
          rw [if_pos hfull, hk, Nat.add_mul]; simp
        · refine ⟨k, ?_, hk1, hkM⟩
          show (if _ then s.cap + C.step else s.cap) = _
          rw [if_neg hfull, hk]
      obtain ⟨s', e', h1, h2, h3, h4, h5, h6, h7⟩ := ih
        { s with data := s.data ++ List.take n e.avail,
                 cap := if (s.data ++ List.take n e.avail).length = s.cap then s.cap + C.step else s.cap }
        { e with avail := e.avail.drop n, k := e.k + 1 }
        (by show (List.drop n e.avail).length < fuel; simp; omega) hc'
        (by
          show (s.data ++ List.take n e.avail).length < (if _ then s.cap + C.step else s.cap)
          by_cases hfull : (s.data ++ List.take n e.avail).length = s.cap
          · rw [if_pos hfull]; omega
          · rw [if_neg hfull]; omega)
        (by show (s.data ++ List.take n e.avail).length + (List.drop n e.avail).length < C.max; rw [hlen]; simp; omega)
        (fun h => hnz (List.mem_of_mem_drop h)) hcl
      refine ⟨s', e', h1, ?_, h3, h4, h5, h6, h7⟩
      rw [h2]
      show s.data ++ List.take n e.avail ++ List.drop n e.avail = s.data ++ e.avail
      rw [List.append_assoc, List.take_append_drop]

/-- state of a connection in the middle of receiving input without a terminator -/
structure BInv (C : Consts) (M : Nat) (stream : List Byte) (s : St) (e : Net) (fut : List Byte) : Prop where
  pos : s.msgPos = 0
  cap : CapInv C M s
  room : s.data.length < s.cap
  split : stream = s.data ++ e.avail ++ fut
  closed : e.closed = true → fut = []

theorem no_nul_prefix (stream p q : List Byte) (n : Nat) (h : stream = p ++ q) (hn : p.length ≤ n)
    (hnz : (0 : Byte) ∉ stream.take n) : (0 : Byte) ∉ p ∧ (0 : Byte) ∉ q.take (n - p.length) := by
  subst h
  rw [List.take_append] at hnz
  have h1 : List.take n p = p := List.take_of_length_le hn
  rw [h1] at hnz
  exact ⟨fun h => hnz (List.mem_append_left _ h), fun h => hnz (List.mem_append_right _ h)⟩

/-- **Oversized or unterminated input arriving over time**: for every interleaving of arrivals, polls
    and the final close, every poll before `max` bytes have arrived is pending and the first one after
    reports `overflow`. -/
theorem run_boundsConforms (C : Consts) (M : Nat) (hs : 0 < C.step) (hm : C.max = M * C.step) (sizes : Nat → Nat)
    (stream : List Byte) (hlen : C.max ≤ stream.length) (hnz : (0 : Byte) ∉ stream.take (C.max - 1)) :
    ∀ (evs : List Ev) (s : St) (e : Net) (fut : List Byte), BInv C M stream s e fut → EvsOK evs fut →
      boundsConforms C.max evs (run C sizes evs s e) (s.data.length + e.avail.length) = true := by
  intro evs
  induction evs with
  | nil => intro s e fut _ _; simp [run, boundsConforms]
  | cons ev evs ih =>
    intro s e fut inv hok
    cases ev with
    | arrive b =>
      obtain ⟨fut', hfut, hok'⟩ := hok
      simp only [run, step, boundsConforms]
      have := ih s { e with avail := e.avail ++ b } fut'
        ⟨inv.pos, inv.cap, inv.room, by rw [inv.split, hfut]; simp, fun h => by
          have := inv.closed h; rw [hfut] at this; exact (List.append_eq_nil_iff.mp this).2⟩ hok'
      simpa [Nat.add_assoc] using this
    | close =>
      obtain ⟨hfut, hok'⟩ := hok
      simp only [run, step, boundsConforms]
      exact ih s { e with closed := true } fut ⟨inv.pos, inv.cap, inv.room, inv.split, fun _ => hfut⟩ hok'
    | poll =>
      have hok' : EvsOK evs fut := hok
      obtain ⟨k, hk, hk1, hkM⟩ := id inv.cap
      have hcapmax : s.cap ≤ C.max := by rw [hk, hm]; exact Nat.mul_le_mul_right _ hkM
      have hroom := inv.room
      have hdl : s.data.length ≤ C.max - 1 := by omega
      have hsplit : stream = s.data ++ (e.avail ++ fut) := by rw [inv.split]; simp
      obtain ⟨hnd, hnq⟩ := no_nul_prefix stream s.data (e.avail ++ fut) (C.max - 1) hsplit hdl hnz
      by_cases ha : C.max ≤ s.data.length + e.avail.length
      · -- enough has arrived: overflow, and nothing is demanded afterwards
        obtain ⟨s', e', h1, _⟩ := readLoop_overflow C M hs hm sizes (e.avail.length + 1) s e (by omega) inv.cap hroom
          (by omega) (by
            intro h; apply hnq
            have : C.max - s.data.length - 1 = C.max - 1 - s.data.length := by omega
            rw [this] at h
            rw [List.take_append]
            exact List.mem_append_left _ h)
        simp only [run, step]
        have hp : poll C sizes s e = (.err .overflow, s', e') := by
          unfold poll
          simp only [inv.pos, Nat.lt_irrefl, gt_iff_lt, if_false]
          rw [h1]
        rw [hp]
        simp [boundsConforms, ha]
      · -- not yet: the poll swallows what has arrived and stays pending
        have hcl : e.closed = false := by
          cases hc : e.closed with
          | false => rfl
          | true =>
            exfalso
            have hf := inv.closed hc
            have : stream.length = s.data.length + e.avail.length := by rw [inv.split, hf]; simp
            omega
        have hna : (0 : Byte) ∉ e.avail := by
          intro h; apply hnq
          rw [List.take_append]
          have : List.take (C.max - 1 - s.data.length) e.avail = e.avail := List.take_of_length_le (by omega)
          rw [this]; exact List.mem_append_left _ h
        obtain ⟨s', e', h1, h2, h3, h4, h5, h6, h7⟩ := readLoop_pending C M hs hm sizes (e.avail.length + 1) s e
          (by omega) inv.cap hroom (by omega) hna hcl
        have hp : poll C sizes s e = (.pending, s', e') := by
          unfold poll
          simp only [inv.pos, Nat.lt_irrefl, gt_iff_lt, if_false]
          rw [h1]
        simp only [run, step]
        rw [hp]
        have hrec := ih s' e' fut ⟨by rw [h7]; exact inv.pos, h5, h6, by rw [inv.split, h2, h3]; simp, fun h => by rw [h4] at h; cases h⟩ hok'
        have hlen' : s'.data.length + e'.avail.length = s.data.length + e.avail.length := by rw [h2, h3]; simp
        rw [hlen'] at hrec
        simp only [boundsConforms]
        rw [if_neg (by omega)]
        simpa using hrec

end Rx
